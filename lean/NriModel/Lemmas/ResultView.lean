/-
Lemmas relating the container view the result.go model maintains to the NRI-level overlay
specification. Core Lean only.
-/
import NriModel.Lemmas.ResultUpdates
import NriModel.Overlay

namespace Nri.Result
open Nri.NApi Nri.Ledger Nri.Overlay

theorem isMarked_unmarked (k : Str) (h : (isMarked k).2 = false) : (isMarked k).1 = k := by
  unfold isMarked at *
  split
  · rfl
  · rename_i c cs
    split
    · rename_i hc; simp [hc] at h
    · rfl

/-- an unmarked-form key is touched by a response iff it is removed or set by it -/
theorem touched_contains (keys : List Str) (d : Str) :
    (keys.map fun k => (isMarked k).1).contains d =
      ((delKeys keys).contains d || (keys.filter fun k => !(isMarked k).2).contains d) := by
  induction keys with
  | nil => rfl
  | cons k rest ih =>
    cases hm : isMarked k with
    | mk key m =>
      cases m with
      | true =>
        have : delKeys (k :: rest) = key :: delKeys rest := by
          simp [delKeys, List.filterMap_cons, hm]
        simp only [List.map_cons, List.contains_cons, hm, this, List.filter_cons, Bool.not_true,
          Bool.false_eq_true, ↓reduceIte, ih, Bool.or_assoc]
      | false =>
        have hk : key = k := by have := isMarked_unmarked k (by rw [hm]); rw [hm] at this; exact this
        have : delKeys (k :: rest) = delKeys rest := by
          simp [delKeys, List.filterMap_cons, hm]
        subst hk
        simp only [List.map_cons, List.contains_cons, hm, this, List.filter_cons, Bool.not_false,
          ↓reduceIte, ih]
        cases (d == key) <;> cases (delKeys rest).contains d <;> simp

theorem filter_map_comm {α : Type} (l : List α) (f : α → Str) :
    (l.filter fun x => !(isMarked (f x)).2).map f = (l.map f).filter fun k => !(isMarked k).2 := by
  induction l with
  | nil => rfl
  | cons x rest ih =>
    simp only [List.filter_cons, List.map_cons]
    cases (isMarked (f x)).2 <;> simp [ih]

end Nri.Result

namespace Nri.Result
open Nri.NApi Nri.Ledger Nri.Overlay

/-- the view after one plugin's adjustment is the NRI-level overlay of that adjustment on the
    view the plugin was shown -/
theorem adjustData_view (st : State) (a : Adjustment) :
    (adjustData Quirks.fixed st a).view = overlayContainer st.view a := by
  unfold adjustData overlayContainer
  simp only [cdiData, rlimitData]
  cases hl : a.hasLinux
  · simp only [Bool.false_eq_true, ↓reduceIte]
    cases hh : a.hooks <;> cases ha : a.args <;> cases hr : a.resources <;>
      simp [hooksData, argsData, envData, mountData, annData, annViewDel, Quirks.fixed, annDel_eq, annSet]
  · simp only [↓reduceIte]
    cases hh : a.hooks <;> cases ha : a.args <;> cases hr : a.resources <;> cases ho : a.oomScoreAdj <;>
      by_cases hc : a.cgroupsPath = [] <;>
      simp [oomData, cgroupsData, resData, deviceData, hooksData, argsData, envData, mountData, annData,
        annViewDel, Quirks.fixed, hc, annDel_eq, annSet, Option.orElse]

end Nri.Result

namespace Nri.Result
open Nri.NApi Nri.Ledger Nri.Overlay

theorem getUpdate_view (q st st1 p u) (h : getUpdate q st p u = .ok st1) :
    st1.view = st.view ∧ st1.reqRes = st.reqRes ∧ st1.reply = st.reply := by
  have hgo : getUpdate.go q st u = .ok st1 := by
    unfold getUpdate at h
    split at h
    · split at h
      · cases h
      · exact h
    · exact h
  unfold getUpdate.go at hgo
  split at hgo
  · split at hgo <;> (cases hgo; exact ⟨rfl, rfl, rfl⟩)
  · split at hgo <;> (cases hgo; exact ⟨rfl, rfl, rfl⟩)

theorem setEntryRes_view (st id res) :
    (setEntryRes st id res).view = st.view ∧ (setEntryRes st id res).reply = st.reply := by
  unfold setEntryRes; split <;> exact ⟨rfl, rfl⟩

theorem update1_view (q st st' p u) (h : update1 q st p u = .ok st') :
    st'.view = st.view ∧ st'.reply = st.reply := by
  rcases update1_cases q st p u with ⟨e, _, he⟩ | ⟨st1, hg, h2⟩
  · rw [he] at h; cases h
  · obtain ⟨hv, _, hr⟩ := getUpdate_view q st st1 p u hg
    rcases h2 with ⟨o, _, hu⟩ | ⟨o, e, _, (⟨_, hu⟩ | ⟨_, hu⟩)⟩
    · rw [hu] at h; cases h
      unfold updData
      split
      · exact ⟨hv, hr⟩
      · exact ⟨by rw [← hv]; exact (setEntryRes_view _ _ _).1, by rw [← hr]; exact (setEntryRes_view _ _ _).2⟩
    · rw [hu] at h; cases h; exact ⟨hv, hr⟩
    · rw [hu] at h; cases h

theorem updateAll_view (q st st' p us) (h : updateAll q st p us = .ok st') :
    st'.view = st.view ∧ st'.reply = st.reply := by
  induction us generalizing st with
  | nil => simp [updateAll] at h; subst h; exact ⟨rfl, rfl⟩
  | cons u rest ih =>
    simp only [updateAll] at h
    cases h1 : update1 q st p u with
    | error e => rw [h1] at h; cases h
    | ok st1 =>
      rw [h1] at h
      obtain ⟨a, b⟩ := ih st1 h
      obtain ⟨c, d⟩ := update1_view q st st1 p u h1
      exact ⟨a.trans c, b.trans d⟩

/-- one plugin's response, creation request: the next view is the overlay of the plugin's
    adjustment on the view it was shown; its update list does not touch the view -/
theorem apply_view_create (st st' p r id) (hk : st.kind = .create id)
    (h : apply Quirks.fixed st p r = .ok st') :
    st'.view = (match r.adjust with | some a => overlayContainer st.view a | none => st.view) := by
  unfold apply at h
  rw [hk] at h
  simp only [] at h
  cases h1 : adjust Quirks.fixed st p r.adjust with
  | error e => rw [h1] at h; cases h
  | ok st1 =>
    rw [h1] at h
    rw [(updateAll_view _ st1 st' p r.updates h).1]
    cases ha : r.adjust with
    | none => rw [ha] at h1; simp [adjust] at h1; subst h1; rfl
    | some a =>
      rw [ha] at h1
      obtain ⟨o, _, rfl⟩ := (adjust_ok_iff _ st st1 p a).1 h1
      exact adjustData_view st a

end Nri.Result
