/-
Generic machinery for C03.

* `Chain C R as`: a condition `C (reply so far) (next adjustment)` holds along the fold of
  `replyStep` (well-formedness of each adjustment; facts the ledger guarantees on a
  successful run).
* `fold_sim`: a per-step simulation `E (G x (replyStep R a)) (G (G x R) a)` plus congruence of
  `G` for `E` gives `E (G x (fold reply)) (foldl G (G x R) as)` — "generator on the combined
  reply ≈ generator on each adjustment in turn", one field family at a time.
* `foldE`/`foldE_sim`: the same for the families whose generator step can fail.
* `seq_field`/`seq_fieldE`: a field of the result of `seqAdjust` is the fold of the field's
  own step function.

Core Lean only.
-/
import NriModel.Lemmas.ComposeReply
import NriModel.Lemmas.GenerateLift

namespace Nri.Compose
open Nri

/-- `C R a` holds for every step of folding `replyStep` over `as` from `R` -/
def Chain (C : NApi.Adjustment → NApi.Adjustment → Prop) : NApi.Adjustment → List NApi.Adjustment → Prop
  | _, [] => True
  | R, a :: rest => C R a ∧ Chain C (replyStep R a) rest

theorem Chain.mono {C D : NApi.Adjustment → NApi.Adjustment → Prop} (h : ∀ R a, C R a → D R a) :
    ∀ {R as}, Chain C R as → Chain D R as
  | _, [], _ => trivial
  | _, _ :: _, ⟨h1, h2⟩ => ⟨h _ _ h1, Chain.mono h h2⟩

theorem Chain.and {C D : NApi.Adjustment → NApi.Adjustment → Prop} :
    ∀ {R as}, Chain C R as → Chain D R as → Chain (fun R a => C R a ∧ D R a) R as
  | _, [], _, _ => trivial
  | _, _ :: _, ⟨h1, h2⟩, ⟨g1, g2⟩ => ⟨⟨h1, g1⟩, Chain.and h2 g2⟩

theorem Chain.of_forall {P : NApi.Adjustment → Prop} :
    ∀ {R as}, (∀ a ∈ as, P a) → Chain (fun _ a => P a) R as
  | _, [], _ => trivial
  | _, a :: _, h => ⟨h a (by simp), Chain.of_forall (fun b hb => h b (List.mem_cons_of_mem _ hb))⟩

theorem Chain.forall {C : NApi.Adjustment → NApi.Adjustment → Prop} {K : NApi.Adjustment → Prop}
    (h : ∀ R a, C R a → K a) : ∀ {R as}, Chain C R as → ∀ a ∈ as, K a
  | _, [], _ => by simp
  | _, b :: _, ⟨h1, h2⟩ => by
    intro a ha
    rcases List.mem_cons.mp ha with rfl | ha
    · exact h _ _ h1
    · exact Chain.forall h h2 a ha

section Sim
variable {X : Type} (G : X → NApi.Adjustment → X) (E : X → X → Prop) (V : X → Prop)
  (K : NApi.Adjustment → Prop)
  (I : NApi.Adjustment → Prop) (C : NApi.Adjustment → NApi.Adjustment → Prop)

theorem foldl_valid (hV : ∀ x a, V x → K a → V (G x a)) (as : List NApi.Adjustment) (hK : ∀ a ∈ as, K a)
    (x : X) (hx : V x) : V (as.foldl G x) := by
  induction as generalizing x with
  | nil => exact hx
  | cons a rest ih =>
    exact ih (fun b hb => hK b (List.mem_cons_of_mem _ hb)) _ (hV x a hx (hK a (by simp)))

theorem foldl_cong (hV : ∀ x a, V x → K a → V (G x a))
    (hcong : ∀ x y a, V x → V y → K a → E x y → E (G x a) (G y a))
    (as : List NApi.Adjustment) (hK : ∀ a ∈ as, K a) (x y : X) (hx : V x) (hy : V y) (h : E x y) :
    E (as.foldl G x) (as.foldl G y) := by
  induction as generalizing x y with
  | nil => exact h
  | cons a rest ih =>
    have ka := hK a (by simp)
    exact ih (fun b hb => hK b (List.mem_cons_of_mem _ hb)) _ _ (hV x a hx ka) (hV y a hy ka)
      (hcong x y a hx hy ka h)

/-- **Simulation along the fold.**  `V` = validity of the spec field (e.g. distinct keys),
    preserved by every generator step with an adjustment satisfying `K`; `I` = invariant of
    the reply; `C` = per-step condition. -/
theorem fold_sim
    (hrefl : ∀ x, E x x) (htrans : ∀ x y z, E x y → E y z → E x z)
    (hV : ∀ x a, V x → K a → V (G x a))
    (hIK : ∀ R, I R → K R) (hCK : ∀ R a, C R a → K a)
    (hI : ∀ R a, I R → C R a → I (replyStep R a))
    (hstep : ∀ x R a, V x → I R → C R a → E (G x (replyStep R a)) (G (G x R) a))
    (hcong : ∀ x y a, V x → V y → K a → E x y → E (G x a) (G y a))
    (as : List NApi.Adjustment) (R : NApi.Adjustment) (x : X) (hx : V x) (hR : I R) (hc : Chain C R as) :
    E (G x (as.foldl replyStep R)) (as.foldl G (G x R)) := by
  induction as generalizing R with
  | nil => exact hrefl _
  | cons a rest ih =>
    obtain ⟨h1, h2⟩ := hc
    simp only [List.foldl_cons]
    have hR' := hI R a hR h1
    refine htrans _ _ _ (ih (replyStep R a) hR' h2) ?_
    exact foldl_cong G E V K hV hcong rest (Chain.forall hCK h2) _ _ (hV x _ hx (hIK _ hR'))
      (hV _ a (hV x R hx (hIK R hR)) (hCK R a h1)) (hstep x R a hx hR h1)

/-- the special case of equality -/
theorem fold_eq
    (hV : ∀ x a, V x → K a → V (G x a))
    (hIK : ∀ R, I R → K R) (hCK : ∀ R a, C R a → K a)
    (hI : ∀ R a, I R → C R a → I (replyStep R a))
    (hstep : ∀ x R a, V x → I R → C R a → G x (replyStep R a) = G (G x R) a)
    (as : List NApi.Adjustment) (R : NApi.Adjustment) (x : X) (hx : V x) (hR : I R) (hc : Chain C R as) :
    G x (as.foldl replyStep R) = as.foldl G (G x R) :=
  fold_sim G Eq V K I C (fun _ => rfl) (fun _ _ _ h1 h2 => h1.trans h2) hV hIK hCK hI hstep
    (fun _ _ _ _ _ _ h => by rw [h]) as R x hx hR hc

/-- equality, no side conditions on the spec field -/
theorem fold_eq'
    (hI : ∀ R a, I R → C R a → I (replyStep R a))
    (hstep : ∀ x R a, I R → C R a → G x (replyStep R a) = G (G x R) a)
    (as : List NApi.Adjustment) (R : NApi.Adjustment) (x : X) (hR : I R) (hc : Chain C R as) :
    G x (as.foldl replyStep R) = as.foldl G (G x R) :=
  fold_eq G (fun _ => True) (fun _ => True) I C (fun _ _ _ _ => trivial) (fun _ _ => trivial)
    (fun _ _ _ => trivial) hI (fun x R a _ => hstep x R a) as R x trivial hR hc

end Sim

/-! ### families whose step can fail -/

def foldE {X A ε : Type} (G : X → A → Except ε X) : X → List A → Except ε X
  | x, [] => .ok x
  | x, a :: rest =>
    match G x a with
    | .ok y => foldE G y rest
    | .error e => .error e

section SimE
variable {X ε : Type} (G : X → NApi.Adjustment → Except ε X)
  (I : NApi.Adjustment → Prop) (C : NApi.Adjustment → NApi.Adjustment → Prop)

/-- If applying the reply so far gives `y`, and the remaining adjustments applied one by one
    give `z`, then applying the final reply gives `z`. -/
theorem foldE_sim
    (hI : ∀ R a, I R → C R a → I (replyStep R a))
    (hstep : ∀ x y y1 R a, I R → C R a → G x R = .ok y → G y a = .ok y1 → G x (replyStep R a) = .ok y1)
    (as : List NApi.Adjustment) (R : NApi.Adjustment) (x y z : X) (hR : I R) (hc : Chain C R as)
    (h0 : G x R = .ok y) (h : foldE G y as = .ok z) :
    G x (as.foldl replyStep R) = .ok z := by
  induction as generalizing R y with
  | nil => simp only [foldE] at h; cases h; exact h0
  | cons a rest ih =>
    obtain ⟨h1, h2⟩ := hc
    simp only [foldE] at h
    cases hy : G y a with
    | error e => rw [hy] at h; cases h
    | ok y1 =>
      rw [hy] at h
      exact ih (replyStep R a) y1 (hI R a hR h1) h2 (hstep x y y1 R a hR h1 h0 hy) h

end SimE

/-! ### fields of the sequential result -/

section Seq
open Nri.Generate
variable {ext : Externals}

theorem seq_field {X : Type} (π : Oci.Spec → X) (G : X → Api.Adjustment → X)
    (hG : ∀ s a s', adjust ext s a = .ok s' → π s' = G (π s) a)
    (as : List Api.Adjustment) (s sS : Oci.Spec) (h : seqAdjust ext s as = .ok sS) :
    π sS = as.foldl G (π s) := by
  induction as generalizing s with
  | nil => simp only [seqAdjust] at h; cases h; rfl
  | cons a rest ih =>
    simp only [seqAdjust] at h
    cases h1 : adjust ext s a with
    | error e => rw [h1] at h; cases h
    | ok s1 => rw [h1] at h; rw [ih s1 h, hG s a s1 h1]; rfl

theorem seq_fieldE {X : Type} (π : Oci.Spec → X) (G : X → Api.Adjustment → Except GenError X)
    (hG : ∀ s a s', adjust ext s a = .ok s' → G (π s) a = .ok (π s'))
    (as : List Api.Adjustment) (s sS : Oci.Spec) (h : seqAdjust ext s as = .ok sS) :
    foldE G (π s) as = .ok (π sS) := by
  induction as generalizing s with
  | nil => simp only [seqAdjust] at h; cases h; rfl
  | cons a rest ih =>
    simp only [seqAdjust] at h
    cases h1 : adjust ext s a with
    | error e => rw [h1] at h; cases h
    | ok s1 => rw [h1] at h; simp only [foldE, hG s a s1 h1]; exact ih s1 h

theorem foldl_map_adj {X : Type} (G : X → Api.Adjustment → X) (as : List NApi.Adjustment) (x : X) :
    (as.map toGen).foldl G x = as.foldl (fun x a => G x (toGen a)) x := by
  rw [List.foldl_map]

theorem foldE_map_adj {X ε : Type} (G : X → Api.Adjustment → Except ε X) (as : List NApi.Adjustment) (x : X) :
    foldE G x (as.map toGen) = foldE (fun x a => G x (toGen a)) x as := by
  induction as generalizing x with
  | nil => rfl
  | cons a rest ih =>
    simp only [List.map_cons, foldE]
    cases G x (toGen a) with
    | error e => rfl
    | ok y => exact ih y

end Seq

end Nri.Compose
