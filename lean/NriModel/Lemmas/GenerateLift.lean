/-
Glue between `adjust_ok` and the per-family lemmas: the device and mount lists of the result of
`adjust` as the generic two-pass shape, and the notion "last unmarked entry for its key".
Core Lean only.
-/
import NriModel.Lemmas.GenerateDevices
import NriModel.Lemmas.GenerateMounts
import NriModel.Lemmas.GenerateEnv
import NriModel.Lemmas.GenerateFrame
import NriModel.Lemmas.GenerateRepair
import NriModel.Lemmas.GenerateCheck

namespace Nri.Generate
open Nri.Api
open Nri.Oci (Spec)

variable {ext : Externals} {s s' : Spec} {a : Adjustment}

/-- `e` is the last unmarked entry for its key in `L`. -/
def LastSet {ε : Type} (rawKey : ε → Str) (L : List ε) (e : ε) : Prop :=
  isMarked (rawKey e) = false ∧
  ∃ pre post, L = pre ++ e :: post ∧ ∀ x ∈ post, isMarked (rawKey x) = false → rawKey x ≠ rawKey e

theorem LastSet.lastMatch {ε : Type} {rawKey : ε → Str} {L : List ε} {e : ε} (h : LastSet rawKey L e) :
    lastMatch (fun x => !isMarked (rawKey x) && rawKey x == rawKey e) L = some e := by
  obtain ⟨hm, pre, post, hL, hpost⟩ := h
  rw [hL]
  apply lastMatch_split
  · simp [hm]
  · intro x hx
    cases hmx : isMarked (rawKey x)
    · have := hpost x hx hmx; simp [this]
    · simp

/-- the device list after `adjust`, given distinct original paths -/
theorem devices_eq (hext : ext.CDIFramed) (h : adjust ext s a = .ok s')
    (hn : NodupKeys Oci.Device.path s.devices) :
    s'.devices = gSets Oci.Device.path LinuxDevice.path LinuxDevice.toOCI
      (gRemovals Oci.Device.path LinuxDevice.path s.devices a.linuxDevices) a.linuxDevices := by
  have := congrArg Prod.fst (adjust_ok hext h).devices
  simp only at this
  rw [this, Devices.apply_fst _ _ hn]

/-- the mount list after `adjust` with a non-empty mount adjustment -/
theorem mounts_eq (hext : ext.CDIFramed) (h : adjust ext s a = .ok s') (hne : a.mounts ≠ []) :
    s'.mounts = Mounts.sortMounts
      (gSets Oci.Mount.destination Api.Mount.destination Api.Mount.toOCI
        (gRemovals Oci.Mount.destination Api.Mount.destination s.mounts a.mounts) a.mounts) := by
  have hm := (adjust_ok hext h).mounts
  unfold Mounts.apply at hm
  have : a.mounts.isEmpty = false := by cases hl : a.mounts <;> simp_all
  simp only [this, Bool.false_eq_true, if_false] at hm
  split at hm
  · rename_i st hst
    have e := Mounts.sets_mounts a.mounts hst
    simp only [Mounts.removals_eq] at e
    have := congrArg Prod.fst (Except.ok.inj hm)
    simp only at this
    rw [← this, e]
  · cases hm


end Nri.Generate
