/-
C03, annotations.  The reply's annotation map after one response (`annStep`) read through
`lookup`, and the step lemma: applying the new reply to a spec's annotations gives the same map
as applying the old reply and then the plugin's own annotations.  No ledger fact is needed.
Guard used: every key of the response is `keyOk`.  Core Lean only.
-/
import NriModel.Lemmas.ComposeBasic
import NriModel.Lemmas.ComposeScalars

namespace Nri.Compose
open Nri Nri.Generate

def annG (x : AList Str Str) (a : NApi.Adjustment) : AList Str Str :=
  Annotations.apply x (toGen a).annotations

/-! ### folds of unguarded inserts / erases -/

theorem lookup_foldl_ins {ε ν : Type} (f : ε → Str) (g : ε → ν) (L : List ε) (m : AList Str ν) (k : Str) :
    AList.lookup (L.foldl (fun m e => AList.insert m (f e) (g e)) m) k =
      pick (lastMatch (fun e => f e == k) L) g (AList.lookup m k) := by
  have := lookup_foldl_insert (fun _ : ε => true) f g L m k
  simpa using this

theorem lookup_foldl_ers {ε ν : Type} (f : ε → Str) (L : List ε) (m : AList Str ν) (k : Str) :
    AList.lookup (L.foldl (fun m e => AList.erase m (f e)) m) k =
      if L.any (fun e => f e == k) then none else AList.lookup m k := by
  have := lookup_foldl_erase (ν := ν) (fun _ : ε => true) f L m k
  simpa using this

theorem mem_erase {ν : Type} (m : AList Str ν) (k : Str) (x : Str × ν) (h : x ∈ AList.erase m k) : x ∈ m := by
  induction m with
  | nil => simp [AList.erase] at h
  | cons e rest ih =>
    obtain ⟨k', v'⟩ := e
    unfold AList.erase at h
    by_cases hk : k' = k
    · simp only [hk, if_true] at h; exact List.mem_cons_of_mem _ (ih h)
    · simp only [hk, if_false, List.mem_cons] at h
      rcases h with h | h
      · simp [h]
      · exact List.mem_cons_of_mem _ (ih h)

theorem nodup_erase {ν : Type} (m : AList Str ν) (k : Str) (h : (m.map (·.1)).Nodup) :
    ((AList.erase m k).map (·.1)).Nodup := by
  induction m with
  | nil => simp [AList.erase]
  | cons e rest ih =>
    obtain ⟨k', v'⟩ := e
    simp only [List.map_cons, List.nodup_cons] at h
    unfold AList.erase
    by_cases hk : k' = k
    · simp only [hk, if_true]; exact ih h.2
    · simp only [hk, if_false, List.map_cons, List.nodup_cons]
      refine ⟨?_, ih h.2⟩
      intro hm
      rcases List.mem_map.mp hm with ⟨z, hz, hzk⟩
      exact h.1 (List.mem_map.mpr ⟨z, mem_erase rest k z hz, hzk⟩)

theorem nodup_foldl_ins {ε ν : Type} (f : ε → Str) (g : ε → ν) (L : List ε) (m : AList Str ν)
    (h : (m.map (·.1)).Nodup) : ((L.foldl (fun m e => AList.insert m (f e) (g e)) m).map (·.1)).Nodup := by
  induction L generalizing m with
  | nil => exact h
  | cons e r ih => exact ih _ (nodup_insert m _ _ h)

theorem nodup_foldl_ers {ε ν : Type} (f : ε → Str) (L : List ε) (m : AList Str ν)
    (h : (m.map (·.1)).Nodup) : ((L.foldl (fun m e => AList.erase m (f e)) m).map (·.1)).Nodup := by
  induction L generalizing m with
  | nil => exact h
  | cons e r ih => exact ih _ (nodup_erase m _ h)

/-! ### `annStep` through `lookup` -/

/-- the keys a response marks for removal without setting them again -/
def annLone (a : AList Str Str) : List Str :=
  (Result.annDel a).filter fun k => !((Result.annSet a).any fun (k', _) => k' = k)

/-- the entries a response sets whose key it also marks for removal -/
def annBoth (a : AList Str Str) : AList Str Str :=
  (Result.annSet a).filter fun (k, _) => (Result.annDel a).contains k

theorem annStep_eq (R a : AList Str Str) :
    annStep R a =
      (annLone a).foldl (fun m k => AList.erase m k)
        ((annLone a).foldl (fun m k => AList.insert m ('-' :: k) [])
          ((Result.annSet a).foldl (fun m e => AList.insert m e.1 e.2)
            ((annBoth a).foldl (fun m e => AList.insert m ('-' :: e.1) []) R))) := by
  have h1 : (fun (m : AList Str Str) (x : Str × Str) => match x with | (k, _) => AList.insert m (NApi.markForRemoval k) []) =
      (fun m e => AList.insert m ('-' :: e.1) []) := by funext m ⟨k, v⟩; rfl
  have h2 : (fun (m : AList Str Str) (x : Str × Str) => match x with | (k, v) => AList.insert m k v) =
      (fun m e => AList.insert m e.1 e.2) := by funext m ⟨k, v⟩; rfl
  unfold annStep annLone annBoth
  simp only [h1, h2]
  rfl

theorem annStep_nodup (R a : AList Str Str) (h : (R.map (·.1)).Nodup) : ((annStep R a).map (·.1)).Nodup := by
  rw [annStep_eq]
  exact nodup_foldl_ers _ _ _ (nodup_foldl_ins _ _ _ _ (nodup_foldl_ins _ _ _ _ (nodup_foldl_ins _ _ _ _ h)))

theorem annDel_contains (a : AList Str Str) (k : Str) :
    (Result.annDel a).contains k = a.any (Annotations.removes k) := by
  rw [Result.annDel_eq, delKeys_contains, List.any_map]
  rfl

theorem mem_annSet (a : AList Str Str) (e : Str × Str) :
    e ∈ Result.annSet a ↔ e ∈ a ∧ Api.isMarked e.1 = false := by
  unfold Result.annSet
  obtain ⟨k, v⟩ := e
  simp [List.mem_filter]

theorem lastMatch_annSet (a : AList Str Str) (j : Str) :
    lastMatch (fun e : Str × Str => e.1 == j) (Result.annSet a) = lastMatch (Annotations.setsKey j) a := by
  unfold Result.annSet
  rw [Env.lastMatch_filter]
  apply lastMatch_congr
  intro e _
  obtain ⟨k, v⟩ := e
  simp [Annotations.setsKey]

theorem annSet_any (a : AList Str Str) (k : Str) :
    ((Result.annSet a).any fun (k', _) => k' = k) = a.any (Annotations.setsKey k) := by
  have h : ((Result.annSet a).any fun (k', _) => k' = k) = (Result.annSet a).any (fun e => e.1 == k) := by
    congr 1; funext ⟨k', v⟩; rw [Bool.eq_iff_iff]; simp
  rw [h, ← lastMatch_isSome_iff, lastMatch_annSet, lastMatch_isSome_iff]

theorem mem_annLone (a : AList Str Str) (k : Str) :
    k ∈ annLone a ↔ a.any (Annotations.removes k) = true ∧ a.any (Annotations.setsKey k) = false := by
  unfold annLone
  rw [List.mem_filter, ← List.contains_iff_mem, annDel_contains, annSet_any]
  simp

/-- the new reply under an UNMARKED key -/
theorem annStep_lookup_unmarked (R a : AList Str Str)
    (j : Str) (hj : Api.isMarked j = false) :
    AList.lookup (annStep R a) j =
      match lastMatch (Annotations.setsKey j) a with
      | some e => some e.2
      | none => if a.any (Annotations.removes j) then none else AList.lookup R j := by
  rw [annStep_eq, lookup_foldl_ers, lookup_foldl_ins, lookup_foldl_ins, lookup_foldl_ins, lastMatch_annSet]
  have hne : ∀ k : Str, ('-' :: k == j) = false := by
    intro k
    cases hb : ('-' :: k == j)
    · rfl
    · have : '-' :: k = j := by simpa using hb
      rw [← this] at hj; cases hj
  have h1 : lastMatch (fun k : Str => '-' :: k == j) (annLone a) = none := by
    rw [lastMatch_none_iff]; intro e _; exact hne e
  have h2 : lastMatch (fun e : Str × Str => '-' :: e.1 == j) (annBoth a) = none := by
    rw [lastMatch_none_iff]; intro e _; exact hne e.1
  rw [h1, h2]
  simp only [pick_none]
  have hany : (annLone a).any (fun k => k == j) = decide (j ∈ annLone a) := by
    rw [Bool.eq_iff_iff]; simp
  rw [hany]
  cases hs : lastMatch (Annotations.setsKey j) a with
  | some e =>
    have : a.any (Annotations.setsKey j) = true := by rw [← lastMatch_isSome_iff, hs]; rfl
    have hn : j ∉ annLone a := by rw [mem_annLone]; simp [this]
    simp [hn]
  | none =>
    have : a.any (Annotations.setsKey j) = false := by rw [← lastMatch_isSome_iff, hs]; rfl
    simp only [pick_none]
    by_cases hr : a.any (Annotations.removes j) = true
    · have hn : j ∈ annLone a := by rw [mem_annLone]; exact ⟨hr, this⟩
      simp [hn, hr]
    · have hn : j ∉ annLone a := by rw [mem_annLone]; simp [hr]
      simp [hn, hr]

/-- the new reply under a removal MARKER `-k` -/
theorem annStep_lookup_marker (R a : AList Str Str) (hk : ∀ k ∈ a.map (·.1), keyOk k = true) (k : Str) :
    AList.lookup (annStep R a) ('-' :: k) =
      if a.any (Annotations.removes k) then some [] else AList.lookup R ('-' :: k) := by
  rw [annStep_eq, lookup_foldl_ers, lookup_foldl_ins, lookup_foldl_ins, lookup_foldl_ins]
  -- no lone key is itself marked
  have hlone : (annLone a).any (fun x => x == '-' :: k) = false := by
    rw [Bool.eq_false_iff]; intro h
    obtain ⟨x, hx, hxe⟩ := List.any_eq_true.1 h
    have hxe : x = '-' :: k := by simpa using hxe
    subst hxe
    have hm : ('-' :: k) ∈ Result.annDel a := by
      unfold annLone at hx; exact (List.mem_filter.1 hx).1
    rw [Result.annDel_eq] at hm
    have := delKeys_unmarked _ hk _ hm
    cases this
  -- no set entry is a marker
  have hset : lastMatch (fun e : Str × Str => e.1 == '-' :: k) (Result.annSet a) = none := by
    rw [lastMatch_none_iff]; intro e he
    have := ((mem_annSet a e).1 he).2
    cases hb : (e.1 == '-' :: k)
    · rfl
    · have h2 : e.1 = '-' :: k := by simpa using hb
      rw [h2] at this; cases this
  rw [hlone, hset]
  simp only [Bool.false_eq_true, if_false, pick_none]
  rw [pick_const_any, pick_const_any]
  have e1 : (annLone a).any (fun x => '-' :: x == '-' :: k) = decide (k ∈ annLone a) := by
    rw [Bool.eq_iff_iff]; simp
  have e2 : (annBoth a).any (fun e => '-' :: e.1 == '-' :: k) =
      (a.any (Annotations.removes k) && a.any (Annotations.setsKey k)) := by
    unfold annBoth
    rw [Bool.eq_iff_iff]
    simp only [List.any_eq_true, List.mem_filter, Bool.and_eq_true, beq_iff_eq, List.cons.injEq, true_and]
    constructor
    · rintro ⟨e, ⟨he, hc⟩, hek⟩
      obtain ⟨k1, v1⟩ := e
      simp only at hek hc
      subst hek
      have h1 := (mem_annSet a (k1, v1)).1 he
      refine ⟨?_, ⟨(k1, v1), h1.1, by simp [Annotations.setsKey, h1.2]⟩⟩
      have : (Result.annDel a).contains k1 = true := hc
      rw [annDel_contains] at this
      exact List.any_eq_true.1 this
    · rintro ⟨hr, ⟨e, he, hs⟩⟩
      obtain ⟨k1, v1⟩ := e
      simp only [Annotations.setsKey, Bool.and_eq_true, Bool.not_eq_true', beq_iff_eq] at hs
      obtain ⟨hm, rfl⟩ := hs
      refine ⟨(k1, v1), ⟨(mem_annSet a _).2 ⟨he, hm⟩, ?_⟩, rfl⟩
      show (Result.annDel a).contains k1 = true
      rw [annDel_contains]
      exact List.any_eq_true.2 hr
  rw [e1, e2]
  by_cases hr : a.any (Annotations.removes k) = true
  · by_cases hs : a.any (Annotations.setsKey k) = true
    · have hn : k ∉ annLone a := by rw [mem_annLone]; simp [hs]
      simp [hn, hr, hs]
    · have hn : k ∈ annLone a := by rw [mem_annLone]; exact ⟨hr, by simpa using hs⟩
      simp [hn, hr]
  · have hn : k ∉ annLone a := by rw [mem_annLone]; simp [hr]
    simp [hn, hr]

/-! ### the generator on a map with distinct keys -/

theorem any_removes_eq (M : AList Str Str) (k : Str) :
    M.any (Annotations.removes k) = (AList.lookup M ('-' :: k)).isSome := by
  induction M with
  | nil => rfl
  | cons e rest ih =>
    obtain ⟨k', v'⟩ := e
    simp only [List.any_cons, AList.lookup, ih]
    by_cases h : k' = '-' :: k
    · subst h; simp [Annotations.removes, Api.isMarked, Api.stripMarker]
    · have : Annotations.removes k (k', v') = false := by
        unfold Annotations.removes
        rw [Bool.eq_false_iff]; intro h2
        simp only [Bool.and_eq_true, beq_iff_eq] at h2
        apply h
        rw [(isMarked_iff k').1 h2.1, h2.2]
      simp [this, h]

theorem apply_lookup_nodup (x M : AList Str Str) (hn : (M.map (·.1)).Nodup) (k : Str) :
    AList.lookup (Annotations.apply x M) k =
      (if Api.isMarked k then none else AList.lookup M k).or
        (if (AList.lookup M ('-' :: k)).isSome then none else AList.lookup x k) := by
  rw [Annotations.lookup_apply, any_removes_eq]
  cases hm : Api.isMarked k with
  | true =>
    have : lastMatch (Annotations.setsKey k) M = none := by
      rw [lastMatch_none_iff]; intro e _
      unfold Annotations.setsKey
      cases hb : (e.1 == k)
      · simp
      · have : e.1 = k := by simpa using hb
        rw [this, hm]; rfl
    simp [this]
  | false =>
    have : lastMatch (Annotations.setsKey k) M = lastMatch (fun e : Str × Str => e.1 == k) M := by
      apply lastMatch_congr
      intro e _
      unfold Annotations.setsKey
      cases hb : (e.1 == k)
      · simp
      · have : e.1 = k := by simpa using hb
        rw [this, hm]; rfl
    rw [this, lastMatch_key_nodup M hn]
    simp

/-! ### the step lemma -/

theorem annG_step (x : AList Str Str) (R a : NApi.Adjustment)
    (hn : (R.annotations.map (·.1)).Nodup) (hk : ∀ k ∈ a.annotations.map (·.1), keyOk k = true) :
    MapEq (annG x (replyStep R a)) (annG (annG x R) a) := by
  intro k
  unfold annG
  simp only [toGen_annotations]
  show AList.lookup (Annotations.apply x (annStep R.annotations a.annotations)) k = _
  rw [apply_lookup_nodup x _ (annStep_nodup _ _ hn), annStep_lookup_marker _ _ hk]
  rw [Annotations.lookup_apply (Annotations.apply x R.annotations), apply_lookup_nodup x _ hn]
  cases hm : Api.isMarked k with
  | true =>
    -- a marked key is neither set nor removed by a well-formed response
    have h1 : lastMatch (Annotations.setsKey k) a.annotations = none := by
      rw [lastMatch_none_iff]; intro e _
      unfold Annotations.setsKey
      cases hb : (e.1 == k)
      · simp
      · have : e.1 = k := by simpa using hb
        rw [this, hm]; rfl
    have h2 : a.annotations.any (Annotations.removes k) = false := by
      rw [Bool.eq_false_iff]; intro h
      obtain ⟨e, he, hr⟩ := List.any_eq_true.1 h
      simp only [Annotations.removes, Bool.and_eq_true, beq_iff_eq] at hr
      have := (keyOk_iff e.1).1 (hk e.1 (List.mem_map.2 ⟨e, he, rfl⟩))
      rw [hr.2, hm] at this
      cases this
    simp [h1, h2]
  | false =>
    rw [annStep_lookup_unmarked _ _ k hm]
    simp only [Bool.false_eq_true, if_false]
    cases hs : lastMatch (Annotations.setsKey k) a.annotations with
    | some e => simp
    | none =>
      by_cases hr : a.annotations.any (Annotations.removes k) = true
      · simp [hr]
      · simp [hr]

theorem annG_cong (x y : AList Str Str) (a : NApi.Adjustment) (h : MapEq x y) :
    MapEq (annG x a) (annG y a) := by
  intro k
  unfold annG
  rw [Annotations.lookup_apply, Annotations.lookup_apply, h k]

end Nri.Compose
