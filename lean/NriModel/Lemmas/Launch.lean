/-
Helper lemmas for the model of plugin discovery and launch (property C18).
-/
import NriModel.Launch

namespace Nri.Launch
open Nri

/-- the error of a failed computation, if any (`Except` has no decidable equality) -/
def failure {α : Type} : Except Err α → Option Err
  | .error e => some e
  | .ok _ => none

/-! ### names -/

theorem splitDash_join {name idx base : Str} (h : splitDash name = some (idx, base)) :
    name = idx ++ ('-' :: base) := by
  induction name generalizing idx base with
  | nil => simp [splitDash] at h
  | cons c cs ih =>
    unfold splitDash at h
    by_cases hc : c = '-'
    · simp [hc] at h
      obtain ⟨rfl, rfl⟩ := h
      simp [hc]
    · simp only [hc, if_false] at h
      cases hs : splitDash cs with
      | none => simp [hs] at h
      | some p =>
        obtain ⟨a, b⟩ := p
        simp [hs] at h
        obtain ⟨rfl, rfl⟩ := h
        simp [ih hs]

/-- the first component of a split contains no dash -/
theorem splitDash_nodash {name idx base : Str} (h : splitDash name = some (idx, base)) :
    '-' ∉ idx := by
  induction name generalizing idx base with
  | nil => simp [splitDash] at h
  | cons c cs ih =>
    unfold splitDash at h
    by_cases hc : c = '-'
    · simp [hc] at h
      obtain ⟨rfl, _⟩ := h
      simp
    · simp only [hc, if_false] at h
      cases hs : splitDash cs with
      | none => simp [hs] at h
      | some p =>
        obtain ⟨a, b⟩ := p
        simp [hs] at h
        obtain ⟨rfl, rfl⟩ := h
        simp only [List.mem_cons, not_or]
        exact ⟨fun h' => hc h'.symm, ih hs⟩

theorem splitDash_of_join {idx base : Str} (h : '-' ∉ idx) :
    splitDash (idx ++ ('-' :: base)) = some (idx, base) := by
  induction idx with
  | nil => simp [splitDash]
  | cons c cs ih =>
    simp only [List.mem_cons, not_or] at h
    have hc : c ≠ '-' := fun h' => h.1 h'.symm
    simp [splitDash, hc, ih h.2]

theorem checkIndex_shape {idx : Str} (h : checkIndex idx = true) :
    ∃ a b, idx = [a, b] ∧ isDigit a = true ∧ isDigit b = true := by
  match idx, h with
  | [a, b], h =>
    simp only [checkIndex, Bool.and_eq_true] at h
    exact ⟨a, b, rfl, h.1, h.2⟩

theorem isDigit_ne_dash {c : Char} (h : isDigit c = true) : c ≠ '-' := by
  intro hc
  subst hc
  revert h
  decide

theorem parsePluginName_some {name idx base : Str} (h : parsePluginName name = some (idx, base)) :
    name = idx ++ ('-' :: base) ∧ checkIndex idx = true := by
  unfold parsePluginName at h
  cases hs : splitDash name with
  | none => simp [hs] at h
  | some p =>
    obtain ⟨i, b⟩ := p
    simp only [hs] at h
    by_cases hc : checkIndex i = true
    · simp [hc] at h
      obtain ⟨rfl, rfl⟩ := h
      exact ⟨splitDash_join hs, hc⟩
    · simp [hc] at h

/-- every name of the documented shape parses to its parts -/
theorem parsePluginName_of_shape {idx base : Str} (h : checkIndex idx = true) :
    parsePluginName (idx ++ ('-' :: base)) = some (idx, base) := by
  obtain ⟨a, b, rfl, ha, hb⟩ := checkIndex_shape h
  have hnd : '-' ∉ [a, b] := by
    simp only [List.mem_cons, List.mem_nil_iff, or_false, not_or]
    exact ⟨fun h' => isDigit_ne_dash ha h'.symm, fun h' => isDigit_ne_dash hb h'.symm⟩
  unfold parsePluginName
  rw [splitDash_of_join hnd]
  simp [h]

/-! ### order of names and order of indices -/

theorem isDigit_val {c : Char} (h : isDigit c = true) : 48 ≤ c.toNat ∧ c.toNat ≤ 57 := by
  unfold isDigit at h
  simp only [decide_eq_true_eq] at h
  obtain ⟨h1, h2⟩ := h
  have e1 : ('0' : Char).toNat = 48 := by decide
  have e2 : ('9' : Char).toNat = 57 := by decide
  have h1' : ('0' : Char).toNat ≤ c.toNat := by
    have := Char.le_def.mp h1
    exact UInt32.le_iff_toNat_le.mp this
  have h2' : c.toNat ≤ ('9' : Char).toNat := by
    have := Char.le_def.mp h2
    exact UInt32.le_iff_toNat_le.mp this
  omega

theorem char_lt_toNat {a b : Char} (h : a < b) : a.toNat < b.toNat := by
  have := Char.lt_def.mp h
  exact UInt32.lt_iff_toNat_lt.mp this

/-- names in lexicographic order have their two-digit indices in numeric order -/
theorem idx_le_of_name_le {i1 b1 i2 b2 : Str} (h1 : checkIndex i1 = true) (h2 : checkIndex i2 = true)
    (hle : strLe (i1 ++ ('-' :: b1)) (i2 ++ ('-' :: b2)) = true) : idxVal i1 ≤ idxVal i2 := by
  obtain ⟨a1, c1, rfl, ha1, hc1⟩ := checkIndex_shape h1
  obtain ⟨a2, c2, rfl, ha2, hc2⟩ := checkIndex_shape h2
  have da1 := isDigit_val ha1; have dc1 := isDigit_val hc1
  have da2 := isDigit_val ha2; have dc2 := isDigit_val hc2
  simp only [List.cons_append, List.nil_append, strLe, Bool.or_eq_true, decide_eq_true_eq,
    Bool.and_eq_true] at hle
  simp only [idxVal]
  rcases hle with hlt | ⟨rfl, hrest⟩
  · have := char_lt_toNat hlt; omega
  · rcases hrest with hlt | ⟨rfl, _⟩
    · have := char_lt_toNat hlt; omega
    · omega

/-- for two-digit indices the string order Go's `sortPlugins` uses (`p.idx < q.idx`) is the
    numeric order — leading zeros included ("08" and "09" lie between "07" and "10") -/
theorem idx_strLe_iff {i1 i2 : Str} (h1 : checkIndex i1 = true) (h2 : checkIndex i2 = true) :
    strLe i1 i2 = true ↔ idxVal i1 ≤ idxVal i2 := by
  obtain ⟨a1, c1, rfl, ha1, hc1⟩ := checkIndex_shape h1
  obtain ⟨a2, c2, rfl, ha2, hc2⟩ := checkIndex_shape h2
  have da1 := isDigit_val ha1; have dc1 := isDigit_val hc1
  have da2 := isDigit_val ha2; have dc2 := isDigit_val hc2
  simp only [strLe, Bool.or_eq_true, decide_eq_true_eq, Bool.and_eq_true, idxVal, and_true]
  constructor
  · rintro (hlt | ⟨rfl, hrest⟩)
    · have := char_lt_toNat hlt; omega
    · rcases hrest with hlt | rfl
      · have := char_lt_toNat hlt; omega
      · omega
  · intro hle
    rcases Nat.lt_trichotomy a1.toNat a2.toNat with h | h | h
    · left; exact Char.lt_def.mpr (UInt32.lt_iff_toNat_lt.mpr h)
    · have : a1 = a2 := Char.toNat_inj.mp h
      subst this
      right
      refine ⟨rfl, ?_⟩
      rcases Nat.lt_trichotomy c1.toNat c2.toNat with h' | h' | h'
      · left; exact Char.lt_def.mpr (UInt32.lt_iff_toNat_lt.mpr h')
      · right; exact Char.toNat_inj.mp h'
      · omega
    · omega

/-! ### sorting by name -/

theorem strLe_refl (a : Str) : strLe a a = true := by
  induction a with
  | nil => rfl
  | cons c cs ih => simp [strLe, ih]

theorem strLe_total (a b : Str) : strLe a b = true ∨ strLe b a = true := by
  induction a generalizing b with
  | nil => left; rfl
  | cons x xs ih =>
    cases b with
    | nil => right; rfl
    | cons y ys =>
      simp only [strLe, Bool.or_eq_true, decide_eq_true_eq, Bool.and_eq_true]
      rcases Nat.lt_trichotomy x.toNat y.toNat with h | h | h
      · left; left
        exact Char.lt_def.mpr (UInt32.lt_iff_toNat_lt.mpr h)
      · have hxy : x = y := Char.toNat_inj.mp h
        subst hxy
        rcases ih ys with h' | h'
        · left; right; exact ⟨rfl, h'⟩
        · right; right; exact ⟨rfl, h'⟩
      · right; left
        exact Char.lt_def.mpr (UInt32.lt_iff_toNat_lt.mpr h)

theorem strLe_trans {a b c : Str} (h1 : strLe a b = true) (h2 : strLe b c = true) : strLe a c = true := by
  induction a generalizing b c with
  | nil => rfl
  | cons x xs ih =>
    cases b with
    | nil => simp [strLe] at h1
    | cons y ys =>
      cases c with
      | nil => simp [strLe] at h2
      | cons z zs =>
        simp only [strLe, Bool.or_eq_true, decide_eq_true_eq, Bool.and_eq_true] at h1 h2 ⊢
        rcases h1 with h1 | ⟨rfl, h1⟩
        · rcases h2 with h2 | ⟨rfl, _⟩
          · left
            have a1 : x.val.toNat < y.val.toNat := UInt32.lt_iff_toNat_lt.mp (Char.lt_def.mp h1)
            have a2 : y.val.toNat < z.val.toNat := UInt32.lt_iff_toNat_lt.mp (Char.lt_def.mp h2)
            exact Char.lt_def.mpr (UInt32.lt_iff_toNat_lt.mpr (by omega))
          · left; exact h1
        · rcases h2 with h2 | ⟨rfl, h2⟩
          · left; exact h2
          · right; exact ⟨rfl, ih h1 h2⟩

def nameLe (a b : Entry) : Prop := strLe a.name b.name = true

theorem insertByName_mem {e x : Entry} {l : List Entry} : x ∈ insertByName e l ↔ x = e ∨ x ∈ l := by
  induction l with
  | nil => simp [insertByName]
  | cons y ys ih =>
    unfold insertByName
    split
    · simp
    · simp only [List.mem_cons, ih]
      constructor
      · rintro (h | h | h)
        · exact Or.inr (Or.inl h)
        · exact Or.inl h
        · exact Or.inr (Or.inr h)
      · rintro (h | h | h)
        · exact Or.inr (Or.inl h)
        · exact Or.inl h
        · exact Or.inr (Or.inr h)

theorem insertByName_pairwise {e : Entry} {l : List Entry} (h : l.Pairwise nameLe) :
    (insertByName e l).Pairwise nameLe := by
  induction l with
  | nil => simp [insertByName]
  | cons y ys ih =>
    unfold insertByName
    rw [List.pairwise_cons] at h
    split
    · rename_i hle
      rw [List.pairwise_cons]
      refine ⟨?_, List.pairwise_cons.mpr h⟩
      intro z hz
      rcases List.mem_cons.mp hz with rfl | hz
      · exact hle
      · exact strLe_trans hle (h.1 z hz)
    · rename_i hnle
      have hye : strLe y.name e.name = true := by
        rcases strLe_total e.name y.name with h' | h'
        · exact absurd h' hnle
        · exact h'
      rw [List.pairwise_cons]
      refine ⟨?_, ih h.2⟩
      intro z hz
      rcases insertByName_mem.mp hz with rfl | hz
      · exact hye
      · exact h.1 z hz

theorem sortByName_pairwise (l : List Entry) : (sortByName l).Pairwise nameLe := by
  induction l with
  | nil => simp [sortByName]
  | cons e es ih => exact insertByName_pairwise ih

theorem insertByName_perm (e : Entry) (l : List Entry) : (insertByName e l).Perm (e :: l) := by
  induction l with
  | nil => simp [insertByName]
  | cons y ys ih =>
    unfold insertByName
    split
    · exact List.Perm.refl _
    · exact (List.Perm.cons y ih).trans (List.Perm.swap e y ys)

theorem sortByName_perm (l : List Entry) : (sortByName l).Perm l := by
  induction l with
  | nil => exact List.Perm.refl _
  | cons e es ih => exact (insertByName_perm e _).trans (List.Perm.cons e ih)

theorem insertByName_filter_of_not {p : Entry → Bool} {e : Entry} (l : List Entry) (h : p e = false) :
    (insertByName e l).filter p = l.filter p := by
  induction l with
  | nil => simp [insertByName, h]
  | cons y ys ih =>
    unfold insertByName
    split
    · simp [List.filter_cons, h]
    · simp [List.filter_cons, ih]

/-! ### discovery as a filter -/

/-- "an executable file named with a two-digit index, a dash and a name" as the scan sees
    it: not a directory, some execute bit, name of the shape `NN-name` -/
def isPlugin (e : Entry) : Bool := candidate e && (parsePluginName e.name).isSome

theorem discoverLoop_filter (d : Dropins) (l : List Entry) :
    discoverLoop d l = discoverLoop d (l.filter isPlugin) := by
  induction l with
  | nil => rfl
  | cons e es ih =>
    by_cases hc : candidate e = true
    · cases hp : parsePluginName e.name with
      | none =>
        have : isPlugin e = false := by simp [isPlugin, hp]
        simp only [List.filter_cons, this, Bool.false_eq_true, if_false]
        rw [← ih]
        simp [discoverLoop, hc, hp]
      | some p =>
        obtain ⟨i, b⟩ := p
        have : isPlugin e = true := by simp [isPlugin, hc, hp]
        simp only [List.filter_cons, this, if_true]
        simp only [discoverLoop, hc, hp, Bool.not_true, Bool.false_eq_true, if_false]
        rw [ih]
    · have hc' : candidate e = false := by simpa using hc
      have : isPlugin e = false := by simp [isPlugin, hc']
      simp only [List.filter_cons, this, Bool.false_eq_true, if_false]
      rw [← ih]
      simp [discoverLoop, hc']

/-- the names of what a successful discovery found are the names of the plugin files, in
    listing order; each carries its own configuration and exec fact -/
theorem discoverLoop_ok {d : Dropins} {l : List Entry} {fs : List Found}
    (h : discoverLoop d l = .ok fs) :
    fs.map Found.fileName = (l.filter isPlugin).map (·.name) ∧
    fs.map (·.exec) = (l.filter isPlugin).map (·.exec) ∧
    (∀ f ∈ fs, checkIndex f.idx = true ∧ configFor d f.idx f.base = .ok f.cfg) := by
  induction l generalizing fs with
  | nil =>
    simp [discoverLoop] at h
    subst h
    simp
  | cons e es ih =>
    by_cases hc : candidate e = true
    · cases hp : parsePluginName e.name with
      | none =>
        have hpl : isPlugin e = false := by simp [isPlugin, hp]
        simp only [discoverLoop, hc, hp, Bool.not_true, Bool.false_eq_true, if_false] at h
        simp only [List.filter_cons, hpl, Bool.false_eq_true, if_false]
        exact ih h
      | some p =>
        obtain ⟨i, b⟩ := p
        have hpl : isPlugin e = true := by simp [isPlugin, hc, hp]
        simp only [discoverLoop, hc, hp, Bool.not_true, Bool.false_eq_true, if_false] at h
        cases hcfg : configFor d i b with
        | error err => simp [hcfg] at h
        | ok cfg =>
          simp only [hcfg] at h
          cases hrest : discoverLoop d es with
          | error err => simp [hrest] at h
          | ok fs' =>
            simp only [hrest] at h
            have hfs := Except.ok.inj h
            subst hfs
            obtain ⟨ih1, ih2, ih3⟩ := ih hrest
            obtain ⟨hname, hidx⟩ := parsePluginName_some hp
            simp only [List.filter_cons, hpl, if_true, List.map_cons]
            refine ⟨?_, ?_, ?_⟩
            · rw [ih1]; simp [Found.fileName, hname]
            · rw [ih2]
            · intro f hf
              rcases List.mem_cons.mp hf with rfl | hf
              · exact ⟨hidx, hcfg⟩
              · exact ih3 f hf
    · have hc' : candidate e = false := by simpa using hc
      have hpl : isPlugin e = false := by simp [isPlugin, hc']
      simp only [discoverLoop, hc', Bool.not_false, if_true] at h
      simp only [List.filter_cons, hpl, Bool.false_eq_true, if_false]
      exact ih h

/-- discovery fails only through an unreadable drop-in -/
theorem discoverLoop_total {d : Dropins} (hd : ∀ k, AList.lookup d k ≠ some .dir) (l : List Entry) :
    ∃ fs, discoverLoop d l = .ok fs := by
  have hcfg : ∀ i b, ∃ c, configFor d i b = .ok c := by
    intro i b
    unfold configFor firstConfig firstConfig firstConfig
    cases h1 : AList.lookup d (i ++ ('-' :: b) ++ confSuffix) with
    | some v =>
      cases v with
      | file c => exact ⟨c, rfl⟩
      | dir => exact absurd h1 (hd _)
    | none =>
      cases h2 : AList.lookup d (b ++ confSuffix) with
      | some v =>
        cases v with
        | file c => exact ⟨c, rfl⟩
        | dir => exact absurd h2 (hd _)
      | none => exact ⟨[], rfl⟩
  induction l with
  | nil => exact ⟨[], rfl⟩
  | cons e es ih =>
    obtain ⟨fs, hfs⟩ := ih
    unfold discoverLoop
    by_cases hc : candidate e = true
    · cases hp : parsePluginName e.name with
      | none => simp [hc, hfs]
      | some p =>
        obtain ⟨i, b⟩ := p
        obtain ⟨c, hc'⟩ := hcfg i b
        simp [hc, hc', hfs]
    · have hc' : candidate e = false := by simpa using hc
      simp [hc', hfs]

/-! ### requests, idle periods and Stop -/

/-- every plugin of `active` is still in the runtime's list or has had `p.stop()` called -/
def Covered (active : List Found) (st : RunState) : Prop :=
  ∀ f ∈ active, f ∈ st.plugins.map (·.1) ∨ f ∈ st.stopped

theorem covered_init (active : List Found) : Covered active (initRun active) := by
  intro f hf
  left
  simp [initRun, List.map_map, Function.comp_def, hf]

theorem covered_stepRequest {active : List Found} {st : RunState} (h : Covered active st) :
    Covered active (stepRequest st) := by
  intro f hf
  rcases h f hf with hin | hin
  · simp only [List.mem_map] at hin
    obtain ⟨⟨g, c⟩, hp, rfl⟩ := hin
    simp only [stepRequest]
    by_cases hc : (c || decide (g.exec = .runs .diesLater)) = true
    · right
      apply List.mem_append_right
      simp only [List.mem_map, List.mem_filter]
      exact ⟨(g, c || decide (g.exec = .runs .diesLater)), ⟨⟨(g, c), hp, rfl⟩, hc⟩, rfl⟩
    · left
      simp only [List.mem_map, List.mem_filter]
      refine ⟨(g, c || decide (g.exec = .runs .diesLater)), ⟨⟨(g, c), hp, rfl⟩, ?_⟩, rfl⟩
      simpa using hc
  · right
    simp only [stepRequest]
    exact List.mem_append_left _ hin

theorem covered_stepIdle {active : List Found} {st : RunState} (h : Covered active st) :
    Covered active (stepIdle st) := by
  intro f hf
  rcases h f hf with hin | hin
  · left
    simpa [stepIdle, List.map_map, Function.comp_def] using hin
  · right; exact hin

theorem covered_runPlan {active : List Found} (plan : List Step) {st : RunState} (h : Covered active st) :
    Covered active (runPlan st plan) := by
  induction plan generalizing st with
  | nil => exact h
  | cons s rest ih =>
    simp only [runPlan, List.foldl_cons]
    apply ih
    cases s
    · exact covered_stepRequest h
    · exact covered_stepIdle h

theorem covered_stopAll {active : List Found} {st : RunState} (h : Covered active st) :
    ∀ f ∈ active, f ∈ (stopAll st).stopped := by
  intro f hf
  simp only [stopAll]
  rcases h f hf with hin | hin
  · exact List.mem_append_right _ hin
  · exact List.mem_append_left _ hin

/-! ### index order -/

theorem pairwise_sortedByIdx {l : List Found} (h : l.Pairwise fun a b => idxVal a.idx ≤ idxVal b.idx) :
    sortedByIdx l = true := by
  induction l with
  | nil => rfl
  | cons a rest ih =>
    cases rest with
    | nil => rfl
    | cons b rest' =>
      rw [List.pairwise_cons] at h
      simp only [sortedByIdx, Bool.and_eq_true, decide_eq_true_eq]
      exact ⟨h.1 b (by simp), ih h.2⟩

end Nri.Launch
