/-
Mounts: the set loop of `AdjustMounts` is the generic two-pass shape on the mount list;
`orderedMounts.Less` is asymmetric and transitive; `sortMounts` returns a sorted permutation;
under cleaned paths a parent directory is `Less` than any of its descendants.
Core Lean only.
-/
import NriModel.Lemmas.GenerateKeyed

namespace Nri.Generate
open Nri.Api

namespace Mounts

/-! ### the loop -/

theorem toOCI_destination (m : Api.Mount) : m.toOCI.destination = m.destination := rfl

theorem removals_eq (ms : List Oci.Mount) (L : List Api.Mount) :
    removals ms L = gRemovals Oci.Mount.destination Api.Mount.destination ms L := rfl

theorem setStep_mounts {hp : Str → Str} {st st' : State} {m : Api.Mount}
    (h : setStep hp st m = .ok st') :
    st'.mounts = removeFirst Oci.Mount.destination m.destination st.mounts ++ [m.toOCI] := by
  unfold setStep at h
  simp only at h
  split at h
  · split at h
    · cases h; rfl
    · cases h
  · split at h
    · split at h
      · cases h; rfl
      · cases h
    · cases h; rfl

theorem sets_mounts {hp : Str → Str} (L : List Api.Mount) {st st' : State}
    (h : sets hp st L = .ok st') :
    st'.mounts = gSets Oci.Mount.destination Api.Mount.destination Api.Mount.toOCI st.mounts L := by
  induction L generalizing st with
  | nil => simp [sets] at h; cases h; rfl
  | cons m r ih =>
    simp only [sets] at h
    simp only [gSets, List.foldl_cons]
    by_cases hm : isMarked m.destination = true
    · simp only [hm, if_true] at h ⊢
      have := ih h
      simpa [gSets] using this
    · have hm' : isMarked m.destination = false := by simpa using hm
      simp only [hm', Bool.false_eq_true, if_false] at h ⊢
      cases hs : setStep hp st m with
      | error e => rw [hs] at h; cases h
      | ok st1 =>
        rw [hs] at h
        have := ih h
        simp only [gSets] at this
        rw [this, setStep_mounts hs]

/-! ### rootfs propagation is only raised by a mount that asks for it -/

/-- neither `rshared` nor `rslave` -/
def Quiet (p : Str) : Prop := p ≠ str "rshared" ∧ p ≠ str "rslave"

theorem propagationQuery_quiet (opts : List Str) (prev : Str) (hprev : Quiet prev)
    (ho : ∀ o ∈ opts, Quiet o) :
    Quiet (opts.foldl (fun p o => if isPropagationOpt o then o else p) prev) := by
  induction opts generalizing prev with
  | nil => exact hprev
  | cons o r ih =>
    simp only [List.foldl_cons]
    apply ih _ _ (fun x hx => ho x (List.mem_cons_of_mem _ hx))
    by_cases hpo : isPropagationOpt o = true
    · rw [if_pos hpo]; exact ho o (by simp)
    · rw [if_neg hpo]; exact hprev

theorem sets_rootfs {hp : Str → Str} (L : List Api.Mount) {st st' : State}
    (h : sets hp st L = .ok st') (hst : Quiet st.prop)
    (hL : ∀ m ∈ L, isMarked m.destination = false → ∀ o ∈ m.options, Quiet o) :
    st'.rootfs = st.rootfs := by
  induction L generalizing st with
  | nil => simp [sets] at h; cases h; rfl
  | cons m r ih =>
    simp only [sets] at h
    have hr : ∀ x ∈ r, isMarked x.destination = false → ∀ o ∈ x.options, Quiet o :=
      fun x hx => hL x (List.mem_cons_of_mem _ hx)
    cases hm : isMarked m.destination with
    | true => rw [hm] at h; simp only [if_true] at h; exact ih h hst hr
    | false =>
      rw [hm] at h; simp only [Bool.false_eq_true, if_false] at h
      have hq : Quiet (m.propagationQuery st.prop) :=
        propagationQuery_quiet m.options st.prop hst (hL m (by simp) hm)
      cases hs : setStep hp st m with
      | error e => rw [hs] at h; cases h
      | ok st1 =>
        rw [hs] at h
        have h1 : st1.rootfs = st.rootfs ∧ st1.prop = m.propagationQuery st.prop := by
          unfold setStep at hs
          simp only [hq.1, hq.2, if_false] at hs
          cases hs; exact ⟨rfl, rfl⟩
        rw [ih h (h1.2 ▸ hq) hr, h1.1]

theorem apply_rootfs {hp : Str → Str} {ms ms' : List Oci.Mount} {rootfs rootfs' : Str}
    {L : List Api.Mount} (h : apply hp ms rootfs L = .ok (ms', rootfs'))
    (hL : ∀ m ∈ L, isMarked m.destination = false → ∀ o ∈ m.options, Quiet o) : rootfs' = rootfs := by
  unfold apply at h
  split at h
  · have := Except.ok.inj h; exact (congrArg Prod.snd this).symm
  · split at h
    · rename_i st hst
      have := congrArg Prod.snd (Except.ok.inj h)
      simp only at this
      rw [← this]
      exact sets_rootfs L hst (show Quiet ([] : Str) by unfold Quiet; decide) hL
    · cases h

/-! ### the order -/

theorem strLt_irrefl (a : Str) : strLt a a = false := by
  induction a with
  | nil => rfl
  | cons c r ih => simp [strLt, ih]

theorem strLt_asymm {a b : Str} (h : strLt a b = true) : strLt b a = false := by
  induction a generalizing b with
  | nil => cases b <;> simp [strLt] at h ⊢
  | cons c r ih =>
    cases b with
    | nil => simp [strLt] at h
    | cons d s =>
      simp only [strLt] at h ⊢
      by_cases h1 : c.toNat < d.toNat
      · have : ¬ d.toNat < c.toNat := by omega
        have h3 : ¬ d.toNat = c.toNat := by omega
        simp [this, h3]
      · simp only [h1, if_false] at h
        by_cases h2 : c.toNat = d.toNat
        · simp only [h2, if_true] at h
          have : ¬ d.toNat < c.toNat := by omega
          simp [h2, ih h]
        · simp [h2] at h

theorem strLt_trans {a b c : Str} (h1 : strLt a b = true) (h2 : strLt b c = true) :
    strLt a c = true := by
  induction a generalizing b c with
  | nil =>
    cases b with
    | nil => simp [strLt] at h1
    | cons d s => cases c with
      | nil => simp [strLt] at h2
      | cons e t => simp [strLt]
  | cons x r ih =>
    cases b with
    | nil => simp [strLt] at h1
    | cons d s =>
      cases c with
      | nil => simp [strLt] at h2
      | cons e t =>
        simp only [strLt] at h1 h2 ⊢
        by_cases a1 : x.toNat < d.toNat
        · by_cases b1 : d.toNat < e.toNat
          · have : x.toNat < e.toNat := by omega
            simp [this]
          · simp only [b1, if_false] at h2
            by_cases b2 : d.toNat = e.toNat
            · have : x.toNat < e.toNat := by omega
              simp [this]
            · simp [b2] at h2
        · simp only [a1, if_false] at h1
          by_cases a2 : x.toNat = d.toNat
          · simp only [a2, if_true] at h1
            by_cases b1 : d.toNat < e.toNat
            · have : x.toNat < e.toNat := by omega
              simp [this]
            · simp only [b1, if_false] at h2
              by_cases b2 : d.toNat = e.toNat
              · simp only [b2, if_true] at h2
                have n1 : ¬ x.toNat < e.toNat := by omega
                have n2 : x.toNat = e.toNat := by omega
                simp [n2, ih h1 h2]
              · simp [b2] at h2
          · simp [a2] at h1

/-- a proper prefix is smaller -/
theorem strLt_append (a : Str) {r : Str} (hr : r ≠ []) : strLt a (a ++ r) = true := by
  induction a with
  | nil => cases r with
    | nil => exact absurd rfl hr
    | cons c s => rfl
  | cons c s ih => simp [strLt, ih]

theorem mountLt_asymm {a b : Oci.Mount} (h : mountLt a b = true) : mountLt b a = false := by
  unfold mountLt at h ⊢
  simp only [Bool.or_eq_true, decide_eq_true_eq, Bool.and_eq_true] at h
  rcases h with h | ⟨h1, h2⟩
  · have n1 : ¬ parts b.destination < parts a.destination := by omega
    have n2 : ¬ parts b.destination = parts a.destination := by omega
    simp [n1, n2]
  · have n1 : ¬ parts b.destination < parts a.destination := by omega
    simp [n1, strLt_asymm h2]

theorem mountLt_trans {a b c : Oci.Mount} (h1 : mountLt a b = true) (h2 : mountLt b c = true) :
    mountLt a c = true := by
  unfold mountLt at h1 h2 ⊢
  simp only [Bool.or_eq_true, decide_eq_true_eq, Bool.and_eq_true] at h1 h2 ⊢
  rcases h1 with h1 | ⟨e1, s1⟩
  · rcases h2 with h2 | ⟨e2, _⟩
    · left; omega
    · left; omega
  · rcases h2 with h2 | ⟨e2, s2⟩
    · left; omega
    · right; exact ⟨by omega, strLt_trans s1 s2⟩

/-- sortedness: no element is `Less` than an earlier one -/
def Sorted (l : List Oci.Mount) : Prop := l.Pairwise (fun a b => mountLt b a = false)

theorem mem_insertSorted {m x : Oci.Mount} {l : List Oci.Mount} :
    x ∈ insertSorted m l ↔ x = m ∨ x ∈ l := by
  induction l with
  | nil => simp [insertSorted]
  | cons y r ih =>
    unfold insertSorted
    cases h : mountLt m y with
    | true => simp
    | false =>
      simp only [Bool.false_eq_true, if_false, List.mem_cons, ih]
      constructor
      · rintro (h | h | h) <;> simp [h]
      · rintro (h | h | h) <;> simp [h]

theorem insertSorted_perm (m : Oci.Mount) (l : List Oci.Mount) : (insertSorted m l).Perm (m :: l) := by
  induction l with
  | nil => exact List.Perm.refl _
  | cons y r ih =>
    unfold insertSorted
    cases h : mountLt m y with
    | true => simp
    | false =>
      simp only [Bool.false_eq_true, if_false]
      exact (List.Perm.cons y ih).trans (List.Perm.swap m y r)

theorem insertSorted_sorted (m : Oci.Mount) {l : List Oci.Mount} (h : Sorted l) :
    Sorted (insertSorted m l) := by
  induction l with
  | nil => simp [insertSorted, Sorted]
  | cons y r ih =>
    unfold Sorted at h ih ⊢
    rw [List.pairwise_cons] at h
    unfold insertSorted
    cases hl : mountLt m y with
    | true =>
      simp only [if_true, List.pairwise_cons]
      refine ⟨?_, h.1, h.2⟩
      intro x hx
      rcases List.mem_cons.mp hx with hx | hx
      · rw [hx]; exact mountLt_asymm hl
      · -- x ∈ r, y ≤ x, m < y  ⇒  ¬ x < m
        cases hxm : mountLt x m with
        | false => rfl
        | true =>
          have := mountLt_trans hxm hl
          rw [h.1 x hx] at this; cases this
    | false =>
      simp only [Bool.false_eq_true, if_false, List.pairwise_cons]
      refine ⟨?_, ih h.2⟩
      intro x hx
      rcases mem_insertSorted.mp hx with hx | hx
      · rw [hx]; exact hl
      · exact h.1 x hx

theorem sortAux_perm (acc l : List Oci.Mount) :
    (l.foldl (fun acc m => insertSorted m acc) acc).Perm (acc ++ l) := by
  induction l generalizing acc with
  | nil => simp
  | cons m r ih =>
    simp only [List.foldl_cons]
    refine (ih (insertSorted m acc)).trans ?_
    refine ((insertSorted_perm m acc).append_right r).trans ?_
    simpa using (List.perm_middle (a := m) (l₁ := acc) (l₂ := r)).symm

theorem sortAux_sorted (acc l : List Oci.Mount) (h : Sorted acc) :
    Sorted (l.foldl (fun acc m => insertSorted m acc) acc) := by
  induction l generalizing acc with
  | nil => exact h
  | cons m r ih => exact ih _ (insertSorted_sorted m h)

theorem sortMounts_perm (l : List Oci.Mount) : (sortMounts l).Perm l := by
  simpa [sortMounts] using sortAux_perm [] l

theorem sortMounts_sorted (l : List Oci.Mount) : Sorted (sortMounts l) :=
  sortAux_sorted [] l (by simp [Sorted])

theorem find_sortMounts {l : List Oci.Mount} (h : NodupKeys Oci.Mount.destination l) (k : Str) :
    find Oci.Mount.destination k (sortMounts l) = find Oci.Mount.destination k l := by
  have hp := sortMounts_perm l
  have hn : NodupKeys Oci.Mount.destination (sortMounts l) := by
    unfold NodupKeys at h ⊢
    exact (hp.map _).nodup_iff.mpr h
  exact find_perm Oci.Mount.destination hp hn k

theorem nodup_sortMounts {l : List Oci.Mount} (h : NodupKeys Oci.Mount.destination l) :
    NodupKeys Oci.Mount.destination (sortMounts l) := by
  unfold NodupKeys at h ⊢
  exact ((sortMounts_perm l).map _).nodup_iff.mpr h

/-! ### parents first -/

/-- `p` is a proper ancestor directory of `c`, as strings: `c = p/rest`, or `p` is the root. -/
def IsAncestor (p c : Str) : Prop :=
  ∃ rest, rest ≠ [] ∧ (c = p ++ '/' :: rest ∨ (p = ['/'] ∧ c = '/' :: rest))

/-- For cleaned paths (`filepath.Clean d = d`) an ancestor is `Less` than its descendant. -/
theorem mountLt_of_ancestor {a b : Oci.Mount}
    (ha : cleanPath a.destination = a.destination) (hb : cleanPath b.destination = b.destination)
    (h : IsAncestor a.destination b.destination) : mountLt a b = true := by
  obtain ⟨rest, hr, h⟩ := h
  unfold mountLt parts
  rw [ha, hb]
  simp only [Bool.or_eq_true, decide_eq_true_eq, Bool.and_eq_true]
  rcases h with h | ⟨h1, h2⟩
  · left
    rw [h, List.count_append, List.count_cons]
    simp only [beq_self_eq_true, if_true]
    omega
  · rw [h1, h2]
    by_cases hc : List.count '/' rest = 0
    · right
      refine ⟨by simp [hc], ?_⟩
      have := strLt_append ['/'] hr
      simpa using this
    · left
      have : List.count '/' ('/' :: rest) = List.count '/' rest + 1 := by simp []
      rw [this]
      have : List.count '/' ['/'] = 1 := by decide
      rw [this]; omega

/-- Only the PARENT has to be a cleaned path: a cleaned directory `a` is `Less` than every mount
    whose cleaned destination lies below it (if `a` is the root, the other destination must be
    written with a leading `/`, which every absolute path is). -/
theorem mountLt_of_clean_parent {a b : Oci.Mount}
    (ha : cleanPath a.destination = a.destination)
    (habs : a.destination = ['/'] → ∃ t, b.destination = '/' :: t)
    (h : IsAncestor a.destination (cleanPath b.destination)) : mountLt a b = true := by
  obtain ⟨rest, hr, h⟩ := h
  unfold mountLt parts
  rw [ha]
  simp only [Bool.or_eq_true, decide_eq_true_eq, Bool.and_eq_true]
  rcases h with h | ⟨h1, h2⟩
  · left
    rw [h, List.count_append, List.count_cons]
    simp only [beq_self_eq_true, if_true]
    omega
  · rw [h2]
    by_cases hc : List.count '/' rest = 0
    · right
      refine ⟨by rw [h1]; simp [hc], ?_⟩
      obtain ⟨t, ht⟩ := habs h1
      rw [h1, ht]
      have htne : t ≠ [] := by
        intro ht0
        rw [ht, ht0] at h2
        have : cleanPath ['/'] = ['/'] := by decide
        rw [this] at h2
        simp only [List.cons.injEq, true_and] at h2
        exact hr h2.symm
      have := strLt_append ['/'] htne
      simpa using this
    · left
      have e1 : List.count '/' ('/' :: rest) = List.count '/' rest + 1 := by simp
      have e2 : List.count '/' a.destination = 1 := by rw [h1]; decide
      rw [e1, e2]; omega

/-- In a sorted list, an element that is `Less` than another one stands before it. -/
theorem sorted_index_lt {l : List Oci.Mount} (hs : Sorted l) {i j : Nat} {a b : Oci.Mount}
    (hi : l[i]? = some a) (hj : l[j]? = some b) (hlt : mountLt a b = true) : i < j := by
  unfold Sorted at hs
  rw [List.pairwise_iff_getElem] at hs
  obtain ⟨hi', hia⟩ := List.getElem?_eq_some_iff.mp hi
  obtain ⟨hj', hjb⟩ := List.getElem?_eq_some_iff.mp hj
  rcases Nat.lt_trichotomy i j with h | h | h
  · exact h
  · subst h
    rw [hia] at hjb; subst hjb
    have := mountLt_asymm hlt
    rw [hlt] at this; cases this
  · have := hs j i hj' hi' h
    rw [hia, hjb, hlt] at this; cases this

end Mounts
end Nri.Generate
