/-
C03, the process environment, compared as a finite map NAME ↦ value (`Env.lookup`): a
variable re-set by a later plugin is replaced in place by the sequential application but
re-appended by the combined reply, so the ORDER of `environ` legitimately differs.
`Env.WF` (entries `NAME=value`, names non-empty and distinct) is preserved by `AdjustEnv`.
Core Lean only.
-/
import NriModel.Lemmas.ComposeKeyed
import NriModel.Lemmas.ComposeScalars

namespace Nri.Compose
open Nri Nri.Generate

def envG (x : List Str) (a : NApi.Adjustment) : List Str := Env.apply x (toGen a).env

/-- the environment as a finite map -/
def EnvEq (c s : List Str) : Prop := ∀ k, k ≠ [] → Env.lookup c k = Env.lookup s k

/-- no name of the response contains `'='` -/
def EnvKeysOk (a : NApi.Adjustment) : Prop := ∀ e ∈ a.env, '=' ∉ Api.stripMarker e.key

/-! ### `Env.WF` is preserved -/

theorem keep_fst {md : AList Str Api.KeyValue} (hmod : Env.ModOK md) {e : Str} {x : Str × Str}
    (h : Env.keep md e = some x) : x.1 = Env.nameOf e := by
  unfold Env.keep at h
  cases hs : Env.splitEq e with
  | none => simp [hs] at h
  | some p =>
    obtain ⟨n, v⟩ := p
    rw [hs] at h
    simp only at h
    rw [Env.nameOf_of_split hs]
    cases hl : AList.lookup md n with
    | none => rw [hl] at h; simp only [Option.some.injEq] at h; rw [← h]
    | some m =>
      rw [hl] at h
      simp only at h
      by_cases hm : Api.isMarked m.key = true
      · simp [hm] at h
      · have hm' : Api.isMarked m.key = false := by simpa using hm
        simp only [hm', Bool.false_eq_true, if_false, Option.some.injEq] at h
        rw [← h]
        have := hmod n m hl
        rw [Api.strip_of_not_marked hm'] at this
        exact this

theorem filterMap_keep_ok (old : List Str) (md : AList Str Api.KeyValue) (hwf : Env.WF old)
    (hmod : Env.ModOK md) :
    ((old.filterMap (Env.keep md)).map (·.1)).Nodup ∧
    (∀ x ∈ old.filterMap (Env.keep md), x.1 ∈ old.map Env.nameOf) := by
  induction old with
  | nil => simp
  | cons e r ih =>
    obtain ⟨ih1, ih2⟩ := ih hwf.tail
    have hnd := List.nodup_cons.mp hwf.nodup
    rw [List.filterMap_cons]
    cases hk : Env.keep md e with
    | none =>
      simp only
      exact ⟨ih1, fun x hx => List.mem_cons_of_mem _ (ih2 x hx)⟩
    | some x =>
      simp only [List.map_cons, List.nodup_cons]
      have hx1 := keep_fst hmod hk
      refine ⟨⟨?_, ih1⟩, ?_⟩
      · intro hm
        obtain ⟨y, hy, hyx⟩ := List.mem_map.1 hm
        apply hnd.1
        have := ih2 y hy
        rw [hyx, hx1] at this
        exact this
      · intro y hy
        rcases List.mem_cons.mp hy with rfl | hy
        · rw [hx1]; simp
        · exact List.mem_cons_of_mem _ (ih2 y hy)

/-- a generator state that renders to a well-formed environment -/
structure AccOK (acc : AList Str Str) : Prop where
  nodup : (acc.map (·.1)).Nodup
  nonempty : ∀ x ∈ acc, x.1 ≠ []
  noeq : Env.NoEq acc

theorem wf_render {acc : AList Str Str} (h : AccOK acc) : Env.WF (Env.render acc) := by
  constructor
  · intro e he
    unfold Env.render at he
    obtain ⟨x, hx, rfl⟩ := List.mem_map.1 he
    exact ⟨x.1, x.2, Env.splitEq_render x.1 x.2 (h.noeq x hx), h.nonempty x hx⟩
  · have : (Env.render acc).map Env.nameOf = acc.map (·.1) := by
      unfold Env.render
      rw [List.map_map]
      apply List.map_congr_left
      intro x hx
      exact Env.nameOf_render x.1 x.2 (h.noeq x hx)
    rw [this]; exact h.nodup

theorem accOK_phase2 (md : AList Str Api.KeyValue) (acc : AList Str Str) (env : List Api.KeyValue)
    (hacc : AccOK acc) (henv : ∀ e ∈ env, '=' ∉ Api.stripMarker e.key) : AccOK (Env.phase2 md acc env) := by
  refine ⟨?_, ?_, Env.noEq_phase2 md acc env hacc.noeq henv⟩
  · rw [Env.phase2_eq]
    have : ∀ (env : List Api.KeyValue) (acc : AList Str Str), (acc.map (·.1)).Nodup →
        ((env.foldl (fun acc (e : Api.KeyValue) =>
          if (!Api.isMarked e.key && AList.contains md e.key && !(e.key == [])) then AList.insert acc e.key e.value
          else acc) acc).map (·.1)).Nodup := by
      intro env
      induction env with
      | nil => intro acc h; exact h
      | cons e r ih =>
        intro acc h
        simp only [List.foldl_cons]
        apply ih
        split
        · exact nodup_insert acc _ _ h
        · exact h
    exact this env acc hacc.nodup
  · rw [Env.phase2_eq]
    have : ∀ (env : List Api.KeyValue) (acc : AList Str Str), (∀ x ∈ acc, x.1 ≠ []) →
        ∀ x ∈ (env.foldl (fun acc (e : Api.KeyValue) =>
          if (!Api.isMarked e.key && AList.contains md e.key && !(e.key == [])) then AList.insert acc e.key e.value
          else acc) acc), x.1 ≠ [] := by
      intro env
      induction env with
      | nil => intro acc h; exact h
      | cons e r ih =>
        intro acc h
        simp only [List.foldl_cons]
        apply ih
        split
        · rename_i hc
          intro x hx
          rcases Env.mem_insert hx with hx | hx
          · exact h x hx
          · rw [hx]
            simp only [Bool.and_eq_true, Bool.not_eq_true', beq_eq_false_iff_ne] at hc
            exact hc.2
        · exact h
    exact this env acc hacc.nonempty

theorem wf_apply (old : List Str) (env : List Api.KeyValue) (hwf : Env.WF old)
    (hkeys : ∀ e ∈ env, '=' ∉ Api.stripMarker e.key) : Env.WF (Env.apply old env) := by
  by_cases hne : env = []
  · subst hne; simpa [Env.apply, Env.applyWith] using hwf
  rw [Env.apply_eq old env hne]
  apply wf_render
  have hmod := Env.modOK env
  have hsnd := Env.phase1_snd old (Env.mod env) [] hwf (by simp) hmod
  simp only [List.nil_append] at hsnd
  unfold Env.finalAcc
  simp only
  rw [hsnd]
  apply accOK_phase2 _ _ _ _ hkeys
  obtain ⟨h1, h2⟩ := filterMap_keep_ok old (Env.mod env) hwf hmod
  refine ⟨h1, ?_, Env.noEq_filterMap_keep old _ hmod⟩
  intro x hx
  obtain ⟨e, he, hxe⟩ := List.mem_map.1 (h2 x hx)
  obtain ⟨n, v, hs, hn⟩ := hwf.split e he
  rw [← hxe, Env.nameOf_of_split hs]; exact hn

/-! ### the effect of an entry list on one name -/

/-- what `AdjustEnv` with the entries `L` leaves under name `k`, given what was there -/
def envEffect (L : List NApi.KeyValue) (k : Str) (d : Option Str) : Option Str :=
  match lastMatch (fun e : NApi.KeyValue => !Api.isMarked e.key && e.key == k) L with
  | some e => some e.value
  | none => if delOf (fun e : NApi.KeyValue => e.key) L k then none else d

theorem lastMatch_map {ε ε' : Type} (q : ε → Bool) (f : ε' → ε) (L : List ε') :
    lastMatch q (L.map f) = (lastMatch (fun e => q (f e)) L).map f := by
  induction L with
  | nil => rfl
  | cons e r ih =>
    simp only [List.map_cons, lastMatch, ih]
    cases lastMatch (fun e => q (f e)) r with
    | some x => rfl
    | none => simp only [Option.map_none]; split <;> rfl

theorem lookup_envG (x : List Str) (a : NApi.Adjustment) (hwf : Env.WF x) (hk : EnvKeysOk a)
    (k : Str) (hne : k ≠ []) :
    Env.lookup (envG x a) k = envEffect a.env k (Env.lookup x k) := by
  unfold envG envEffect
  rw [toGen_env]
  by_cases he : a.env = []
  · simp [he, Env.apply, Env.applyWith, lastMatch, delOf]
  · have hkeys : ∀ e ∈ a.env.map toGenKV, '=' ∉ Api.stripMarker e.key := by
      intro e hm
      obtain ⟨y, hy, rfl⟩ := List.mem_map.1 hm
      exact hk y hy
    rw [Env.lookup_apply x _ hwf (by simpa using he) hkeys k hne, lastMatch_map]
    have h1 : (fun e : NApi.KeyValue => Env.setsKey k (toGenKV e)) =
        (fun e : NApi.KeyValue => !Api.isMarked e.key && e.key == k) := rfl
    have h2 : (a.env.map toGenKV).any (Env.removes k) = delOf (fun e : NApi.KeyValue => e.key) a.env k := by
      rw [List.any_map]; rfl
    rw [h1, h2]
    cases lastMatch (fun e : NApi.KeyValue => !Api.isMarked e.key && e.key == k) a.env <;> rfl

theorem lastMatch_sets_keyedStep {ε : Type} (rawKey : ε → Str) (R a : List ε) (k : Str) :
    lastMatch (fun e => !Api.isMarked (rawKey e) && rawKey e == k) (keyedStep rawKey R a) =
      match lastMatch (fun e => !Api.isMarked (rawKey e) && rawKey e == k) a with
      | some x => some x
      | none => if delOf rawKey a k then none
                else lastMatch (fun e => !Api.isMarked (rawKey e) && rawKey e == k) R := by
  unfold keyedStep
  rw [lastMatch_append, lastMatch_append]
  have h3 : lastMatch (fun e => !Api.isMarked (rawKey e) && rawKey e == k) (loneOf rawKey a) = none := by
    rw [lastMatch_none_iff]
    intro e he
    simp [(mem_loneOf rawKey he).2]
  have h2 : lastMatch (fun e => !Api.isMarked (rawKey e) && rawKey e == k)
      (a.filter fun x => !(NApi.isMarked (rawKey x)).2) =
      lastMatch (fun e => !Api.isMarked (rawKey e) && rawKey e == k) a := by
    rw [Env.lastMatch_filter]
    apply lastMatch_congr
    intro e _
    simp only [isMarked_snd]
    cases Api.isMarked (rawKey e) <;> simp
  have h1 : lastMatch (fun e => !Api.isMarked (rawKey e) && rawKey e == k)
      (R.filter fun x => !(Result.delKeys (a.map rawKey)).contains (rawKey x)) =
      if delOf rawKey a k then none
      else lastMatch (fun e => !Api.isMarked (rawKey e) && rawKey e == k) R := by
    rw [Env.lastMatch_filter]
    by_cases hd : delOf rawKey a k = true
    · rw [if_pos hd, lastMatch_none_iff]
      intro e _
      cases hq : (!Api.isMarked (rawKey e) && rawKey e == k)
      · simp
      · simp only [Bool.and_eq_true, Bool.not_eq_true', beq_iff_eq] at hq
        have : (Result.delKeys (a.map rawKey)).contains (rawKey e) = true := by
          rw [delKeys_contains, List.any_map, hq.2]; exact hd
        rw [this]; simp
    · rw [if_neg hd]
      apply lastMatch_congr
      intro e _
      cases hq : (!Api.isMarked (rawKey e) && rawKey e == k)
      · simp
      · simp only [Bool.and_eq_true, Bool.not_eq_true', beq_iff_eq] at hq
        have : (Result.delKeys (a.map rawKey)).contains (rawKey e) = false := by
          rw [delKeys_contains, List.any_map, hq.2]; simpa [delOf] using hd
        rw [this]; simp
  rw [h3, h2, h1]
  rfl

theorem envEffect_step (R a : List NApi.KeyValue) (hk : ∀ k ∈ a.map (·.key), keyOk k = true)
    (k : Str) (d : Option Str) :
    envEffect (keyedStep (·.key) R a) k d = envEffect a k (envEffect R k d) := by
  unfold envEffect
  rw [lastMatch_sets_keyedStep (fun e : NApi.KeyValue => e.key), delOf_keyedStep (fun e : NApi.KeyValue => e.key) R a hk]
  cases hs : lastMatch (fun e : NApi.KeyValue => !Api.isMarked e.key && e.key == k) a with
  | some e => rfl
  | none =>
    have hset : setOf (fun e : NApi.KeyValue => e.key) a k = false := by
      unfold setOf
      rw [← lastMatch_isSome_iff, hs]; rfl
    simp only [hset, Bool.not_false, Bool.and_true]
    cases hd : delOf (fun e : NApi.KeyValue => e.key) a k
    · simp
    · simp

/-! ### the step lemma -/

theorem envG_wf (x : List Str) (a : NApi.Adjustment) (hwf : Env.WF x) (hk : EnvKeysOk a) :
    Env.WF (envG x a) := by
  unfold envG
  apply wf_apply x _ hwf
  intro e hm
  rw [toGen_env] at hm
  obtain ⟨y, hy, rfl⟩ := List.mem_map.1 hm
  exact hk y hy

theorem envKeysOk_step (R a : NApi.Adjustment) (hR : EnvKeysOk R) (ha : EnvKeysOk a) :
    EnvKeysOk (replyStep R a) := by
  intro e he
  have he : e ∈ keyedStep (·.key) R.env a.env := he
  unfold keyedStep at he
  simp only [List.mem_append, List.mem_filter] at he
  rcases he with (he | he) | he
  · exact hR e he.1
  · exact ha e he.1
  · exact ha e (mem_loneOf _ he).1

theorem envG_step (x : List Str) (R a : NApi.Adjustment) (hx : Env.WF x) (hR : EnvKeysOk R)
    (ha : EnvKeysOk a) (hk : ∀ k ∈ a.env.map (·.key), keyOk k = true) :
    EnvEq (envG x (replyStep R a)) (envG (envG x R) a) := by
  intro k hne
  rw [lookup_envG x _ hx (envKeysOk_step R a hR ha) k hne,
    lookup_envG _ a (envG_wf x R hx hR) ha k hne, lookup_envG x R hx hR k hne]
  exact envEffect_step R.env a.env hk k _

theorem envG_cong (x y : List Str) (a : NApi.Adjustment) (hx : Env.WF x) (hy : Env.WF y)
    (ha : EnvKeysOk a) (h : EnvEq x y) : EnvEq (envG x a) (envG y a) := by
  intro k hne
  rw [lookup_envG x a hx ha k hne, lookup_envG y a hy ha k hne, h k hne]

end Nri.Compose
