/-
Lemmas about the frame codec of `NriModel/Mux.lean` (part 1): big-endian round trip, the
write loop equals cutting at `mp`, decode ∘ encode, prefix monotonicity of `decode`.
-/
import NriModel.Mux

namespace Nri.Mux

theorem be32_ofNat (n : Nat) (h : n < 4294967296) :
    be32 (UInt8.ofNat (n / 16777216)) (UInt8.ofNat (n / 65536)) (UInt8.ofNat (n / 256))
      (UInt8.ofNat n) = n := by
  simp only [be32, UInt8.toNat_ofNat']
  omega

/-! ### the write loop -/

theorem chunkSpec_unfold (mp : Nat) (buf : Bytes) :
    chunkSpec mp buf =
      if buf.length ≤ mp ∨ mp = 0 then [buf] else buf.take mp :: chunkSpec mp (buf.drop mp) := by
  rw [chunkSpec]
  split <;> simp_all

theorem writeLoop_eq (mp : Nat) (hmp : 0 < mp) :
    ∀ (fuel : Nat) (data : Bytes) (size : Nat),
      data.length < fuel → min size mp = min data.length mp →
      writeLoop mp fuel data size = some (chunkSpec mp data) := by
  intro fuel
  induction fuel with
  | zero => intro data size h; omega
  | succ fuel ih =>
    intro data size hf hs
    have hclamp : (if size > mp then mp else size) = min data.length mp := by
      rw [← hs]; split <;> omega
    rw [writeLoop]
    simp only [hclamp]
    have hle : min data.length mp ≤ data.length := Nat.min_le_left _ _
    simp only [sliceTo, sliceFrom, hle, if_true]
    rw [chunkSpec_unfold]
    by_cases hlen : data.length ≤ mp
    · have hmin : min data.length mp = data.length := Nat.min_eq_left hlen
      simp [hmin, hlen]
    · have hmin : min data.length mp = mp := Nat.min_eq_right (by omega)
      have hne : ¬ (data.length ≤ mp ∨ mp = 0) := by omega
      simp only [hmin, hne, if_false, List.length_drop]
      have hsz : (if mp > data.length - mp then data.length - mp else mp) ≠ 0 := by
        split <;> omega
      simp only [hsz, if_false]
      rw [ih (data.drop mp)]
      · rfl
      · simp [List.length_drop]; omega
      · simp only [List.length_drop]; split <;> omega

theorem chunks_eq_spec (mp : Nat) (hmp : 0 < mp) (buf : Bytes) :
    chunks mp buf = some (chunkSpec mp buf) :=
  writeLoop_eq mp hmp _ _ _ (Nat.lt_succ_self _) rfl

theorem chunkSpec_flatten (mp : Nat) (buf : Bytes) : (chunkSpec mp buf).flatten = buf := by
  induction h : buf.length using Nat.strongRecOn generalizing buf with
  | _ n ih =>
    rw [chunkSpec_unfold]
    split
    · simp
    · rename_i hne
      have : (buf.drop mp).length < n := by simp [List.length_drop]; omega
      simp [ih _ this (buf.drop mp) rfl]

theorem chunkSpec_length_le (mp : Nat) (hmp : 0 < mp) (buf : Bytes) :
    ∀ c ∈ chunkSpec mp buf, c.length ≤ mp := by
  induction h : buf.length using Nat.strongRecOn generalizing buf with
  | _ n ih =>
    rw [chunkSpec_unfold]
    split
    · rename_i hc; intro c hcm; simp at hcm; subst hcm; omega
    · rename_i hne
      have : (buf.drop mp).length < n := by simp [List.length_drop]; omega
      intro c hcm
      simp only [List.mem_cons] at hcm
      rcases hcm with rfl | hcm
      · simp [List.length_take]; omega
      · exact ih _ this (buf.drop mp) rfl c hcm

theorem chunkSpec_ne_nil (mp : Nat) (buf : Bytes) : chunkSpec mp buf ≠ [] := by
  rw [chunkSpec_unfold]; split <;> simp

/-- a payload that fits is sent as exactly one frame (message boundaries are kept) -/
theorem chunkSpec_small (mp : Nat) (buf : Bytes) (h : buf.length ≤ mp) :
    chunkSpec mp buf = [buf] := by
  rw [chunkSpec_unfold]; simp [h]

/-! ### decode ∘ encode -/

theorem decode_short (s : Bytes) (h : s.length < 8) : decode s = ([], s) := by
  match s, h with
  | [], _ => rw [decode]; simp
  | [_], _ => rw [decode]; simp
  | [_, _], _ => rw [decode]; simp
  | [_, _, _], _ => rw [decode]; simp
  | [_, _, _, _], _ => rw [decode]; simp
  | [_, _, _, _, _], _ => rw [decode]; simp
  | [_, _, _, _, _, _], _ => rw [decode]; simp
  | [_, _, _, _, _, _, _], _ => rw [decode]; simp
  | _ :: _ :: _ :: _ :: _ :: _ :: _ :: _ :: _, h => simp at h; omega

theorem be32Encode_be32 (a b c d : UInt8) : be32Encode (be32 a b c d) = [a, b, c, d] := by
  have ha := a.toNat_lt; have hb := b.toNat_lt; have hc := c.toNat_lt; have hd := d.toNat_lt
  simp only [be32Encode, be32, List.cons.injEq, and_true]
  refine ⟨?_, ?_, ?_, ?_⟩ <;> apply UInt8.toNat_inj.mp <;> simp only [UInt8.toNat_ofNat'] <;> omega

theorem decode_frame (f : Frame) (hid : f.id < 4294967296) (hlen : f.payload.length < 4294967296)
    (s : Bytes) : decode (encodeFrame f ++ s) = (f :: (decode s).1, (decode s).2) := by
  simp only [encodeFrame, be32Encode, List.cons_append, List.nil_append]
  rw [decode]
  simp only [be32_ofNat _ hid, be32_ofNat _ hlen]
  simp

theorem decode_frames (fs : List Frame) (h : ∀ f ∈ fs, f.id < 4294967296 ∧ f.payload.length < 4294967296)
    (s : Bytes) : decode (encodeFrames fs ++ s) = (fs ++ (decode s).1, (decode s).2) := by
  induction fs with
  | nil => simp [encodeFrames]
  | cons f fs ih =>
    have hf := h f (List.mem_cons_self)
    have hfs : ∀ g ∈ fs, g.id < 4294967296 ∧ g.payload.length < 4294967296 :=
      fun g hg => h g (List.mem_cons_of_mem _ hg)
    simp only [encodeFrames, List.flatMap_cons, List.append_assoc] at ih ⊢
    rw [decode_frame f hf.1 hf.2, ih hfs]
    simp

theorem decode_nil : decode [] = ([], []) := decode_short [] (by simp)

/-! ### truncation: decode is monotone for the prefix order -/

theorem decode_append_prefix (a t : Bytes) : (decode a).1 <+: (decode (a ++ t)).1 := by
  induction h : a.length using Nat.strongRecOn generalizing a with
  | _ n ih =>
    match a, h with
    | x0 :: x1 :: x2 :: x3 :: x4 :: x5 :: x6 :: x7 :: rest, h =>
      rw [decode]
      simp only [List.cons_append]
      rw [decode]
      by_cases hc : (rest.take (be32 x4 x5 x6 x7)).length = be32 x4 x5 x6 x7
      · have hle : be32 x4 x5 x6 x7 ≤ rest.length := by
          rw [List.length_take] at hc; omega
        have ht : (rest ++ t).take (be32 x4 x5 x6 x7) = rest.take (be32 x4 x5 x6 x7) := by
          rw [List.take_append_of_le_length hle]
        have hd : (rest ++ t).drop (be32 x4 x5 x6 x7) = rest.drop (be32 x4 x5 x6 x7) ++ t := by
          rw [List.drop_append_of_le_length hle]
        simp only [hc, ht, hd, if_true]
        have hlt : (rest.drop (be32 x4 x5 x6 x7)).length < n := by
          simp [List.length_drop] at h ⊢; omega
        have := ih _ hlt (rest.drop (be32 x4 x5 x6 x7)) rfl
        exact List.prefix_cons_inj _ |>.mpr this
      · simp only [hc, if_false]
        exact List.nil_prefix
    | [], _ => rw [decode_short _ (by simp)]; exact List.nil_prefix
    | [_], _ => rw [decode_short _ (by simp)]; exact List.nil_prefix
    | [_, _], _ => rw [decode_short _ (by simp)]; exact List.nil_prefix
    | [_, _, _], _ => rw [decode_short _ (by simp)]; exact List.nil_prefix
    | [_, _, _, _], _ => rw [decode_short _ (by simp)]; exact List.nil_prefix
    | [_, _, _, _, _], _ => rw [decode_short _ (by simp)]; exact List.nil_prefix
    | [_, _, _, _, _, _], _ => rw [decode_short _ (by simp)]; exact List.nil_prefix
    | [_, _, _, _, _, _, _], _ => rw [decode_short _ (by simp)]; exact List.nil_prefix

theorem decode_prefix_mono {a b : Bytes} (h : a <+: b) : (decode a).1 <+: (decode b).1 := by
  obtain ⟨t, rfl⟩ := h
  exact decode_append_prefix a t

/-- whatever `decode` returns re-encodes to the input: nothing is invented or damaged -/
theorem decode_sound (s : Bytes) : encodeFrames (decode s).1 ++ (decode s).2 = s := by
  induction h : s.length using Nat.strongRecOn generalizing s with
  | _ n ih =>
    match s, h with
    | x0 :: x1 :: x2 :: x3 :: x4 :: x5 :: x6 :: x7 :: rest, h =>
      rw [decode]
      by_cases hc : (rest.take (be32 x4 x5 x6 x7)).length = be32 x4 x5 x6 x7
      · simp only [hc, if_true]
        have hlt : (rest.drop (be32 x4 x5 x6 x7)).length < n := by
          simp [List.length_drop] at h ⊢; omega
        have := ih _ hlt (rest.drop (be32 x4 x5 x6 x7)) rfl
        simp only [encodeFrames, List.flatMap_cons, List.append_assoc] at this ⊢
        rw [this]
        simp only [encodeFrame, hc, be32Encode_be32, List.cons_append, List.nil_append,
          List.take_append_drop]
      · simp only [hc, if_false, encodeFrames]; simp
    | [], _ => rw [decode_short _ (by simp)]; rfl
    | [_], _ => rw [decode_short _ (by simp)]; rfl
    | [_, _], _ => rw [decode_short _ (by simp)]; rfl
    | [_, _, _], _ => rw [decode_short _ (by simp)]; rfl
    | [_, _, _, _], _ => rw [decode_short _ (by simp)]; rfl
    | [_, _, _, _, _], _ => rw [decode_short _ (by simp)]; rfl
    | [_, _, _, _, _, _], _ => rw [decode_short _ (by simp)]; rfl
    | [_, _, _, _, _, _, _], _ => rw [decode_short _ (by simp)]; rfl

end Nri.Mux
