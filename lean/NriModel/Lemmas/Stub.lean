/-
Helper lemmas for C15 about `Stub.setupHandlers`, `Stub.dispatch` and split synchronisation.
Core Lean only.
-/
import NriModel.Stub
import NriModel.Lemmas.StubMask

namespace Nri.Lemmas.Stub
open Nri Nri.Events Nri.Stub Nri.Lemmas.StubMask

theorem setup_ok {p : Plugin} {hd : Handlers} (h : setupHandlers p = .ok hd) :
    hd = setupOrder.foldl (setupStep p) Handlers.empty ∧ subscribe p ≠ 0#32 := by
  unfold setupHandlers at h
  simp only at h
  split at h
  · cases h
  · rename_i hne
    injection h with h
    exact ⟨h.symm, hne⟩

theorem bound_of_new {p : Plugin} {hd : Handlers} (h : setupHandlers p = .ok hd) (s : Slot) :
    hd.bound s = if p.has s = true then some s else none := by
  rw [(setup_ok h).1, foldl_bound]
  simp [mem_setupOrder, Handlers.empty]

theorem events_of_new {p : Plugin} {hd : Handlers} (h : setupHandlers p = .ok hd) :
    hd.events = subscribe p := by
  rw [(setup_ok h).1]; rfl

theorem setup_error {p : Plugin} {e : Err} (h : setupHandlers p = .error e) :
    e = .noHandlers ∧ subscribe p = 0#32 := by
  unfold setupHandlers at h
  simp only at h
  split at h
  · rename_i hz
    injection h with h
    exact ⟨h.symm, hz⟩
  · cases h

theorem setup_of_ne {p : Plugin} (h : subscribe p ≠ 0#32) :
    setupHandlers p = .ok (setupOrder.foldl (setupStep p) Handlers.empty) := by
  unfold setupHandlers
  simp only
  rw [if_neg]
  exact h

theorem setup_of_eq {p : Plugin} (h : subscribe p = 0#32) : setupHandlers p = .error .noHandlers := by
  unfold setupHandlers
  simp only
  rw [if_pos]
  exact h

/-- the thirteen event numbers -/
theorem event_cases {e : Nat} {s : Slot} (h : slotOfEvent e = some s) :
    (e = 1 ∧ s = .runPodSandbox) ∨ (e = 2 ∧ s = .stopPodSandbox) ∨ (e = 3 ∧ s = .removePodSandbox) ∨
    (e = 4 ∧ s = .createContainer) ∨ (e = 5 ∧ s = .postCreateContainer) ∨ (e = 6 ∧ s = .startContainer) ∨
    (e = 7 ∧ s = .postStartContainer) ∨ (e = 8 ∧ s = .updateContainer) ∨ (e = 9 ∧ s = .postUpdateContainer) ∨
    (e = 10 ∧ s = .stopContainer) ∨ (e = 11 ∧ s = .removeContainer) ∨ (e = 12 ∧ s = .updatePodSandbox) ∨
    (e = 13 ∧ s = .postUpdatePodSandbox) := by
  have he := slotOfEvent_event.mp h
  cases s <;> simp [Slot.event] at he <;> subst he <;> simp

/-- what `dispatch` does with the request for event `e`, given the handler table of a
    correctly created stub -/
theorem dispatch_event {β : Type} {p : Plugin} {hd : Handlers} (hnew : setupHandlers p = .ok hd)
    (b : Behaviour β) (d : Dyn β) {e : Nat} {s : Slot} (hs : slotOfEvent e = some s) (m : Msg β) :
    dispatch hd b d (requestFor e m) =
      if p.has s = true then
        ⟨[⟨s, argsFor e m⟩], reply (b s (argsFor e m)) (replyFor e (b s (argsFor e m))), d⟩
      else ⟨[], .ok (emptyReplyFor e), d⟩ := by
  have hb := bound_of_new hnew
  rcases event_cases hs with h|h|h|h|h|h|h|h|h|h|h|h|h <;> obtain ⟨he, hs'⟩ := h <;> subst he <;> subst hs' <;>
    cases hp : p.has _ <;>
    simp [requestFor, dispatch, stateChange, callPod, callPodCtr, hb, hp, argsFor, replyFor, emptyReplyFor]

/-- pods and containers of a list of chunks, concatenated in order -/
def podsOf {β : Type} (chunks : List (List β × List β)) : List β := (chunks.map (·.1)).flatten
def ctrsOf {β : Type} (chunks : List (List β × List β)) : List β := (chunks.map (·.2)).flatten

def accOf {β : Type} (acc : Option (List β × List β)) : List β × List β :=
  match acc with
  | none => ([], [])
  | some a => a

/-- collecting `More` chunks never calls the plugin and accumulates in order -/
theorem run_collect {β : Type} (hd : Handlers) (b : Behaviour β) (m : Method)
    (hm : hd.bound .synchronize = some m)
    (chunks : List (List β × List β)) (rest : List (Request β)) (d : Dyn β) :
    ∃ d', (∀ o ∈ (run hd b d (chunks.map (fun c => Request.synchronize c.1 c.2 true))), o.calls = [] ∧
              o.result = .ok (.synchronize [] true)) ∧
      run hd b d (chunks.map (fun c => Request.synchronize c.1 c.2 true) ++ rest) =
        run hd b d (chunks.map (fun c => Request.synchronize c.1 c.2 true)) ++ run hd b d' rest ∧
      (chunks = [] → d' = d) ∧
      (chunks ≠ [] → d'.syncReq = some ((accOf d.syncReq).1 ++ podsOf chunks, (accOf d.syncReq).2 ++ ctrsOf chunks)) ∧
      d'.regTimeoutNs = d.regTimeoutNs ∧ d'.reqTimeoutNs = d.reqTimeoutNs := by
  induction chunks generalizing d with
  | nil => exact ⟨d, by simp [run], by simp [run], fun _ => rfl, fun h => absurd rfl h, rfl, rfl⟩
  | cons c cs ih =>
    let d1 : Dyn β := (dispatch hd b d (Request.synchronize c.1 c.2 true)).dyn
    obtain ⟨d', hall, hrun, hnil, hne, ht1, ht2⟩ := ih d1
    have hd1 : d1 = { d with syncReq := some (accumulate d.syncReq c.1 c.2) } := by
      simp [d1, dispatch, synchronize, hm]
    refine ⟨d', ?_, ?_, ?_, ?_, ?_, ?_⟩
    · intro o ho
      simp only [List.map_cons, run, List.mem_cons] at ho
      rcases ho with ho | ho
      · subst ho; simp [dispatch, synchronize, hm]
      · exact hall o ho
    · simp only [List.map_cons, List.cons_append, run]
      rw [hrun]
    · intro h; cases h
    · intro _
      by_cases hcs : cs = []
      · subst hcs
        rw [hnil rfl, hd1]
        cases hsr : d.syncReq with
        | none => simp [accOf, podsOf, ctrsOf, accumulate]
        | some a => obtain ⟨ps, cs'⟩ := a; simp [accOf, podsOf, ctrsOf, accumulate]
      · rw [hne hcs, hd1]
        cases hsr : d.syncReq with
        | none => simp [accOf, podsOf, ctrsOf, accumulate]
        | some a => obtain ⟨ps, cs'⟩ := a; simp [accOf, podsOf, ctrsOf, accumulate, List.append_assoc]
    · rw [ht1, hd1]
    · rw [ht2, hd1]

/-! ### restarting one stub -/

/-- Every request: what is invoked and answered, and what is left collected, depends on the
    mutable state through the collected synchronisation chunks only — never on the timeouts. -/
theorem dispatch_equiv {β : Type} (hd : Handlers) (b : Behaviour β) (d d' : Dyn β)
    (h : d.syncReq = d'.syncReq) (r : Request β) :
    (dispatch hd b d r).visible = (dispatch hd b d' r).visible ∧
    (dispatch hd b d r).dyn.syncReq = (dispatch hd b d' r).dyn.syncReq := by
  obtain ⟨sr, a1, a2⟩ := d
  obtain ⟨sr', a1', a2'⟩ := d'
  simp only at h
  subst h
  cases r with
  | configure c rn v regMs reqMs =>
    simp only [dispatch, takeTimeouts, Outcome.visible]
    cases configure hd b c rn v
    exact ⟨trivial, trivial⟩
  | synchronize pods ctrs more =>
    simp only [dispatch, synchronize, Outcome.visible]
    cases hd.bound .synchronize with
    | none => exact ⟨rfl, rfl⟩
    | some m => cases more <;> exact ⟨rfl, rfl⟩
  | shutdown =>
    simp only [dispatch, Outcome.visible]
    cases hd.bound .shutdown <;> exact ⟨rfl, rfl⟩
  | createContainer pod ctr =>
    simp only [dispatch, Outcome.visible]
    cases hd.bound .createContainer <;> exact ⟨rfl, rfl⟩
  | updateContainer pod ctr res =>
    simp only [dispatch, Outcome.visible]
    cases hd.bound .updateContainer <;> exact ⟨rfl, rfl⟩
  | stopContainer pod ctr =>
    simp only [dispatch, Outcome.visible]
    cases hd.bound .stopContainer <;> exact ⟨rfl, rfl⟩
  | updatePodSandbox pod ovh res =>
    simp only [dispatch, Outcome.visible]
    cases hd.bound .updatePodSandbox <;> exact ⟨rfl, rfl⟩
  | stateChange e pod ctr =>
    simp only [dispatch, stateChange, Outcome.visible]
    split <;> first
      | exact ⟨trivial, trivial⟩
      | exact ⟨rfl, rfl⟩
      | (simp only [callPod]; split <;> first | exact ⟨trivial, trivial⟩ | exact ⟨rfl, rfl⟩)
      | (simp only [callPodCtr]; split <;> first | exact ⟨trivial, trivial⟩ | exact ⟨rfl, rfl⟩)

/-- the registration timeout stays positive whatever is requested -/
theorem dispatch_reg_pos {β : Type} (hd : Handlers) (b : Behaviour β) (d : Dyn β) (r : Request β)
    (h : 0 < d.regTimeoutNs) : 0 < (dispatch hd b d r).dyn.regTimeoutNs := by
  cases r with
  | configure c rn v regMs reqMs =>
    simp only [dispatch, takeTimeouts]
    cases configure hd b c rn v
    show 0 < (if regMs > 0 then regMs * 1000000 else d.regTimeoutNs)
    split <;> omega
  | synchronize pods ctrs more =>
    simp only [dispatch, synchronize]
    cases hd.bound .synchronize with
    | none => exact h
    | some m => cases more <;> exact h
  | shutdown => simp only [dispatch]; cases hd.bound .shutdown <;> exact h
  | createContainer pod ctr => simp only [dispatch]; cases hd.bound .createContainer <;> exact h
  | updateContainer pod ctr res => simp only [dispatch]; cases hd.bound .updateContainer <;> exact h
  | stopContainer pod ctr => simp only [dispatch]; cases hd.bound .stopContainer <;> exact h
  | updatePodSandbox pod ovh res => simp only [dispatch]; cases hd.bound .updatePodSandbox <;> exact h
  | stateChange e pod ctr =>
    simp only [dispatch, stateChange]
    split <;> first
      | exact h
      | (simp only [callPod]; split <;> exact h)
      | (simp only [callPodCtr]; split <;> exact h)

theorem runReqs_equiv {β : Type} (hd : Handlers) (reqs : List (Behaviour β × Request β)) (d d' : Dyn β)
    (h : d.syncReq = d'.syncReq) :
    (runReqs hd d reqs).1.map Outcome.visible = (runReqs hd d' reqs).1.map Outcome.visible ∧
    (runReqs hd d reqs).2.syncReq = (runReqs hd d' reqs).2.syncReq := by
  induction reqs generalizing d d' with
  | nil => exact ⟨rfl, h⟩
  | cons br rest ih =>
    obtain ⟨b, r⟩ := br
    have h1 := dispatch_equiv hd b d d' h r
    have h2 := ih (dispatch hd b d r).dyn (dispatch hd b d' r).dyn h1.2
    simp only [runReqs, List.map_cons]
    exact ⟨by rw [h1.1, h2.1], h2.2⟩

theorem runReqs_reg_pos {β : Type} (hd : Handlers) (reqs : List (Behaviour β × Request β)) (d : Dyn β)
    (h : 0 < d.regTimeoutNs) : 0 < (runReqs hd d reqs).2.regTimeoutNs := by
  induction reqs generalizing d with
  | nil => exact h
  | cons br rest ih =>
    obtain ⟨b, r⟩ := br
    simp only [runReqs]
    exact ih _ (dispatch_reg_pos hd b d r h)

theorem finishSession_equiv {β : Type} (st st' : StubState β) (hh : st.handlers = st'.handlers)
    (s : Session β) (o o' : Outcome β) (hv : o.visible = o'.visible) (hs : o.dyn.syncReq = o'.dyn.syncReq) :
    (finishSession st s o).1.visible = (finishSession st' s o').1.visible ∧
    (finishSession st s o).2.handlers = st.handlers ∧
    (finishSession st s o).2.dyn.syncReq = (finishSession st' s o').2.dyn.syncReq := by
  obtain ⟨c, r, d⟩ := o
  obtain ⟨c', r', d'⟩ := o'
  simp only [Outcome.visible, Prod.mk.injEq] at hv
  obtain ⟨hc, hr⟩ := hv
  subst hc
  subst hr
  simp only at hs
  unfold finishSession
  rw [← hh]
  cases r with
  | error e => exact ⟨rfl, rfl, hs⟩
  | ok rp =>
    have := runReqs_equiv st.handlers s.reqs d d' hs
    simp only [SessionOut.visible, Outcome.visible]
    exact ⟨by rw [this.1], trivial, trivial⟩

/-- a session of a stub that can register: everything visible, and what is left collected,
    depend on the state through the handler table and the collected chunks only -/
theorem runSession_equiv {β : Type} (st st' : StubState β) (hh : st.handlers = st'.handlers)
    (hs : st.dyn.syncReq = st'.dyn.syncReq) (hp : 0 < st.dyn.regTimeoutNs) (hp' : 0 < st'.dyn.regTimeoutNs)
    (s : Session β) :
    (runSession st s).1.visible = (runSession st' s).1.visible ∧
    (runSession st s).2.dyn.syncReq = (runSession st' s).2.dyn.syncReq := by
  unfold runSession
  simp only [registers, hp, hp', decide_true, if_true]
  have hd := dispatch_equiv st.handlers s.cfgB st.dyn st'.dyn hs
    (.configure s.config s.runtime s.version s.regMs s.reqMs)
  have := finishSession_equiv st st' hh s _ _ hd.1 hd.2
  rw [← hh]
  exact ⟨this.1, this.2.2⟩

theorem finishSession_state {β : Type} (st : StubState β) (s : Session β) (o : Outcome β) :
    (finishSession st s o).2.handlers = st.handlers ∧
    (o.dyn.syncReq = none → (finishSession st s o).2.dyn.syncReq = none) ∧
    (0 < o.dyn.regTimeoutNs → 0 < (finishSession st s o).2.dyn.regTimeoutNs) := by
  unfold finishSession
  cases hres : o.result with
  | error e => exact ⟨rfl, id, id⟩
  | ok rp => exact ⟨rfl, fun _ => rfl, fun h => runReqs_reg_pos st.handlers s.reqs o.dyn h⟩

theorem runSession_state {β : Type} (st : StubState β) (s : Session β) :
    (runSession st s).2.handlers = st.handlers ∧
    (st.dyn.syncReq = none → (runSession st s).2.dyn.syncReq = none) ∧
    (0 < st.dyn.regTimeoutNs → 0 < (runSession st s).2.dyn.regTimeoutNs) := by
  unfold runSession
  by_cases hr : registers st.dyn = true
  · simp only [hr, if_true]
    have hf := finishSession_state st s
      (dispatch st.handlers s.cfgB st.dyn (.configure s.config s.runtime s.version s.regMs s.reqMs))
    have he := dispatch_equiv st.handlers s.cfgB st.dyn st.dyn rfl
      (.configure s.config s.runtime s.version s.regMs s.reqMs)
    refine ⟨hf.1, fun h => hf.2.1 ?_, fun h => hf.2.2 (dispatch_reg_pos _ _ _ _ h)⟩
    simp only [dispatch, takeTimeouts]
    cases configure st.handlers s.cfgB s.config s.runtime s.version
    exact h
  · simp only [hr]
    exact ⟨rfl, id, id⟩

theorem runSessions_state {β : Type} (st : StubState β) (ss : List (Session β)) :
    (runSessions st ss).2.handlers = st.handlers ∧
    (st.dyn.syncReq = none → (runSessions st ss).2.dyn.syncReq = none) ∧
    (0 < st.dyn.regTimeoutNs → 0 < (runSessions st ss).2.dyn.regTimeoutNs) := by
  induction ss generalizing st with
  | nil => exact ⟨rfl, id, id⟩
  | cons s rest ih =>
    have h1 := runSession_state st s
    have h2 := ih (runSession st s).2
    simp only [runSessions]
    exact ⟨h2.1.trans h1.1, fun h => h2.2.1 (h1.2.1 h), fun h => h2.2.2 (h1.2.2 h)⟩

theorem runSessions_append {β : Type} (st : StubState β) (pre : List (Session β)) (s : Session β) :
    (runSessions st (pre ++ [s])).1 = (runSessions st pre).1 ++ [(runSession (runSessions st pre).2 s).1] := by
  induction pre generalizing st with
  | nil => simp [runSessions]
  | cons p rest ih => simp [runSessions, ih]

theorem runSession_cfg {β : Type} (st : StubState β) (s : Session β) (hp : 0 < st.dyn.regTimeoutNs) :
    (runSession st s).1.cfg =
      dispatch st.handlers s.cfgB st.dyn (.configure s.config s.runtime s.version s.regMs s.reqMs) := by
  unfold runSession finishSession
  simp only [registers, hp, decide_true, if_true]
  cases hres : (dispatch st.handlers s.cfgB st.dyn
      (Request.configure s.config s.runtime s.version s.regMs s.reqMs)).result <;> rfl

theorem dispatch_configure_eq {β : Type} (hd : Handlers) (b : Behaviour β) (d : Dyn β)
    (c r v : Str) (regMs reqMs : Int) :
    (dispatch hd b d (.configure c r v regMs reqMs)).calls = (configure hd b c r v).1 ∧
    (dispatch hd b d (.configure c r v regMs reqMs)).result = (configure hd b c r v).2.map Reply.configure ∧
    (dispatch hd b d (.configure c r v regMs reqMs)).dyn = takeTimeouts d regMs reqMs := by
  simp only [dispatch]
  cases configure hd b c r v
  exact ⟨trivial, trivial, trivial⟩

end Nri.Lemmas.Stub
