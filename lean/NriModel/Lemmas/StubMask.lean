/-
Helper lemmas for C15/C17: bit-level facts about `Events.isSet/set/valid` and the fold of
`Stub.setupHandlers`. Core Lean only.
-/
import NriModel.Stub

namespace Nri.Lemmas.StubMask
open Nri Nri.Events Nri.Stub

/-- `IsSet(e)` reads bit `e-1` (for every `e`, also those whose shift leaves the word). -/
theorem isSet_eq_getLsbD (m : Mask) (e : Nat) : isSet m e = m.getLsbD (e - 1) := by
  unfold isSet Events.bit
  rw [← BitVec.twoPow_eq, BitVec.and_twoPow]
  by_cases h : m.getLsbD (e-1)
  · have hlt : e - 1 < 32 := BitVec.lt_of_getLsbD h
    simp [h]
    intro hz
    have := congrArg (fun v => BitVec.getLsbD v (e-1)) hz
    simp [hlt] at this
  · simp [h]

theorem getLsbD_bit (e i : Nat) : (Events.bit e).getLsbD i = (decide (e - 1 < 32) && decide (e - 1 = i)) := by
  unfold Events.bit
  rw [← BitVec.twoPow_eq, BitVec.getLsbD_twoPow]

theorem getLsbD_set (m : Mask) (e i : Nat) :
    (set m e).getLsbD i = (m.getLsbD i || (decide (e - 1 < 32) && decide (e - 1 = i))) := by
  unfold Events.set
  rw [BitVec.getLsbD_or, getLsbD_bit]

theorem getLsbD_valid (i : Nat) : valid.getLsbD i = decide (i < 13) := by
  have hv : valid = 0x1fff#32 := by decide
  rw [hv]
  by_cases h : i < 13
  · have : i = 0 ∨ i = 1 ∨ i = 2 ∨ i = 3 ∨ i = 4 ∨ i = 5 ∨ i = 6 ∨ i = 7 ∨ i = 8 ∨ i = 9 ∨
        i = 10 ∨ i = 11 ∨ i = 12 := by omega
    rcases this with h|h|h|h|h|h|h|h|h|h|h|h|h <;> subst h <;> decide
  · simp only [h, decide_false]
    by_cases h32 : i < 32
    · have : i = 13 ∨ i = 14 ∨ i = 15 ∨ i = 16 ∨ i = 17 ∨ i = 18 ∨ i = 19 ∨ i = 20 ∨ i = 21 ∨
          i = 22 ∨ i = 23 ∨ i = 24 ∨ i = 25 ∨ i = 26 ∨ i = 27 ∨ i = 28 ∨ i = 29 ∨ i = 30 ∨
          i = 31 := by omega
      rcases this with h|h|h|h|h|h|h|h|h|h|h|h|h|h|h|h|h|h|h <;> subst h <;> decide
    · exact BitVec.getLsbD_of_ge _ _ (by omega)

/-- a mask has no bit outside `ValidEvents` iff all its bits lie below 13 -/
theorem and_not_valid_eq_zero_iff (m : Mask) :
    m &&& ~~~valid = 0#32 ↔ ∀ i, m.getLsbD i = true → i < 13 := by
  constructor
  · intro h i hi
    have := congrArg (fun v => BitVec.getLsbD v i) h
    simp only [BitVec.getLsbD_and, BitVec.getLsbD_not, getLsbD_valid, hi, Bool.true_and,
      BitVec.getLsbD_zero] at this
    have hlt : i < 32 := BitVec.lt_of_getLsbD hi
    simp [hlt] at this
    exact this
  · intro h
    apply BitVec.eq_of_getLsbD_eq
    intro i hi
    simp only [BitVec.getLsbD_and, BitVec.getLsbD_not, getLsbD_valid, BitVec.getLsbD_zero]
    by_cases hm : m.getLsbD i
    · have := h i hm
      simp [this]
    · simp [hm]

/-! ### the handler table built by `setupHandlers` -/

theorem event_range {s : Slot} {e : Nat} (h : s.event = some e) : 1 ≤ e ∧ e ≤ 13 := by
  cases s <;> simp [Slot.event] at h <;> subst h <;> decide

/-- a slot with an event is implemented iff the plugin's bit for that event is set -/
theorem has_of_event (p : Plugin) {s : Slot} {e : Nat} (h : s.event = some e) :
    p.has s = p.ev.getLsbD (e - 1) := by
  cases s <;> simp [Slot.event] at h <;> subst h <;> rfl

theorem slotOfEvent_event {e : Nat} {s : Slot} : slotOfEvent e = some s ↔ s.event = some e := by
  constructor
  · intro h
    unfold slotOfEvent at h
    split at h <;> simp at h <;> subst h <;> rfl
  · intro h
    cases s <;> simp [Slot.event] at h <;> subst h <;> rfl

theorem slotOfEvent_isSome {e : Nat} (h1 : 1 ≤ e) (h13 : e ≤ 13) : ∃ s, slotOfEvent e = some s := by
  have : e = 1 ∨ e = 2 ∨ e = 3 ∨ e = 4 ∨ e = 5 ∨ e = 6 ∨ e = 7 ∨ e = 8 ∨ e = 9 ∨ e = 10 ∨
      e = 11 ∨ e = 12 ∨ e = 13 := by omega
  rcases this with h|h|h|h|h|h|h|h|h|h|h|h|h <;> subst h <;> exact ⟨_, rfl⟩

theorem mem_setupOrder (s : Slot) : s ∈ setupOrder := by
  cases s <;> simp [setupOrder]

/-- the table after any prefix of the blocks: each slot met so far and implemented is bound
    to its own method; nothing else changes -/
theorem foldl_bound (p : Plugin) (l : List Slot) (h : Handlers) (t : Slot) :
    (l.foldl (setupStep p) h).bound t = if t ∈ l ∧ p.has t = true then some t else h.bound t := by
  induction l generalizing h with
  | nil => simp
  | cons s rest ih =>
    rw [List.foldl_cons, ih]
    cases ht : p.has t with
    | false =>
      simp only [Bool.false_eq_true, and_false, if_false]
      unfold setupStep
      cases hs : p.has s with
      | false => simp
      | true =>
        have hts : t ≠ s := by intro h'; subst h'; simp [ht] at hs
        simp [hts]
    | true =>
      by_cases hin : t ∈ rest
      · simp [hin]
      · simp only [hin, false_and, if_false, List.mem_cons, and_true, or_false]
        unfold setupStep
        cases hs : p.has s with
        | false =>
          have hts : t ≠ s := by intro h'; subst h'; simp [ht] at hs
          simp [hts]
        | true =>
          by_cases hts : t = s
          · subst hts; simp
          · simp [hts]

/-- the mask after any prefix of the blocks, bit by bit -/
theorem foldl_events (p : Plugin) (l : List Slot) (h : Handlers) (i : Nat) :
    (l.foldl (setupStep p) h).events.getLsbD i =
      (h.events.getLsbD i || l.any (fun s => p.has s && decide (s.event = some (i + 1)))) := by
  induction l generalizing h with
  | nil => simp
  | cons s rest ih =>
    rw [List.foldl_cons, ih, List.any_cons]
    unfold setupStep
    by_cases hs : p.has s = true
    · simp only [hs, if_true, Bool.true_and]
      cases he : s.event with
      | none => simp
      | some e =>
        have hr := event_range he
        simp only [getLsbD_set]
        have h32 : e - 1 < 32 := by omega
        have heq : decide (e - 1 = i) = decide (some e = some (i + 1)) := by
          by_cases hh : e - 1 = i
          · have : e = i + 1 := by omega
            simp [hh, this]
          · have : ¬ e = i + 1 := by omega
            simp [hh, this]
        simp [h32, heq, Bool.or_assoc]
    · have hsf : p.has s = false := by simpa using hs
      simp [hsf]

theorem any_event (i : Nat) :
    setupOrder.any (fun s => decide (s.event = some (i + 1))) = decide (i < 13) := by
  by_cases h : i < 13
  · have : i = 0 ∨ i = 1 ∨ i = 2 ∨ i = 3 ∨ i = 4 ∨ i = 5 ∨ i = 6 ∨ i = 7 ∨ i = 8 ∨ i = 9 ∨
        i = 10 ∨ i = 11 ∨ i = 12 := by omega
    rcases this with h|h|h|h|h|h|h|h|h|h|h|h|h <;> subst h <;> decide
  · simp only [h, decide_false]
    rw [List.any_eq_false]
    intro s _
    simp only [decide_eq_true_eq]
    intro he
    have := event_range he
    exact h (by omega)

theorem any_has_event (p : Plugin) (l : List Slot) (i : Nat) :
    l.any (fun s => p.has s && decide (s.event = some (i + 1))) =
      (p.ev.getLsbD i && l.any (fun s => decide (s.event = some (i + 1)))) := by
  induction l with
  | nil => simp
  | cons s rest ih =>
    rw [List.any_cons, List.any_cons, ih]
    by_cases he : s.event = some (i + 1)
    · have := has_of_event p he
      simp only [Nat.add_sub_cancel] at this
      cases hb : p.ev.getLsbD i <;> simp [he, this, hb]
    · simp [he]

/-- `stub.events` is exactly the plugin's thirteen handler bits, zero-extended -/
theorem subscribe_eq (p : Plugin) : subscribe p = p.ev.setWidth 32 := by
  apply BitVec.eq_of_getLsbD_eq
  intro i hi
  unfold subscribe
  rw [foldl_events, any_has_event, any_event, BitVec.getLsbD_setWidth]
  simp only [Handlers.empty, BitVec.getLsbD_zero, Bool.false_or, hi, decide_true, Bool.true_and]
  by_cases h13 : i < 13
  · simp [h13]
  · have : p.ev.getLsbD i = false := BitVec.getLsbD_of_ge _ _ (by omega)
    simp [this]

theorem subscribe_eq_zero_iff (p : Plugin) : subscribe p = 0#32 ↔ p.ev = 0#13 := by
  rw [subscribe_eq]
  constructor
  · intro h
    apply BitVec.eq_of_getLsbD_eq
    intro i hi
    have := congrArg (fun v => BitVec.getLsbD v i) h
    simp only [BitVec.getLsbD_setWidth, BitVec.getLsbD_zero] at this
    have h32 : i < 32 := by omega
    simpa [h32] using this
  · intro h
    rw [h]
    decide

end Nri.Lemmas.StubMask
