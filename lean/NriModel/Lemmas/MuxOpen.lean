/-
Invariants of the atomic `Open` / `Close` of `NriModel/MuxOpen.lean`.
Core Lean only.
-/
import NriModel.MuxOpen

namespace Nri.MuxOpen

theorem lookup_some_mem {t : List (Nat × Nat)} {id h : Nat} (hl : lookup t id = some h) : (id, h) ∈ t := by
  unfold lookup at hl
  cases hf : t.find? (·.1 == id) with
  | none => simp [hf] at hl
  | some p =>
    simp [hf] at hl
    have hm := List.mem_of_find?_eq_some hf
    have hp := List.find?_some hf
    simp at hp
    obtain ⟨a, b⟩ := p
    simp at hl hp
    subst hl; subst hp
    exact hm

theorem lookup_none_not_mem {t : List (Nat × Nat)} {id : Nat} (hl : lookup t id = none) :
    id ∉ t.map (·.1) := by
  unfold lookup at hl
  cases hf : t.find? (·.1 == id) with
  | some p => simp [hf] at hl
  | none =>
    intro hm
    simp only [List.mem_map] at hm
    obtain ⟨p, hp, rfl⟩ := hm
    have := List.find?_eq_none.mp hf p hp
    simp at this

theorem OInv.init : OInv {} :=
  ⟨(by intro p hp; cases hp), (by simp), (by intro h; cases h)⟩

theorem openAtomic_inv {s : OSt} (h : OInv s) (id : Nat) : OInv (openAtomic s id).1 := by
  unfold openAtomic
  cases hl : lookup s.table id with
  | some x => exact h
  | none =>
    refine ⟨?_, ?_, ?_⟩
    · intro p hp
      simp only [List.mem_cons] at hp
      rcases hp with rfl | hp
      · simp
      · have := h.bound p hp; simp; omega
    · simp only [List.map_cons, List.nodup_cons]
      exact ⟨lookup_none_not_mem hl, h.nodup⟩
    · intro hc p hp
      simp only at hc
      simp only [hc, if_true, List.mem_cons] at hp ⊢
      rcases hp with rfl | hp
      · exact Or.inl rfl
      · exact Or.inr (h.closed hc p hp)

theorem closeMux_inv {s : OSt} (h : OInv s) : OInv (closeMux s) := by
  unfold closeMux
  refine ⟨h.bound, h.nodup, ?_⟩
  intro _ p hp
  simp only [List.mem_append, List.mem_map]
  exact Or.inl ⟨p, hp, rfl⟩

theorem ostep_inv {s : OSt} (h : OInv s) (e : Ev) : OInv (ostep s e) := by
  cases e with
  | «open» id => exact openAtomic_inv h id
  | close => exact closeMux_inv h

theorem orun_inv (evs : List Ev) {s : OSt} (h : OInv s) : OInv (orun evs s) := by
  unfold orun
  induction evs generalizing s with
  | nil => exact h
  | cons e evs ih => exact ih (ostep_inv h e)

/-- a registered id stays registered under the same handle (this model has no per-connection close) -/
theorem ostep_lookup {s : OSt} {id h : Nat} (hl : lookup s.table id = some h) (e : Ev) :
    lookup (ostep s e).table id = some h := by
  cases e with
  | close => exact hl
  | «open» id' =>
    simp only [ostep, openAtomic]
    cases hl' : lookup s.table id' with
    | some x => exact hl
    | none =>
      simp only
      unfold lookup
      by_cases hid : id' = id
      · subst hid; rw [hl] at hl'; cases hl'
      · have : ((id', s.nobjs).1 == id) = false := by simp [hid]
        rw [List.find?_cons_of_neg (by simpa using hid)]
        exact hl

theorem orun_lookup (evs : List Ev) {s : OSt} {id h : Nat} (hl : lookup s.table id = some h) :
    lookup (orun evs s).table id = some h := by
  unfold orun
  induction evs generalizing s with
  | nil => exact hl
  | cons e evs ih => exact ih (ostep_lookup hl e)

theorem openAtomic_registers (s : OSt) (id : Nat) :
    lookup (openAtomic s id).1.table id = some (openAtomic s id).2 := by
  unfold openAtomic
  cases hl : lookup s.table id with
  | some x => simpa using hl
  | none => simp [lookup]

end Nri.MuxOpen
