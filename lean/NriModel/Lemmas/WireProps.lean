/-
Consequences of the round trip (C12): well-typedness of the empty message and of a
single-field update, used by the presence theorem.
-/
import NriModel.Lemmas.WireRoundtrip
import NriModel.Lemmas.WireSize

namespace Nri.Wire

theorem wtVal_default (S : Schema) (n : Nat) (f : Field) (h : Field.ok n f = true) :
    wtVal S f.ty f.ty.default = true := by
  simp only [Field.ok, Bool.and_eq_true] at h
  cases hty : f.ty <;> simp_all [FType.default, wtVal, wtList, FType.ok, okStr, validUtf8]
  rename_i k
  cases k <;> simp [Scalar.inRange]

theorem wtFields_defaults (S : Schema) (n : Nat) : ∀ (fs : List Field),
    fs.all (Field.ok n) = true → wtFields S fs (fs.map (·.ty.default)) = true := by
  intro fs
  induction fs with
  | nil => intro _; simp [wtFields]
  | cons f fs ih =>
    intro h
    simp only [List.all_cons, Bool.and_eq_true] at h
    simp [wtFields, wtVal_default S n f h.1, ih h.2]

/-- the message with no field set is a well-typed value of its type -/
theorem wellTyped_emptyMsg (S : Schema) (hS : S.WF = true) (m : Nat) :
    WellTyped S m (emptyMsg S m) = true := by
  have := Schema.WF.fields S hS m
  simp only [fieldsWF, Bool.and_eq_true] at this
  exact wtFields_defaults S S.length _ this.1

/-- replacing one field value by a well-typed one keeps the message well-typed -/
theorem wtFields_set (S : Schema) : ∀ (fs : List Field) (vs : List Val) (i : Nat) (f : Field) (x : Val),
    wtFields S fs vs = true → fs[i]? = some f → wtVal S f.ty x = true →
    wtFields S fs (vs.set i x) = true := by
  intro fs
  induction fs with
  | nil => intro vs i f x _ hf; simp at hf
  | cons g fs ih =>
    intro vs i f x hwt hf hx
    cases vs with
    | nil => simp [wtFields] at hwt
    | cons v vs =>
      simp only [wtFields, Bool.and_eq_true] at hwt
      cases i with
      | zero =>
        simp at hf
        subst hf
        simp [wtFields, hx, hwt.2]
      | succ i =>
        simp at hf
        simp [wtFields, hwt.1, ih vs i f x hwt.2 hf hx]

end Nri.Wire
