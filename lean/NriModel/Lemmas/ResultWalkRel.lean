/-
The refinement relation between the result.go model and the update walk, and its
preservation by `getUpdate`, `setEntryRes`, `update1`, `updateAll`, `adjust`, `apply`, `run`:

* `Rel.taken` — a `(target, item)` pair is taken in the walk iff it has an owner in the
  model's ledger (for every target other than the container being created, whose items the
  creation adjustment claims and releases as well);
* `Rel.vals`  — the resources the walk holds for a target are the resources `updateResources`
  would start from in the model (`updBase`);
* `EntOK`     — every collected entry carries exactly `updBase` of its target.

No hypothesis on the chain: an update naming an item twice is handled by the walk as by the
ledger (the second mention collides with the first). Core Lean only.
-/
import NriModel.Lemmas.ResultWalk

namespace Nri.Result
open Nri.NApi Nri.Ledger Nri.UpdateWalk

theorem isOwn_unique (k : Kind) (a b : Cid) (ha : isOwn k a = true) (hb : isOwn k b = true) : a = b := by
  cases k with
  | update id => simp [isOwn] at ha hb; rw [← ha, ← hb]
  | create id => simp [isOwn] at ha
  | stop => simp [isOwn] at ha

/-- every collected entry carries the current resources of its target -/
structure EntOK (st : State) : Prop where
  third : ∀ e ∈ st.updates, isOwn st.kind e.containerId = false ∧ e.resources = some (updBase st e.containerId)
  own : ∀ e, st.own = some e → isOwn st.kind e.containerId = true ∧ e.resources = some st.reqRes

/-- the model state `st` and the walk state `s` agree -/
structure Rel (base : Cid → Resources) (st : State) (s : Sim) : Prop where
  taken : ∀ c it, st.kind ≠ .create c → ((c, it) ∈ s.taken ↔ (st.owners.owner c it).isSome = true)
  vals : ∀ c, s.get base c = updBase st c

theorem find_map_keep (l : List Update) (f : Update → Update) (hf : ∀ e, (f e).containerId = e.containerId)
    (c : Cid) :
    (l.map f).find? (fun e => e.containerId = c) = (l.find? (fun e => e.containerId = c)).map f := by
  have : ((fun e : Update => decide (e.containerId = c)) ∘ f) = fun e => decide (e.containerId = c) := by
    funext e; simp [hf]
  rw [List.find?_map, this]

/-! ### getUpdate -/

theorem getUpdate_go (q st st1 p u) (h : getUpdate q st p u = .ok st1) :
    getUpdate.go q st u = .ok st1 ∧ st.kind ≠ .create u.containerId := by
  unfold getUpdate at h
  split at h
  · rename_i id hk
    split at h
    · cases h
    · rename_i hne
      refine ⟨h, ?_⟩
      rw [hk]; intro heq; cases heq; exact hne rfl
  · rename_i hk
    refine ⟨h, ?_⟩
    intro heq
    exact hk _ heq

/-- `getContainerUpdate` changes no value: every target keeps its current resources, the new
    entry (if any) carries them, and afterwards the target has an entry -/
theorem getUpdate_walk (st st1 : State) (p : Plugin) (u : Update)
    (h : getUpdate Quirks.fixed st p u = .ok st1) (ok : EntOK st) :
    (∀ c, updBase st1 c = updBase st c) ∧ EntOK st1 ∧
    (isOwn st.kind u.containerId = false → ∃ e ∈ st1.updates, e.containerId = u.containerId) ∧
    st.kind ≠ .create u.containerId := by
  obtain ⟨hgo, hnc⟩ := getUpdate_go _ st st1 p u h
  refine ⟨?_, ?_, ?_, hnc⟩ <;> unfold getUpdate.go at hgo
  · intro c
    split at hgo
    · split at hgo <;> (cases hgo; rfl)
    · rename_i hown
      split at hgo
      · cases hgo
        unfold updBase
        simp only []
        split
        · rfl
        · rw [find_map_keep _ _ (by intro e; split <;> rfl)]
          cases List.find? (fun e => decide (e.containerId = c)) st.updates with
          | none => rfl
          | some e => simp only [Option.map_some]; split <;> rfl
      · rename_i hany
        cases hgo
        unfold updBase
        simp only []
        split
        · rfl
        · simp only [List.find?_append]
          cases hf : List.find? (fun e => decide (e.containerId = c)) st.updates with
          | some e => rfl
          | none =>
            by_cases hc : u.containerId = c
            · simp [emptyUpdate, hc]
            · simp [emptyUpdate, hc]
  · have hub : ∀ c, updBase st1 c = updBase st c := by
      intro c
      split at hgo
      · split at hgo <;> (cases hgo; rfl)
      · split at hgo
        · cases hgo
          unfold updBase
          simp only []
          split
          · rfl
          · rw [find_map_keep _ _ (by intro e; split <;> rfl)]
            cases List.find? (fun e => decide (e.containerId = c)) st.updates with
            | none => rfl
            | some e => simp only [Option.map_some]; split <;> rfl
        · cases hgo
          unfold updBase
          simp only []
          split
          · rfl
          · simp only [List.find?_append]
            cases hf : List.find? (fun e => decide (e.containerId = c)) st.updates with
            | some e => rfl
            | none =>
              by_cases hc : u.containerId = c
              · simp [emptyUpdate, hc]
              · simp [emptyUpdate, hc]
    have hk : st1.kind = st.kind := (getUpdate_owners _ st st1 p u h).2
    split at hgo
    · rename_i hown
      split at hgo
      · rename_i e0 he0
        cases hgo
        refine ⟨ok.third, ?_⟩
        intro e he
        simp only [Option.some.injEq] at he
        subst he
        exact ok.own e0 he0
      · cases hgo
        refine ⟨ok.third, ?_⟩
        intro e he
        simp only [Option.some.injEq, Quirks.fixed, Bool.false_eq_true, ↓reduceIte] at he
        subst he
        exact ⟨hown, rfl⟩
    · rename_i hown
      have hown : isOwn st.kind u.containerId = false := by simpa using hown
      split at hgo
      · have hst1 := hgo
        cases hgo
        constructor
        · intro e' he'
          obtain ⟨e, he, rfl⟩ := List.mem_map.1 he'
          obtain ⟨h1, h2⟩ := ok.third e he
          have hcid : (if e.containerId = u.containerId then { e with ignoreFailure := e.ignoreFailure && u.ignoreFailure } else e).containerId = e.containerId := by
            split <;> rfl
          have hres : (if e.containerId = u.containerId then { e with ignoreFailure := e.ignoreFailure && u.ignoreFailure } else e).resources = e.resources := by
            split <;> rfl
          rw [hcid, hres, hub]
          exact ⟨h1, h2⟩
        · exact ok.own
      · rename_i hany
        have hst1 := hgo
        cases hgo
        constructor
        · intro e' he'
          rw [hub]
          rcases List.mem_append.1 he' with he | he
          · exact ok.third e' he
          · simp only [List.mem_singleton] at he
            subst he
            refine ⟨hown, ?_⟩
            simp only [emptyUpdate]
            unfold updBase
            have : List.find? (fun e => decide (e.containerId = u.containerId)) st.updates = none := by
              rw [List.find?_eq_none]
              intro x hx hd
              apply hany
              simp only [List.any_eq_true]
              exact ⟨x, hx, hd⟩
            simp only [hown, Bool.false_eq_true, ↓reduceIte, this]
        · exact ok.own
  · intro hown
    simp only [hown, Bool.false_eq_true, ↓reduceIte] at hgo
    split at hgo
    · rename_i hany
      cases hgo
      simp only [List.any_eq_true, decide_eq_true_eq] at hany
      obtain ⟨e, he, heq⟩ := hany
      refine ⟨_, List.mem_map.2 ⟨e, he, rfl⟩, ?_⟩
      simp [heq]
    · cases hgo
      exact ⟨_, List.mem_append_right _ (List.mem_singleton.2 rfl), rfl⟩

/-! ### setEntryRes -/

/-- writing `res` into the entry of `id`: `id` now has `res`, every other target is unchanged -/
theorem setEntryRes_walk (st : State) (id : Cid) (res : Resources) (ok : EntOK st)
    (hex : isOwn st.kind id = false → ∃ e ∈ st.updates, e.containerId = id) :
    (∀ c, updBase (setEntryRes st id res) c = if c = id then res else updBase st c) ∧
    EntOK (setEntryRes st id res) := by
  have hub : ∀ c, updBase (setEntryRes st id res) c = if c = id then res else updBase st c := by
    intro c
    unfold setEntryRes
    cases hown : isOwn st.kind id with
    | true =>
      simp only [↓reduceIte]
      unfold updBase
      simp only []
      by_cases hc : c = id
      · subst hc; simp [hown]
      · have : isOwn st.kind c = false := by
          cases h : isOwn st.kind c with
          | false => rfl
          | true => exact absurd (isOwn_unique _ _ _ h hown) hc
        simp [this, hc]
    | false =>
      simp only [Bool.false_eq_true, ↓reduceIte]
      unfold updBase
      simp only []
      by_cases hc : c = id
      · subst hc
        simp only [hown, Bool.false_eq_true, ↓reduceIte]
        rw [find_map_keep _ _ (by intro e; split <;> rfl)]
        obtain ⟨e, he, heq⟩ := hex hown
        cases hf : List.find? (fun e => decide (e.containerId = c)) st.updates with
        | none =>
          rw [List.find?_eq_none] at hf
          exact absurd (by simpa using heq) (hf e he)
        | some e0 =>
          have := List.find?_some hf
          simp only [decide_eq_true_eq] at this
          simp [this]
      · simp only [hc, ↓reduceIte]
        split
        · rfl
        · rw [find_map_keep _ _ (by intro e; split <;> rfl)]
          cases hf : List.find? (fun e => decide (e.containerId = c)) st.updates with
          | none => rfl
          | some e0 =>
            have := List.find?_some hf
            simp only [decide_eq_true_eq] at this
            have hne : ¬ e0.containerId = id := by rw [this]; exact hc
            simp [hne]
  refine ⟨hub, ?_⟩
  have hk : (setEntryRes st id res).kind = st.kind := setEntryRes_kind _ _ _
  constructor
  · intro e' he'
    rw [hk, hub]
    unfold setEntryRes at he'
    cases hown : isOwn st.kind id with
    | true =>
      simp only [hown, ↓reduceIte] at he'
      obtain ⟨h1, h2⟩ := ok.third e' he'
      have hne : ¬ e'.containerId = id := by
        intro heq; rw [heq, hown] at h1; cases h1
      simp only [hne, ↓reduceIte]
      exact ⟨h1, h2⟩
    | false =>
      simp only [hown, Bool.false_eq_true, ↓reduceIte] at he'
      obtain ⟨e, he, rfl⟩ := List.mem_map.1 he'
      obtain ⟨h1, h2⟩ := ok.third e he
      by_cases heq : e.containerId = id
      · simp only [heq, ↓reduceIte]
        exact ⟨hown, trivial⟩
      · simp only [heq, ↓reduceIte]
        exact ⟨h1, h2⟩
  · intro e' he'
    rw [hk]
    unfold setEntryRes at he' ⊢
    cases hown : isOwn st.kind id with
    | true =>
      simp only [hown, ↓reduceIte] at he' ⊢
      cases ho : st.own with
      | none => rw [ho] at he'; cases he'
      | some e0 =>
        rw [ho] at he'
        simp only [Option.map_some, Option.some.injEq] at he'
        subst he'
        exact ⟨(ok.own e0 ho).1, rfl⟩
    | false =>
      simp only [hown, Bool.false_eq_true, ↓reduceIte] at he' ⊢
      exact ok.own e' he'

/-! ### one update -/

theorem update1_rel (base : Cid → Resources) (st st' : State) (s : Sim) (p : Plugin) (u : Update)
    (rel : Rel base st s) (ok : EntOK st)
    (h : update1 Quirks.fixed st p u = .ok st') :
    Rel base st' (simUpdate base s u) ∧ EntOK st' := by
  rcases update1_cases Quirks.fixed st p u with ⟨e, _, he⟩ | ⟨st1, hg, h2⟩
  · rw [he] at h; cases h
  · obtain ⟨hown, hk1⟩ := getUpdate_owners _ st st1 p u hg
    obtain ⟨hub, ok1, hex, hnc⟩ := getUpdate_walk st st1 p u hg ok
    simp only [updSets_fixed] at h2
    -- the walk's claimed prefix is the ledger's
    have hsp : ((claimAllPartial u.containerId p st1.owners (setsUpd u)).2 = none ↔
          (freeOf s u).length = (setsUpd u).length) ∧
        ∀ c' it', ((claimAllPartial u.containerId p st1.owners (setsUpd u)).1.owner c' it').isSome = true ↔
          ((st1.owners.owner c' it').isSome = true ∨ (c' = u.containerId ∧ it' ∈ freeOf s u)) :=
      claimAllPartial_spec u.containerId p (setsUpd u) st1.owners s.taken
        (fun it => by rw [hown]; exact rel.taken u.containerId it hnc)
    obtain ⟨hsp1, hsp2⟩ := hsp
    -- the ledger part of the relation, whichever way the claims end
    have htaken : ∀ (st2 : State), st2.kind = st1.kind →
        st2.owners = (claimAllPartial u.containerId p st1.owners (setsUpd u)).1 →
        ∀ c it, st2.kind ≠ .create c →
          ((c, it) ∈ (simUpdate base s u).taken ↔ (st2.owners.owner c it).isSome = true) := by
      intro st2 hk2 ho2 c it hc
      rw [simUpdate_taken, ho2, hsp2 c it, hown]
      rw [rel.taken c it (by rw [← hk1, ← hk2]; exact hc)]
    rcases h2 with ⟨o, hc, hu⟩ | ⟨o, e, hc, (⟨_, hu⟩ | ⟨_, hu⟩)⟩
    · -- all claims succeeded: the update is applied
      rw [hu] at h; cases h
      have hlen : (freeOf s u).length = (setsUpd u).length := hsp1.1 (by rw [hc])
      have hk2 : ({ updData Quirks.fixed st1 u with owners := o } : State).kind = st1.kind := updData_kind _ _ _
      cases hr : u.resources with
      | none =>
        have hd : updData Quirks.fixed st1 u = st1 := by unfold updData; simp only [hr]
        refine ⟨⟨htaken _ hk2 (by rw [hc]), ?_⟩, ?_⟩
        · intro c
          rw [simUpdate_get]
          simp only [hr]
          rw [rel.vals c, ← hub c, hd]
          rfl
        · rw [hd]
          exact ⟨ok1.third, ok1.own⟩
      | some r =>
        have happ : applies s u = true := by
          unfold applies
          simp only [hr, hlen, beq_self_eq_true]
        have hd : updData Quirks.fixed st1 u =
            setEntryRes st1 u.containerId (overlayRes (updBase st1 u.containerId) r r.pids) := by
          unfold updData updPids
          simp only [hr, Quirks.fixed, Bool.false_eq_true, ↓reduceIte]
        obtain ⟨hub2, ok2⟩ := setEntryRes_walk st1 u.containerId (overlayRes (updBase st1 u.containerId) r r.pids) ok1
          (by rw [hk1]; exact hex)
        refine ⟨⟨htaken _ hk2 (by rw [hc]), ?_⟩, ?_⟩
        · intro c
          rw [simUpdate_get]
          simp only [hr, happ, true_and]
          show _ = updBase (updData Quirks.fixed st1 u) c
          rw [hd, hub2 c, hub, hub, rel.vals]
          by_cases hcc : c = u.containerId
          · subst hcc; rfl
          · simp only [hcc, ↓reduceIte]
        · rw [hd]
          exact ⟨ok2.third, ok2.own⟩
    · -- a claim failed, the update is ignored
      rw [hu] at h; cases h
      have hnapp : applies s u = false := by
        unfold applies
        cases hr : u.resources with
        | none => rfl
        | some r =>
          simp only []
          have : ¬ (freeOf s u).length = (setsUpd u).length := by
            intro hl
            have := hsp1.2 hl
            rw [hc] at this; cases this
          simp [this]
      refine ⟨⟨htaken _ rfl (by rw [hc]), ?_⟩, ⟨ok1.third, ok1.own⟩⟩
      intro c
      rw [simUpdate_get, hnapp]
      have hv : s.get base c = updBase st1 c := by rw [rel.vals c, ← hub c]
      cases u.resources with
      | none => exact hv
      | some r => simp only [Bool.false_eq_true, false_and, ↓reduceIte]; exact hv
    · rw [hu] at h; cases h

theorem updateAll_rel (base : Cid → Resources) (p : Plugin) (us : List Update) :
    ∀ (st st' : State) (s : Sim), Rel base st s → EntOK st →
      updateAll Quirks.fixed st p us = .ok st' →
      Rel base st' (us.foldl (simUpdate base) s) ∧ EntOK st' := by
  induction us with
  | nil => intro st st' s rel ok h; simp [updateAll] at h; subst h; exact ⟨rel, ok⟩
  | cons u rest ih =>
    intro st st' s rel ok h
    simp only [updateAll] at h
    cases h1 : update1 Quirks.fixed st p u with
    | error e => rw [h1] at h; cases h
    | ok st1 =>
      rw [h1] at h
      obtain ⟨rel1, ok1⟩ := update1_rel base st st1 s p u rel ok h1
      exact ih st1 st' _ rel1 ok1 h

/-! ### the creation adjustment touches neither the walk's targets nor the update list -/

theorem adjust_rel (base : Cid → Resources) (st st1 : State) (s : Sim) (p : Plugin) (a : Option Adjustment)
    (id : Cid) (hk : st.kind = .create id) (rel : Rel base st s) (ok : EntOK st)
    (h : adjust Quirks.fixed st p a = .ok st1) : Rel base st1 s ∧ EntOK st1 := by
  have hk1 := adjust_kind _ st st1 p a h
  obtain ⟨hu, ho⟩ := adjust_updates _ st st1 p a h
  have hub : ∀ c, updBase st1 c = updBase st c := by
    intro c
    unfold updBase
    rw [hk1, hu, hk]
    simp [isOwn]
  refine ⟨⟨?_, ?_⟩, ⟨?_, ?_⟩⟩
  · intro c it hc
    rw [hk1] at hc
    rw [rel.taken c it hc]
    have hne : c ≠ cidOf st.kind := by
      rw [hk]; intro heq; apply hc; rw [hk, heq]; rfl
    constructor
    · intro hs
      cases hw : st.owners.owner c it with
      | none => rw [hw] at hs; cases hs
      | some w =>
        rw [adjust_keeps _ st st1 p a h c it w hw (fun _ _ hcc _ => hne hcc)]
        rfl
    · intro hs
      cases hw : st1.owners.owner c it with
      | none => rw [hw] at hs; cases hs
      | some w =>
        rcases adjust_owner_inv _ st st1 p a h c it w hw with h1 | ⟨_, _, hcc, _⟩
        · rw [h1]; rfl
        · exact absurd hcc hne
  · intro c; rw [rel.vals, hub]
  · intro e he
    rw [hu] at he
    rw [hk1, hub]
    exact ok.third e he
  · intro e he
    rw [ho] at he
    have := (ok.own e he).1
    rw [hk] at this
    simp [isOwn] at this

theorem apply_rel (base : Cid → Resources) (st st' : State) (s : Sim) (p : Plugin) (r : Response)
    (rel : Rel base st s) (ok : EntOK st)
    (h : apply Quirks.fixed st p r = .ok st') :
    Rel base st' (r.updates.foldl (simUpdate base) s) ∧ EntOK st' := by
  unfold apply at h
  split at h
  · rename_i id hk
    cases h1 : adjust Quirks.fixed st p r.adjust with
    | error e => rw [h1] at h; cases h
    | ok st1 =>
      rw [h1] at h
      obtain ⟨rel1, ok1⟩ := adjust_rel base st st1 s p r.adjust id hk rel ok h1
      exact updateAll_rel base p r.updates st1 st' s rel1 ok1 h
  · exact updateAll_rel base p r.updates st st' s rel ok h

/-- the update lists of a chain, in plugin order -/
def flatUpdates (rs : List (Plugin × Response)) : List Update := rs.flatMap fun (_, r) => r.updates

theorem walk_eq (base : Cid → Resources) (rs : List (Plugin × Response)) :
    walk base rs = (flatUpdates rs).foldl (simUpdate base) {} := rfl

theorem run_rel (base : Cid → Resources) (rs : List (Plugin × Response)) :
    ∀ (st st' : State) (s : Sim), Rel base st s → EntOK st →
      run Quirks.fixed st (answeredAll rs) = .ok st' →
      Rel base st' ((flatUpdates rs).foldl (simUpdate base) s) ∧ EntOK st' := by
  induction rs with
  | nil => intro st st' s rel ok h; simp [answeredAll, run] at h; subst h; exact ⟨rel, ok⟩
  | cons x rest ih =>
    intro st st' s rel ok h
    obtain ⟨p, r⟩ := x
    simp only [answeredAll, List.map_cons, run] at h
    cases h1 : apply Quirks.fixed st p r with
    | error e => rw [h1] at h; cases h
    | ok st1 =>
      rw [h1] at h
      obtain ⟨rel1, ok1⟩ := apply_rel base st st1 s p r rel ok h1
      have := ih st1 st' _ rel1 ok1 h
      simpa only [flatUpdates, List.flatMap_cons, List.foldl_append] using this

/-! ### fresh states -/

/-- the base of the walk for a request starting in `st0`: the runtime's (normalised) request
    for the container being updated, empty normalised resources for every other container -/
def baseOf (st0 : State) : Cid → Resources := fun c => if isOwn st0.kind c then st0.reqRes else normRes {}

/-- the base the correspondence driver uses (`Driver/Merge.lean: simBase`): the normalised
    requested resources for the container an update request updates, normalised empty
    resources for every other container -/
def specBase (k : Kind) (req : Resources) : Cid → Resources :=
  fun c => if isOwn k c then normRes req else normRes {}

theorem baseOf_initUpdate (id : Cid) (req : Resources) :
    baseOf (initUpdate id req) = specBase (.update id) req := rfl

theorem baseOf_initStop (req : Resources) : baseOf initStop = specBase .stop req := by
  funext c; simp [baseOf, specBase, initStop, isOwn]

theorem baseOf_initCreate (c0 : Container) (req : Resources) :
    baseOf (initCreate c0) = specBase (.create c0.id) req := by
  funext c; simp [baseOf, specBase, initCreate, isOwn]

theorem rel_fresh (st0 : State) (h1 : st0.updates = []) (h3 : st0.owners = []) :
    Rel (baseOf st0) st0 {} := by
  constructor
  · intro c it _
    rw [h3]
    simp [Owners.owner, AList.lookup]
  · intro c
    unfold Sim.get updBase baseOf
    simp [h1]

theorem entOK_fresh (st0 : State) (h1 : st0.updates = []) (h2 : st0.own = none) : EntOK st0 := by
  constructor
  · intro e he; rw [h1] at he; cases he
  · intro e he; rw [h2] at he; cases he

/-- every element of the reply's update list carries `updBase` of its target -/
theorem replyUpdates_vals (st : State) (ok : EntOK st) (e : Update) (he : some e ∈ replyUpdates st) :
    e.resources = some (updBase st e.containerId) := by
  have hthird : some e ∈ st.updates.map some → e.resources = some (updBase st e.containerId) := by
    intro hm
    obtain ⟨e', he', heq⟩ := List.mem_map.1 hm
    cases heq
    exact (ok.third e he').2
  unfold replyUpdates at he
  split at he
  · rcases List.mem_append.1 he with h | h
    · exact hthird h
    · simp only [List.mem_singleton] at h
      obtain ⟨h1, h2⟩ := ok.own e h.symm
      rw [h2]
      unfold updBase
      simp [h1]
  · exact hthird he

/-! ### the state in which plugin `i` is called -/

theorem viewsAlong_run (q : Quirks) (rs : List (Plugin × Option Response)) :
    ∀ (st : State) (i : Nat) (s : State), (viewsAlong q st rs)[i]? = some s → run q st (rs.take i) = .ok s := by
  induction rs with
  | nil => intro st i s h; simp [viewsAlong] at h
  | cons x rest ih =>
    intro st i s h
    obtain ⟨p, r⟩ := x
    cases r with
    | none =>
      simp only [viewsAlong] at h
      cases i with
      | zero => simp at h; subst h; rfl
      | succ n =>
        simp only [List.getElem?_cons_succ] at h
        simp only [List.take_succ_cons, run]
        exact ih st n s h
    | some r =>
      simp only [viewsAlong] at h
      cases h1 : apply q st p r with
      | error e =>
        rw [h1] at h
        cases i with
        | zero => simp at h; subst h; rfl
        | succ n => simp at h
      | ok st1 =>
        rw [h1] at h
        cases i with
        | zero => simp at h; subst h; rfl
        | succ n =>
          simp only [List.getElem?_cons_succ] at h
          simp only [List.take_succ_cons, run, h1]
          exact ih st1 n s h

theorem answeredAll_take (rs : List (Plugin × Response)) (i : Nat) :
    (answeredAll rs).take i = answeredAll (rs.take i) := by
  unfold answeredAll; rw [List.map_take]

/-! ### chains in which some plugins do not answer -/

/-- the plugins of a chain that answered, with their responses -/
def answered : List (Plugin × Option Response) → List (Plugin × Response)
  | [] => []
  | (_, none) :: rest => answered rest
  | (p, some r) :: rest => (p, r) :: answered rest

/-- a plugin that is not subscribed or was dropped leaves the collector state alone -/
theorem run_answered (q : Quirks) (rs : List (Plugin × Option Response)) :
    ∀ st, run q st rs = run q st (answeredAll (answered rs)) := by
  induction rs with
  | nil => intro st; rfl
  | cons x rest ih =>
    intro st
    obtain ⟨p, r⟩ := x
    cases r with
    | none => simp only [run, answered]; exact ih st
    | some r =>
      simp only [run, answered, answeredAll, List.map_cons]
      cases apply q st p r with
      | error e => rfl
      | ok st1 => exact ih st1

theorem answered_answeredAll (rs : List (Plugin × Response)) : answered (answeredAll rs) = rs := by
  induction rs with
  | nil => rfl
  | cons x rest ih =>
    obtain ⟨p, r⟩ := x
    simp only [answeredAll, List.map_cons, answered] at ih ⊢
    rw [ih]

end Nri.Result
