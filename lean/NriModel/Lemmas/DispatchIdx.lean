/-
Lemmas for C06 about two-digit indices, the string order used by `sortPlugins`, and the
sorted plugin list.
-/
import NriModel.Dispatch

namespace Nri.Dispatch
open Nri.Events

theorem twoDigits_iff (s : Str) :
    twoDigits s = true ↔ ∃ a b, s = [a, b] ∧ isDigit a = true ∧ isDigit b = true := by
  constructor
  · intro h
    match s, h with
    | [a, b], h =>
      simp [twoDigits] at h
      exact ⟨a, b, rfl, h.1, h.2⟩
  · rintro ⟨a, b, rfl, ha, hb⟩
    simp [twoDigits, ha, hb]

theorem idxNat_pair (a b : Char) : idxNat [a, b] = 10 * digitVal a + digitVal b := by
  simp [idxNat]

theorem strLt_pair (a b c d : Char) :
    strLt [a, b] [c, d] =
      (if a.toNat < c.toNat then true else if c.toNat < a.toNat then false else
        if b.toNat < d.toNat then true else false) := by
  simp only [strLt]
  split
  · rfl
  · split
    · rfl
    · split
      · rfl
      · split <;> rfl

/-- for two-digit indices the string order IS the numeric order -/
theorem strLt_iff_idxNat_lt (a b : Str) (ha : twoDigits a = true) (hb : twoDigits b = true) :
    strLt a b = true ↔ idxNat a < idxNat b := by
  obtain ⟨a1, a2, rfl, h1, h2⟩ := (twoDigits_iff a).1 ha
  obtain ⟨b1, b2, rfl, h3, h4⟩ := (twoDigits_iff b).1 hb
  rw [strLt_pair, idxNat_pair, idxNat_pair]
  simp only [isDigit, Bool.and_eq_true, decide_eq_true_eq] at h1 h2 h3 h4
  simp only [digitVal]
  split
  · simp; omega
  · split
    · simp; omega
    · split
      · simp; omega
      · simp; omega

/-- two-digit indices denote 0 … 99 -/
theorem idxNat_lt_100 (a : Str) (ha : twoDigits a = true) : idxNat a < 100 := by
  obtain ⟨a1, a2, rfl, h1, h2⟩ := (twoDigits_iff a).1 ha
  rw [idxNat_pair]
  simp only [isDigit, Bool.and_eq_true, decide_eq_true_eq] at h1 h2
  simp only [digitVal]; omega

/-- the order is total on two-digit indices: equal numbers mean equal strings -/
theorem idxNat_inj (a b : Str) (ha : twoDigits a = true) (hb : twoDigits b = true)
    (h : idxNat a = idxNat b) : a = b := by
  obtain ⟨a1, a2, rfl, h1, h2⟩ := (twoDigits_iff a).1 ha
  obtain ⟨b1, b2, rfl, h3, h4⟩ := (twoDigits_iff b).1 hb
  rw [idxNat_pair, idxNat_pair] at h
  simp only [isDigit, Bool.and_eq_true, decide_eq_true_eq] at h1 h2 h3 h4
  simp only [digitVal] at h
  have e1 : a1.toNat = b1.toNat := by omega
  have e2 : a2.toNat = b2.toNat := by omega
  have := Char.toNat_inj.1 e1
  have := Char.toNat_inj.1 e2
  simp_all

end Nri.Dispatch
