/-
Refinement of the abstract ledger (`Ledger.absRun`) by the result.go model: whenever the
abstract ledger accepts a chain, the model's request loop succeeds. Needs the agreement
invariant between the ledger and the collected reply lists of the keyed list families
(`ReplyHolds`): the owner of a mount / device / environment variable is only cleared when the
reply holds an entry for it, and every claim of these families puts one there.
Core Lean only.
-/
import NriModel.Lemmas.ResultView

namespace Nri.Result
open Nri.NApi Nri.Ledger

/-! ### the reply lists after one adjustment -/

theorem adjustData_reply_keyed (st : State) (a : Adjustment) :
    (adjustData Quirks.fixed st a).reply.mounts = (mountData st a.mounts).reply.mounts ∧
    (adjustData Quirks.fixed st a).reply.env = (envData Quirks.fixed st a.env).reply.env ∧
    (adjustData Quirks.fixed st a).reply.devices =
      (if a.hasLinux then (deviceData Quirks.fixed st a.devices).reply.devices else st.reply.devices) := by
  unfold adjustData
  simp only [cdiData, rlimitData]
  cases hl : a.hasLinux
  · simp only [Bool.false_eq_true, ↓reduceIte]
    cases hh : a.hooks <;> cases ha : a.args <;>
      simp [hooksData, argsData, envData, mountData, annData]
  · simp only [↓reduceIte]
    cases hh : a.hooks <;> cases ha : a.args <;> cases hr : a.resources <;> cases ho : a.oomScoreAdj <;>
      by_cases hc : a.cgroupsPath = [] <;>
      simp [oomData, cgroupsData, resData, deviceData, hooksData, argsData, envData, mountData, annData, hc]

/-- the ledger/reply agreement for the keyed list families of the container being created -/
structure ReplyHolds (st : State) : Prop where
  mounts : ∀ d w, st.owners.owner (cidOf st.kind) (.mount d) = some w → ∃ m ∈ st.reply.mounts, m.destination = d
  env : ∀ n w, st.owners.owner (cidOf st.kind) (.env n) = some w → ∃ e ∈ st.reply.env, e.key = n
  devices : ∀ d w, st.owners.owner (cidOf st.kind) (.device d) = some w → ∃ x ∈ st.reply.devices, x.path = d

/-! ### which family a set item belongs to -/

theorem mem_memSets_scalar (m : Memory) (it : Item) (h : it ∈ memSets m) :
    it = .memLimit ∨ it = .memReservation ∨ it = .memSwap ∨ it = .memKernel ∨ it = .memKernelTcp ∨
    it = .memSwappiness ∨ it = .memDisableOom ∨ it = .memUseHierarchy := by
  unfold memSets at h
  simp only [List.mem_append] at h
  rcases h with ((((((h | h) | h) | h) | h) | h) | h) | h <;> (split at h <;> simp at h) <;> simp [h]

theorem mem_cpuSets_scalar (c : Cpu) (it : Item) (h : it ∈ cpuSets c) :
    it = .cpuShares ∨ it = .cpuQuota ∨ it = .cpuPeriod ∨ it = .cpuRtRuntime ∨ it = .cpuRtPeriod ∨
    it = .cpusetCpus ∨ it = .cpusetMems := by
  unfold cpuSets at h
  simp only [List.mem_append] at h
  rcases h with (((((h | h) | h) | h) | h) | h) | h <;> (split at h <;> simp at h) <;> simp [h]

/-- resource items are never mounts, devices, env vars, annotations or args -/
theorem resSetsWith_not_keyed (r : Resources) (b : Bool) (it : Item) (h : it ∈ resSetsWith r b) :
    (∀ d, it ≠ .mount d) ∧ (∀ d, it ≠ .device d) ∧ (∀ d, it ≠ .env d) ∧ (∀ d, it ≠ .annotation d) ∧ it ≠ .args := by
  unfold resSetsWith at h
  simp only [List.mem_append] at h
  rcases h with (((((h | h) | h) | h) | h) | h) | h
  · cases hm : r.memory with
    | none => simp [hm] at h
    | some m =>
      simp only [hm] at h
      rcases mem_memSets_scalar m it h with h | h | h | h | h | h | h | h <;> subst h <;> simp
  · cases hm : r.cpu with
    | none => simp [hm] at h
    | some c =>
      simp only [hm] at h
      rcases mem_cpuSets_scalar c it h with h | h | h | h | h | h | h <;> subst h <;> simp
  · obtain ⟨l, _, rfl⟩ := List.mem_map.1 h; simp
  · obtain ⟨l, _, rfl⟩ := List.mem_map.1 h; simp
  · split at h <;> simp at h; subst h; simp
  · split at h <;> simp at h; subst h; simp
  · split at h <;> simp at h; subst h; simp

/-- the shapes an item an adjustment sets can have -/
theorem mem_adjustSets_cases (a : Adjustment) (it : Item) (h : it ∈ adjustSets a) :
    (∃ k, it = .annotation k) ∨
    (∃ m ∈ a.mounts, (isMarked m.destination).2 = false ∧ it = .mount m.destination) ∨
    (∃ e ∈ a.env, (isMarked e.key).2 = false ∧ it = .env e.key) ∨
    it = .args ∨
    (a.hasLinux = true ∧ ∃ x ∈ a.devices, (isMarked x.path).2 = false ∧ it = .device x.path) ∨
    (∃ r, it ∈ resSets r) ∨ it = .cgroupsPath ∨ it = .oomScoreAdj ∨ (∃ l, it = .rlimit l) ∨ (∃ n, it = .cdi n) := by
  unfold adjustSets at h
  simp only [List.mem_append] at h
  rcases h with (((((h | h) | h) | h) | h) | h) | h
  · simp only [annSets, List.mem_map] at h
    obtain ⟨x, _, rfl⟩ := h; exact .inl ⟨_, rfl⟩
  · simp only [mountSets, List.mem_map, List.mem_filter] at h
    obtain ⟨m, ⟨hm, hu⟩, rfl⟩ := h
    exact .inr (.inl ⟨m, hm, by simpa using hu, rfl⟩)
  · simp only [envSets, List.mem_map, List.mem_filter] at h
    obtain ⟨e, ⟨hm, hu⟩, rfl⟩ := h
    exact .inr (.inr (.inl ⟨e, hm, by simpa using hu, rfl⟩))
  · unfold argsSets at h
    split at h
    · cases h
    · simp at h; exact .inr (.inr (.inr (.inl h)))
  · split at h
    · rename_i hl
      simp only [List.mem_append] at h
      rcases h with ((h | h) | h) | h
      · simp only [deviceSets, List.mem_map, List.mem_filter] at h
        obtain ⟨x, ⟨hm, hu⟩, rfl⟩ := h
        exact .inr (.inr (.inr (.inr (.inl ⟨hl, x, hm, by simpa using hu, rfl⟩))))
      · cases hr : a.resources with
        | none => simp [hr] at h
        | some r => simp only [hr] at h; exact .inr (.inr (.inr (.inr (.inr (.inl ⟨r, h⟩)))))
      · unfold cgroupsSets at h
        split at h
        · cases h
        · simp at h; exact .inr (.inr (.inr (.inr (.inr (.inr (.inl h))))))
      · unfold oomSets at h
        split at h
        · simp at h; exact .inr (.inr (.inr (.inr (.inr (.inr (.inr (.inl h)))))))
        · cases h
    · cases h
  · simp only [rlimitSets, List.mem_map] at h
    obtain ⟨l, _, rfl⟩ := h
    exact .inr (.inr (.inr (.inr (.inr (.inr (.inr (.inr (.inl ⟨_, rfl⟩))))))))
  · simp only [cdiSets, List.mem_map] at h
    obtain ⟨n, _, rfl⟩ := h
    exact .inr (.inr (.inr (.inr (.inr (.inr (.inr (.inr (.inr ⟨_, rfl⟩))))))))

theorem mount_mem_adjustSets (a : Adjustment) (d : Str) (h : Item.mount d ∈ adjustSets a) :
    ∃ m ∈ a.mounts, (isMarked m.destination).2 = false ∧ m.destination = d := by
  rcases mem_adjustSets_cases a _ h with ⟨k, h⟩ | ⟨m, hm, hu, h⟩ | ⟨e, _, _, h⟩ | h | ⟨_, x, _, _, h⟩ | ⟨r, h⟩ | h | h | ⟨l, h⟩ | ⟨n, h⟩
  · cases h
  · cases h; exact ⟨m, hm, hu, rfl⟩
  · cases h
  · cases h
  · cases h
  · exact absurd rfl ((resSetsWith_not_keyed r _ _ h).1 d)
  · cases h
  · cases h
  · cases h
  · cases h

theorem env_mem_adjustSets (a : Adjustment) (d : Str) (h : Item.env d ∈ adjustSets a) :
    ∃ e ∈ a.env, (isMarked e.key).2 = false ∧ e.key = d := by
  rcases mem_adjustSets_cases a _ h with ⟨k, h⟩ | ⟨m, _, _, h⟩ | ⟨e, he, hu, h⟩ | h | ⟨_, x, _, _, h⟩ | ⟨r, h⟩ | h | h | ⟨l, h⟩ | ⟨n, h⟩
  · cases h
  · cases h
  · cases h; exact ⟨e, he, hu, rfl⟩
  · cases h
  · cases h
  · exact absurd rfl ((resSetsWith_not_keyed r _ _ h).2.2.1 d)
  · cases h
  · cases h
  · cases h
  · cases h

theorem device_mem_adjustSets (a : Adjustment) (d : Str) (h : Item.device d ∈ adjustSets a) :
    a.hasLinux = true ∧ ∃ x ∈ a.devices, (isMarked x.path).2 = false ∧ x.path = d := by
  rcases mem_adjustSets_cases a _ h with ⟨k, h⟩ | ⟨m, _, _, h⟩ | ⟨e, _, _, h⟩ | h | ⟨hl, x, hx, hu, h⟩ | ⟨r, h⟩ | h | h | ⟨l, h⟩ | ⟨n, h⟩
  · cases h
  · cases h
  · cases h
  · cases h
  · cases h; exact ⟨hl, x, hx, hu, rfl⟩
  · exact absurd rfl ((resSetsWith_not_keyed r _ _ h).2.1 d)
  · cases h
  · cases h
  · cases h
  · cases h

end Nri.Result

namespace Nri.Result
open Nri.NApi Nri.Ledger

/-- (E) a removal marker for an owned item really clears its owner -/
theorem clears_effective (st : State) (a : Adjustment) (rh : ReplyHolds st) (it : Item) (w : Plugin)
    (ho : st.owners.owner (cidOf st.kind) it = some w) (hrm : it ∈ removesAdj a) :
    it ∈ adjustClears Quirks.fixed st a := by
  unfold removesAdj at hrm
  unfold adjustClears
  simp only [List.mem_append] at hrm ⊢
  rcases hrm with (((hrm | hrm) | hrm) | hrm) | hrm
  · refine .inl (.inl (.inl (.inl ?_)))
    unfold annClears
    simp only [Quirks.fixed, Bool.false_eq_true, ↓reduceIte]
    rw [annDel_eq]; exact hrm
  · refine .inl (.inl (.inl (.inr ?_)))
    obtain ⟨d, hd, rfl⟩ := List.mem_map.1 hrm
    obtain ⟨m, hm, hdst⟩ := rh.mounts d w ho
    unfold mountClears
    exact List.mem_map.2 ⟨m, List.mem_filter.2 ⟨hm, by simpa [hdst] using hd⟩, by rw [hdst]⟩
  · refine .inl (.inl (.inr ?_))
    obtain ⟨d, hd, rfl⟩ := List.mem_map.1 hrm
    obtain ⟨e, he, hk⟩ := rh.env d w ho
    unfold envClears
    exact List.mem_map.2 ⟨e, List.mem_filter.2 ⟨he, by simpa [hk] using hd⟩, by rw [hk]⟩
  · refine .inl (.inr ?_)
    unfold argsClears
    split at hrm
    · rename_i heq; simpa [heq] using hrm
    · cases hrm
  · refine .inr ?_
    split at hrm
    · rename_i hl
      simp only [hl, ↓reduceIte]
      obtain ⟨d, hd, rfl⟩ := List.mem_map.1 hrm
      obtain ⟨x, hx, hp⟩ := rh.devices d w ho
      unfold deviceClears
      exact List.mem_map.2 ⟨x, List.mem_filter.2 ⟨hx, by simpa [hp] using hd⟩, by rw [hp]⟩
    · cases hrm

/-- refined provenance: an owner that survives an adjustment was not among its clears -/
theorem adjust_owner_inv' (q st st' p a) (h : adjust q st p (some a) = .ok st') (c : Cid) (it : Item) (w : Plugin)
    (ho : st'.owners.owner c it = some w) :
    (st.owners.owner c it = some w ∧ (c ≠ cidOf st.kind ∨ it ∉ adjustClears q st a)) ∨
    (c = cidOf st.kind ∧ it ∈ adjustSets a ∧ w = p) := by
  obtain ⟨o, hc, rfl⟩ := (adjust_ok_iff q st st' p a).1 h
  rcases claimAll_owner_inv _ _ _ _ _ hc c it w ho with h1 | h2
  · left
    refine ⟨owner_clearAll_some _ _ _ _ _ _ h1, ?_⟩
    by_cases hcid : c = cidOf st.kind
    · right
      intro hm
      subst hcid
      rw [owner_clearAll_mem _ _ _ _ hm] at h1; cases h1
    · exact .inl hcid
  · exact .inr h2

theorem replyHolds_adjust (st st' p a) (rh : ReplyHolds st) (h : adjust Quirks.fixed st p (some a) = .ok st') :
    ReplyHolds st' := by
  have hk := adjust_kind _ st st' p (some a) h
  obtain ⟨o, hc, hst'⟩ := (adjust_ok_iff _ st st' p a).1 h
  have hreply : st'.reply = (adjustData Quirks.fixed st a).reply := by rw [hst']
  obtain ⟨hm, he, hd⟩ := adjustData_reply_keyed st a
  constructor
  · intro d w ho
    rw [hk] at ho
    rw [hreply, hm]
    simp only [mountData]
    rcases adjust_owner_inv' _ st st' p a h _ _ w ho with ⟨h1, h2⟩ | ⟨_, h2, _⟩
    · obtain ⟨m, hmem, hdst⟩ := rh.mounts d w h1
      have hnc : Item.mount d ∉ adjustClears Quirks.fixed st a := by
        rcases h2 with h2 | h2
        · exact absurd rfl h2
        · exact h2
      have hnd : ¬ (delKeys (a.mounts.map (·.destination))).contains d = true := by
        intro hdel
        apply hnc
        unfold adjustClears
        simp only [List.mem_append]
        refine .inl (.inl (.inl (.inr ?_)))
        unfold mountClears
        exact List.mem_map.2 ⟨m, List.mem_filter.2 ⟨hmem, by simpa [hdst] using hdel⟩, by rw [hdst]⟩
      refine ⟨m, ?_, hdst⟩
      simp only [List.mem_append, List.mem_filter]
      exact .inl (.inl ⟨hmem, by simpa [hdst] using hnd⟩)
    · obtain ⟨m, hmem, hu, hdst⟩ := mount_mem_adjustSets a d h2
      refine ⟨m, ?_, hdst⟩
      simp only [List.mem_append, List.mem_filter]
      exact .inl (.inr ⟨hmem, by simp [hu]⟩)
  · intro n w ho
    rw [hk] at ho
    rw [hreply, he]
    simp only [envData, Quirks.fixed, Bool.false_eq_true, ↓reduceIte]
    rcases adjust_owner_inv' _ st st' p a h _ _ w ho with ⟨h1, h2⟩ | ⟨_, h2, _⟩
    · obtain ⟨e, hmem, hkey⟩ := rh.env n w h1
      have hnc : Item.env n ∉ adjustClears Quirks.fixed st a := by
        rcases h2 with h2 | h2
        · exact absurd rfl h2
        · exact h2
      have hnd : ¬ (delKeys (a.env.map (·.key))).contains n = true := by
        intro hdel
        apply hnc
        unfold adjustClears
        simp only [List.mem_append]
        refine .inl (.inl (.inr ?_))
        unfold envClears
        exact List.mem_map.2 ⟨e, List.mem_filter.2 ⟨hmem, by simpa [hkey] using hdel⟩, by rw [hkey]⟩
      refine ⟨e, ?_, hkey⟩
      simp only [List.mem_append, List.mem_filter]
      exact .inl (.inl ⟨hmem, by simpa [hkey] using hnd⟩)
    · obtain ⟨e, hmem, hu, hkey⟩ := env_mem_adjustSets a n h2
      refine ⟨e, ?_, hkey⟩
      simp only [List.mem_append, List.mem_filter]
      exact .inl (.inr ⟨hmem, by simp [hu]⟩)
  · intro d w ho
    rw [hk] at ho
    rw [hreply, hd]
    rcases adjust_owner_inv' _ st st' p a h _ _ w ho with ⟨h1, h2⟩ | ⟨_, h2, _⟩
    · obtain ⟨x, hmem, hp⟩ := rh.devices d w h1
      have hnc : Item.device d ∉ adjustClears Quirks.fixed st a := by
        rcases h2 with h2 | h2
        · exact absurd rfl h2
        · exact h2
      split
      · rename_i hl
        simp only [deviceData, Quirks.fixed, Bool.false_eq_true, ↓reduceIte]
        have hnd : ¬ (delKeys (a.devices.map (·.path))).contains d = true := by
          intro hdel
          apply hnc
          unfold adjustClears
          simp only [List.mem_append, hl, ↓reduceIte]
          refine .inr ?_
          unfold deviceClears
          exact List.mem_map.2 ⟨x, List.mem_filter.2 ⟨hmem, by simpa [hp] using hdel⟩, by rw [hp]⟩
        refine ⟨x, ?_, hp⟩
        simp only [List.mem_append, List.mem_filter]
        exact .inl (.inl ⟨hmem, by simpa [hp] using hnd⟩)
      · exact ⟨x, hmem, hp⟩
    · obtain ⟨hl, x, hmem, hu, hp⟩ := device_mem_adjustSets a d h2
      simp only [hl, ↓reduceIte, deviceData, Quirks.fixed, Bool.false_eq_true]
      refine ⟨x, ?_, hp⟩
      simp only [List.mem_append, List.mem_filter]
      exact .inl (.inr ⟨hmem, by simp [hu]⟩)

theorem setsUpd_not_keyed (u : Update) (it : Item) (h : it ∈ setsUpd u) :
    (∀ d, it ≠ .mount d) ∧ (∀ d, it ≠ .device d) ∧ (∀ d, it ≠ .env d) := by
  unfold setsUpd at h
  cases hr : u.resources with
  | none => simp [hr] at h
  | some r =>
    simp only [hr, resItems, resSets] at h
    have := resSetsWith_not_keyed r _ it h
    exact ⟨this.1, this.2.1, this.2.2.1⟩

theorem replyHolds_updateAll (st st' p us) (rh : ReplyHolds st) (h : updateAll Quirks.fixed st p us = .ok st') :
    ReplyHolds st' := by
  have hk := updateAll_kind _ st st' p us h
  have hr := (updateAll_view _ st st' p us h).2
  constructor
  · intro d w ho
    rw [hk] at ho; rw [hr]
    rcases updateAll_owner_inv st st' p us h _ _ w ho with h1 | ⟨u, _, _, hm, _⟩
    · exact rh.mounts d w h1
    · exact absurd rfl ((setsUpd_not_keyed u _ hm).1 d)
  · intro d w ho
    rw [hk] at ho; rw [hr]
    rcases updateAll_owner_inv st st' p us h _ _ w ho with h1 | ⟨u, _, _, hm, _⟩
    · exact rh.env d w h1
    · exact absurd rfl ((setsUpd_not_keyed u _ hm).2.2 d)
  · intro d w ho
    rw [hk] at ho; rw [hr]
    rcases updateAll_owner_inv st st' p us h _ _ w ho with h1 | ⟨u, _, _, hm, _⟩
    · exact rh.devices d w h1
    · exact absurd rfl ((setsUpd_not_keyed u _ hm).2.1 d)

theorem replyHolds_apply (st st' p r) (rh : ReplyHolds st) (h : apply Quirks.fixed st p r = .ok st') :
    ReplyHolds st' := by
  unfold apply at h
  split at h
  · cases h1 : adjust Quirks.fixed st p r.adjust with
    | error e => rw [h1] at h; cases h
    | ok st1 =>
      rw [h1] at h
      apply replyHolds_updateAll st1 st' p r.updates _ h
      cases ha : r.adjust with
      | none => rw [ha] at h1; simp [adjust] at h1; subst h1; exact rh
      | some a => rw [ha] at h1; exact replyHolds_adjust st st1 p a rh h1
  · exact replyHolds_updateAll st st' p r.updates rh h

end Nri.Result

namespace Nri.Result
open Nri.NApi Nri.Ledger

/-- the model's ledger is covered by an abstract owned-set -/
def AbsRel (st : State) (owned : List (Cid × Item)) : Prop :=
  ∀ c it w, st.owners.owner c it = some w → (c, it) ∈ owned

abbrev pairs (u : Update) : List (Cid × Item) := (setsUpd u).map fun it => (u.containerId, it)

theorem nodup_of_map_pair {α β : Type} (c : α) (l : List β) (h : (l.map fun x => (c, x)).Nodup) : l.Nodup := by
  induction l with
  | nil => exact List.nodup_nil
  | cons x rest ih =>
    simp only [List.map_cons, List.nodup_cons, List.mem_map, Prod.mk.injEq, true_and, exists_eq_right] at h
    exact List.nodup_cons.2 ⟨h.1, ih h.2⟩

theorem getUpdate_ok (st : State) (p : Plugin) (u : Update)
    (hns : ∀ id, st.kind = .create id → id ≠ u.containerId) : ∃ st1, getUpdate Quirks.fixed st p u = .ok st1 := by
  have hgo : ∃ st1, getUpdate.go Quirks.fixed st u = .ok st1 := by
    unfold getUpdate.go
    split
    · split <;> exact ⟨_, rfl⟩
    · split <;> exact ⟨_, rfl⟩
  unfold getUpdate
  split
  · rename_i id hk
    split
    · rename_i heq; exact absurd heq (hns id hk)
    · exact hgo
  · exact hgo

/-- the update loop under the abstract ledger's acceptance condition -/
theorem updateAll_abs (us : List Update) :
    ∀ (st : State) (p : Plugin) (acc : List (Cid × Item)), AbsRel st acc →
      (∀ u ∈ us, ∀ id, st.kind = .create id → id ≠ u.containerId) →
      (us.flatMap pairs).Nodup → (∀ x ∈ us.flatMap pairs, x ∉ acc) →
      ∃ st', updateAll Quirks.fixed st p us = .ok st' ∧ AbsRel st' (acc ++ us.flatMap pairs) := by
  induction us with
  | nil => intro st p acc har _ _ _; exact ⟨st, rfl, by simpa using har⟩
  | cons u rest ih =>
    intro st p acc har hns hnd hfree
    simp only [List.flatMap_cons] at hnd hfree
    obtain ⟨hnd1, hnd2, hdisj⟩ := List.nodup_append.1 hnd
    obtain ⟨st1, hg⟩ := getUpdate_ok st p u (hns u List.mem_cons_self)
    obtain ⟨hown, hk1⟩ := getUpdate_owners _ st st1 p u hg
    -- every field of the update is free
    have hfreeU : ∀ it ∈ setsUpd u, st1.owners.owner u.containerId it = none := by
      intro it hm
      cases ho : st1.owners.owner u.containerId it with
      | none => rfl
      | some w =>
        exfalso
        rw [hown] at ho
        exact hfree (u.containerId, it) (List.mem_append_left _ (List.mem_map.2 ⟨it, hm, rfl⟩)) (har _ _ w ho)
    obtain ⟨o, hco⟩ := claimAll_ok_of u.containerId p st1.owners (setsUpd u) hfreeU (nodup_of_map_pair _ _ hnd1)
    have hpart : claimAllPartial u.containerId p st1.owners (updSets Quirks.fixed st1 u) = (o, none) := by
      rw [updSets_fixed]; exact (claimAllPartial_none_iff _ _ _ _ _).2 hco
    have hu1 : update1 Quirks.fixed st p u = .ok { updData Quirks.fixed st1 u with owners := o } := by
      unfold update1; simp only [hg, hpart]
    have hk2 : ({ updData Quirks.fixed st1 u with owners := o } : State).kind = st.kind := by
      show (updData Quirks.fixed st1 u).kind = st.kind
      rw [updData_kind]; exact hk1
    have har2 : AbsRel { updData Quirks.fixed st1 u with owners := o } (acc ++ pairs u) := by
      intro c it w ho
      rcases claimAll_owner_inv _ _ _ _ _ hco c it w ho with h1 | ⟨hc, hm, _⟩
      · rw [hown] at h1; exact List.mem_append_left _ (har _ _ w h1)
      · subst hc; exact List.mem_append_right _ (List.mem_map.2 ⟨it, hm, rfl⟩)
    obtain ⟨st', hrest, har'⟩ := ih _ p (acc ++ pairs u) har2
      (by intro u' hu' id hk; exact hns u' (List.mem_cons_of_mem _ hu') id (by rw [← hk2]; exact hk))
      hnd2
      (by
        intro x hx hacc
        rcases List.mem_append.1 hacc with h1 | h1
        · exact hfree x (List.mem_append_right _ hx) h1
        · exact hdisj x h1 x hx rfl)
    refine ⟨st', ?_, by simpa [List.append_assoc] using har'⟩
    simp only [updateAll, hu1]; exact hrest

theorem allSets_create (id : Cid) (r : Response) (a : Adjustment) (ha : r.adjust = some a) :
    allSets (.create id) r = (adjustSets a).map (fun it => (id, it)) ++ r.updates.flatMap pairs := by
  unfold allSets; simp only [ha, setsAdj]

theorem allSets_noadj (k : Kind) (r : Response) (h : (∀ id, k ≠ .create id) ∨ r.adjust = none) :
    allSets k r = r.updates.flatMap pairs := by
  unfold allSets
  rcases h with h | h
  · cases k with
    | create id => exact absurd rfl (h id)
    | update id => rfl
    | stop => rfl
  · cases k <;> simp only [h] <;> rfl

theorem mem_allRemoves (k : Kind) (r : Response) (c : Cid) (it : Item) :
    (c, it) ∈ allRemoves k r ↔ ∃ a, r.adjust = some a ∧ k = .create c ∧ it ∈ removesAdj a := by
  unfold allRemoves
  cases k with
  | create id =>
    cases hra : r.adjust with
    | none => simp
    | some a =>
      simp only [List.mem_map, Prod.mk.injEq, Option.some.injEq, Kind.create.injEq, exists_eq_left']
      constructor
      · rintro ⟨x, hx, rfl, rfl⟩; exact ⟨rfl, hx⟩
      · rintro ⟨rfl, hx⟩; exact ⟨it, hx, rfl, rfl⟩
  | update id => simp
  | stop => simp

/-- one response: the abstract ledger accepts ⇒ the model accepts, and stays covered -/
theorem apply_abs (st : State) (p : Plugin) (r : Response) (owned owned' : List (Cid × Item))
    (rh : ReplyHolds st) (har : AbsRel st owned) (h : absStep st.kind owned r = some owned') :
    ∃ st', apply Quirks.fixed st p r = .ok st' ∧ AbsRel st' owned' := by
  unfold absStep at h
  split at h
  · cases h
  · rename_i hself
    simp only [] at h
    split at h
    · cases h
    · rename_i hnd
      split at h
      · cases h
      · rename_i hany
        cases h
        have hnd' : (allSets st.kind r).Nodup := by simpa using hnd
        have hfree : ∀ x ∈ allSets st.kind r, x ∉ owned.filter (fun x => !(allRemoves st.kind r).contains x) := by
          intro x hx hmem
          apply hany
          simp only [List.any_eq_true]
          exact ⟨x, hx, by simpa using hmem⟩
        have hns : ∀ u ∈ r.updates, ∀ id, st.kind = .create id → id ≠ u.containerId := by
          intro u hu id hk heq
          apply hself
          unfold selfUpdates
          rw [hk]
          simp only [List.any_eq_true, decide_eq_true_eq]
          exact ⟨u, hu, heq.symm⟩
        -- an owner not removed by this response stays in the filtered abstract set
        have hkeep : ∀ c it w, st.owners.owner c it = some w → (c, it) ∉ allRemoves st.kind r →
            (c, it) ∈ owned.filter (fun x => !(allRemoves st.kind r).contains x) := by
          intro c it w ho hnr
          exact List.mem_filter.2 ⟨har c it w ho, by simpa using hnr⟩
        cases hkind : st.kind with
        | create id =>
          cases ha : r.adjust with
          | none =>
            have hs : allSets st.kind r = r.updates.flatMap pairs := allSets_noadj _ _ (.inr ha)
            have hrm : allRemoves st.kind r = [] := by unfold allRemoves; rw [hkind]; simp [ha]
            obtain ⟨st', hu, har'⟩ := updateAll_abs r.updates st p _
              (fun c it w ho => hkeep c it w ho (by rw [hrm]; simp))
              hns (by rw [← hs]; exact hnd') (by rw [← hs]; exact hfree)
            refine ⟨st', ?_, by rw [hkind] at hs har'; rw [hs]; exact har'⟩
            unfold apply; rw [hkind]; simp only [ha, adjust_none]; exact hu
          | some a =>
            have hs := allSets_create id r a ha
            rw [hkind] at hnd' hfree hkeep
            rw [hs] at hnd' hfree
            obtain ⟨hndA, hndU, hdisj⟩ := List.nodup_append.1 hnd'
            have hcid : cidOf st.kind = id := by rw [hkind]; rfl
            -- the adjustment's claims all succeed
            have hfreeA : ∀ it ∈ adjustSets a,
                (clearAll st.owners id (adjustClears Quirks.fixed st a)).owner id it = none := by
              intro it hm
              cases ho : st.owners.owner id it with
              | none =>
                cases h2 : (clearAll st.owners id (adjustClears Quirks.fixed st a)).owner id it with
                | none => rfl
                | some w => rw [owner_clearAll_some _ _ _ _ _ _ h2] at ho; cases ho
              | some w =>
                apply owner_clearAll_mem
                have hin : (id, it) ∈ (adjustSets a).map (fun it => (id, it)) ++ r.updates.flatMap pairs :=
                  List.mem_append_left _ (List.mem_map.2 ⟨it, hm, rfl⟩)
                have hrem : (id, it) ∈ allRemoves (.create id) r := by
                  cases hd : decide ((id, it) ∈ allRemoves (.create id) r) with
                  | true => exact of_decide_eq_true hd
                  | false =>
                    exfalso
                    exact hfree _ hin (hkeep id it w ho (of_decide_eq_false hd))
                obtain ⟨a', ha', _, hr⟩ := (mem_allRemoves _ r id it).1 hrem
                rw [ha] at ha'; cases ha'
                exact clears_effective st a rh it w (by rw [hcid]; exact ho) hr
            obtain ⟨o, hco⟩ := claimAll_ok_of id p _ (adjustSets a) hfreeA (nodup_of_map_pair _ _ hndA)
            have hadj : adjust Quirks.fixed st p (some a) = .ok { adjustData Quirks.fixed st a with owners := o } :=
              (adjust_ok_iff _ st _ p a).2 ⟨o, by rw [hcid]; exact hco, rfl⟩
            have hk1 : ({ adjustData Quirks.fixed st a with owners := o } : State).kind = .create id := by
              show (adjustData Quirks.fixed st a).kind = _
              rw [adjustData_kind]; exact hkind
            -- the ledger after the adjustment is covered by owned1 ++ (adjust sets)
            have har1 : AbsRel { adjustData Quirks.fixed st a with owners := o }
                (owned.filter (fun x => !(allRemoves (.create id) r).contains x) ++ (adjustSets a).map (fun it => (id, it))) := by
              intro c it w ho
              rcases adjust_owner_inv' _ st _ p a hadj c it w ho with ⟨h1, h2⟩ | ⟨hc, hm, _⟩
              · apply List.mem_append_left
                apply hkeep c it w h1
                intro hrem
                obtain ⟨a', ha', hkc, hr⟩ := (mem_allRemoves _ r c it).1 hrem
                rw [ha] at ha'; cases ha'
                cases hkc
                rcases h2 with h2 | h2
                · exact h2 hcid.symm
                · exact h2 (clears_effective st a rh it w (by rw [hcid]; exact h1) hr)
              · rw [hcid] at hc; subst hc
                exact List.mem_append_right _ (List.mem_map.2 ⟨it, hm, rfl⟩)
            obtain ⟨st', hu, har'⟩ := updateAll_abs r.updates _ p _ har1
              (by intro u hu id' hk'; rw [hk1] at hk'; cases hk'; exact hns u hu id hkind)
              hndU
              (by
                intro x hx hacc
                rcases List.mem_append.1 hacc with h1 | h1
                · exact hfree x (List.mem_append_right _ hx) h1
                · exact hdisj x h1 x hx rfl)
            refine ⟨st', ?_, ?_⟩
            · unfold apply; rw [hkind]; simp only [ha, hadj]; exact hu
            · rw [hs]; simpa [List.append_assoc] using har'
        | update id =>
          have hs : allSets st.kind r = r.updates.flatMap pairs := allSets_noadj _ _ (.inl (by rw [hkind]; intro _ h; cases h))
          have hrm : allRemoves st.kind r = [] := by unfold allRemoves; rw [hkind]
          obtain ⟨st', hu, har'⟩ := updateAll_abs r.updates st p _
            (fun c it w ho => hkeep c it w ho (by rw [hrm]; simp))
            hns (by rw [← hs]; exact hnd') (by rw [← hs]; exact hfree)
          refine ⟨st', ?_, by rw [hkind] at hs har'; rw [hs]; exact har'⟩
          unfold apply; rw [hkind]; exact hu
        | stop =>
          have hs : allSets st.kind r = r.updates.flatMap pairs := allSets_noadj _ _ (.inl (by rw [hkind]; intro _ h; cases h))
          have hrm : allRemoves st.kind r = [] := by unfold allRemoves; rw [hkind]
          obtain ⟨st', hu, har'⟩ := updateAll_abs r.updates st p _
            (fun c it w ho => hkeep c it w ho (by rw [hrm]; simp))
            hns (by rw [← hs]; exact hnd') (by rw [← hs]; exact hfree)
          refine ⟨st', ?_, by rw [hkind] at hs har'; rw [hs]; exact har'⟩
          unfold apply; rw [hkind]; exact hu

end Nri.Result

namespace Nri.Result
open Nri.NApi Nri.Ledger

/-- chains in which every plugin answers -/
def answeredAll (rs : List (Plugin × Response)) : List (Plugin × Option Response) :=
  rs.map fun (p, r) => (p, some r)

theorem run_abs (rs : List (Plugin × Response)) :
    ∀ (st : State) (owned owned' : List (Cid × Item)), ReplyHolds st → AbsRel st owned →
      absRun st.kind owned rs = some owned' →
      ∃ st', run Quirks.fixed st (answeredAll rs) = .ok st' ∧ AbsRel st' owned' ∧ ReplyHolds st' := by
  induction rs with
  | nil =>
    intro st owned owned' rh har h
    simp [absRun] at h; subst h
    exact ⟨st, rfl, har, rh⟩
  | cons x rest ih =>
    intro st owned owned' rh har h
    obtain ⟨p, r⟩ := x
    simp only [absRun] at h
    cases hs : absStep st.kind owned r with
    | none => rw [hs] at h; cases h
    | some owned1 =>
      rw [hs] at h
      obtain ⟨st1, ha, har1⟩ := apply_abs st p r owned owned1 rh har hs
      have hk := apply_kind _ st st1 p r ha
      have rh1 := replyHolds_apply st st1 p r rh ha
      obtain ⟨st', hr, har', rh'⟩ := ih st1 owned1 owned' rh1 har1 (by rw [hk]; exact h)
      exact ⟨st', by simp only [answeredAll, List.map_cons, run, ha]; exact hr, har', rh'⟩

theorem replyHolds_fresh (st : State) (h : st.owners = []) : ReplyHolds st := by
  constructor <;> (intro d w ho; rw [h] at ho; simp [Owners.owner, AList.lookup] at ho)

theorem absRel_fresh (st : State) (h : st.owners = []) : AbsRel st [] := by
  intro c it w ho; rw [h] at ho; simp [Owners.owner, AList.lookup] at ho

end Nri.Result
