/-
C03, mounts.  `orderedMounts.Less` is total on distinct destinations, so two sorted
permutations of a list with distinct destinations are EQUAL; hence the sorted mount list of
"generator on the combined reply" equals that of the sequential application, although the
generator re-sorts after every `AdjustMounts`.  Without a propagation option (`noPropagation`,
part of `WellFormed`) `AdjustMounts` cannot fail and leaves the rootfs propagation alone.
Core Lean only.
-/
import NriModel.Lemmas.ComposeKeyed
import NriModel.Lemmas.ComposeScalars

namespace Nri.Compose
open Nri Nri.Generate

/-! ### totality of the order, uniqueness of the sorted list -/

theorem strLt_total {a b : Str} (h : a ≠ b) : Mounts.strLt a b = true ∨ Mounts.strLt b a = true := by
  induction a generalizing b with
  | nil =>
    cases b with
    | nil => exact absurd rfl h
    | cons d s => left; rfl
  | cons c r ih =>
    cases b with
    | nil => right; rfl
    | cons d s =>
      simp only [Mounts.strLt]
      by_cases h1 : c.toNat < d.toNat
      · left; simp [h1]
      · by_cases h2 : d.toNat < c.toNat
        · right; simp [h2]
        · have he : c.toNat = d.toNat := by omega
          have hcd : c = d := by
            apply Char.ext
            apply UInt32.toNat_inj.1
            exact he
          subst hcd
          have hrs : r ≠ s := fun e => h (by rw [e])
          rcases ih hrs with h3 | h3
          · left; simp [h3]
          · right; simp [h3]

theorem mountLt_total {a b : Oci.Mount} (h : a.destination ≠ b.destination) :
    Mounts.mountLt a b = true ∨ Mounts.mountLt b a = true := by
  unfold Mounts.mountLt
  simp only [Bool.or_eq_true, decide_eq_true_eq, Bool.and_eq_true]
  rcases Nat.lt_trichotomy (Mounts.parts a.destination) (Mounts.parts b.destination) with h1 | h1 | h1
  · left; left; exact h1
  · rcases strLt_total h with h2 | h2
    · left; right; exact ⟨h1, h2⟩
    · right; right; exact ⟨h1.symm, h2⟩
  · right; left; exact h1

/-- a sorted list with distinct destinations is determined by its elements -/
theorem sorted_perm_eq {l1 l2 : List Oci.Mount} (h1 : Mounts.Sorted l1) (h2 : Mounts.Sorted l2)
    (hp : l1.Perm l2) (hn : NodupKeys Oci.Mount.destination l1) : l1 = l2 := by
  induction l1 generalizing l2 with
  | nil => exact hp.nil_eq
  | cons a t1 ih =>
    cases l2 with
    | nil => exact absurd hp.symm.nil_eq (by simp)
    | cons b t2 =>
      unfold NodupKeys at hn ih
      simp only [List.map_cons, List.nodup_cons] at hn
      unfold Mounts.Sorted at h1 h2 ih
      rw [List.pairwise_cons] at h1 h2
      have hab : a = b := by
        by_cases hab : a = b
        · exact hab
        · exfalso
          have ha2 : a ∈ t2 := by
            have : a ∈ b :: t2 := hp.mem_iff.1 (by simp)
            rcases List.mem_cons.mp this with h | h
            · exact absurd h hab
            · exact h
          have hb1 : b ∈ t1 := by
            have : b ∈ a :: t1 := hp.mem_iff.2 (by simp)
            rcases List.mem_cons.mp this with h | h
            · exact absurd h.symm hab
            · exact h
          have hd : a.destination ≠ b.destination := by
            intro he; apply hn.1; exact List.mem_map.mpr ⟨b, hb1, he.symm⟩
          have n1 := h1.1 b hb1   -- mountLt b a = false
          have n2 := h2.1 a ha2   -- mountLt a b = false
          rcases mountLt_total hd with h | h
          · rw [h] at n2; cases n2
          · rw [h] at n1; cases n1
      subst hab
      congr 1
      exact ih h1.2 h2.2 (List.Perm.cons_inv hp) hn.2

theorem sortMounts_perm_eq {l1 l2 : List Oci.Mount} (hp : l1.Perm l2)
    (hn : NodupKeys Oci.Mount.destination l1) : Mounts.sortMounts l1 = Mounts.sortMounts l2 :=
  sorted_perm_eq (Mounts.sortMounts_sorted l1) (Mounts.sortMounts_sorted l2)
    (((Mounts.sortMounts_perm l1).trans hp).trans (Mounts.sortMounts_perm l2).symm)
    (Mounts.nodup_sortMounts hn)

/-! ### `AdjustMounts` as a total function when no propagation option is present -/

def mntConv (m : NApi.Mount) : Oci.Mount := (toGenMount m).toOCI

/-- the mount list after `AdjustMounts` -/
def mntG (ms : List Oci.Mount) (a : NApi.Adjustment) : List Oci.Mount :=
  if a.mounts = [] then ms
  else Mounts.sortMounts (twoPass Oci.Mount.destination (fun m : NApi.Mount => m.destination) mntConv ms a.mounts)

theorem propagationQuery_none (m : Api.Mount) (h : m.options.all (fun o => !Api.isPropagationOpt o) = true) :
    m.propagationQuery [] = [] := by
  unfold Api.Mount.propagationQuery
  generalize m.options = os at h
  induction os with
  | nil => rfl
  | cons o r ih =>
    simp only [List.all_cons, Bool.and_eq_true, Bool.not_eq_true'] at h
    simp only [List.foldl_cons, h.1, Bool.false_eq_true, if_false]
    exact ih (by simpa using h.2)

theorem setStep_noprop (hp : Str → Str) (st : Mounts.State) (m : Api.Mount) (hs : st.prop = [])
    (h : m.options.all (fun o => !Api.isPropagationOpt o) = true) :
    Mounts.setStep hp st m =
      .ok { mounts := removeFirst Oci.Mount.destination m.destination st.mounts ++ [m.toOCI],
            rootfs := st.rootfs, prop := [] } := by
  unfold Mounts.setStep
  simp only [hs, propagationQuery_none m h]
  have n1 : ¬ (([] : Str) = str "rshared") := by decide
  have n2 : ¬ (([] : Str) = str "rslave") := by decide
  simp [n1, n2]

theorem sets_noprop (hp : Str → Str) (L : List Api.Mount) (st : Mounts.State) (hs : st.prop = [])
    (h : ∀ m ∈ L, m.options.all (fun o => !Api.isPropagationOpt o) = true) :
    ∃ st', Mounts.sets hp st L = .ok st' ∧ st'.rootfs = st.rootfs := by
  induction L generalizing st with
  | nil => exact ⟨st, rfl, rfl⟩
  | cons m r ih =>
    simp only [Mounts.sets]
    have hr : ∀ m ∈ r, m.options.all (fun o => !Api.isPropagationOpt o) = true :=
      fun x hx => h x (List.mem_cons_of_mem _ hx)
    by_cases hm : Api.isMarked m.destination = true
    · simp only [hm, if_true]; exact ih st hs hr
    · simp only [hm, Bool.false_eq_true, if_false]
      rw [setStep_noprop hp st m hs (h m (by simp))]
      simp only
      obtain ⟨st', h1, h2⟩ := ih
        { mounts := removeFirst Oci.Mount.destination m.destination st.mounts ++ [m.toOCI],
          rootfs := st.rootfs, prop := [] } rfl hr
      exact ⟨st', h1, h2⟩

theorem toGenMount_noprop (a : NApi.Adjustment) (h : a.mounts.all noPropagation = true) :
    ∀ m ∈ a.mounts.map toGenMount, m.options.all (fun o => !Api.isPropagationOpt o) = true := by
  intro m hm
  obtain ⟨x, hx, rfl⟩ := List.mem_map.1 hm
  exact List.all_eq_true.1 h x hx

theorem gRemovals_map' {α ε ε' : Type} {key : α → Str} {rawKey : ε → Str} {f : ε' → ε} {l : List α} {L : List ε'} :
    gRemovals key rawKey l (L.map f) = gRemovals key (fun e => rawKey (f e)) l L := by
  simp [gRemovals, List.foldl_map]

theorem gSets_map' {α ε ε' : Type} {key : α → Str} {rawKey : ε → Str} {conv : ε → α} {f : ε' → ε}
    {l : List α} {L : List ε'} :
    gSets key rawKey conv l (L.map f) = gSets key (fun e => rawKey (f e)) (fun e => conv (f e)) l L := by
  simp [gSets, List.foldl_map]

/-- **the mount list after ANY successful `AdjustMounts`** (propagation options allowed) -/
theorem mounts_apply_mounts (hp : Str → Str) (ms : List Oci.Mount) (rootfs : Str) (a : NApi.Adjustment)
    (mp : List Oci.Mount × Str) (hn : NodupKeys Oci.Mount.destination ms)
    (h : Mounts.apply hp ms rootfs (toGen a).mounts = .ok mp) : mp.1 = mntG ms a := by
  unfold Mounts.apply at h
  unfold mntG
  rw [toGen_mounts] at h
  cases hm : a.mounts with
  | nil => rw [hm] at h; simp at h; cases h; simp
  | cons m0 r0 =>
    rw [← hm]
    have hne : (a.mounts.map toGenMount).isEmpty = false := by rw [hm]; rfl
    have hne' : ¬ a.mounts = [] := by rw [hm]; simp
    simp only [hne, Bool.false_eq_true, if_false] at h
    simp only [hne', if_false]
    split at h
    · rename_i st hst
      cases h
      have e := Mounts.sets_mounts _ hst
      simp only [Mounts.removals_eq] at e
      simp only
      rw [e, gRemovals_map', gSets_map']
      congr 1
      exact gTwoPass_eq Oci.Mount.destination (fun m : NApi.Mount => m.destination) mntConv (fun _ _ => rfl) a.mounts hn
    · cases h

/-- **`AdjustMounts` without propagation options**: succeeds, rootfs propagation untouched,
    mount list = `mntG`. -/
theorem mounts_apply_noprop (hp : Str → Str) (ms : List Oci.Mount) (rootfs : Str) (a : NApi.Adjustment)
    (hn : NodupKeys Oci.Mount.destination ms) (h : a.mounts.all noPropagation = true) :
    Mounts.apply hp ms rootfs (toGen a).mounts = .ok (mntG ms a, rootfs) := by
  have key : ∃ mp, Mounts.apply hp ms rootfs (toGen a).mounts = .ok mp ∧ mp.2 = rootfs := by
    unfold Mounts.apply
    rw [toGen_mounts]
    cases hm : a.mounts with
    | nil => exact ⟨(ms, rootfs), by simp, rfl⟩
    | cons m0 r0 =>
      rw [← hm]
      have hne : (a.mounts.map toGenMount).isEmpty = false := by rw [hm]; rfl
      simp only [hne, Bool.false_eq_true, if_false]
      obtain ⟨st', h1, h2⟩ := sets_noprop hp (a.mounts.map toGenMount)
        { mounts := Mounts.removals ms (a.mounts.map toGenMount), rootfs := rootfs, prop := [] } rfl
        (toGenMount_noprop a h)
      rw [h1]
      exact ⟨_, rfl, h2⟩
  obtain ⟨mp, h1, h2⟩ := key
  rw [h1]
  have := mounts_apply_mounts hp ms rootfs a mp hn h1
  obtain ⟨m, r⟩ := mp
  simp only at this h2
  rw [this, h2]

/-! ### distinct keys are preserved -/

theorem nodup_filter {α : Type} (key : α → Str) {l : List α} (p : α → Bool) (h : NodupKeys key l) :
    NodupKeys key (l.filter p) := by
  unfold NodupKeys at *
  exact (List.filter_sublist.map key).nodup h

theorem nodup_putAll {α : Type} (key : α → Str) {l : List α} (S : List α) (h : NodupKeys key l) :
    NodupKeys key (putAll key l S) := by
  induction S generalizing l with
  | nil => exact h
  | cons y r ih =>
    simp only [putAll, List.foldl_cons] at ih ⊢
    apply ih
    unfold NodupKeys
    rw [List.map_append, List.nodup_append]
    refine ⟨nodup_filter key _ h, by simp, ?_⟩
    intro a ha b hb
    simp only [List.map_cons, List.map_nil, List.mem_singleton] at hb
    obtain ⟨z, hz, rfl⟩ := List.mem_map.1 ha
    have := (List.mem_filter.1 hz).2
    rw [hb]; simpa using this

theorem nodup_twoPass {α ε : Type} (key : α → Str) (rawKey : ε → Str) (conv : ε → α) {l : List α} (L : List ε)
    (h : NodupKeys key l) : NodupKeys key (twoPass key rawKey conv l L) :=
  nodup_putAll key _ (nodup_filter key _ h)

theorem mntG_nodup (ms : List Oci.Mount) (a : NApi.Adjustment) (h : NodupKeys Oci.Mount.destination ms) :
    NodupKeys Oci.Mount.destination (mntG ms a) := by
  unfold mntG
  split
  · exact h
  · exact Mounts.nodup_sortMounts (nodup_twoPass _ _ _ _ h)

/-! ### the step lemma -/

theorem twoPass_nil {α ε : Type} (key : α → Str) (rawKey : ε → Str) (conv : ε → α) (l : List α) :
    twoPass key rawKey conv l [] = l := by
  simp [twoPass, delOf, setsOf, putAll]

theorem twoPass_perm {α ε : Type} (key : α → Str) (rawKey : ε → Str) (conv : ε → α) {l l' : List α}
    (L : List ε) (h : l.Perm l') : (twoPass key rawKey conv l L).Perm (twoPass key rawKey conv l' L) :=
  putAll_perm key _ (h.filter _)

theorem keyedStep_ne_nil {ε : Type} (rawKey : ε → Str) (R a : List ε) (h : a ≠ []) :
    keyedStep rawKey R a ≠ [] := by
  intro he
  unfold keyedStep at he
  simp only [List.append_eq_nil_iff] at he
  obtain ⟨⟨_, h2⟩, h3⟩ := he
  cases a with
  | nil => exact h rfl
  | cons x r =>
    -- x is unmarked (then `add` is non-empty) or marked (then either its key is set, or it is lone)
    have hall : ∀ y ∈ x :: r, (NApi.isMarked (rawKey y)).2 = true := by
      intro y hy
      have := (List.filter_eq_nil_iff.1 h2) y hy
      simpa using this
    have hx := hall x (by simp)
    -- no unmarked entries, so nothing is set again, so x is lone
    have hdel : delOf rawKey (loneOf rawKey (x :: r)) (Api.stripMarker (rawKey x)) = true := by
      have hcl : loneOf rawKey (x :: r) =
          ((x :: r).filter fun y => (NApi.isMarked (rawKey y)).2 &&
            !(((x :: r).filter fun y => !(NApi.isMarked (rawKey y)).2).map rawKey).contains
              (NApi.clearMarker (rawKey y))).foldr
            (fun y acc => if acc.any (fun z => rawKey z = rawKey y) then acc else y :: acc) [] := rfl
      rw [hcl, h2]
      unfold delOf
      rw [dedup_any rawKey (fun k => Api.isMarked k && Api.stripMarker k == Api.stripMarker (rawKey x))]
      apply List.any_eq_true.2
      refine ⟨x, ?_, ?_⟩
      · rw [isMarked_snd] at hx; simp [hx]
      · rw [isMarked_snd] at hx; simp [hx]
    rw [h3] at hdel
    simp [delOf] at hdel

theorem mntG_step (x : List Oci.Mount) (R a : NApi.Adjustment) (hx : NodupKeys Oci.Mount.destination x)
    (hk : ∀ k ∈ a.mounts.map (·.destination), keyOk k = true) :
    mntG x (replyStep R a) = mntG (mntG x R) a := by
  have hstep : (replyStep R a).mounts = keyedStep (·.destination) R.mounts a.mounts := rfl
  by_cases ha : a.mounts = []
  · unfold mntG
    rw [hstep, ha, keyedStep_nil]
    simp
  · have hne := keyedStep_ne_nil (fun m : NApi.Mount => m.destination) R.mounts a.mounts ha
    have hcomp := twoPass_compose Oci.Mount.destination (fun m : NApi.Mount => m.destination) mntConv
      (fun _ _ => rfl) x R.mounts a.mounts (keyedStep (·.destination) R.mounts a.mounts)
      (setsOf_keyedStep (fun m : NApi.Mount => m.destination) Oci.Mount.destination mntConv (fun _ _ => rfl) _ _)
      (delOf_keyedStep (fun m : NApi.Mount => m.destination) _ _ hk)
    unfold mntG
    rw [hstep]
    simp only [hne, ha, if_false]
    rw [hcomp]
    by_cases hR : R.mounts = []
    · simp [hR, twoPass_nil]
    · simp only [hR, if_false]
      have hn2 := nodup_twoPass Oci.Mount.destination (fun m : NApi.Mount => m.destination) mntConv R.mounts hx
      apply sortMounts_perm_eq
      · exact twoPass_perm _ _ _ _ (Mounts.sortMounts_perm _).symm
      · exact nodup_twoPass _ _ _ _ hn2

end Nri.Compose
