/-
C03, devices: the device LIST of "generator on the combined reply" equals that of the
sequential application (given distinct original paths), and the device-cgroup allow rules of
the combined application are among those of the sequential one (the generator never retracts
the rule of a device a later plugin removes or replaces — finding C03:devRules-stale).
Core Lean only.
-/
import NriModel.Lemmas.ComposeKeyed
import NriModel.Lemmas.ComposeScalars

namespace Nri.Compose
open Nri Nri.Generate

/-- the device entries an adjustment effectively carries -/
def devsOf (a : NApi.Adjustment) : List NApi.Device := if a.hasLinux then a.devices else []

def devConv (d : NApi.Device) : Oci.Device := (toGenDevice d).toOCI
def devRule (d : NApi.Device) : Oci.DeviceCgroup := (toGenDevice d).cgroupRule

/-- `AdjustDevices` on `(Linux.Devices, Linux.Resources.Devices)` -/
def devG (st : Devices.State) (a : NApi.Adjustment) : Devices.State :=
  Devices.apply st (toGen a).linuxDevices

/-- combined vs sequential: same device list, rules of the combined among the sequential -/
def DevEq (c s : Devices.State) : Prop := c.1 = s.1 ∧ ∀ r ∈ c.2, r ∈ s.2

theorem toGen_linuxDevices' (a : NApi.Adjustment) : (toGen a).linuxDevices = (devsOf a).map toGenDevice := by
  rw [toGen_linuxDevices]; unfold devsOf; cases a.hasLinux <;> rfl

theorem devsOf_step (R a : NApi.Adjustment) (hR : R.hasLinux = true) :
    devsOf (replyStep R a) = keyedStep (·.path) (devsOf R) (devsOf a) := by
  unfold devsOf replyStep
  simp only [hR, if_true]
  cases a.hasLinux
  · simp [keyedStep_nil]
  · simp

theorem gRemovals_map {α ε ε' : Type} (key : α → Str) (rawKey : ε → Str) (f : ε' → ε) (l : List α) (L : List ε') :
    gRemovals key rawKey l (L.map f) = gRemovals key (fun e => rawKey (f e)) l L := by
  simp [gRemovals, List.foldl_map]

theorem gSets_map {α ε ε' : Type} (key : α → Str) (rawKey : ε → Str) (conv : ε → α) (f : ε' → ε)
    (l : List α) (L : List ε') :
    gSets key rawKey conv l (L.map f) = gSets key (fun e => rawKey (f e)) (fun e => conv (f e)) l L := by
  simp [gSets, List.foldl_map]

theorem devG_fst (st : Devices.State) (a : NApi.Adjustment) (h : NodupKeys Oci.Device.path st.1) :
    (devG st a).1 = twoPass Oci.Device.path (fun d : NApi.Device => d.path) devConv st.1 (devsOf a) := by
  unfold devG
  rw [Devices.apply_fst _ _ h, toGen_linuxDevices', gRemovals_map, gSets_map]
  exact gTwoPass_eq Oci.Device.path (fun d : NApi.Device => d.path) devConv (fun _ _ => rfl) (devsOf a) h

theorem devG_snd (st : Devices.State) (a : NApi.Adjustment) :
    (devG st a).2 = st.2 ++ setsOf (fun d : NApi.Device => d.path) devRule (devsOf a) := by
  unfold devG
  rw [Devices.apply_snd, toGen_linuxDevices']
  simp only [setsOf, List.filter_map, List.map_map]
  rfl

theorem devG_nodup (st : Devices.State) (a : NApi.Adjustment) (h : NodupKeys Oci.Device.path st.1) :
    NodupKeys Oci.Device.path (devG st a).1 := by
  unfold devG
  rw [Devices.apply_fst _ _ h]
  exact nodup_gSets Oci.Device.path Api.LinuxDevice.path Api.LinuxDevice.toOCI (fun _ _ => rfl) _
    (nodup_gRemovals Oci.Device.path Api.LinuxDevice.path _ h)

theorem mem_setsOf_keyedStep {ε β : Type} (rawKey : ε → Str) (conv : ε → β) (R a : List ε) (y : β)
    (h : y ∈ setsOf rawKey conv (keyedStep rawKey R a)) :
    y ∈ setsOf rawKey conv R ∨ y ∈ setsOf rawKey conv a := by
  unfold setsOf at *
  simp only [List.mem_map, List.mem_filter] at *
  obtain ⟨e, ⟨he, hm⟩, rfl⟩ := h
  unfold keyedStep at he
  simp only [List.mem_append, List.mem_filter] at he
  rcases he with (he | he) | he
  · exact .inl ⟨e, ⟨he.1, hm⟩, rfl⟩
  · exact .inr ⟨e, ⟨he.1, hm⟩, rfl⟩
  · exact .inr ⟨e, ⟨(mem_loneOf rawKey he).1, hm⟩, rfl⟩

theorem devG_step (x : Devices.State) (R a : NApi.Adjustment) (hx : NodupKeys Oci.Device.path x.1)
    (hR : R.hasLinux = true) (hk : ∀ k ∈ a.devices.map (·.path), keyOk k = true) :
    DevEq (devG x (replyStep R a)) (devG (devG x R) a) := by
  have hk' : ∀ k ∈ (devsOf a).map (·.path), keyOk k = true := by
    unfold devsOf; cases a.hasLinux
    · simp
    · simpa using hk
  constructor
  · rw [devG_fst _ _ hx, devG_fst _ _ (devG_nodup x R hx), devG_fst _ _ hx, devsOf_step R a hR]
    apply twoPass_compose Oci.Device.path (fun d : NApi.Device => d.path) devConv (fun _ _ => rfl)
    · exact setsOf_keyedStep (fun d : NApi.Device => d.path) Oci.Device.path devConv (fun _ _ => rfl) _ _
    · exact delOf_keyedStep (fun d : NApi.Device => d.path) _ _ hk'
  · intro r hr
    rw [devG_snd, devG_snd]
    rw [devG_snd, devsOf_step R a hR] at hr
    simp only [List.mem_append] at hr ⊢
    rcases hr with hr | hr
    · exact .inl (.inl hr)
    · rcases mem_setsOf_keyedStep _ _ _ _ _ hr with h | h
      · exact .inl (.inr h)
      · exact .inr h

theorem devG_cong (x y : Devices.State) (a : NApi.Adjustment) (hx : NodupKeys Oci.Device.path x.1)
    (hy : NodupKeys Oci.Device.path y.1) (h : DevEq x y) : DevEq (devG x a) (devG y a) := by
  constructor
  · rw [devG_fst _ _ hx, devG_fst _ _ hy, h.1]
  · intro r hr
    rw [devG_snd] at hr ⊢
    simp only [List.mem_append] at hr ⊢
    rcases hr with hr | hr
    · exact .inl (h.2 r hr)
    · exact .inr hr

end Nri.Compose
