/-
Lemmas about `Generate.adjustWith` (`Generator.Adjust` with the `WithAnnotationFilter` /
`WithResourceChecker` callbacks): how it factors through `Generate.adjust`, when the checker
runs and on what, and what a checker that only edits `Linux.Resources` can and cannot change.
Core Lean only.
-/
import NriModel.GenerateOptions
import NriModel.Lemmas.GenerateFrame

namespace Nri.Generate
open Nri.Api
open Nri.Oci (Spec)

/-- `Adjust` without callbacks is its first half followed by its second half. -/
theorem adjust_eq_pre_post (ext : Externals) (s : Spec) (a : Adjustment) :
    adjust ext s a = (adjustPre ext s a >>= fun s1 => adjustPost ext s1 a) := by
  unfold adjust adjustPre adjustPost
  simp only [bind, Except.bind, pure, Except.pure]
  cases injectCDI ext (adjustHooks (adjustArgs (adjustEnv (adjustAnnotations s a.annotations) a.env) a.args) a.hooks) a.cdiDevices <;> rfl

@[simp] theorem filterStage_none (o : Options) (h : o.filterAnnotations = none) (ann : AList Str Str) :
    filterStage o ann = .ok ann := by
  unfold filterStage; rw [h]

@[simp] theorem checkStage_nochecker (o : Options) (h : o.checkResources = none) (a : Adjustment) (s : Spec) :
    checkStage o a s = .ok s := by
  unfold checkStage; rw [h]; cases a.resources <;> rfl

theorem checkStage_noresources (o : Options) (a : Adjustment) (h : a.resources = none) (s : Spec) :
    checkStage o a s = .ok s := by
  unfold checkStage; rw [h]

theorem liftGen_bind {α β : Type} (x : Except GenError α) (f : α → Except GenError β) :
    liftGen (x >>= f) = (liftGen x >>= fun v => liftGen (f v)) := by
  cases x <;> rfl

/-- Without a filter and without a checker `adjustWith` is `adjust`. -/
theorem adjustWith_plain (o : Options) (hf : o.filterAnnotations = none) (hc : o.checkResources = none)
    (ext : Externals) (s : Spec) (a : Adjustment) :
    adjustWith o ext s a = liftGen (adjust ext s a) := by
  unfold adjustWith
  rw [filterStage_none o hf, adjust_eq_pre_post, liftGen_bind]
  simp only [bind, Except.bind]
  cases hpre : adjustPre ext s a with
  | error e => simp [liftGen]
  | ok s1 =>
    have : ({ a with annotations := a.annotations } : Adjustment) = a := rfl
    simp only [liftGen, checkStage_nochecker o hc]

theorem adjustWith_default (ext : Externals) (s : Spec) (a : Adjustment) :
    adjustWith {} ext s a = liftGen (adjust ext s a) :=
  adjustWith_plain {} rfl rfl ext s a

/-- A failing annotation filter fails `Adjust` with the filter's error, whatever else the
    adjustment, the spec and the other callbacks are. -/
theorem adjustWith_filter_error (o : Options) (ext : Externals) (s : Spec) (a : Adjustment)
    (f : AList Str Str → Except Unit (AList Str Str)) (hf : o.filterAnnotations = some f)
    (he : f a.annotations = .error ()) :
    adjustWith o ext s a = .error .annotationFilter := by
  unfold adjustWith filterStage
  rw [hf]; simp only [he]; rfl

/-- An accepting annotation filter: `Adjust` behaves as the generator without the filter on the
    adjustment whose annotations are the filter's answer. -/
theorem adjustWith_filter_ok (o : Options) (ext : Externals) (s : Spec) (a : Adjustment)
    (f : AList Str Str → Except Unit (AList Str Str)) (hf : o.filterAnnotations = some f)
    (ann : AList Str Str) (hk : f a.annotations = .ok ann) :
    adjustWith o ext s a =
      adjustWith { o with filterAnnotations := none } ext s { a with annotations := ann } := by
  unfold adjustWith filterStage
  rw [hf]; simp only [hk]
  rfl

/-- The checker is not consulted for an adjustment without a resources section. -/
theorem adjustWith_check_skipped (o : Options) (ext : Externals) (s : Spec) (a : Adjustment)
    (hr : a.resources = none) :
    adjustWith o ext s a = adjustWith { o with checkResources := none } ext s a := by
  unfold adjustWith
  cases hfs : filterStage o a.annotations with
  | error e =>
    have : filterStage { o with checkResources := none } a.annotations = .error e := hfs
    simp only [this, bind, Except.bind]
  | ok ann =>
    have h2 : filterStage { o with checkResources := none } a.annotations = .ok ann := hfs
    have hr' : ({ a with annotations := ann } : Adjustment).resources = none := hr
    simp only [h2, bind, Except.bind]
    cases liftGen (adjustPre ext s { a with annotations := ann }) with
    | error e => rfl
    | ok s1 =>
      simp only [checkStage_noresources _ _ hr']

/-- With a resources section and a checker (and no filter): first half, then the checker on the
    result of the first half, then the second half on what the checker returned. -/
theorem adjustWith_check (o : Options) (ext : Externals) (s : Spec) (a : Adjustment)
    (hf : o.filterAnnotations = none) (chk : Spec → Except Unit Spec) (hc : o.checkResources = some chk)
    (r : LinuxResources) (hr : a.resources = some r) :
    adjustWith o ext s a =
      (match adjustPre ext s a with
       | .error e => .error (.gen e)
       | .ok s1 =>
         match chk s1 with
         | .error _ => .error .resourceCheck
         | .ok s2 => liftGen (adjustPost ext s2 a)) := by
  unfold adjustWith
  rw [filterStage_none o hf]
  have : ({ a with annotations := a.annotations } : Adjustment) = a := rfl
  simp only [bind, Except.bind]
  cases adjustPre ext s a with
  | error e => rfl
  | ok s1 =>
    simp only [liftGen, checkStage, hr, hc]
    cases chk s1 <;> rfl

/-- What the checker is handed: exactly the spec after the first half of `Adjust` on the
    (filtered) adjustment — the resources with this adjustment's CPU, memory, hugepage, unified
    and pids values already in, block-I/O / RDT classes, mounts and rlimits not yet. -/
theorem checkerSees_eq (o : Options) (ext : Externals) (s : Spec) (a : Adjustment)
    (hf : o.filterAnnotations = none) (chk : Spec → Except Unit Spec) (hc : o.checkResources = some chk)
    (r : LinuxResources) (hr : a.resources = some r) (s1 : Spec) (hpre : adjustPre ext s a = .ok s1) :
    checkerSees o ext s a = some s1 := by
  unfold checkerSees
  rw [filterStage_none o hf]
  have : ({ a with annotations := a.annotations } : Adjustment) = a := rfl
  simp only [hpre, hr, hc]

/-! ### a checker that edits only `Linux.Resources` -/

theorem blank_fields {s t : Spec} (h : blankResources s = blankResources t) :
    s.annotations = t.annotations ∧ s.args = t.args ∧ s.env = t.env ∧ s.rlimits = t.rlimits ∧
    s.oomScoreAdj = t.oomScoreAdj ∧ s.mounts = t.mounts ∧ s.devices = t.devices ∧ s.rdt = t.rdt ∧
    s.cgroupsPath = t.cgroupsPath ∧ s.rootfsPropagation = t.rootfsPropagation ∧ s.hooks = t.hooks ∧
    s.cdi = t.cdi := by
  unfold blankResources at h
  injection h with h1 h2 h3 h4 h5 h6 h7 h8 h9 h10 h11 h12 h13 h14 h15 h16 h17 h18 h19
  exact ⟨h1, h2, h3, h4, h5, h6, h7, h15, h16, h17, h18, h19⟩

theorem applyBlockIO_error_indep (f : Option (Str → Except Unit Nat)) (o1 o2 : Option Nat) (c : Option Str) :
    (∀ e, Resources.applyBlockIO f o1 c = .error e → Resources.applyBlockIO f o2 c = .error e) ∧
    (∀ b, Resources.applyBlockIO f o1 c = .ok b → ∃ b', Resources.applyBlockIO f o2 c = .ok b') := by
  unfold Resources.applyBlockIO
  cases c with
  | none => simp
  | some c =>
    cases f with
    | none => simp
    | some f =>
      by_cases hc : c = []
      · simp [hc]
      · simp only [hc, if_false]
        cases f c <;> simp

/-- The second half of `Adjust` does not look at, and (apart from the block-I/O class) does not
    touch, the resources section: on two specs that agree outside it, it fails alike or yields
    results that agree outside it. -/
theorem adjustPost_blank (ext : Externals) (a : Adjustment) {s t : Spec}
    (h : blankResources s = blankResources t) :
    (∀ e, adjustPost ext s a = .error e → adjustPost ext t a = .error e) ∧
    (∀ s', adjustPost ext s a = .ok s' → ∃ t', adjustPost ext t a = .ok t' ∧ blankResources s' = blankResources t') := by
  obtain ⟨h1, h2, h3, h4, h5, h6, h7, h8, h9, h10, h11, h12⟩ := blank_fields h
  unfold adjustPost adjustBlockIOClass adjustRdtClass adjustMounts
  simp only [bind, Except.bind, pure, Except.pure]
  obtain ⟨hbe, hbo⟩ := applyBlockIO_error_indep ext.resolveBlockIO s.blockio t.blockio a.blockioClass
  cases hb : Resources.applyBlockIO ext.resolveBlockIO s.blockio a.blockioClass with
  | error e =>
    rw [hbe e hb]
    exact ⟨fun e' he => by cases he; rfl, fun s' hs => by cases hs⟩
  | ok b =>
    obtain ⟨b', hb'⟩ := hbo b hb
    rw [hb']
    simp only []
    rw [← h8]
    cases hr : Resources.applyRdt ext.resolveRdt s.rdt a.rdtClass with
    | error e => exact ⟨fun e' he => by cases he; rfl, fun s' hs => by cases hs⟩
    | ok r =>
      simp only []
      rw [← h6, ← h10]
      cases hm : Mounts.apply ext.hostPropagation s.mounts s.rootfsPropagation a.mounts with
      | error e => exact ⟨fun e' he => by cases he; rfl, fun s' hs => by cases hs⟩
      | ok mp =>
        refine ⟨fun e' he => (by cases he), fun s' hs => ?_⟩
        cases hs
        refine ⟨_, rfl, ?_⟩
        unfold adjustRlimits blankResources
        simp only [Spec.mk.injEq]
        unfold blankResources at h
        simp only [Spec.mk.injEq] at h
        simp [h1, h2, h3, h4, h5, h7, h9, h11, h12]

/-- The second half of `Adjust` keeps whatever the checker left in the resources section, except
    the block-I/O parameters when the adjustment names a block-I/O class. -/
theorem adjustPost_resources (ext : Externals) (a : Adjustment) {s s' : Spec}
    (h : adjustPost ext s a = .ok s') :
    s'.cpu = s.cpu ∧ s'.memory = s.memory ∧ s'.hugepages = s.hugepages ∧ s'.unified = s.unified ∧
    s'.pids = s.pids ∧ s'.devRules = s.devRules ∧
    Resources.applyBlockIO ext.resolveBlockIO s.blockio a.blockioClass = .ok s'.blockio := by
  unfold adjustPost at h
  simp only [bind, Except.bind, pure, Except.pure] at h
  split at h
  · cases h
  rename_i s1 h1
  split at h
  · cases h
  rename_i s2 h2
  split at h
  · cases h
  rename_i s3 h3
  cases h
  obtain ⟨e1, hb⟩ := adjustBlockIOClass_shape h1
  obtain ⟨e2, _⟩ := adjustRdtClass_shape h2
  obtain ⟨e3, _⟩ := adjustMounts_shape h3
  rw [e3, e2, e1]
  simp only [adjustRlimits, true_and]
  exact hb

end Nri.Generate
