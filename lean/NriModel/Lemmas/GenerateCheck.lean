/-
What the executable keyed-family predicate `Check.keyed` (evaluated by the driver on the
implementation's output) means, as a proposition — it is accepted exactly when, for every key
of the original or named by the adjustment, the result holds what the adjustment wants
(set wins / removed / frame), nothing else appears, no key is duplicated and (for ordered
families) the untouched items keep their order — and that the model's two-pass result is
accepted.  So a `spec = true` verdict on the implementation certifies the very statements the
theorems of `Props/C13.lean` make about the model.  Core Lean only.
-/
import NriModel.Lemmas.GenerateSpec
import NriModel.Lemmas.GenerateKeyed

namespace Nri.Generate.Check
open Nri.Api Nri.Generate

section
variable {ε β : Type}

theorem getLast?_filter (q : ε → Bool) (L : List ε) : (L.filter q).getLast? = lastMatch q L := by
  induction L with
  | nil => rfl
  | cons e r ih =>
    simp only [List.filter_cons, lastMatch]
    cases hq : q e
    · simp only [Bool.false_eq_true, if_false, ih]
      cases lastMatch q r <;> rfl
    · simp only [if_true, List.getLast?_cons, ih]
      cases lastMatch q r <;> rfl

/-- what `want` asks `find` to return -/
def expected (rawKey : ε → Str) (conv : ε → β) (key : β → Str) (L : List ε) (old : List β) (k : Str) :
    Option β :=
  match want rawKey L k with
  | .set e => some (conv e)
  | .removed => none
  | .untouched => find key k old

/-- `expected` in the vocabulary of the lemma files -/
theorem expected_eq (rawKey : ε → Str) (conv : ε → β) (key : β → Str) (L : List ε) (old : List β) (k : Str) :
    expected rawKey conv key L old k =
      pick (lastMatch (fun e => !isMarked (rawKey e) && rawKey e == k) L) conv
        (if L.any (fun e => isMarked (rawKey e) && stripMarker (rawKey e) == k) then none
         else find key k old) := by
  unfold expected want
  have : isSetOf rawKey k = fun e => !isMarked (rawKey e) && rawKey e == k := rfl
  rw [getLast?_filter, this]
  cases lastMatch (fun e => !isMarked (rawKey e) && rawKey e == k) L with
  | some e => rfl
  | none =>
    simp only [pick_none]
    have : isRemovalOf rawKey k = fun e => isMarked (rawKey e) && stripMarker (rawKey e) == k := rfl
    rw [this]
    cases L.any (fun e => isMarked (rawKey e) && stripMarker (rawKey e) == k) <;> rfl

variable [DecidableEq β]

/-- The meaning of an empty failure list of `Check.keyed`. -/
theorem keyed_nil_iff (fam : String) (show_ : Str → String) (rawKey : ε → Str) (conv : ε → β)
    (key : β → Str) (isMap ordered : Bool) (L : List ε) (old new : List β) :
    keyed fam show_ rawKey conv key isMap ordered L old new = [] ↔
      (∀ k, (k ∈ old.map key ∨ k ∈ named rawKey L) → find key k new = expected rawKey conv key L old k) ∧
      (∀ x ∈ new, key x ∈ old.map key ∨ key x ∈ named rawKey L) ∧
      NodupKeys key new ∧
      (ordered = true →
        new.filter (fun x => !(named rawKey L).contains (key x)) =
        old.filter (fun x => !(named rawKey L).contains (key x))) := by
  unfold keyed
  simp only [List.append_eq_nil_iff, List.filterMap_eq_nil_iff, List.map_eq_nil_iff,
    List.filter_eq_nil_iff, List.mem_eraseDups, List.mem_append]
  constructor
  · rintro ⟨⟨⟨h1, h2⟩, h3⟩, h4⟩
    refine ⟨?_, ?_, ?_, ?_⟩
    · intro k hk
      have := h1 k hk
      unfold expected
      cases hw : want rawKey L k with
      | set e =>
        rw [hw] at this; simp only at this
        by_cases ha : find key k new = some (conv e)
        · exact ha
        · simp only [ha, if_false] at this
          split at this <;> (try split at this) <;> cases this
      | removed =>
        rw [hw] at this; simp only at this
        cases hf : find key k new with
        | none => rfl
        | some x => rw [hf] at this; simp at this
      | untouched =>
        rw [hw] at this; simp only at this
        by_cases ha : find key k new = find key k old
        · exact ha
        · simp [ha] at this
    · intro x hx
      have h := h2 x hx
      have hc : (List.map key old ++ named rawKey L).eraseDups.contains (key x) = true := by
        cases hcc : (List.map key old ++ named rawKey L).eraseDups.contains (key x) with
        | true => rfl
        | false => rw [hcc] at h; simp at h
      rw [List.contains_eq_mem, decide_eq_true_eq, List.mem_eraseDups, List.mem_append] at hc
      exact hc
    · by_cases hn : NodupKeys key new
      · exact hn
      · simp [hn] at h3
    · intro ho
      subst ho
      simp only [Bool.true_and] at h4
      by_cases he : (new.filter (fun x => !(named rawKey L).contains (key x)) !=
          old.filter (fun x => !(named rawKey L).contains (key x))) = true
      · rw [if_pos he] at h4; cases h4
      · simpa using he
  · rintro ⟨h1, h2, h3, h4⟩
    refine ⟨⟨⟨?_, ?_⟩, ?_⟩, ?_⟩
    · intro k hk
      have := h1 k hk
      unfold expected at this
      cases hw : want rawKey L k with
      | set e => rw [hw] at this; simp only at this; simp [this]
      | removed => rw [hw] at this; simp only at this; simp [this]
      | untouched => rw [hw] at this; simp only at this; simp [this]
    · intro x hx
      have hc : (List.map key old ++ named rawKey L).eraseDups.contains (key x) = true := by
        rw [List.contains_eq_mem, decide_eq_true_eq, List.mem_eraseDups, List.mem_append]
        exact h2 x hx
      rw [hc]; simp
    · simp [h3]
    · cases ordered with
      | false => simp
      | true =>
        have := h4 rfl
        simp only [List.contains_eq_mem] at this
        simp [this]

/-- The model's two-pass result is accepted by the predicate (original keys distinct). -/
theorem keyed_accepts_twoPass (fam : String) (show_ : Str → String) (rawKey : ε → Str) (conv : ε → β)
    (key : β → Str) (isMap ordered : Bool) (L : List ε) (old : List β)
    (hconv : ∀ e, isMarked (rawKey e) = false → key (conv e) = rawKey e)
    (hn : NodupKeys key old) :
    keyed fam show_ rawKey conv key isMap ordered L old
      (gSets key rawKey conv (gRemovals key rawKey old L) L) = [] := by
  rw [keyed_nil_iff]
  refine ⟨?_, ?_, ?_, ?_⟩
  · intro k _
    rw [find_twoPass key rawKey conv hconv L hn, expected_eq]
  · intro x hx
    rcases mem_gSets key rawKey conv L hx with hx | ⟨e, he, hm, hxe⟩
    · exact Or.inl (List.mem_map.mpr ⟨x, mem_gRemovals key rawKey L hx, rfl⟩)
    · right
      rw [hxe, hconv e hm]
      exact List.mem_map.mpr ⟨e, he, strip_of_not_marked hm⟩
  · exact nodup_gSets key rawKey conv hconv L (nodup_gRemovals key rawKey L hn)
  · intro _
    have hp : ∀ e ∈ L, (fun n => !(named rawKey L).contains n) (stripMarker (rawKey e)) = false := by
      intro e he
      simp only [Bool.not_eq_false', List.contains_eq_mem, decide_eq_true_eq]
      exact List.mem_map.mpr ⟨e, he, rfl⟩
    rw [filter_gSets key rawKey conv hconv (fun n => !(named rawKey L).contains n) L hp,
        filter_gRemovals key rawKey (fun n => !(named rawKey L).contains n) L hp]

end
end Nri.Generate.Check
