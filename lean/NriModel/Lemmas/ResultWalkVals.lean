/-
Value side of the update walk, independent of the model: which updates the walk applies
(`appliedFrom`), that the resources it holds for a target are the base overlaid with the applied
updates of that target in order (`foldl_get`), that applied updates of one target name
pairwise disjoint items (`appliedFrom_pairwise`), and a field-wise reading of `overlayRes`
(`fieldVal`, `overlay_field_set`, `overlay_field_keep`) from which "each field comes from
the single applied update that set it, or from the base" follows. Core Lean only.
-/
import NriModel.Lemmas.ResultWalkRel

namespace Nri.UpdateWalk
open Nri.NApi Nri.Result Nri.Ledger

/-- The value of the field an item denotes, for the fields a `LinuxResources` message holds
    once per item: the 18 scalars and the unified keys. Hugepage limits (appended, not
    replaced) and the items that are not resources read as `other`. -/
inductive FVal
  | int (v : Option Int) | nat (v : Option Nat) | bool (v : Option Bool) | str (v : Str)
  | ostr (v : Option Str) | other
  deriving DecidableEq, Repr

def fieldVal : Item → Resources → FVal
  | .memLimit, r => .int (r.memory.getD {}).limit
  | .memReservation, r => .int (r.memory.getD {}).reservation
  | .memSwap, r => .int (r.memory.getD {}).swap
  | .memKernel, r => .int (r.memory.getD {}).kernel
  | .memKernelTcp, r => .int (r.memory.getD {}).kernelTcp
  | .memSwappiness, r => .nat (r.memory.getD {}).swappiness
  | .memDisableOom, r => .bool (r.memory.getD {}).disableOomKiller
  | .memUseHierarchy, r => .bool (r.memory.getD {}).useHierarchy
  | .cpuShares, r => .nat (r.cpu.getD {}).shares
  | .cpuQuota, r => .int (r.cpu.getD {}).quota
  | .cpuPeriod, r => .nat (r.cpu.getD {}).period
  | .cpuRtRuntime, r => .int (r.cpu.getD {}).realtimeRuntime
  | .cpuRtPeriod, r => .nat (r.cpu.getD {}).realtimePeriod
  | .cpusetCpus, r => .str (r.cpu.getD {}).cpus
  | .cpusetMems, r => .str (r.cpu.getD {}).mems
  | .pids, r => .int r.pids
  | .blockio, r => .ostr r.blockioClass
  | .rdt, r => .ostr r.rdtClass
  | .unified k, r => .ostr (AList.lookup r.unified k)
  | _, _ => .other

theorem lookup_foldl_insert_not_mem (l : AList Str Str) (m : AList Str Str) (k : Str) (h : k ∉ l.map (·.1)) :
    AList.lookup (l.foldl (fun m (kv : Str × Str) => AList.insert m kv.1 kv.2) m) k = AList.lookup m k := by
  induction l generalizing m with
  | nil => rfl
  | cons x rest ih =>
    simp only [List.map_cons, List.mem_cons, not_or] at h
    simp only [List.foldl_cons]
    rw [ih _ h.2, AList.lookup_insert_other _ _ _ _ (fun heq => h.1 heq.symm)]


theorem lookup_of_mem_nodup (l : AList Str Str) (k v : Str) (hnd : (l.map (·.1)).Nodup) (h : (k, v) ∈ l) :
    AList.lookup l k = some v := by
  induction l with
  | nil => cases h
  | cons x rest ih =>
    obtain ⟨k', v'⟩ := x
    simp only [List.map_cons, List.nodup_cons] at hnd
    rcases List.mem_cons.1 h with heq | hm
    · cases heq; simp [AList.lookup]
    · have hne : ¬ k' = k := by
        intro heq; subst heq
        exact hnd.1 (List.mem_map.2 ⟨(k', v), hm, rfl⟩)
      simp only [AList.lookup, hne, ↓reduceIte]
      exact ih hnd.2 hm

theorem lookup_foldl_insert_mem (l : AList Str Str) (m : AList Str Str) (k v : Str)
    (hnd : (l.map (·.1)).Nodup) (h : (k, v) ∈ l) :
    AList.lookup (l.foldl (fun m (kv : Str × Str) => AList.insert m kv.1 kv.2) m) k = some v := by
  induction l generalizing m with
  | nil => cases h
  | cons x rest ih =>
    obtain ⟨k', v'⟩ := x
    simp only [List.map_cons, List.nodup_cons] at hnd
    simp only [List.foldl_cons]
    rcases List.mem_cons.1 h with heq | hm
    · cases heq
      rw [lookup_foldl_insert_not_mem _ _ _ hnd.1, AList.lookup_insert_self]
    · exact ih _ hnd.2 hm

theorem overlay_field_keep (b r : Resources) (it : Item) (h : it ∉ resSets r) :
    fieldVal it (overlayRes b r r.pids) = fieldVal it b := by
  cases it <;> try rfl
  case unified k =>
    have hk : k ∉ r.unified.map (·.1) := by
      intro hm
      apply h
      obtain ⟨x, hx, rfl⟩ := List.mem_map.1 hm
      simp only [resSets, resSetsWith, List.mem_append, List.mem_map]
      exact .inl (.inl (.inl (.inr ⟨x, hx, rfl⟩)))
    simp only [fieldVal, overlayRes]
    rw [← lookup_foldl_insert_not_mem r.unified b.unified k hk]
  all_goals (cases hm : r.memory <;> cases hc : r.cpu <;>
    simp [resSets, resSetsWith, memSets, cpuSets, hm, hc] at h <;>
    simp [fieldVal, overlayRes, overlayMem, overlayCpu, hm, hc, h])

theorem unified_keys_nodup (r : Resources) (hnd : (resSets r).Nodup) : (r.unified.map (·.1)).Nodup := by
  unfold resSets resSetsWith at hnd
  have h1 := (List.nodup_append.1 (List.nodup_append.1 (List.nodup_append.1 (List.nodup_append.1 hnd).1).1).1).2.1
  have : (r.unified.map fun (x : Str × Str) => Item.unified x.1) = (r.unified.map (·.1)).map Item.unified := by
    rw [List.map_map]; rfl
  have h2 : ((r.unified.map (·.1)).map Item.unified).Nodup := by rw [← this]; exact h1
  exact List.Pairwise.of_map Item.unified (fun a b hab heq => hab (by rw [heq])) h2

theorem or_of_isSome {α : Type} (a b : Option α) (h : a.isSome = true) : a.or b = a := by
  cases a <;> simp_all

theorem overlay_field_set (b r : Resources) (it : Item) (hnd : (resSets r).Nodup) (h : it ∈ resSets r) :
    fieldVal it (overlayRes b r r.pids) = fieldVal it r := by
  cases it <;> try rfl
  case unified k =>
    have hk : ∃ v, (k, v) ∈ r.unified := by
      cases hm : r.memory <;> cases hc : r.cpu <;>
        simp [resSets, resSetsWith, memSets, cpuSets, hm, hc] at h <;> exact h
    obtain ⟨v, hv⟩ := hk
    have hkn := unified_keys_nodup r hnd
    simp only [fieldVal, overlayRes]
    rw [lookup_of_mem_nodup _ _ _ hkn hv]
    exact congrArg _ (lookup_foldl_insert_mem r.unified b.unified k v hkn hv)
  all_goals (cases hm : r.memory <;> cases hc : r.cpu <;>
    simp [resSets, resSetsWith, memSets, cpuSets, hm, hc] at h <;>
    first
      | simp [fieldVal, overlayRes, overlayMem, overlayCpu, hm, hc, or_of_isSome _ _ h]
      | simp [fieldVal, overlayRes, overlayMem, overlayCpu, hm, hc, h])

/-! ### the updates the walk applies -/

/-- the updates of `us` the walk overlays on their targets, starting from `s` -/
def appliedFrom (base : Cid → Resources) (s : Sim) : List Update → List Update
  | [] => []
  | u :: rest => (if applies s u then [u] else []) ++ appliedFrom base (simUpdate base s u) rest

/-- overlay of one update's resources -/
def overlayUpd (acc : Resources) (u : Update) : Resources :=
  match u.resources with
  | some r => overlayRes acc r r.pids
  | none => acc

theorem appliedFrom_append (base : Cid → Resources) (us vs : List Update) :
    ∀ s, appliedFrom base s (us ++ vs) = appliedFrom base s us ++ appliedFrom base (us.foldl (simUpdate base) s) vs := by
  induction us with
  | nil => intro s; rfl
  | cons u rest ih =>
    intro s
    simp only [List.cons_append, appliedFrom, List.foldl_cons, ih, List.append_assoc]

/-- the resources the walk holds for a target: what it held before, overlaid with the applied
    updates of that target in order -/
theorem foldl_get (base : Cid → Resources) (us : List Update) :
    ∀ (s : Sim) (c : Cid), (us.foldl (simUpdate base) s).get base c =
      ((appliedFrom base s us).filter fun u => u.containerId = c).foldl overlayUpd (s.get base c) := by
  induction us with
  | nil => intro s c; rfl
  | cons u rest ih =>
    intro s c
    simp only [List.foldl_cons, appliedFrom, List.filter_append, List.foldl_append]
    rw [ih, simUpdate_get]
    congr 1
    cases happ : applies s u with
    | false =>
      simp only [Bool.false_eq_true, false_and, ↓reduceIte, List.filter_nil, List.foldl_nil]
      cases u.resources <;> rfl
    | true =>
      obtain ⟨r, hr, _⟩ := applies_some s u happ
      simp only [hr, true_and, ↓reduceIte]
      by_cases hc : c = u.containerId
      · subst hc
        simp [overlayUpd, hr]
      · have hc' : ¬ u.containerId = c := fun h => hc h.symm
        simp [hc, hc']

theorem appliedFrom_mem (base : Cid → Resources) (us : List Update) :
    ∀ (s : Sim), ∀ v ∈ appliedFrom base s us, v ∈ us ∧ (setsUpd v).Nodup ∧ ∃ r, v.resources = some r := by
  induction us with
  | nil => intro s v hv; cases hv
  | cons u rest ih =>
    intro s v hv
    simp only [appliedFrom, List.mem_append] at hv
    rcases hv with hv | hv
    · split at hv
      · rename_i happ
        simp only [List.mem_singleton] at hv
        subst hv
        obtain ⟨r, hr, _⟩ := applies_some s v happ
        exact ⟨List.mem_cons_self, applies_nodup s v happ, r, hr⟩
      · cases hv
    · obtain ⟨h1, h2⟩ := ih _ v hv
      exact ⟨List.mem_cons_of_mem _ h1, h2⟩

/-- an update that names a taken item is not applied -/
theorem not_applies_of_taken (s : Sim) (u : Update) (it : Item) (hit : it ∈ setsUpd u)
    (ht : (u.containerId, it) ∈ s.taken) : applies s u = false := by
  cases happ : applies s u with
  | false => rfl
  | true =>
    exfalso
    obtain ⟨r, _, hfree⟩ := applies_some s u happ
    exact claimedPrefix_not_taken u.containerId (setsUpd u) s.taken it
      (by rw [show claimedPrefix s.taken u.containerId (setsUpd u) = freeOf s u from rfl, hfree]; exact hit) ht

theorem taken_mono (base : Cid → Resources) (s : Sim) (u : Update) (x : Cid × Item) (h : x ∈ s.taken) :
    x ∈ (simUpdate base s u).taken := by
  obtain ⟨c, it⟩ := x
  exact (simUpdate_taken base s u c it).2 (.inl h)

/-- the items of an applied update were all free when the walk reached it -/
theorem appliedFrom_free (base : Cid → Resources) (us : List Update) :
    ∀ (s : Sim), ∀ v ∈ appliedFrom base s us, ∀ it ∈ setsUpd v, (v.containerId, it) ∉ s.taken := by
  induction us with
  | nil => intro s v hv; cases hv
  | cons u rest ih =>
    intro s v hv it hit hmem
    simp only [appliedFrom, List.mem_append] at hv
    rcases hv with hv | hv
    · split at hv
      · rename_i happ
        simp only [List.mem_singleton] at hv
        subst hv
        obtain ⟨r, _, hfree⟩ := applies_some s v happ
        exact claimedPrefix_not_taken v.containerId (setsUpd v) s.taken it
          (by rw [show claimedPrefix s.taken v.containerId (setsUpd v) = freeOf s v from rfl, hfree]; exact hit) hmem
      · cases hv
    · exact ih _ v hv it hit (taken_mono base s u _ hmem)

/-- applied updates of one target name pairwise disjoint items -/
theorem appliedFrom_pairwise (base : Cid → Resources) (us : List Update) :
    ∀ (s : Sim), (appliedFrom base s us).Pairwise
      fun v w => v.containerId = w.containerId → ∀ it ∈ setsUpd v, it ∉ setsUpd w := by
  induction us with
  | nil => intro s; exact List.Pairwise.nil
  | cons u rest ih =>
    intro s
    simp only [appliedFrom]
    rw [List.pairwise_append]
    refine ⟨?_, ih _, ?_⟩
    · split
      · exact List.pairwise_singleton _ _
      · exact List.Pairwise.nil
    · intro v hv w hw hcid it hit hitw
      split at hv
      · rename_i happ
        simp only [List.mem_singleton] at hv
        subst hv
        obtain ⟨r, _, hfree⟩ := applies_some s v happ
        apply appliedFrom_free base rest _ w hw it hitw
        rw [← hcid]
        exact (simUpdate_taken base s v v.containerId it).2 (.inr ⟨rfl, by rw [hfree]; exact hit⟩)
      · cases hv

/-! ### one field of a chain of overlays -/

theorem overlayUpd_field_keep (b : Resources) (u : Update) (it : Item) (h : it ∉ setsUpd u) :
    fieldVal it (overlayUpd b u) = fieldVal it b := by
  unfold overlayUpd
  cases hr : u.resources with
  | none => rfl
  | some r =>
    simp only []
    apply overlay_field_keep
    simpa [setsUpd, resItems, hr] using h

/-- updates that do not name the item leave its field alone -/
theorem fold_field_keep (it : Item) (l : List Update) :
    ∀ (b : Resources), (∀ v ∈ l, it ∉ setsUpd v) → fieldVal it (l.foldl overlayUpd b) = fieldVal it b := by
  induction l with
  | nil => intro b _; rfl
  | cons u rest ih =>
    intro b h
    simp only [List.foldl_cons]
    rw [ih _ (fun v hv => h v (List.mem_cons_of_mem _ hv)),
      overlayUpd_field_keep b u it (h u List.mem_cons_self)]

/-- the one update that names the item decides its field -/
theorem fold_field_set (it : Item) (pre post : List Update) (u : Update) (r b : Resources)
    (hr : u.resources = some r) (hnd : (setsUpd u).Nodup) (hit : it ∈ setsUpd u)
    (hpost : ∀ v ∈ post, it ∉ setsUpd v) :
    fieldVal it ((pre ++ u :: post).foldl overlayUpd b) = fieldVal it r := by
  simp only [List.foldl_append, List.foldl_cons]
  rw [fold_field_keep it post _ hpost]
  unfold overlayUpd
  simp only [hr]
  have hs : setsUpd u = resSets r := by simp [setsUpd, resItems, hr]
  rw [hs] at hnd hit
  exact overlay_field_set _ r it hnd hit

end Nri.UpdateWalk
