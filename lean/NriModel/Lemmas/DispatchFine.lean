/-
The fine-grained view of the request loop: with the mutex at most one caller is ever inside the
loop, and it is the holder.
-/
import NriModel.Dispatch

namespace Nri.Dispatch

/-- mutual exclusion -/
def FState.Excl (s : FState) : Prop :=
  (s.lock = none → s.walkers = []) ∧ (∀ t, s.lock = some t → ∀ w ∈ s.walkers, w.tid = t) ∧ s.walkers.length ≤ 1

theorem fstep_excl (s s' : FState) (e : FEv) (h : s.Excl) (hs : fstep? true s e = some s') : s'.Excl := by
  obtain ⟨h1, h2, h3⟩ := h
  cases e with
  | enter t rid =>
    simp only [fstep?] at hs
    split at hs
    · cases hs
    · rename_i hc
      simp only [Bool.true_and, Bool.or_eq_true, not_or, Bool.not_eq_true, Option.isSome_eq_false_iff,
        Option.isNone_iff_eq_none] at hc
      simp only [Option.some.injEq] at hs
      subst hs
      have hw := h1 hc.1
      refine ⟨by simp, ?_, by simp [hw]⟩
      intro t' ht' w hw'
      simp only [Option.some.injEq] at ht'
      subst ht'
      simp only [hw, List.mem_singleton] at hw'
      subst hw'; rfl
  | call t =>
    simp only [fstep?] at hs
    split at hs
    · rename_i w hf
      split at hs
      · simp only [Option.some.injEq] at hs
        subst hs
        have hmem := List.mem_of_find?_eq_some hf
        -- the only walker is `w`; after the step the only walker is its successor
        have hall : s.walkers = [w] := by
          match hws : s.walkers, h3, hmem with
          | [x], _, hm => simp only [List.mem_singleton] at hm; rw [hm]
        have hwt : w.tid = t := by simpa using List.find?_some hf
        refine ⟨?_, ?_, ?_⟩
        · intro hl
          have := h1 hl
          rw [hall] at this; cases this
        · intro t' ht' w' hw'
          simp only [hall, List.filter_cons, List.filter_nil] at hw'
          have := h2 t' ht' w (by rw [hall]; simp)
          rcases List.mem_cons.1 hw' with rfl | hw'
          · simp only; rw [← hwt, this]
          · split at hw'
            · simp only [List.mem_singleton] at hw'; subst hw'; exact this
            · simp at hw'
        · simp only [hall, List.filter_cons, List.filter_nil, hwt, bne_self_eq_false, Bool.false_eq_true,
            if_false, List.length_cons, List.length_nil]
          omega
      · cases hs
    · cases hs
  | leave t =>
    simp only [fstep?] at hs
    split at hs
    · rename_i w hf
      split at hs
      · simp only [Option.some.injEq] at hs
        subst hs
        have hmem := List.mem_of_find?_eq_some hf
        have hall : s.walkers = [w] := by
          match hws : s.walkers, h3, hmem with
          | [x], _, hm => simp only [List.mem_singleton] at hm; rw [hm]
        have hwt : w.tid = t := by simpa using List.find?_some hf
        refine ⟨?_, by simp, ?_⟩
        · intro _
          simp [hall, hwt]
        · simp [hall, hwt]
      · cases hs
    · cases hs

theorem frun_excl (h : List FEv) : ∀ (s s' : FState), s.Excl → frun? true s h = some s' → s'.Excl := by
  induction h with
  | nil => intro s s' he hr; simp only [frun?, Option.some.injEq] at hr; subst hr; exact he
  | cons e rest ih =>
    intro s s' he hr
    simp only [frun?] at hr
    split at hr
    · cases hr
    · rename_i s1 hs1
      exact ih s1 s' (fstep_excl s s1 e he hs1) hr

theorem start_excl (ps : List Plugin) : (FState.start ps).Excl := by
  simp [FState.start, FState.Excl]

end Nri.Dispatch
