/-
The property C13 as an EXECUTABLE predicate over (original spec, adjustment, resulting spec):
what the driver evaluates directly on the implementation's own output.  It is written
declaratively — by looking keys up in the result — and does not call the model's `adjust*`
functions.  `Props/C13.lean` states the same conditions as theorems about the model.

For a keyed family (annotations, env, mounts, devices, unified) the adjustment `L` *wants*,
for each key `k`:
  * `set e`     if some unmarked entry has key `k` (`e` = the LAST such entry) — whether or not
                `k` is also marked for removal anywhere in `L` (a set wins);
  * `removed`   if no unmarked entry has key `k` but some entry is `-k`;
  * `untouched` otherwise.
Core Lean only (imported by the driver).
-/
import NriModel.Generate

namespace Nri.Generate.Check
open Nri.Api Nri.Generate

/-- One violated condition: a structural signature (matched against known findings), a
    human-readable line, and whether it belongs to the classes already recorded in DESIGN §6
    (#8 list order, #10a memory limit 0) — those are reported last so they never mask anything
    else. -/
structure Fail where
  sig : String
  why : String
  recorded : Bool := false
  deriving Repr

/-- What an entry list asks for one key. -/
inductive Want (ε : Type)
  | set (e : ε)
  | removed
  | untouched

section Keyed
variable {ε β : Type}

/-- Is `e` an unmarked entry for key `k`? -/
def isSetOf (rawKey : ε → Str) (k : Str) (e : ε) : Bool := !isMarked (rawKey e) && rawKey e == k
/-- Is `e` the removal marker of key `k`? -/
def isRemovalOf (rawKey : ε → Str) (k : Str) (e : ε) : Bool :=
  isMarked (rawKey e) && stripMarker (rawKey e) == k

/-- The request of `L` for key `k` (see the header). -/
def want (rawKey : ε → Str) (L : List ε) (k : Str) : Want ε :=
  match (L.filter (isSetOf rawKey k)).getLast? with
  | some e => .set e
  | none => if L.any (isRemovalOf rawKey k) then .removed else .untouched

/-- Some removal marker of `k` comes after the last set of `k` in list order. -/
def removalAfterLastSet (rawKey : ε → Str) (L : List ε) (k : Str) : Bool :=
  (L.reverse.takeWhile (fun e => !isSetOf rawKey k e)).any (isRemovalOf rawKey k)

/-- Keys named by `L` (markers stripped). -/
def named (rawKey : ε → Str) (L : List ε) : List Str := L.map (fun e => stripMarker (rawKey e))

/-- The keyed-family conditions on `new` given `old` and the entry list `L`:
    set wins / removed / frame for every key occurring in `old` or named by `L`, nothing else
    appears, no key occurs twice, and (when `ordered`) the untouched items keep their relative
    order.  `ordered?` selects list families whose order is observable (env, devices). -/
def keyed [DecidableEq β] (fam : String) (show_ : Str → String) (rawKey : ε → Str) (conv : ε → β)
    (key : β → Str) (isMap ordered : Bool) (L : List ε) (old new : List β) : List Fail :=
  let cands := (old.map key ++ named rawKey L).eraseDups
  let perKey := cands.filterMap fun k =>
    let actual := find key k new
    match want rawKey L k with
    | .set e =>
      if actual = some (conv e) then none else
      let present := (find key k old).isSome
      let also := L.any (isRemovalOf rawKey k)
      if isMap then
        some { sig := s!"C13:{fam}:" ++ (if also then "set-and-remove" else "set-lost"),
               why := s!"{fam}: key {show_ k} is set by the adjustment" ++
                      (if also then " (and also marked for removal)" else "") ++
                      " but the result does not hold the requested value" }
      else if removalAfterLastSet rawKey L k then
        some { sig := s!"C13:{fam}:set-then-remove:" ++ (if present then "existing-key" else "new-key"),
               why := s!"{fam}: {show_ k} is set and, later in the list, marked for removal; the set must win but the result lacks the requested value",
               recorded := true }
      else
        some { sig := s!"C13:{fam}:set-lost",
               why := s!"{fam}: {show_ k} is set by the adjustment but the result does not hold the requested value" }
    | .removed =>
      if actual.isNone then none else
      some { sig := s!"C13:{fam}:not-removed", why := s!"{fam}: {show_ k} is marked for removal but still present" }
    | .untouched =>
      if actual = find key k old then none else
      some { sig := s!"C13:{fam}:frame", why := s!"{fam}: {show_ k} is not named by the adjustment but changed" }
  let extras := (new.filter fun x => !cands.contains (key x)).map fun x =>
    ({ sig := s!"C13:{fam}:frame:extra", why := s!"{fam}: unexpected item {show_ (key x)} in the result" } : Fail)
  let dups := if decide (NodupKeys key new) then [] else
    [({ sig := s!"C13:{fam}:duplicate", why := s!"{fam}: a key occurs twice in the result" } : Fail)]
  let untouched := fun (x : β) => !(named rawKey L).contains (key x)
  let order := if ordered && (new.filter untouched) != (old.filter untouched) then
    [({ sig := s!"C13:{fam}:frame:order", why := s!"{fam}: the items not named by the adjustment changed or were reordered" } : Fail)]
    else []
  perKey ++ extras ++ dups ++ order

end Keyed

def showS (s : Str) : String := "\"" ++ String.ofList s ++ "\""

/-! ### Guards: the domain on which the property is stated -/

/-- Original environment entries are `NAME=value` with distinct non-empty names. -/
def envWF (env : List Str) : Bool :=
  env.all (fun e => match Env.splitEq e with | some (n, _) => n != [] | none => false) &&
  decide ((env.map Env.nameOf).Nodup)

/-- Environment adjustment keys: non-empty names without `'='`. -/
def envAdjWF (L : List KeyValue) : Bool :=
  L.all fun e => let k := stripMarker e.key; k != [] && !k.contains '='

/-- Cleaned absolute path. -/
def isCleanAbs (d : Str) : Bool :=
  (match d with | '/' :: _ => true | _ => false) && Mounts.cleanPath d == d

/-- `p` is a proper ancestor directory of `c` (both cleaned absolute paths). -/
def isAncestor (p c : Str) : Bool :=
  p != c && (p == ['/'] && (match c with | '/' :: _ => true | _ => false) || (p ++ ['/']).isPrefixOf c)

/-- sortedness under `orderedMounts.Less`: no element is strictly less than its predecessor -/
def sortedMounts : List Oci.Mount → Bool
  | [] => true
  | [_] => true
  | a :: b :: r => !Mounts.mountLt b a && sortedMounts (b :: r)

/-- `p` is a CLEANED path and the directory `c` denotes (`filepath.Clean c`) lies strictly below
    it; when `p` is the root, `c` must be written with a leading `/`.  Exactly the hypotheses of
    theorem `C13_parent_first`: only the parent has to be cleaned. -/
def isCleanParentOf (p c : Str) : Bool :=
  Mounts.cleanPath p == p && isAncestor p (Mounts.cleanPath c) &&
    (p != ['/'] || (match c with | '/' :: _ => true | _ => false))

/-- every mount comes after all mounts of its (cleaned) parent directories; a mount whose own
    destination is not a cleaned path (`/data/`, `//x`) is still required to follow its cleaned
    parents, it just cannot itself serve as a parent here (witness `guard_unclean_child_first`) -/
def parentsFirst : List Oci.Mount → Bool
  | [] => true
  | m :: r => r.all (fun x => !isCleanParentOf x.destination m.destination) && parentsFirst r

/-! ### The families -/

def checkAnnotations (old : AList Str Str) (L : AList Str Str) (new : AList Str Str) : List Fail :=
  keyed "annotations" showS (fun e : Str × Str => e.1) id (fun e : Str × Str => e.1) true false L old new

def checkUnified (old : AList Str Str) (L : AList Str Str) (new : AList Str Str) : List Fail :=
  -- unified keys carry no removal marker: every entry is a set of its literal key
  let perKey := ((old.map (·.1)) ++ (L.map (·.1))).eraseDups.filterMap fun k =>
    let exp := match AList.lookup L k with | some v => some v | none => AList.lookup old k
    if AList.lookup new k = exp then none else
    some ({ sig := "C13:unified:" ++ (if (AList.lookup L k).isSome then "value" else "frame"),
            why := s!"unified: key {showS k} does not have the expected value" } : Fail)
  let extras := if new.all (fun e => (old.map (·.1)).contains e.1 || (L.map (·.1)).contains e.1) &&
      decide ((new.map (·.1)).Nodup) then [] else
    [({ sig := "C13:unified:frame:extra", why := "unified: unexpected or duplicate key in the result" } : Fail)]
  perKey ++ extras

def checkEnv (old : List Str) (L : List KeyValue) (new : List Str) : List Fail :=
  if L.isEmpty then
    if new = old then [] else [{ sig := "C13:env:frame", why := "env: changed although the adjustment has no env entries" }]
  else keyed "env" showS KeyValue.key KeyValue.toOCI Env.nameOf false true L old new

def checkDevices (old : List Oci.Device) (L : List LinuxDevice) (new : List Oci.Device)
    (oldRules newRules : List Oci.DeviceCgroup) : List Fail :=
  keyed "devices" showS LinuxDevice.path LinuxDevice.toOCI Oci.Device.path false true L old new ++
  (if newRules = oldRules ++ (L.filter (fun d => !isMarked d.path)).map LinuxDevice.cgroupRule then [] else
    [{ sig := "C13:devices:cgroup-rules",
       why := "devices: the device cgroup rules are not the original rules followed by one allow rule per device set" }])

def checkMounts (old : List Oci.Mount) (L : List Api.Mount) (new : List Oci.Mount) : List Fail :=
  if L.isEmpty then
    if new = old then [] else [{ sig := "C13:mounts:frame", why := "mounts: changed although the adjustment has no mounts" }]
  else
    keyed "mounts" showS Api.Mount.destination Api.Mount.toOCI Oci.Mount.destination false false L old new ++
    (if sortedMounts new then [] else
      [{ sig := "C13:mounts:unsorted", why := "mounts: result is not ordered by (path depth, destination)" }]) ++
    (if parentsFirst new then [] else
      [{ sig := "C13:mounts:parent-after-child", why := "mounts: a mount precedes a mount of one of its parent directories" }])

def checkArgs (old args new : List Str) : List Fail :=
  let marker := match args with | [] :: _ => true | _ => false
  let req := match args with | [] :: r => r | a => a
  if req.isEmpty then
    if new = old then [] else [{ sig := "C13:args:frame", why := "args: changed although no arguments were requested" }]
  else if new = req then []
  else [{ sig := "C13:args:" ++ (if marker then "update-marker" else "value"),
          why := "args: the command line is not the requested one" ++
                 (if marker then " (the leading \"\" written by UpdateArgs must not become argv[0])" else "") }]

def checkHooks (old : Oci.Hooks) (h : Option Api.Hooks) (new : Oci.Hooks) : List Fail :=
  let h := match h with | some h => h | none => {}
  let one (n : String) (o : List Oci.Hook) (a : List Api.Hook) (r : List Oci.Hook) : List Fail :=
    if r = o ++ a.map Hook.toOCI then [] else
    [{ sig := s!"C13:hooks:{n}", why := s!"hooks: the {n} list is not the original list followed by the requested hooks" }]
  one "prestart" old.prestart h.prestart new.prestart ++
  one "createRuntime" old.createRuntime h.createRuntime new.createRuntime ++
  one "createContainer" old.createContainer h.createContainer new.createContainer ++
  one "startContainer" old.startContainer h.startContainer new.startContainer ++
  one "poststart" old.poststart h.poststart new.poststart ++
  one "poststop" old.poststop h.poststop new.poststop

def scalar {α : Type} [DecidableEq α] (name : String) (old : α) (req : Option α) (new : α) : List Fail :=
  match req with
  | some v => if new = v then [] else
      [{ sig := s!"C13:{name}:value", why := s!"{name}: requested value does not appear in the result" }]
  | none => if new = old then [] else
      [{ sig := s!"C13:{name}:frame", why := s!"{name}: changed although not requested" }]

def optScalar {α : Type} [DecidableEq α] (name : String) (old : Option α) (req : Option α)
    (new : Option α) : List Fail := scalar name old (req.map some) new

def strScalar (name : String) (old req new : Str) : List Fail :=
  scalar name old (if req = [] then none else some req) new

def checkCpu (old : Oci.CPU) (r : Option LinuxCPU) (new : Oci.CPU) : List Fail :=
  let r := match r with | some r => r | none => {}
  optScalar "cpu.shares" old.shares r.shares new.shares ++
  optScalar "cpu.quota" old.quota r.quota new.quota ++
  optScalar "cpu.period" old.period r.period new.period ++
  optScalar "cpu.realtimeRuntime" old.realtimeRuntime r.realtimeRuntime new.realtimeRuntime ++
  optScalar "cpu.realtimePeriod" old.realtimePeriod r.realtimePeriod new.realtimePeriod ++
  strScalar "cpu.cpus" old.cpus r.cpus new.cpus ++
  strScalar "cpu.mems" old.mems r.mems new.mems

def checkMemory (old : Oci.Memory) (r : Option LinuxMemory) (new : Oci.Memory) : List Fail :=
  let req := match r with | some r => r.limit | none => none
  let limitFails := match req with
    | some l =>
      if new.limit = some l then [] else
      [({ sig := if l = 0 then "C13:memory:limit-zero" else "C13:memory.limit:value",
          why := "memory.limit: requested value does not appear in the result" ++
                 (if l = 0 then " (a requested limit of 0 is ignored)" else ""),
          recorded := l = 0 } : Fail)]
    | none => if new.limit = old.limit then [] else
      [{ sig := "C13:memory.limit:frame", why := "memory.limit: changed although not requested" }]
  -- the generator mirrors an applied limit into swap; otherwise swap is untouched
  let swapOk := new.swap = old.swap || (match req with | some l => new.limit = some l && new.swap = some l | none => false)
  let rest := { new with limit := none, swap := none } = { old with limit := none, swap := none }
  limitFails ++
  (if swapOk then [] else [{ sig := "C13:memory.swap:frame", why := "memory.swap: neither the original value nor the applied limit" }]) ++
  (if rest then [] else [{ sig := "C13:memory:frame", why := "memory: a field other than limit/swap changed" }])

def checkHugepages (old : List Oci.HugepageLimit) (L : List Api.HugepageLimit)
    (new : List Oci.HugepageLimit) : List Fail :=
  let sizes := (old.map (·.pageSize) ++ L.map (·.pageSize)).eraseDups
  let lk (l : List Oci.HugepageLimit) (k : Str) := (l.find? (fun h => h.pageSize == k)).map (·.limit)
  let perKey := sizes.filterMap fun k =>
    let exp := match (L.filter (fun h => h.pageSize == k)).getLast? with
      | some h => some h.limit
      | none => lk old k
    if lk new k = exp then none else
    some ({ sig := "C13:hugepages:" ++ (if L.any (fun h => h.pageSize == k) then "value" else "frame"),
            why := s!"hugepages: page size {showS k} does not have the expected limit" } : Fail)
  let shape := new.all (fun h => sizes.contains h.pageSize) &&
    ((new.map (·.pageSize)).eraseDups.length = (old.map (·.pageSize)).eraseDups.length +
        ((L.map (·.pageSize)).eraseDups.filter (fun k => !(old.map (·.pageSize)).contains k)).length) &&
    new.length = old.length + ((L.map (·.pageSize)).eraseDups.filter (fun k => !(old.map (·.pageSize)).contains k)).length
  perKey ++ (if shape then [] else
    [{ sig := "C13:hugepages:frame:extra", why := "hugepages: unexpected, missing or duplicated entries in the result" }])

/-- The propagation each applied (unmarked) entry effectively asks for, in list order: the LAST
    propagation option of the entry, or — the query variable of `AdjustMounts` is declared outside
    its loop — that of the nearest earlier applied entry that had one. -/
def propRequests : Str → List Api.Mount → List Str
  | _, [] => []
  | prev, m :: r =>
    if isMarked m.destination then propRequests prev r
    else (m.propagationQuery prev) :: propRequests (m.propagationQuery prev) r

/-- `Linux.RootfsPropagation` after a successful application, declaratively: `rshared` when some
    applied mount asks for `rshared`; raised to `rslave` when some asks for `rslave` and the
    original is neither `rshared` nor `rslave`; the original otherwise.  Never lowered, and
    independent of the order of the entries that ask. -/
def raiseRootfs (old : Str) (reqs : List Str) : Str :=
  if reqs.contains (str "rshared") then str "rshared"
  else if reqs.contains (str "rslave") && old != str "rshared" && old != str "rslave" then str "rslave"
  else old

def expectedRootfs (old : Str) (L : List Api.Mount) : Str := raiseRootfs old (propRequests [] L)

/-- Everything the property says about a successful application, on the implementation's
    result `o`, given the original `s`, the adjustment `a` and which externals are configured
    (`hasInjector`; `blockio`/`rdt` = the resolver tables, `none` = not configured). -/
def checkAll (s : Oci.Spec) (a : Adjustment) (o : Oci.Spec) (hasInjector : Bool)
    (blockio : Option (Str → Option Nat)) (rdt : Option (Str → Option Str)) : List Fail :=
  let res : LinuxResources := match a.resources with | some r => r | none => {}
  checkAnnotations s.annotations a.annotations o.annotations ++
  checkEnv s.env a.env o.env ++
  checkArgs s.args a.args o.args ++
  checkHooks s.hooks a.hooks o.hooks ++
  (if o.cdi = s.cdi ++ (if hasInjector then a.cdiDevices else []) then [] else
    [{ sig := "C13:cdi:value", why := "cdi: the injector was not called with exactly the requested names, once, in order" }]) ++
  checkDevices s.devices a.linuxDevices o.devices s.devRules o.devRules ++
  strScalar "cgroupsPath" s.cgroupsPath a.cgroupsPath o.cgroupsPath ++
  optScalar "oomScoreAdj" s.oomScoreAdj a.oomScoreAdj o.oomScoreAdj ++
  checkCpu s.cpu res.cpu o.cpu ++
  checkMemory s.memory res.memory o.memory ++
  checkHugepages s.hugepages res.hugepageLimits o.hugepages ++
  checkUnified s.unified res.unified o.unified ++
  optScalar "pids" s.pids res.pids o.pids ++
  (match res.blockioClass, blockio with
    | some c, some f =>
      if c = [] then (if o.blockio = none then [] else [{ sig := "C13:blockio:clear", why := "blockio: class \"\" must clear the block I/O settings" }])
      else if o.blockio = f c then [] else [{ sig := "C13:blockio:value", why := "blockio: the resolver's parameters for the requested class are not in the result" }]
    | _, _ => if o.blockio = s.blockio then [] else [{ sig := "C13:blockio:frame", why := "blockio: changed although not requested" }]) ++
  (match res.rdtClass, rdt with
    | some c, some f =>
      if c = [] then (if o.rdt = none then [] else [{ sig := "C13:rdt:clear", why := "rdt: class \"\" must clear the RDT settings" }])
      else if o.rdt = f c then [] else [{ sig := "C13:rdt:value", why := "rdt: the resolver's answer for the requested class is not in the result" }]
    | _, _ => if o.rdt = s.rdt then [] else [{ sig := "C13:rdt:frame", why := "rdt: changed although not requested" }]) ++
  checkMounts s.mounts a.mounts o.mounts ++
  (if a.mounts.any (fun m => !isMarked m.destination && m.options.any (fun x => x == str "rshared" || x == str "rslave"))
      || o.rootfsPropagation = s.rootfsPropagation then [] else
    [{ sig := "C13:rootfsPropagation:frame", why := "rootfsPropagation: changed although no mount asked for rshared/rslave" }]) ++
  (if o.rootfsPropagation = expectedRootfs s.rootfsPropagation a.mounts then [] else
    [{ sig := "C13:rootfsPropagation:value",
       why := s!"rootfsPropagation: {showS o.rootfsPropagation} where the mounts applied to an original {showS s.rootfsPropagation} call for {showS (expectedRootfs s.rootfsPropagation a.mounts)}" }]) ++
  (if o.rlimits = s.rlimits ++ a.rlimits.map POSIXRlimit.toOCI then [] else
    [{ sig := "C13:rlimits:value", why := "rlimits: not the original list followed by the requested limits" }])

/-- Guards of the property's domain; the first one violated is named. `none` = in domain. -/
def guardViolated (s : Oci.Spec) (a : Adjustment) : Option String :=
  if !envWF s.env && !a.env.isEmpty then some "guard:env:original-not-NAME=value-or-duplicate"
  else if !envAdjWF a.env then some "guard:env:key-empty-or-with-equals"
  else if !decide (NodupKeys Oci.Mount.destination s.mounts) then some "guard:mounts:duplicate-destination-in-original"
  else if !decide (NodupKeys Oci.Device.path s.devices) then some "guard:devices:duplicate-path-in-original"
  else if a.args = [[]] then some "guard:args:bare-update-marker"
  else none

end Nri.Generate.Check
