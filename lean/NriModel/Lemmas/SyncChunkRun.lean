/-
Run-level lemmas for property C09: giving up only on a small oversized window
(`run_tooLarge`), the loop composed with the stub (`run_stub`, `run_noHandler`), and the
trace acceptor (`acceptsTrace_sound`, `run_accepted`).
-/
import NriModel.Lemmas.SyncChunkSender

namespace Nri.SyncChunk

variable {α β υ ε σ : Type}

/-! ## Giving up -/

theorem expected_infix (s : SState α β) (pods : List α) (ctrs : List β)
    (hp : s.podsLeft <:+ pods) (hk : s.ctrsLeft <:+ ctrs) :
    (expected s).pods <:+: pods ∧ (expected s).ctrs <:+: ctrs := by
  constructor
  · exact ((List.take_prefix _ _).isInfix).trans hp.isInfix
  · exact ((List.take_prefix _ _).isInfix).trans hk.isInfix

/-- If the repaired loop ends with "failed to synchronize plugin with split messages" then
    either it was refused a message of at most `m` objects, made of consecutive pods and
    consecutive containers of the state, or the plugin end answered a request with an error
    carrying the status ResourceExhausted (which `recalcObjsPerSyncMsg` does not tell apart). -/
theorem run_tooLarge (E : Env α β υ ε σ) (m : Nat) (hc : E.clamp = true)
    (hπ : Shrinks m E.policy) (hlim : 0 < E.limit) (pods : List α) (ctrs : List β) :
    ∀ fuel w s, Good s → s.podsLeft <:+ pods → s.ctrsLeft <:+ ctrs →
      (run E fuel w s).out = .failed .tooLarge →
      (∃ c, c.pods <:+: pods ∧ c.ctrs <:+: ctrs ∧ c.count ≤ m ∧ E.limit < E.size c ∧
        Ev.rejected c (E.size c) ∈ (run E fuel w s).evs) ∨
      (∃ c, Ev.errored c ∈ (run E fuel w s).evs) := by
  intro fuel w s hG
  revert hG
  apply run_induction E m hc hπ
    (fun fuel _ s r => s.podsLeft <:+ pods → s.ctrsLeft <:+ ctrs → r.out = .failed .tooLarge →
      (∃ c, c.pods <:+: pods ∧ c.ctrs <:+: ctrs ∧ c.count ≤ m ∧ E.limit < E.size c ∧
        Ev.rejected c (E.size c) ∈ r.evs) ∨ (∃ c, Ev.errored c ∈ r.evs))
  · intro w s _ _ _ h; cases h
  · intro n w s w' evs o hG hs hp hk ho
    cases hs with
    | done w' r hm hfit hpeer => cases ho
    | noSplit w' r hm hfit hpeer hr => cases ho
    | peerErr w' e hfit hpeer => exact .inr ⟨expected s, by simp⟩
    | giveUp hlt hpol =>
      refine .inl ⟨expected s, (expected_infix s pods ctrs hp hk).1, (expected_infix s pods ctrs hp hk).2,
        ?_, hlt, by simp⟩
      rw [expected_count s hG]
      exact hπ.gives_up _ _ _ _ hlim hlt hpol
  · intro n w s w' evs s' r hG hs hG' _ _ ih hp hk ho
    cases hs with
    | advance w' r0 hm hfit hpeer hu hrm =>
      rcases ih ((List.drop_suffix _ _).trans hp) ((List.drop_suffix _ _).trans hk) ho with
        ⟨c, h1, h2, h3, h4, h5⟩ | ⟨c, h5⟩
      · exact .inl ⟨c, h1, h2, h3, h4, by simp [h5]⟩
      · exact .inr ⟨c, by simp [h5]⟩
    | shrink p k hlt hdec hg =>
      rcases ih hp hk ho with ⟨c, h1, h2, h3, h4, h5⟩ | ⟨c, h5⟩
      · exact .inl ⟨c, h1, h2, h3, h4, by simp [h5]⟩
      · exact .inr ⟨c, by simp [h5]⟩

/-! ## The loop composed with the stub behind the transport -/

/-- what the runtime gets once the handler has been called with the whole state: its updates if
    the reply fits, the deadline if the reply is too large and gets dropped, the handler's error
    otherwise (reported with the "split messages" text when it carries ResourceExhausted) -/
def wireOutcome (rs : Reply υ → Nat) (rl : Nat) (hx : ε → Bool)
    (f : List α → List β → Except ε (List υ)) (pods : List α) (ctrs : List β) :
    Outcome υ (WireErr ε) :=
  match f pods ctrs with
  | .ok u => if rs ⟨u, false⟩ ≤ rl then .done u else .failed (.peer .replyLost)
  | .error e => .failed (if hx e then .tooLarge else .peer (.handler e))

theorem stubRPC_more (f : List α → List β → Except ε (List υ)) (w : RState α β) (c : Chunk α β)
    (hm : c.more = true) :
    stubRPC (some f) w c =
      (⟨some (accPods w ++ c.pods, accCtrs w ++ c.ctrs), w.calls⟩, .ok ⟨[], true⟩) := by
  simp [stubRPC, hm, collectSync_eq]

theorem stubRPC_last (f : List α → List β → Except ε (List υ)) (w : RState α β) (c : Chunk α β)
    (hm : c.more = false) :
    stubRPC (some f) w c =
      (⟨none, w.calls ++ [(accPods w ++ c.pods, accCtrs w ++ c.ctrs)]⟩,
       handlerReply f (accPods w ++ c.pods) (accCtrs w ++ c.ctrs)) := by
  simp [stubRPC, hm, deliverSync_eq]

theorem wireStub_more (rs : Reply υ → Nat) (rl : Nat) (hecho : rs ⟨[], true⟩ ≤ rl)
    (f : List α → List β → Except ε (List υ)) (w : RState α β) (c : Chunk α β)
    (hm : c.more = true) :
    wireStub rs rl (some f) w c =
      (⟨some (accPods w ++ c.pods, accCtrs w ++ c.ctrs), w.calls⟩, .ok ⟨[], true⟩) := by
  simp [wireStub, stubRPC_more f w c hm, hecho]

/-- the answer to the last chunk, as it arrives at the runtime -/
def wireReply (rs : Reply υ → Nat) (rl : Nat) (f : List α → List β → Except ε (List υ))
    (ps : List α) (cs : List β) : Except (WireErr ε) (Reply υ) :=
  match f ps cs with
  | .ok u => if rs ⟨u, false⟩ ≤ rl then .ok ⟨u, false⟩ else .error .replyLost
  | .error e => .error (.handler e)

theorem wireStub_last (rs : Reply υ → Nat) (rl : Nat)
    (f : List α → List β → Except ε (List υ)) (w : RState α β) (c : Chunk α β)
    (hm : c.more = false) :
    wireStub rs rl (some f) w c =
      (⟨none, w.calls ++ [(accPods w ++ c.pods, accCtrs w ++ c.ctrs)]⟩,
       wireReply rs rl f (accPods w ++ c.pods) (accCtrs w ++ c.ctrs)) := by
  simp only [wireStub, stubRPC_last f w c hm, handlerReply, wireReply]
  cases f (accPods w ++ c.pods) (accCtrs w ++ c.ctrs) with
  | error e => rfl
  | ok u => simp only []; split <;> rfl

/-- The repaired sender against the real receiver behind a transport that drops oversized
    replies: either it gives up on its own before the handler was ever called (then a message of
    at most `m` objects was refused) or runs out of fuel, or the handler was called exactly once
    with exactly the supplied state and what the sender returns is `wireOutcome`. It never
    decides that the plugin "does not handle split sync requests". -/
theorem run_wire (E : Env α β υ (WireErr ε) (RState α β)) (m : Nat) (hc : E.clamp = true)
    (hπ : Shrinks m E.policy) (hlim : 0 < E.limit) (rs : Reply υ → Nat) (rl : Nat)
    (hecho : rs ⟨[], true⟩ ≤ rl) (hx : ε → Bool)
    (f : List α → List β → Except ε (List υ))
    (hpeer : E.peer = wireStub rs rl (some f)) (hex : E.exhausted = wireExhausted hx)
    (pods : List α) (ctrs : List β) :
    ∀ fuel w s, Good s → w.calls = [] → accPods w ++ s.podsLeft = pods →
      accCtrs w ++ s.ctrsLeft = ctrs →
      ((run E fuel w s).out = .failed .tooLarge ∧ (run E fuel w s).world.calls = [] ∧
        ∃ c : Chunk α β, c.pods <:+: pods ∧ c.ctrs <:+: ctrs ∧ c.count ≤ m ∧ E.limit < E.size c) ∨
      ((run E fuel w s).out = .outOfFuel ∧ (run E fuel w s).world.calls = []) ∨
      ((run E fuel w s).out = wireOutcome rs rl hx f pods ctrs ∧
          (run E fuel w s).world.calls = [(pods, ctrs)] ∧ (run E fuel w s).world.acc = none) := by
  intro fuel w s hG
  revert hG
  apply run_induction E m hc hπ
    (fun _ w s r => w.calls = [] → accPods w ++ s.podsLeft = pods →
      accCtrs w ++ s.ctrsLeft = ctrs →
      (r.out = .failed .tooLarge ∧ r.world.calls = [] ∧
        ∃ c : Chunk α β, c.pods <:+: pods ∧ c.ctrs <:+: ctrs ∧ c.count ≤ m ∧ E.limit < E.size c) ∨
      (r.out = .outOfFuel ∧ r.world.calls = []) ∨
      (r.out = wireOutcome rs rl hx f pods ctrs ∧ r.world.calls = [(pods, ctrs)] ∧ r.world.acc = none))
  · intro w s _ h1 _ _; exact .inr (.inl ⟨rfl, h1⟩)
  · intro n w s w' evs o hG hs h1 h2 h3
    cases hs with
    | done w' r hm hfit hp =>
      right; right
      rw [hpeer, wireStub_last rs rl f w _ hm, expected_more_false s hG hm] at hp
      simp only [h2, h3, Prod.mk.injEq] at hp
      obtain ⟨hw, hr⟩ := hp
      subst hw
      simp only [wireReply] at hr
      simp only [wireOutcome, h1, List.nil_append, and_true]
      cases hf : f pods ctrs with
      | error e => rw [hf] at hr; cases hr
      | ok u =>
        rw [hf] at hr
        simp only at hr ⊢
        split at hr
        · next hle => simp only [Except.ok.injEq] at hr; subst hr; simp [hle]
        · cases hr
    | noSplit w' r hm hfit hp hr =>
      rw [hpeer, wireStub_more rs rl hecho f w _ hm] at hp
      simp only [Prod.mk.injEq, Except.ok.injEq] at hp
      obtain ⟨_, hr'⟩ := hp
      subst hr'
      simp at hr
    | peerErr w' e hfit hp =>
      right; right
      cases hm : (expected s).more with
      | true =>
        rw [hpeer, wireStub_more rs rl hecho f w _ hm] at hp
        simp at hp
      | false =>
        rw [hpeer, wireStub_last rs rl f w _ hm, expected_more_false s hG hm] at hp
        simp only [h2, h3, Prod.mk.injEq] at hp
        obtain ⟨hw, hr⟩ := hp
        subst hw
        simp only [wireReply] at hr
        simp only [wireOutcome, h1, List.nil_append, and_true, hex]
        cases hf : f pods ctrs with
        | error e' =>
          rw [hf] at hr
          simp only [Except.error.injEq] at hr
          subst hr
          simp only [wireExhausted]
          by_cases hxe : hx e' = true <;> simp [hxe]
        | ok u =>
          rw [hf] at hr
          simp only at hr ⊢
          split at hr
          · cases hr
          · next hgt =>
            simp only [Except.error.injEq] at hr
            subst hr
            simp [wireExhausted, hgt]
    | giveUp hlt hpol =>
      refine .inl ⟨rfl, h1, expected s, ?_, ?_, ?_, hlt⟩
      · exact (expected_infix s pods ctrs ⟨accPods w, h2⟩ ⟨accCtrs w, h3⟩).1
      · exact (expected_infix s pods ctrs ⟨accPods w, h2⟩ ⟨accCtrs w, h3⟩).2
      · rw [expected_count s hG]; exact hπ.gives_up _ _ _ _ hlim hlt hpol
  · intro n w s w' evs s' r hG hs hG' _ _ ih h1 h2 h3
    cases hs with
    | advance w' r0 hm hfit hp hu hrm =>
      rw [hpeer, wireStub_more rs rl hecho f w _ hm] at hp
      simp only [Prod.mk.injEq] at hp
      obtain ⟨hw, _⟩ := hp
      subst hw
      apply ih h1
      · simp only [accPods, advance, expected, List.append_assoc, List.take_append_drop]
        exact h2
      · simp only [accCtrs, advance, expected, List.append_assoc, List.take_append_drop]
        exact h3
    | shrink p k hlt hdec hg => exact ih h1 h2 h3

/-- The repaired sender against a plugin with no `Synchronize` handler: nothing is called,
    the result carries no updates. -/
theorem run_noHandler (E : Env α β υ (WireErr ε) (RState α β)) (m : Nat) (hc : E.clamp = true)
    (hπ : Shrinks m E.policy) (rs : Reply υ → Nat) (rl : Nat)
    (hecho : ∀ b, rs ⟨[], b⟩ ≤ rl)
    (hpeer : E.peer = wireStub rs rl (none : Handler α β υ ε)) :
    ∀ fuel w s, Good s →
      (run E fuel w s).world = w ∧
      ((run E fuel w s).out = .done [] ∨ (run E fuel w s).out = .failed .tooLarge ∨
        (run E fuel w s).out = .outOfFuel) := by
  have hw : ∀ (w : RState α β) (c : Chunk α β),
      wireStub rs rl (none : Handler α β υ ε) w c = (w, .ok ⟨[], c.more⟩) := by
    intro w c; simp [wireStub, stubRPC, hecho]
  apply run_induction E m hc hπ
    (fun _ w _ r => r.world = w ∧ (r.out = .done [] ∨ r.out = .failed .tooLarge ∨ r.out = .outOfFuel))
  · intro w s _; exact ⟨rfl, .inr (.inr rfl)⟩
  · intro n w s w' evs o hG hs
    cases hs with
    | done w' r hm hfit hp =>
      rw [hpeer, hw] at hp
      simp only [Prod.mk.injEq, Except.ok.injEq] at hp
      obtain ⟨hw', hr⟩ := hp
      subst hw' hr
      exact ⟨rfl, .inl rfl⟩
    | noSplit w' r hm hfit hp hr =>
      rw [hpeer, hw] at hp
      simp only [Prod.mk.injEq, Except.ok.injEq] at hp
      obtain ⟨_, hr'⟩ := hp
      subst hr'
      simp [hm] at hr
    | peerErr w' e hfit hp =>
      rw [hpeer, hw] at hp
      simp at hp
    | giveUp hlt hpol => exact ⟨rfl, .inr (.inl rfl)⟩
  · intro n w s w' evs s' r hG hs hG' _ _ ih
    cases hs with
    | advance w' r0 hm hfit hp hu hrm =>
      rw [hpeer, hw] at hp
      simp only [Prod.mk.injEq] at hp
      obtain ⟨hw', _⟩ := hp
      subst hw'
      exact ih
    | shrink p k hlt hdec hg => exact ih

/-! ## Running on: used by the livelock witness -/

/-- If the loop is still running after `k` iterations, a longer run is the `k`-run followed
    by the run from the state reached. -/
theorem run_add (E : Env α β υ ε σ) :
    ∀ (k n : Nat) (w : σ) (s : SState α β) (w' : σ) (s' : SState α β),
      stateAfter E k w s = some (w', s') →
      (run E (k + n) w s).evs = (run E k w s).evs ++ (run E n w' s').evs ∧
      (run E (k + n) w s).out = (run E n w' s').out ∧
      (run E (k + n) w s).world = (run E n w' s').world := by
  intro k
  induction k with
  | zero =>
    intro n w s w' s' h
    simp only [stateAfter, Option.some.injEq, Prod.mk.injEq] at h
    obtain ⟨rfl, rfl⟩ := h
    simp [run_zero]
  | succ k ih =>
    intro n w s w' s' h
    rw [show k + 1 + n = (k + n) + 1 by omega, run_succ, run_succ]
    simp only [stateAfter] at h
    rcases hstep : step E w s with ⟨w1, evs, res⟩
    rw [hstep] at h
    cases res with
    | stop o => simp at h
    | next s1 =>
      simp only at h
      obtain ⟨h1, h2, h3⟩ := ih n w1 s1 w' s' h
      simp only [h1, h2, h3, List.append_assoc, and_self]

/-- Fuel is only a proof device: once a run has ended, more fuel changes nothing. -/
theorem run_mono (E : Env α β υ ε σ) :
    ∀ (n k : Nat) (w : σ) (s : SState α β), (run E n w s).out ≠ .outOfFuel →
      run E (n + k) w s = run E n w s := by
  intro n
  induction n with
  | zero => intro k w s h; exact absurd rfl h
  | succ n ih =>
    intro k w s h
    rw [show n + 1 + k = (n + k) + 1 by omega, run_succ]
    rw [run_succ] at h ⊢
    rcases hstep : step E w s with ⟨w1, evs, res⟩
    rw [hstep] at h
    cases res with
    | stop o => rfl
    | next s1 =>
      simp only at h ⊢
      rw [ih k w1 s1 h]

/-- A state the loop maps to itself: the loop never ends, sending the same message for ever. -/
theorem run_stuck (E : Env α β υ ε σ) (w : σ) (s : SState α β) (e : Ev α β υ)
    (h : step E w s = (w, [e], .next s)) :
    ∀ n, run E n w s = ⟨List.replicate n e, .outOfFuel, w⟩ := by
  intro n
  induction n with
  | zero => rfl
  | succ n ih =>
    rw [run_succ, h]
    simp only [ih, List.replicate_succ, List.singleton_append]

end Nri.SyncChunk
