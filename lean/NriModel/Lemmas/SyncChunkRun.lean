/-
Run-level lemmas for property C09: giving up only on a small oversized window
(`run_tooLarge`), the loop composed with the stub (`run_stub`, `run_noHandler`), and the
trace acceptor (`acceptsTrace_sound`, `run_accepted`).
-/
import NriModel.Lemmas.SyncChunkSender

namespace Nri.SyncChunk

variable {α β υ ε σ : Type}

/-! ## Giving up -/

theorem expected_infix (s : SState α β) (pods : List α) (ctrs : List β)
    (hp : s.podsLeft <:+ pods) (hk : s.ctrsLeft <:+ ctrs) :
    (expected s).pods <:+: pods ∧ (expected s).ctrs <:+: ctrs := by
  constructor
  · exact ((List.take_prefix _ _).isInfix).trans hp.isInfix
  · exact ((List.take_prefix _ _).isInfix).trans hk.isInfix

/-- If the repaired loop gives up with "failed to synchronize plugin with split messages"
    then it was refused a message of at most `m` objects, made of consecutive pods and
    consecutive containers of the state. -/
theorem run_tooLarge (E : Env α β υ ε σ) (m : Nat) (hc : E.clamp = true)
    (hπ : Shrinks m E.policy) (hlim : 0 < E.limit) (pods : List α) (ctrs : List β) :
    ∀ fuel w s, Good s → s.podsLeft <:+ pods → s.ctrsLeft <:+ ctrs →
      (run E fuel w s).out = .failed .tooLarge →
      ∃ c, c.pods <:+: pods ∧ c.ctrs <:+: ctrs ∧ c.count ≤ m ∧ E.limit < E.size c ∧
        Ev.rejected c (E.size c) ∈ (run E fuel w s).evs := by
  intro fuel w s hG
  revert hG
  apply run_induction E m hc hπ
    (fun fuel _ s r => s.podsLeft <:+ pods → s.ctrsLeft <:+ ctrs → r.out = .failed .tooLarge →
      ∃ c, c.pods <:+: pods ∧ c.ctrs <:+: ctrs ∧ c.count ≤ m ∧ E.limit < E.size c ∧
        Ev.rejected c (E.size c) ∈ r.evs)
  · intro w s _ _ _ h; cases h
  · intro n w s w' evs o hG hs hp hk ho
    cases hs with
    | done w' r hm hfit hpeer => cases ho
    | noSplit w' r hm hfit hpeer hr => cases ho
    | peerErr w' e hfit hpeer => cases ho
    | giveUp hlt hpol =>
      refine ⟨expected s, (expected_infix s pods ctrs hp hk).1, (expected_infix s pods ctrs hp hk).2,
        ?_, hlt, by simp⟩
      rw [expected_count s hG]
      exact hπ.gives_up _ _ _ _ hlim hlt hpol
  · intro n w s w' evs s' r hG hs hG' _ _ ih hp hk ho
    cases hs with
    | advance w' r0 hm hfit hpeer hu hrm =>
      obtain ⟨c, h1, h2, h3, h4, h5⟩ := ih ((List.drop_suffix _ _).trans hp) ((List.drop_suffix _ _).trans hk) ho
      exact ⟨c, h1, h2, h3, h4, by simp [h5]⟩
    | shrink p k hlt hdec hg =>
      obtain ⟨c, h1, h2, h3, h4, h5⟩ := ih hp hk ho
      exact ⟨c, h1, h2, h3, h4, by simp [h5]⟩

/-! ## The loop composed with the stub -/

/-- what the runtime gets when the handler has been called with the whole state -/
def deliveredOutcome (f : List α → List β → Except ε (List υ)) (pods : List α) (ctrs : List β) :
    Outcome υ ε :=
  match f pods ctrs with
  | .ok u => .done u
  | .error e => .failed (.peer e)

theorem stubRPC_more (f : List α → List β → Except ε (List υ)) (w : RState α β) (c : Chunk α β)
    (hm : c.more = true) :
    stubRPC (some f) w c =
      (⟨some (accPods w ++ c.pods, accCtrs w ++ c.ctrs), w.calls⟩, .ok ⟨[], true⟩) := by
  simp [stubRPC, hm, collectSync_eq]

theorem stubRPC_last (f : List α → List β → Except ε (List υ)) (w : RState α β) (c : Chunk α β)
    (hm : c.more = false) :
    stubRPC (some f) w c =
      (⟨none, w.calls ++ [(accPods w ++ c.pods, accCtrs w ++ c.ctrs)]⟩,
       handlerReply f (accPods w ++ c.pods) (accCtrs w ++ c.ctrs)) := by
  simp [stubRPC, hm, deliverSync_eq]

/-- The repaired sender against the real receiver: either it gives up (or runs out of fuel)
    before the handler was ever called, or the handler was called exactly once with exactly
    the supplied state and its answer is the sender's result. It never decides that the plugin
    "does not handle split sync requests". -/
theorem run_stub (E : Env α β υ ε (RState α β)) (m : Nat) (hc : E.clamp = true)
    (hπ : Shrinks m E.policy) (f : List α → List β → Except ε (List υ))
    (hpeer : E.peer = stubRPC (some f)) (pods : List α) (ctrs : List β) :
    ∀ fuel w s, Good s → w.calls = [] → accPods w ++ s.podsLeft = pods →
      accCtrs w ++ s.ctrsLeft = ctrs →
      (((run E fuel w s).out = .failed .tooLarge ∨ (run E fuel w s).out = .outOfFuel) ∧
          (run E fuel w s).world.calls = []) ∨
      ((run E fuel w s).out = deliveredOutcome f pods ctrs ∧
          (run E fuel w s).world.calls = [(pods, ctrs)] ∧ (run E fuel w s).world.acc = none) := by
  intro fuel w s hG
  revert hG
  apply run_induction E m hc hπ
    (fun _ w s r => w.calls = [] → accPods w ++ s.podsLeft = pods →
      accCtrs w ++ s.ctrsLeft = ctrs →
      ((r.out = .failed .tooLarge ∨ r.out = .outOfFuel) ∧ r.world.calls = []) ∨
      (r.out = deliveredOutcome f pods ctrs ∧ r.world.calls = [(pods, ctrs)] ∧ r.world.acc = none))
  · intro w s _ h1 _ _; exact .inl ⟨.inr rfl, h1⟩
  · intro n w s w' evs o hG hs h1 h2 h3
    cases hs with
    | done w' r hm hfit hp =>
      right
      rw [hpeer, stubRPC_last f w _ hm, expected_more_false s hG hm] at hp
      simp only [h2, h3, Prod.mk.injEq] at hp
      obtain ⟨hw, hr⟩ := hp
      subst hw
      simp only [handlerReply] at hr
      simp only [deliveredOutcome, h1, List.nil_append, and_true]
      split at hr
      · next u hu => simp only [Except.ok.injEq] at hr; subst hr; rw [hu]
      · cases hr
    | noSplit w' r hm hfit hp hr =>
      rw [hpeer, stubRPC_more f w _ hm] at hp
      simp only [Prod.mk.injEq, Except.ok.injEq] at hp
      obtain ⟨_, hr'⟩ := hp
      subst hr'
      simp at hr
    | peerErr w' e hfit hp =>
      right
      cases hm : (expected s).more with
      | true =>
        rw [hpeer, stubRPC_more f w _ hm] at hp
        simp at hp
      | false =>
        rw [hpeer, stubRPC_last f w _ hm, expected_more_false s hG hm] at hp
        simp only [h2, h3, Prod.mk.injEq] at hp
        obtain ⟨hw, hr⟩ := hp
        subst hw
        simp only [handlerReply] at hr
        simp only [deliveredOutcome, h1, List.nil_append, and_true]
        split at hr
        · cases hr
        · next e' he => simp only [Except.error.injEq] at hr; subst hr; rw [he]
    | giveUp hlt hpol => exact .inl ⟨.inl rfl, h1⟩
  · intro n w s w' evs s' r hG hs hG' _ _ ih h1 h2 h3
    cases hs with
    | advance w' r0 hm hfit hp hu hrm =>
      rw [hpeer, stubRPC_more f w _ hm] at hp
      simp only [Prod.mk.injEq] at hp
      obtain ⟨hw, _⟩ := hp
      subst hw
      apply ih h1
      · simp only [accPods, advance, expected, List.append_assoc, List.take_append_drop]
        exact h2
      · simp only [accCtrs, advance, expected, List.append_assoc, List.take_append_drop]
        exact h3
    | shrink p k hlt hdec hg => exact ih h1 h2 h3

/-- The repaired sender against a plugin with no `Synchronize` handler: nothing is called,
    the result carries no updates. -/
theorem run_noHandler (E : Env α β υ ε (RState α β)) (m : Nat) (hc : E.clamp = true)
    (hπ : Shrinks m E.policy) (hpeer : E.peer = stubRPC (none : Handler α β υ ε)) :
    ∀ fuel w s, Good s →
      (run E fuel w s).world = w ∧
      ((run E fuel w s).out = .done [] ∨ (run E fuel w s).out = .failed .tooLarge ∨
        (run E fuel w s).out = .outOfFuel) := by
  apply run_induction E m hc hπ
    (fun _ w _ r => r.world = w ∧ (r.out = .done [] ∨ r.out = .failed .tooLarge ∨ r.out = .outOfFuel))
  · intro w s _; exact ⟨rfl, .inr (.inr rfl)⟩
  · intro n w s w' evs o hG hs
    cases hs with
    | done w' r hm hfit hp =>
      rw [hpeer] at hp
      simp only [stubRPC, Prod.mk.injEq, Except.ok.injEq] at hp
      obtain ⟨hw, hr⟩ := hp
      subst hw hr
      exact ⟨rfl, .inl rfl⟩
    | noSplit w' r hm hfit hp hr =>
      rw [hpeer] at hp
      simp only [stubRPC, Prod.mk.injEq, Except.ok.injEq] at hp
      obtain ⟨_, hr'⟩ := hp
      subst hr'
      simp [hm] at hr
    | peerErr w' e hfit hp =>
      rw [hpeer] at hp
      simp [stubRPC] at hp
    | giveUp hlt hpol => exact ⟨rfl, .inr (.inl rfl)⟩
  · intro n w s w' evs s' r hG hs hG' _ _ ih
    cases hs with
    | advance w' r0 hm hfit hp hu hrm =>
      rw [hpeer] at hp
      simp only [stubRPC, Prod.mk.injEq] at hp
      obtain ⟨hw, _⟩ := hp
      subst hw
      exact ih
    | shrink p k hlt hdec hg => exact ih

/-! ## Running on: used by the livelock witness -/

/-- If the loop is still running after `k` iterations, a longer run is the `k`-run followed
    by the run from the state reached. -/
theorem run_add (E : Env α β υ ε σ) :
    ∀ (k n : Nat) (w : σ) (s : SState α β) (w' : σ) (s' : SState α β),
      stateAfter E k w s = some (w', s') →
      (run E (k + n) w s).evs = (run E k w s).evs ++ (run E n w' s').evs ∧
      (run E (k + n) w s).out = (run E n w' s').out ∧
      (run E (k + n) w s).world = (run E n w' s').world := by
  intro k
  induction k with
  | zero =>
    intro n w s w' s' h
    simp only [stateAfter, Option.some.injEq, Prod.mk.injEq] at h
    obtain ⟨rfl, rfl⟩ := h
    simp [run_zero]
  | succ k ih =>
    intro n w s w' s' h
    rw [show k + 1 + n = (k + n) + 1 by omega, run_succ, run_succ]
    simp only [stateAfter] at h
    rcases hstep : step E w s with ⟨w1, evs, res⟩
    rw [hstep] at h
    cases res with
    | stop o => simp at h
    | next s1 =>
      simp only at h
      obtain ⟨h1, h2, h3⟩ := ih n w1 s1 w' s' h
      simp only [h1, h2, h3, List.append_assoc, and_self]

/-- Fuel is only a proof device: once a run has ended, more fuel changes nothing. -/
theorem run_mono (E : Env α β υ ε σ) :
    ∀ (n k : Nat) (w : σ) (s : SState α β), (run E n w s).out ≠ .outOfFuel →
      run E (n + k) w s = run E n w s := by
  intro n
  induction n with
  | zero => intro k w s h; exact absurd rfl h
  | succ n ih =>
    intro k w s h
    rw [show n + 1 + k = (n + k) + 1 by omega, run_succ]
    rw [run_succ] at h ⊢
    rcases hstep : step E w s with ⟨w1, evs, res⟩
    rw [hstep] at h
    cases res with
    | stop o => rfl
    | next s1 =>
      simp only at h ⊢
      rw [ih k w1 s1 h]

/-- A state the loop maps to itself: the loop never ends, sending the same message for ever. -/
theorem run_stuck (E : Env α β υ ε σ) (w : σ) (s : SState α β) (e : Ev α β υ)
    (h : step E w s = (w, [e], .next s)) :
    ∀ n, run E n w s = ⟨List.replicate n e, .outOfFuel, w⟩ := by
  intro n
  induction n with
  | zero => rfl
  | succ n ih =>
    rw [run_succ, h]
    simp only [ih, List.replicate_succ, List.singleton_append]

end Nri.SyncChunk
