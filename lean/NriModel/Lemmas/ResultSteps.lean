/-
Step lemmas for the result.go model: what one plugin's response does to the ledger.
(A) what it sets it owns afterwards, (B) owners it does not remove persist, (C) setting an
owned item fails; lifted from `claimAll`/`clearAll` to `adjust`, `update1`, `updateAll`,
`apply` and `run`. Core Lean only.
-/
import NriModel.Lemmas.Ledger
import NriModel.Ledger

namespace Nri.Result
open Nri.NApi Nri.Ledger

/-! ### the request kind never changes -/

theorem annData_kind (q st a) : (annData q st a).kind = st.kind := by
  unfold annData; simp only []
theorem mountData_kind (st ms) : (mountData st ms).kind = st.kind := rfl
theorem envData_kind (q st es) : (envData q st es).kind = st.kind := rfl
theorem deviceData_kind (q st ds) : (deviceData q st ds).kind = st.kind := rfl
theorem argsData_kind (st a) : (argsData st a).kind = st.kind := by
  unfold argsData; split <;> rfl
theorem hooksData_kind (st h) : (hooksData st h).kind = st.kind := by
  unfold hooksData; split <;> rfl
theorem resData_kind (st r) : (resData st r).kind = st.kind := by
  unfold resData; split <;> rfl
theorem cgroupsData_kind (st p) : (cgroupsData st p).kind = st.kind := by
  unfold cgroupsData; split <;> rfl
theorem oomData_kind (st v) : (oomData st v).kind = st.kind := by
  unfold oomData; split <;> rfl
theorem rlimitData_kind (st l) : (rlimitData st l).kind = st.kind := rfl
theorem cdiData_kind (st l) : (cdiData st l).kind = st.kind := rfl

theorem adjustData_kind (q st a) : (adjustData q st a).kind = st.kind := by
  unfold adjustData
  simp only [cdiData_kind, rlimitData_kind]
  split
  · simp only [oomData_kind, cgroupsData_kind, resData_kind, deviceData_kind, hooksData_kind,
      argsData_kind, envData_kind, mountData_kind, annData_kind]
  · simp only [hooksData_kind, argsData_kind, envData_kind, mountData_kind, annData_kind]

/-! ### adjust -/

theorem adjust_none (q st p) : adjust q st p none = .ok st := rfl

theorem adjust_ok_iff (q : Quirks) (st st' : State) (p : Plugin) (a : Adjustment) :
    adjust q st p (some a) = .ok st' ↔
    ∃ o, claimAll (cidOf st.kind) p (clearAll st.owners (cidOf st.kind) (adjustClears q st a)) (adjustSets a) = .ok o
      ∧ st' = { adjustData q st a with owners := o } := by
  unfold adjust
  simp only []
  cases h : claimAll (cidOf st.kind) p (clearAll st.owners (cidOf st.kind) (adjustClears q st a)) (adjustSets a) with
  | error e => simp
  | ok o => simp; exact eq_comm

theorem adjust_kind (q st st' p a) (h : adjust q st p a = .ok st') : st'.kind = st.kind := by
  cases a with
  | none => simp [adjust] at h; subst h; rfl
  | some a =>
    obtain ⟨o, _, rfl⟩ := (adjust_ok_iff q st st' p a).1 h
    exact adjustData_kind q st a

/-- (A) for `adjust` -/
theorem adjust_owns (q st st' p a) (h : adjust q st p (some a) = .ok st') (it : Item)
    (hm : it ∈ adjustSets a) : st'.owners.owner (cidOf st.kind) it = some p := by
  obtain ⟨o, ho, rfl⟩ := (adjust_ok_iff q st st' p a).1 h
  exact claimAll_owns _ _ _ _ _ ho it hm

/-- (B) for `adjust` -/
theorem adjust_keeps (q st st' p a) (h : adjust q st p a = .ok st') (c' : Cid) (it : Item) (w : Plugin)
    (ho : st.owners.owner c' it = some w)
    (hnr : ∀ a', a = some a' → c' = cidOf st.kind → it ∉ adjustClears q st a') :
    st'.owners.owner c' it = some w := by
  cases a with
  | none => simp [adjust] at h; subst h; exact ho
  | some a =>
    obtain ⟨o, hc, rfl⟩ := (adjust_ok_iff q st st' p a).1 h
    apply claimAll_keeps _ _ _ _ _ hc
    rw [owner_clearAll_other]
    · exact ho
    · by_cases hcid : c' = cidOf st.kind
      · exact .inr (hnr a rfl hcid)
      · exact .inl hcid

/-- (C) for `adjust` -/
theorem adjust_fails_of_owned (q st p a) (it : Item) (w : Plugin)
    (ho : st.owners.owner (cidOf st.kind) it = some w) (hs : it ∈ adjustSets a)
    (hnr : it ∉ adjustClears q st a) : ∃ e, adjust q st p (some a) = .error e := by
  have : (clearAll st.owners (cidOf st.kind) (adjustClears q st a)).owner (cidOf st.kind) it = some w := by
    rw [owner_clearAll_other _ _ _ _ _ (.inr hnr)]; exact ho
  obtain ⟨e, he⟩ := claimAll_fails_of_owned (cidOf st.kind) p _ (adjustSets a) it w this hs
  exact ⟨e, by unfold adjust; simp only [he]⟩

/-! ### what `adjustClears` can contain -/

theorem mem_delKeys_iff (keys : List Str) (k : Str) :
    k ∈ delKeys keys ↔ ∃ x ∈ keys, isMarked x = (k, true) := by
  unfold delKeys
  simp only [List.mem_filterMap]
  constructor
  · rintro ⟨x, hx, h⟩
    refine ⟨x, hx, ?_⟩
    cases hm : isMarked x with
    | mk key m =>
      rw [hm] at h
      cases m <;> simp at h
      subst h; rfl
  · rintro ⟨x, hx, h⟩
    exact ⟨x, hx, by rw [h]; rfl⟩

theorem annDel_eq (a : AList Str Str) : annDel a = delKeys (a.map (·.1)) := by
  unfold annDel delKeys
  rw [List.filterMap_map]
  rfl

/-- every owner an adjustment clears is an item it marks for removal -/
theorem adjustClears_subset_removes (st : State) (a : Adjustment) (it : Item)
    (h : it ∈ adjustClears Quirks.fixed st a) : it ∈ removesAdj a := by
  unfold adjustClears at h
  unfold removesAdj
  simp only [List.mem_append] at h ⊢
  rcases h with (((h | h) | h) | h) | h
  · -- annotations
    refine .inl (.inl (.inl (.inl ?_)))
    unfold annClears at h
    simp only [Quirks.fixed] at h
    simp only [Bool.false_eq_true, ↓reduceIte, List.mem_map] at h
    obtain ⟨k, hk, rfl⟩ := h
    rw [annDel_eq] at hk
    exact List.mem_map.2 ⟨k, hk, rfl⟩
  · refine .inl (.inl (.inl (.inr ?_)))
    unfold mountClears at h
    simp only [List.mem_map, List.mem_filter] at h
    obtain ⟨m, ⟨_, hd⟩, rfl⟩ := h
    exact List.mem_map.2 ⟨m.destination, by simpa using hd, rfl⟩
  · refine .inl (.inl (.inr ?_))
    unfold envClears at h
    simp only [List.mem_map, List.mem_filter] at h
    obtain ⟨e, ⟨_, hd⟩, rfl⟩ := h
    exact List.mem_map.2 ⟨e.key, by simpa using hd, rfl⟩
  · refine .inl (.inr ?_)
    cases hargs : a.args with
    | nil => simp [argsClears, hargs] at h
    | cons x t =>
      cases x with
      | nil => simpa [argsClears, hargs] using h
      | cons _ _ => simp [argsClears, hargs] at h
  · refine .inr ?_
    split at h
    · rename_i hl
      simp only [hl, ↓reduceIte]
      unfold deviceClears at h
      simp only [List.mem_map, List.mem_filter] at h
      obtain ⟨d, ⟨_, hd⟩, rfl⟩ := h
      exact List.mem_map.2 ⟨d.path, by simpa using hd, rfl⟩
    · cases h

/-! ### update1 / updateAll -/

theorem getUpdate_owners (q st st1 p u) (h : getUpdate q st p u = .ok st1) :
    st1.owners = st.owners ∧ st1.kind = st.kind := by
  unfold getUpdate at h
  have hgo : ∀ st1, getUpdate.go q st u = .ok st1 → st1.owners = st.owners ∧ st1.kind = st.kind := by
    intro st1 hg
    unfold getUpdate.go at hg
    split at hg
    · split at hg <;> (cases hg; exact ⟨rfl, rfl⟩)
    · split at hg <;> (cases hg; exact ⟨rfl, rfl⟩)
  split at h
  · split at h
    · cases h
    · exact hgo _ h
  · exact hgo _ h

theorem setEntryRes_kind (st id res) : (setEntryRes st id res).kind = st.kind := by
  unfold setEntryRes; split <;> rfl

theorem updData_kind (q st u) : (updData q st u).kind = st.kind := by
  unfold updData; split
  · rfl
  · exact setEntryRes_kind _ _ _

theorem updSets_fixed (st : State) (u : Update) : updSets Quirks.fixed st u = setsUpd u := by
  unfold updSets setsUpd resItems resSets updPids
  cases u.resources <;> simp [Quirks.fixed]

/-- the three ways `update1` can end -/
theorem update1_cases (q st p u) :
    (∃ e, getUpdate q st p u = .error e ∧ update1 q st p u = .error e) ∨
    (∃ st1, getUpdate q st p u = .ok st1 ∧
       ((∃ o, claimAllPartial u.containerId p st1.owners (updSets q st1 u) = (o, none) ∧
              update1 q st p u = .ok { updData q st1 u with owners := o }) ∨
        (∃ o e, claimAllPartial u.containerId p st1.owners (updSets q st1 u) = (o, some e) ∧
              ((u.ignoreFailure = true ∧ update1 q st p u = .ok { st1 with owners := o }) ∨
               (u.ignoreFailure = false ∧ update1 q st p u = .error e))))) := by
  unfold update1
  cases hg : getUpdate q st p u with
  | error e => exact .inl ⟨e, rfl, rfl⟩
  | ok st1 =>
    refine .inr ⟨st1, rfl, ?_⟩
    simp only []
    cases hc : claimAllPartial u.containerId p st1.owners (updSets q st1 u) with
    | mk o r =>
      cases r with
      | none => exact .inl ⟨o, rfl, rfl⟩
      | some e =>
        refine .inr ⟨o, e, rfl, ?_⟩
        cases hi : u.ignoreFailure with
        | true => exact .inl ⟨rfl, by simp⟩
        | false => exact .inr ⟨rfl, by simp⟩

theorem update1_kind (q st st' p u) (h : update1 q st p u = .ok st') : st'.kind = st.kind := by
  rcases update1_cases q st p u with ⟨e, _, he⟩ | ⟨st1, hg, h2⟩
  · rw [he] at h; cases h
  · have hk := (getUpdate_owners q st st1 p u hg).2
    rcases h2 with ⟨o, _, ho⟩ | ⟨o, e, _, (⟨_, ho⟩ | ⟨_, ho⟩)⟩
    · rw [ho] at h; cases h; simpa [updData_kind] using hk
    · rw [ho] at h; cases h; exact hk
    · rw [ho] at h; cases h

/-- (B) for `update1`: updates never clear anything -/
theorem update1_keeps (q st st' p u) (h : update1 q st p u = .ok st') (c' : Cid) (it : Item) (w : Plugin)
    (ho : st.owners.owner c' it = some w) : st'.owners.owner c' it = some w := by
  rcases update1_cases q st p u with ⟨e, _, he⟩ | ⟨st1, hg, h2⟩
  · rw [he] at h; cases h
  · have hown := (getUpdate_owners q st st1 p u hg).1
    rcases h2 with ⟨o, hc, hu⟩ | ⟨o, e, hc, (⟨_, hu⟩ | ⟨_, hu⟩)⟩
    · rw [hu] at h; cases h
      have := claimAllPartial_keeps u.containerId p st1.owners (updSets q st1 u) c' it w (by rw [hown]; exact ho)
      rw [hc] at this; exact this
    · rw [hu] at h; cases h
      have := claimAllPartial_keeps u.containerId p st1.owners (updSets q st1 u) c' it w (by rw [hown]; exact ho)
      rw [hc] at this; exact this
    · rw [hu] at h; cases h

/-- (A) for `update1` -/
theorem update1_owns (st st' p u) (h : update1 Quirks.fixed st p u = .ok st') (hni : u.ignoreFailure = false)
    (it : Item) (hm : it ∈ setsUpd u) : st'.owners.owner u.containerId it = some p := by
  rcases update1_cases Quirks.fixed st p u with ⟨e, _, he⟩ | ⟨st1, hg, h2⟩
  · rw [he] at h; cases h
  · rcases h2 with ⟨o, hc, hu⟩ | ⟨o, e, hc, (⟨hi, _⟩ | ⟨_, hu⟩)⟩
    · rw [hu] at h; cases h
      have hc' := (claimAllPartial_none_iff _ _ _ _ _).1 hc
      rw [updSets_fixed] at hc'
      exact claimAll_owns _ _ _ _ _ hc' it hm
    · rw [hni] at hi; cases hi
    · rw [hu] at h; cases h

/-- (C) for `update1` -/
theorem update1_fails_of_owned (st p u) (hni : u.ignoreFailure = false) (it : Item) (w : Plugin)
    (ho : st.owners.owner u.containerId it = some w) (hm : it ∈ setsUpd u) :
    ∃ e, update1 Quirks.fixed st p u = .error e := by
  rcases update1_cases Quirks.fixed st p u with ⟨e, _, he⟩ | ⟨st1, hg, h2⟩
  · exact ⟨e, he⟩
  · have hown := (getUpdate_owners _ st st1 p u hg).1
    obtain ⟨e, he⟩ := claimAll_fails_of_owned u.containerId p st1.owners (setsUpd u) it w (by rw [hown]; exact ho) hm
    rw [← updSets_fixed st1 u] at he
    have hp := (claimAllPartial_some_iff _ _ _ _ _).2 he
    rcases h2 with ⟨o, hc, _⟩ | ⟨o, e', hc, (⟨hi, _⟩ | ⟨_, hu⟩)⟩
    · rw [hc] at hp; cases hp
    · rw [hni] at hi; cases hi
    · exact ⟨e', hu⟩

theorem updateAll_kind (q st st' p us) (h : updateAll q st p us = .ok st') : st'.kind = st.kind := by
  induction us generalizing st with
  | nil => simp [updateAll] at h; subst h; rfl
  | cons u rest ih =>
    simp only [updateAll] at h
    cases h1 : update1 q st p u with
    | error e => rw [h1] at h; cases h
    | ok st1 => rw [h1] at h; rw [ih _ h]; exact update1_kind q st st1 p u h1

theorem updateAll_keeps (q st st' p us) (h : updateAll q st p us = .ok st') (c' : Cid) (it : Item) (w : Plugin)
    (ho : st.owners.owner c' it = some w) : st'.owners.owner c' it = some w := by
  induction us generalizing st with
  | nil => simp [updateAll] at h; subst h; exact ho
  | cons u rest ih =>
    simp only [updateAll] at h
    cases h1 : update1 q st p u with
    | error e => rw [h1] at h; cases h
    | ok st1 => rw [h1] at h; exact ih _ h (update1_keeps q st st1 p u h1 c' it w ho)

theorem updateAll_owns (st st' p us) (h : updateAll Quirks.fixed st p us = .ok st') (u : Update) (hu : u ∈ us)
    (hni : u.ignoreFailure = false) (it : Item) (hm : it ∈ setsUpd u) :
    st'.owners.owner u.containerId it = some p := by
  induction us generalizing st with
  | nil => cases hu
  | cons x rest ih =>
    simp only [updateAll] at h
    cases h1 : update1 Quirks.fixed st p x with
    | error e => rw [h1] at h; cases h
    | ok st1 =>
      rw [h1] at h
      cases hu with
      | head => exact updateAll_keeps _ st1 st' p rest h _ it p (update1_owns st st1 p u h1 hni it hm)
      | tail _ hu' => exact ih _ h hu'

theorem updateAll_fails_of_owned (st p us) (u : Update) (hu : u ∈ us) (hni : u.ignoreFailure = false)
    (it : Item) (w : Plugin) (ho : st.owners.owner u.containerId it = some w) (hm : it ∈ setsUpd u) :
    ∃ e, updateAll Quirks.fixed st p us = .error e := by
  induction us generalizing st with
  | nil => cases hu
  | cons x rest ih =>
    simp only [updateAll]
    cases h1 : update1 Quirks.fixed st p x with
    | error e => exact ⟨e, rfl⟩
    | ok st1 =>
      cases hu with
      | head => obtain ⟨e, he⟩ := update1_fails_of_owned st p u hni it w ho hm; rw [he] at h1; cases h1
      | tail _ hu' => exact ih _ hu' (update1_keeps _ st st1 p x h1 _ it w ho)

/-! ### apply -/

theorem apply_kind (q st st' p r) (h : apply q st p r = .ok st') : st'.kind = st.kind := by
  unfold apply at h
  split at h
  · cases h1 : adjust q st p r.adjust with
    | error e => rw [h1] at h; cases h
    | ok st1 =>
      rw [h1] at h
      rw [updateAll_kind q st1 st' p r.updates h]; exact adjust_kind q st st1 p r.adjust h1
  · exact updateAll_kind q st st' p r.updates h

theorem mem_setsOn_iff (strict : Bool) (k : Kind) (r : Response) (c : Cid) (it : Item) :
    it ∈ setsOn strict k r c ↔
      (∃ a, r.adjust = some a ∧ k = .create c ∧ it ∈ adjustSets a) ∨
      (∃ u ∈ r.updates, u.containerId = c ∧ (strict = true → u.ignoreFailure = false) ∧ it ∈ setsUpd u) := by
  unfold setsOn
  simp only [List.mem_append, List.mem_flatMap, List.mem_filter]
  have hadj : (it ∈ (match k, r.adjust with
      | .create id, some a => if id = c then setsAdj a else []
      | _, _ => [])) ↔ (∃ a, r.adjust = some a ∧ k = .create c ∧ it ∈ adjustSets a) := by
    cases k with
    | create id =>
      cases hra : r.adjust with
      | none => simp
      | some a =>
        by_cases hid : id = c
        · subst hid; simp [setsAdj]
        · simp [hid]
    | update id => simp
    | stop => simp
  have hupd : (∃ u, (u ∈ r.updates ∧ (decide (u.containerId = c) && !(strict && u.ignoreFailure)) = true) ∧ it ∈ setsUpd u) ↔
      (∃ u ∈ r.updates, u.containerId = c ∧ (strict = true → u.ignoreFailure = false) ∧ it ∈ setsUpd u) := by
    constructor
    · rintro ⟨u, ⟨hu, hf⟩, hm⟩
      refine ⟨u, hu, ?_, ?_, hm⟩
      · simp at hf; exact hf.1
      · intro hs; subst hs; simp at hf; exact hf.2
    · rintro ⟨u, hu, hc, hs, hm⟩
      refine ⟨u, ⟨hu, ?_⟩, hm⟩
      cases strict with
      | false => simp [hc]
      | true => simp [hc, hs rfl]
  exact ⟨fun h => h.elim (fun h => .inl (hadj.1 h)) (fun h => .inr (hupd.1 h)),
         fun h => h.elim (fun h => .inl (hadj.2 h)) (fun h => .inr (hupd.2 h))⟩

theorem mem_removesOn_iff (k : Kind) (r : Response) (c : Cid) (it : Item) :
    it ∈ removesOn k r c ↔ ∃ a, r.adjust = some a ∧ k = .create c ∧ it ∈ removesAdj a := by
  unfold removesOn
  cases k with
  | create id =>
    cases hra : r.adjust with
    | none => simp
    | some a =>
      by_cases hid : id = c
      · subst hid; simp
      · simp [hid]
  | update id => simp
  | stop => simp

/-- (A) for a whole response: whatever it (strictly) sets on `c` is owned afterwards -/
theorem apply_owns (st st' p r) (h : apply Quirks.fixed st p r = .ok st') (c : Cid) (it : Item)
    (hm : it ∈ setsOn true st.kind r c) : ∃ w, st'.owners.owner c it = some w := by
  rcases (mem_setsOn_iff true st.kind r c it).1 hm with ⟨a, ha, hk, hs⟩ | ⟨u, hu, hc, hni, hs⟩
  · unfold apply at h
    rw [hk] at h
    simp only [ha] at h
    cases h1 : adjust Quirks.fixed st p (some a) with
    | error e => rw [h1] at h; cases h
    | ok st1 =>
      rw [h1] at h
      have := adjust_owns _ st st1 p a h1 it hs
      rw [hk] at this
      exact ⟨p, updateAll_keeps _ st1 st' p r.updates h c it p this⟩
  · have hfin : ∀ s, updateAll Quirks.fixed s p r.updates = .ok st' → ∃ w, st'.owners.owner c it = some w := by
      intro s hs'
      exact ⟨p, hc ▸ updateAll_owns s st' p r.updates hs' u hu (hni rfl) it hs⟩
    unfold apply at h
    split at h
    · cases h1 : adjust Quirks.fixed st p r.adjust with
      | error e => rw [h1] at h; cases h
      | ok st1 => rw [h1] at h; exact hfin _ h
    · exact hfin _ h

/-- (B) for a whole response -/
theorem apply_keeps (st st' p r) (h : apply Quirks.fixed st p r = .ok st') (c : Cid) (it : Item) (w : Plugin)
    (ho : st.owners.owner c it = some w) (hnr : it ∉ removesOn st.kind r c) :
    st'.owners.owner c it = some w := by
  unfold apply at h
  split at h
  · rename_i id hk
    cases h1 : adjust Quirks.fixed st p r.adjust with
    | error e => rw [h1] at h; cases h
    | ok st1 =>
      rw [h1] at h
      apply updateAll_keeps _ st1 st' p r.updates h
      apply adjust_keeps _ st st1 p r.adjust h1 c it w ho
      intro a' ha' hc hcl
      apply hnr
      rw [mem_removesOn_iff]
      refine ⟨a', ha', ?_, adjustClears_subset_removes st a' it hcl⟩
      rw [hk] at hc; rw [hk, hc]; rfl
  · exact updateAll_keeps _ st st' p r.updates h c it w ho

/-- (C) for a whole response -/
theorem apply_fails_of_owned (st p r) (c : Cid) (it : Item) (w : Plugin)
    (ho : st.owners.owner c it = some w) (hm : it ∈ setsOn true st.kind r c)
    (hnr : it ∉ removesOn st.kind r c) : ∃ e, apply Quirks.fixed st p r = .error e := by
  rcases (mem_setsOn_iff true st.kind r c it).1 hm with ⟨a, ha, hk, hs⟩ | ⟨u, hu, hc, hni, hs⟩
  · have hncl : it ∉ adjustClears Quirks.fixed st a := by
      intro hcl
      exact hnr ((mem_removesOn_iff _ _ _ _).2 ⟨a, ha, hk, adjustClears_subset_removes st a it hcl⟩)
    have hcid : cidOf st.kind = c := by rw [hk]; rfl
    obtain ⟨e, he⟩ := adjust_fails_of_owned Quirks.fixed st p a it w (by rw [hcid]; exact ho) hs hncl
    refine ⟨e, ?_⟩
    unfold apply
    rw [hk]
    simp only [ha, he]
  · subst hc
    unfold apply
    split
    · cases h1 : adjust Quirks.fixed st p r.adjust with
      | error e => exact ⟨e, rfl⟩
      | ok st1 =>
        simp only []
        apply updateAll_fails_of_owned st1 p r.updates u hu (hni rfl) it w _ hs
        apply adjust_keeps _ st st1 p r.adjust h1 _ it w ho
        intro a' ha' hc hcl
        apply hnr
        rw [mem_removesOn_iff]
        rename_i id hk
        refine ⟨a', ha', ?_, adjustClears_subset_removes st a' it hcl⟩
        rw [hk] at hc; rw [hk, hc]; rfl
    · exact updateAll_fails_of_owned st p r.updates u hu (hni rfl) it w ho hs

/-! ### run -/

theorem run_append (q : Quirks) (st : State) (xs ys : List (Plugin × Option Response)) :
    run q st (xs ++ ys) = (match run q st xs with | .ok st' => run q st' ys | .error e => .error e) := by
  induction xs generalizing st with
  | nil => rfl
  | cons x rest ih =>
    obtain ⟨p, r⟩ := x
    cases r with
    | none => simp only [List.cons_append, run]; exact ih st
    | some r =>
      simp only [List.cons_append, run]
      cases apply q st p r with
      | error e => rfl
      | ok st' => exact ih st'

theorem run_kind (q st st' rs) (h : run q st rs = .ok st') : st'.kind = st.kind := by
  induction rs generalizing st with
  | nil => simp [run] at h; subst h; rfl
  | cons x rest ih =>
    obtain ⟨p, r⟩ := x
    cases r with
    | none => simp only [run] at h; exact ih _ h
    | some r =>
      simp only [run] at h
      cases h1 : apply q st p r with
      | error e => rw [h1] at h; cases h
      | ok st1 => rw [h1] at h; rw [ih _ h]; exact apply_kind q st st1 p r h1

/-- owners survive a stretch of plugins none of which marks the item for removal -/
theorem run_keeps (st st' : State) (rs : List (Plugin × Option Response))
    (h : run Quirks.fixed st rs = .ok st') (c : Cid) (it : Item) (w : Plugin)
    (ho : st.owners.owner c it = some w)
    (hnr : ∀ p r, (p, some r) ∈ rs → it ∉ removesOn st.kind r c) :
    st'.owners.owner c it = some w := by
  induction rs generalizing st with
  | nil => simp [run] at h; subst h; exact ho
  | cons x rest ih =>
    obtain ⟨p, r⟩ := x
    cases r with
    | none =>
      simp only [run] at h
      exact ih _ h ho (fun p r hm => hnr p r (List.mem_cons_of_mem _ hm))
    | some r =>
      simp only [run] at h
      cases h1 : apply Quirks.fixed st p r with
      | error e => rw [h1] at h; cases h
      | ok st1 =>
        rw [h1] at h
        have hk := apply_kind _ st st1 p r h1
        apply ih _ h (apply_keeps st st1 p r h1 c it w ho (hnr p r List.mem_cons_self))
        intro p' r' hm
        rw [hk]; exact hnr p' r' (List.mem_cons_of_mem _ hm)

end Nri.Result

namespace Nri.Result
open Nri.NApi Nri.Ledger

/-- splitting a list at an index that holds `x` -/
theorem split_at_getElem? {α : Type} (l : List α) (i : Nat) (x : α) (h : l[i]? = some x) :
    ∃ pre post, l = pre ++ x :: post ∧ pre.length = i := by
  induction l generalizing i with
  | nil => simp at h
  | cons y rest ih =>
    cases i with
    | zero => simp at h; subst h; exact ⟨[], rest, rfl, rfl⟩
    | succ n =>
      simp at h
      obtain ⟨pre, post, hl, hlen⟩ := ih n h
      exact ⟨y :: pre, post, by rw [hl]; rfl, by simp [hlen]⟩

theorem getElem?_append_cons_length {α : Type} (pre post : List α) (x : α) (n : Nat) :
    (pre ++ x :: post)[pre.length + 1 + n]? = post[n]? := by
  rw [List.getElem?_append_right (by omega)]
  have : pre.length + 1 + n - pre.length = n + 1 := by omega
  rw [this]; simp

end Nri.Result

namespace Nri.Result
open Nri.NApi Nri.Ledger

/-! ### where owners and conflicts come from -/

/-- an owner present after `adjust` was there before or is the adjusting plugin, for an item
    the adjustment sets -/
theorem adjust_owner_inv (q st st' p a) (h : adjust q st p a = .ok st') (c : Cid) (it : Item) (w : Plugin)
    (ho : st'.owners.owner c it = some w) :
    st.owners.owner c it = some w ∨ (∃ a', a = some a' ∧ c = cidOf st.kind ∧ it ∈ adjustSets a' ∧ w = p) := by
  cases a with
  | none => simp [adjust] at h; subst h; exact .inl ho
  | some a =>
    obtain ⟨o, hc, rfl⟩ := (adjust_ok_iff q st st' p a).1 h
    rcases claimAll_owner_inv _ _ _ _ _ hc c it w ho with h1 | ⟨hcid, hm, hw⟩
    · exact .inl (owner_clearAll_some _ _ _ _ _ _ h1)
    · exact .inr ⟨a, rfl, hcid, hm, hw⟩

theorem adjust_error_inv (q st p a e) (h : adjust q st p a = .error e) :
    ∃ a' it w, a = some a' ∧ it ∈ adjustSets a' ∧ e = .conflict (cidOf st.kind) it p w ∧
      (st.owners.owner (cidOf st.kind) it = some w ∨ w = p) := by
  cases a with
  | none => simp [adjust] at h
  | some a =>
    unfold adjust at h
    simp only [] at h
    cases hc : claimAll (cidOf st.kind) p (clearAll st.owners (cidOf st.kind) (adjustClears q st a)) (adjustSets a) with
    | ok o => rw [hc] at h; cases h
    | error e' =>
      rw [hc] at h; cases h
      obtain ⟨it, w, hm, he, hw⟩ := claimAll_error_inv _ _ _ _ _ hc
      refine ⟨a, it, w, rfl, hm, he, ?_⟩
      rcases hw with h1 | ⟨h2, _⟩
      · exact .inl (owner_clearAll_some _ _ _ _ _ _ h1)
      · exact .inr h2

theorem update1_owner_inv (st st' p u) (h : update1 Quirks.fixed st p u = .ok st') (c : Cid) (it : Item) (w : Plugin)
    (ho : st'.owners.owner c it = some w) :
    st.owners.owner c it = some w ∨ (c = u.containerId ∧ it ∈ setsUpd u ∧ w = p) := by
  rcases update1_cases Quirks.fixed st p u with ⟨e, _, he⟩ | ⟨st1, hg, h2⟩
  · rw [he] at h; cases h
  · have hown := (getUpdate_owners _ st st1 p u hg).1
    have key : ∀ o r, claimAllPartial u.containerId p st1.owners (updSets Quirks.fixed st1 u) = (o, r) →
        o.owner c it = some w → st.owners.owner c it = some w ∨ (c = u.containerId ∧ it ∈ setsUpd u ∧ w = p) := by
      intro o r hc hoo
      have := claimAllPartial_owner_inv u.containerId p st1.owners (updSets Quirks.fixed st1 u) c it w (by rw [hc]; exact hoo)
      rw [updSets_fixed, hown] at this
      exact this
    rcases h2 with ⟨o, hc, hu⟩ | ⟨o, e, hc, (⟨_, hu⟩ | ⟨_, hu⟩)⟩
    · rw [hu] at h; cases h; exact key o none hc ho
    · rw [hu] at h; cases h; exact key o (some e) hc ho
    · rw [hu] at h; cases h

theorem update1_error_inv (st p u e) (h : update1 Quirks.fixed st p u = .error e) :
    (∃ id, st.kind = .create id ∧ id = u.containerId ∧ e = .selfUpdate p id) ∨
    (∃ it w, it ∈ setsUpd u ∧ u.ignoreFailure = false ∧ e = .conflict u.containerId it p w ∧
       (st.owners.owner u.containerId it = some w ∨ w = p)) := by
  rcases update1_cases Quirks.fixed st p u with ⟨e', hg, he⟩ | ⟨st1, hg, h2⟩
  · rw [he] at h; cases h
    left
    unfold getUpdate at hg
    have hgo : ∀ e, getUpdate.go Quirks.fixed st u ≠ .error e := by
      intro e hgo
      unfold getUpdate.go at hgo
      split at hgo
      · split at hgo <;> cases hgo
      · split at hgo <;> cases hgo
    split at hg
    · rename_i id hk
      split at hg
      · rename_i hid; cases hg; exact ⟨id, hk, hid, rfl⟩
      · exact absurd hg (hgo _)
    · exact absurd hg (hgo _)
  · have hown := (getUpdate_owners _ st st1 p u hg).1
    rcases h2 with ⟨o, _, hu⟩ | ⟨o, e', hc, (⟨_, hu⟩ | ⟨hi, hu⟩)⟩
    · rw [hu] at h; cases h
    · rw [hu] at h; cases h
    · rw [hu] at h; cases h
      right
      have hce := (claimAllPartial_some_iff u.containerId p st1.owners (updSets Quirks.fixed st1 u) e).1 (by rw [hc])
      rw [updSets_fixed] at hce
      obtain ⟨it, w, hm, he, hw⟩ := claimAll_error_inv _ _ _ _ _ hce
      refine ⟨it, w, hm, hi, he, ?_⟩
      rcases hw with h1 | ⟨h2, _⟩
      · rw [hown] at h1; exact .inl h1
      · exact .inr h2

theorem updateAll_owner_inv (st st' p us) (h : updateAll Quirks.fixed st p us = .ok st') (c : Cid) (it : Item) (w : Plugin)
    (ho : st'.owners.owner c it = some w) :
    st.owners.owner c it = some w ∨ (∃ u ∈ us, c = u.containerId ∧ it ∈ setsUpd u ∧ w = p) := by
  induction us generalizing st with
  | nil => simp [updateAll] at h; subst h; exact .inl ho
  | cons x rest ih =>
    simp only [updateAll] at h
    cases h1 : update1 Quirks.fixed st p x with
    | error e => rw [h1] at h; cases h
    | ok st1 =>
      rw [h1] at h
      rcases ih _ h with h2 | ⟨u, hu, hr⟩
      · rcases update1_owner_inv st st1 p x h1 c it w h2 with h3 | h3
        · exact .inl h3
        · exact .inr ⟨x, List.mem_cons_self, h3⟩
      · exact .inr ⟨u, List.mem_cons_of_mem _ hu, hr⟩

theorem updateAll_error_inv (st p us e) (h : updateAll Quirks.fixed st p us = .error e) :
    (∃ id c, st.kind = .create id ∧ e = .selfUpdate p c) ∨
    (∃ u ∈ us, ∃ it w, it ∈ setsUpd u ∧ e = .conflict u.containerId it p w ∧
       (st.owners.owner u.containerId it = some w ∨ w = p)) := by
  induction us generalizing st with
  | nil => simp [updateAll] at h
  | cons x rest ih =>
    simp only [updateAll] at h
    cases h1 : update1 Quirks.fixed st p x with
    | error e' =>
      rw [h1] at h; cases h
      rcases update1_error_inv st p x e h1 with ⟨id, hk, _, he⟩ | ⟨it, w, hm, _, he, hw⟩
      · exact .inl ⟨id, id, hk, he⟩
      · exact .inr ⟨x, List.mem_cons_self, it, w, hm, he, hw⟩
    | ok st1 =>
      rw [h1] at h
      have hk := update1_kind _ st st1 p x h1
      rcases ih _ h with ⟨id, c, hk', he⟩ | ⟨u, hu, it, w, hm, he, hw⟩
      · exact .inl ⟨id, c, by rw [← hk]; exact hk', he⟩
      · refine .inr ⟨u, List.mem_cons_of_mem _ hu, it, w, hm, he, ?_⟩
        rcases hw with h2 | h2
        · rcases update1_owner_inv st st1 p x h1 _ it w h2 with h3 | ⟨_, _, h3⟩
          · exact .inl h3
          · exact .inr h3
        · exact .inr h2

/-- owners after a whole response: there before, or the responding plugin for an item its
    response sets -/
theorem apply_owner_inv (st st' p r) (h : apply Quirks.fixed st p r = .ok st') (c : Cid) (it : Item) (w : Plugin)
    (ho : st'.owners.owner c it = some w) :
    st.owners.owner c it = some w ∨ (w = p ∧ it ∈ setsOn false st.kind r c) := by
  have fromUpd : ∀ u ∈ r.updates, c = u.containerId → it ∈ setsUpd u → it ∈ setsOn false st.kind r c := by
    intro u hu hc hm
    exact (mem_setsOn_iff false st.kind r c it).2 (.inr ⟨u, hu, hc.symm, by simp, hm⟩)
  unfold apply at h
  split at h
  · rename_i id hk
    cases h1 : adjust Quirks.fixed st p r.adjust with
    | error e => rw [h1] at h; cases h
    | ok st1 =>
      rw [h1] at h
      rcases updateAll_owner_inv st1 st' p r.updates h c it w ho with h2 | ⟨u, hu, hc, hm, hw⟩
      · rcases adjust_owner_inv _ st st1 p r.adjust h1 c it w h2 with h3 | ⟨a', ha, hc, hm, hw⟩
        · exact .inl h3
        · refine .inr ⟨hw, (mem_setsOn_iff false st.kind r c it).2 (.inl ⟨a', ha, ?_, hm⟩)⟩
          rw [hk] at hc ⊢; rw [hc]; rfl
      · exact .inr ⟨hw, fromUpd u hu hc hm⟩
  · rcases updateAll_owner_inv st st' p r.updates h c it w ho with h2 | ⟨u, hu, hc, hm, hw⟩
    · exact .inl h2
    · exact .inr ⟨hw, fromUpd u hu hc hm⟩

/-- a conflict raised while a response is processed names the responding plugin, an item its
    response sets, and an owner that was there before or is the plugin itself -/
theorem apply_conflict_inv (st p r c it p' w) (h : apply Quirks.fixed st p r = .error (.conflict c it p' w)) :
    p' = p ∧ it ∈ setsOn false st.kind r c ∧ (st.owners.owner c it = some w ∨ w = p) := by
  have fromUpd : ∀ u ∈ r.updates, c = u.containerId → it ∈ setsUpd u → it ∈ setsOn false st.kind r c := by
    intro u hu hc hm
    exact (mem_setsOn_iff false st.kind r c it).2 (.inr ⟨u, hu, hc.symm, by simp, hm⟩)
  unfold apply at h
  split at h
  · rename_i id hk
    cases h1 : adjust Quirks.fixed st p r.adjust with
    | error e =>
      rw [h1] at h; cases h
      obtain ⟨a', it', w', ha, hm, he, hw⟩ := adjust_error_inv _ st p r.adjust _ h1
      cases he
      refine ⟨rfl, (mem_setsOn_iff false st.kind r _ it).2 (.inl ⟨a', ha, ?_, hm⟩), hw⟩
      rw [hk]; rfl
    | ok st1 =>
      rw [h1] at h
      rcases updateAll_error_inv st1 p r.updates _ h with ⟨_, _, _, he⟩ | ⟨u, hu, it', w', hm, he, hw⟩
      · cases he
      · cases he
        refine ⟨rfl, fromUpd u hu rfl hm, ?_⟩
        rcases hw with h2 | h2
        · rcases adjust_owner_inv _ st st1 p r.adjust h1 _ it w h2 with h3 | ⟨_, _, _, _, h3⟩
          · exact .inl h3
          · exact .inr h3
        · exact .inr h2
  · rcases updateAll_error_inv st p r.updates _ h with ⟨_, _, _, he⟩ | ⟨u, hu, it', w', hm, he, hw⟩
    · cases he
    · cases he; exact ⟨rfl, fromUpd u hu rfl hm, hw⟩

end Nri.Result
