/-
Lemmas about whole histories of the interleaving model: the per-plugin handler logs are
projections of one sequence of relays; a dropped plugin never comes back.
-/
import NriModel.Lemmas.DispatchLock

namespace Nri.Dispatch
open Nri.Events

variable {ρ σ ο ε : Type}

/-- the relay an event performs in state `s`, if it is an enabled `run` -/
def relayOf (Mof : Nat → EventNo → Merger ρ σ ο ε) (T : Nat) (s : LState ρ ο ε) : Ev ρ → Option (Done ρ ο ε)
  | .run t calls =>
    match pcOf s.pcs t with
    | .waiting rid ev =>
      if calls.length = s.plugins.length then
        some ⟨t, rid, ev, s.plugins, calls, (request (Mof rid ev) T ev (s.plugins.zip calls)).2.1,
              (request (Mof rid ev) T ev (s.plugins.zip calls)).1⟩
      else none
    | _ => none
  | _ => none

/-- did the handler of the plugin with identity `id` run in this relay -/
def ranAt (id : Nat) (d : Done ρ ο ε) : Bool := d.trace.handled.any (·.id == id)

/-- What the plugin with identity `id` itself records while the history unfolds: the request
    ids its handler is invoked with, in the order of invocation. -/
def handlerLog (Mof : Nat → EventNo → Merger ρ σ ο ε) (T : Nat) (id : Nat) :
    LState ρ ο ε → List (Ev ρ) → List Nat
  | _, [] => []
  | s, e :: rest =>
    match step? Mof T s e with
    | none => []
    | some s' =>
      (match relayOf Mof T s e with
       | some d => if ranAt id d then [d.rid] else []
       | none => []) ++ handlerLog Mof T id s' rest

theorem step_log (Mof : Nat → EventNo → Merger ρ σ ο ε) (T : Nat) (s s' : LState ρ ο ε) (e : Ev ρ)
    (h : step? Mof T s e = some s') : s'.log = (relayOf Mof T s e).toList ++ s.log := by
  cases e with
  | inv t rid ev =>
    simp only [step?] at h
    split at h
    · simp only [Option.some.injEq] at h; subst h; simp [relayOf]
    · cases h
  | run t calls =>
    simp only [step?] at h
    simp only [relayOf]
    split at h
    · rename_i rid ev hpc
      split at h
      · rename_i hl
        simp only [Option.some.injEq] at h; subst h
        simp [hpc, hl, request]
      · cases h
    · cases h
  | ret t =>
    simp only [step?] at h
    split at h
    · simp only [Option.some.injEq] at h; subst h; simp [relayOf]
    · cases h
  | activate p arr =>
    simp only [step?] at h
    split at h
    · simp only [Option.some.injEq] at h; subst h; simp [relayOf]
    · cases h
  | disconnect id =>
    simp only [step?, Option.some.injEq] at h
    subst h; simp [relayOf]

/-- the relays of a history, oldest first, are ONE sequence of which every plugin's own log is
    the projection -/
theorem handlerLog_projection (Mof : Nat → EventNo → Merger ρ σ ο ε) (T : Nat) (h : List (Ev ρ)) :
    ∀ (s s' : LState ρ ο ε), run? Mof T s h = some s' →
      ∃ new : List (Done ρ ο ε), s'.log = new ++ s.log ∧
        ∀ id, handlerLog Mof T id s h = (new.reverse.filter (ranAt id)).map (·.rid) := by
  induction h with
  | nil =>
    intro s s' hr
    simp only [run?, Option.some.injEq] at hr
    subst hr
    exact ⟨[], by simp, by intro id; simp [handlerLog]⟩
  | cons e rest ih =>
    intro s s' hr
    simp only [run?] at hr
    split at hr
    · cases hr
    · rename_i s1 hs1
      obtain ⟨new1, hlog, hproj⟩ := ih s1 s' hr
      have hl := step_log Mof T s s1 e hs1
      refine ⟨new1 ++ (relayOf Mof T s e).toList, by rw [hlog, hl]; simp, ?_⟩
      intro id
      simp only [handlerLog, hs1, hproj id]
      cases hro : relayOf Mof T s e with
      | none => simp
      | some d =>
        simp only [Option.toList, List.reverse_append, List.reverse_cons, List.reverse_nil, List.nil_append,
          List.singleton_append, List.filter_cons]
        split <;> simp

/-! ### a dropped plugin never comes back -/

theorem request_ids_subset (M : Merger ρ σ ο ε) (T ev) (ps : List Plugin) (calls : List (Call ρ))
    (hl : calls.length = ps.length) :
    ∀ i ∈ (request M T ev (ps.zip calls)).2.2.map (·.id), i ∈ ps.map (·.id) := by
  intro i hi
  simp only [request] at hi
  have := prune_ids_subset _ _ hi
  rw [relay_after_id] at this
  have hz := zip_map_fst ps calls hl
  have : i ∈ ((ps.zip calls).map (·.1)).map (·.id) := by simpa [List.map_map, Function.comp_def] using this
  rwa [hz] at this

theorem request_attempted_ids (M : Merger ρ σ ο ε) (T ev) (ps : List Plugin) (calls : List (Call ρ))
    (hl : calls.length = ps.length) :
    ∀ q ∈ (request M T ev (ps.zip calls)).2.1.attempted, q.id ∈ ps.map (·.id) := by
  intro q hq
  simp only [request] at hq
  have := relay_attempted_mem _ T ev _ _ q hq
  rw [zip_map_fst ps calls hl] at this
  exact List.mem_map_of_mem this

theorem disconnect_ids (ps : List Plugin) (id : Nat) : (disconnect ps id).map (·.id) = ps.map (·.id) := by
  simp only [disconnect, List.map_map]
  apply List.map_congr_left
  intro p _
  simp only [Function.comp]
  split <;> rfl

/-- Once the plugin with identity `id` is out of the list it stays out, and no later relay calls
    it — unless a NEW registration brings the same identity in (a new `*plugin` object never has
    the identity of an old one). -/
theorem gone_stays_gone (Mof : Nat → EventNo → Merger ρ σ ο ε) (T : Nat) (id : Nat) (h : List (Ev ρ)) :
    ∀ (s s' : LState ρ ο ε), run? Mof T s h = some s' →
      id ∉ s.plugins.map (·.id) →
      (∀ p arr, Ev.activate p arr ∈ h → p.id ≠ id) →
      id ∉ s'.plugins.map (·.id) ∧
      ∀ d ∈ s'.log, d ∈ s.log ∨ ∀ q ∈ d.trace.attempted, q.id ≠ id := by
  induction h with
  | nil =>
    intro s s' hr hid _
    simp only [run?, Option.some.injEq] at hr
    subst hr
    exact ⟨hid, fun d hd => Or.inl hd⟩
  | cons e rest ih =>
    intro s s' hr hid hact
    simp only [run?] at hr
    split at hr
    · cases hr
    · rename_i s1 hs1
      have hact' : ∀ p arr, Ev.activate p arr ∈ rest → p.id ≠ id :=
        fun p arr hm => hact p arr (List.mem_cons_of_mem _ hm)
      -- one step keeps the identity out, and a relay made now does not call it
      have hstep : id ∉ s1.plugins.map (·.id) ∧
          ∀ d ∈ s1.log, d ∈ s.log ∨ ∀ q ∈ d.trace.attempted, q.id ≠ id := by
        cases e with
        | inv t rid ev =>
          simp only [step?] at hs1
          split at hs1
          · simp only [Option.some.injEq] at hs1; subst hs1
            exact ⟨hid, fun d hd => Or.inl hd⟩
          · cases hs1
        | run t calls =>
          simp only [step?] at hs1
          split at hs1
          · rename_i rid ev _
            split at hs1
            · rename_i hl
              simp only [Option.some.injEq] at hs1; subst hs1
              refine ⟨fun hmem => hid (request_ids_subset _ T ev s.plugins calls hl id hmem), ?_⟩
              intro d hd
              rcases List.mem_cons.1 hd with rfl | hd
              · right
                intro q hq he
                exact hid (he ▸ request_attempted_ids _ T ev s.plugins calls hl q hq)
              · exact Or.inl hd
            · cases hs1
          · cases hs1
        | ret t =>
          simp only [step?] at hs1
          split at hs1
          · simp only [Option.some.injEq] at hs1; subst hs1
            exact ⟨hid, fun d hd => Or.inl hd⟩
          · cases hs1
        | activate p arr =>
          simp only [step?] at hs1
          split at hs1
          · rename_i hac
            simp only [Option.some.injEq] at hs1; subst hs1
            refine ⟨?_, fun d hd => Or.inl hd⟩
            intro hmem
            obtain ⟨q, hq, hqi⟩ := List.mem_map.1 hmem
            have hperm := ((isActivation_iff _ _ _).1 hac).1
            have := hperm.subset hq
            rcases List.mem_append.1 this with hq' | hq'
            · exact hid (hqi ▸ List.mem_map_of_mem (List.mem_filter.1 hq').1)
            · simp only [List.mem_singleton] at hq'
              subst hq'
              exact hact q arr List.mem_cons_self hqi
          · cases hs1
        | disconnect i =>
          simp only [step?, Option.some.injEq] at hs1; subst hs1
          exact ⟨by rw [disconnect_ids]; exact hid, fun d hd => Or.inl hd⟩
      obtain ⟨h1, h2⟩ := ih s1 s' hr hstep.1 hact'
      refine ⟨h1, ?_⟩
      intro d hd
      rcases h2 d hd with hd1 | hq
      · exact hstep.2 d hd1
      · exact Or.inr hq

end Nri.Dispatch

namespace Nri.Dispatch
open Nri.Events
variable {ρ σ ο ε : Type}

/-- the log only grows, at the front -/
theorem run_log_grows (Mof : Nat → EventNo → Merger ρ σ ο ε) (T : Nat) (h : List (Ev ρ))
    (s s' : LState ρ ο ε) (hr : run? Mof T s h = some s') : ∃ new, s'.log = new ++ s.log := by
  obtain ⟨new, hl, _⟩ := handlerLog_projection Mof T h s s' hr
  exact ⟨new, hl⟩

theorem run_append (Mof : Nat → EventNo → Merger ρ σ ο ε) (T : Nat) (h1 h2 : List (Ev ρ))
    (s : LState ρ ο ε) :
    run? Mof T s (h1 ++ h2) = (run? Mof T s h1).bind fun s1 => run? Mof T s1 h2 := by
  induction h1 generalizing s with
  | nil => simp [run?]
  | cons e rest ih =>
    simp only [List.cons_append, run?]
    split
    · simp
    · exact ih _

/-- a relay recorded before a cut of the history stands, in the common order, before every
    relay made after the cut -/
theorem order_respects_cut (Mof : Nat → EventNo → Merger ρ σ ο ε) (T : Nat) (h2 : List (Ev ρ))
    (s1 s : LState ρ ο ε) (hr : run? Mof T s1 h2 = some s)
    (d d' : Done ρ ο ε) (hd : d ∈ s1.log) (hd' : d' ∈ s.log) (hnew : d' ∉ s1.log) :
    [d, d'].Sublist (order s) := by
  obtain ⟨new, hl⟩ := run_log_grows Mof T h2 s1 s hr
  have hin : d' ∈ new := by
    rw [hl] at hd'
    rcases List.mem_append.1 hd' with h | h
    · exact h
    · exact absurd h hnew
  simp only [order, hl, List.reverse_append]
  have h1 : [d].Sublist s1.log.reverse := List.singleton_sublist.2 (List.mem_reverse.2 hd)
  have h2' : [d'].Sublist new.reverse := List.singleton_sublist.2 (List.mem_reverse.2 hin)
  exact List.Sublist.append h1 h2'

/-! ### failing plugins might as well not be there -/

/-- the call of this entry fails fatally (and the plugin is subscribed) -/
def failsFatally (T : Nat) (ev : EventNo) (pc : Plugin × Call ρ) : Bool :=
  subscribed ev pc.1 && isFatal (effOut T pc.1 pc.2).1

theorem okResponses_filter_fatal (T ev) (pcs : List (Plugin × Call ρ)) :
    okResponses T ev (pcs.filter fun pc => !failsFatally T ev pc) = okResponses T ev pcs := by
  induction pcs with
  | nil => rfl
  | cons pc rest ih =>
    obtain ⟨p, c⟩ := pc
    rw [List.filter_cons]
    cases hs : subscribed ev p with
    | false =>
      have hf : failsFatally T ev (p, c) = false := by simp [failsFatally, hs]
      simp only [hf, Bool.not_false, if_true, okResponses, hs, Bool.false_eq_true, if_false]
      exact ih
    | true =>
      cases ho : (effOut T p c).1 with
      | fatal f =>
        have hf : failsFatally T ev (p, c) = true := by simp [failsFatally, hs, ho, isFatal]
        simp only [hf, Bool.not_true, Bool.false_eq_true, if_false, okResponses, hs, if_true, ho]
        exact ih
      | ok r =>
        have hf : failsFatally T ev (p, c) = false := by simp [failsFatally, hs, ho, isFatal]
        simp only [hf, Bool.not_false, if_true, okResponses, hs, ho]
        rw [ih]
      | handlerErr m =>
        have hf : failsFatally T ev (p, c) = false := by simp [failsFatally, hs, ho, isFatal]
        simp only [hf, Bool.not_false, if_true, okResponses, hs, ho]
        exact ih

theorem hasVeto_filter_fatal (T ev) (pcs : List (Plugin × Call ρ)) :
    hasVeto T ev (pcs.filter fun pc => !failsFatally T ev pc) = hasVeto T ev pcs := by
  induction pcs with
  | nil => rfl
  | cons pc rest ih =>
    obtain ⟨p, c⟩ := pc
    rw [List.filter_cons]
    cases hs : subscribed ev p with
    | false =>
      have hf : failsFatally T ev (p, c) = false := by simp [failsFatally, hs]
      simp only [hf, Bool.not_false, if_true, hasVeto_cons, hs, Bool.false_and, Bool.false_or]
      exact ih
    | true =>
      cases ho : (effOut T p c).1 with
      | fatal f =>
        have hf : failsFatally T ev (p, c) = true := by simp [failsFatally, hs, ho, isFatal]
        simp only [hf, Bool.not_true, Bool.false_eq_true, if_false, hasVeto_cons, hs, ho, isVeto,
          Bool.and_false, Bool.false_or]
        exact ih
      | ok r =>
        have hf : failsFatally T ev (p, c) = false := by simp [failsFatally, hs, ho, isFatal]
        simp only [hf, Bool.not_false, if_true, hasVeto_cons, hs, ho, isVeto, Bool.and_false, Bool.false_or]
        exact ih
      | handlerErr m =>
        have hf : failsFatally T ev (p, c) = false := by simp [failsFatally, hs, ho, isFatal]
        simp only [hf, Bool.not_false, if_true, hasVeto_cons, hs, ho, isVeto, Bool.and_true, Bool.true_or]

end Nri.Dispatch
