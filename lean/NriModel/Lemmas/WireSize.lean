/-
Size lemmas for the wire model (C12): the size computed without building the bytes is the
length of what the encoder writes — for every schema and every value (typed or not).
-/
import NriModel.Lemmas.WireDecode

namespace Nri.Wire

theorem encStrs_length (num : Nat) (l : List Bytes) : (encStrs num l).length = sizeStrs num l := by
  induction l with
  | nil => rfl
  | cons s r ih => simp [encStrs, sizeStrs, lenDelim_length, ih]

theorem encMap_length (num : Nat) (l : List (Bytes × Bytes)) : (encMap num l).length = sizeMap num l := by
  induction l with
  | nil => rfl
  | cons e r ih => simp [encMap, sizeMap, lenDelim_length, encEntry_length, ih]

mutual
theorem encField_length (S : Schema) (f : Field) : ∀ v, (encField S f v).length = sizeField S f v
  | .int i => by
    cases hty : f.ty <;> simp only [encField, sizeField, hty, List.length_nil]
    split <;> simp [tag, encodeVarint_length]
  | .str bs => by
    cases hty : f.ty <;> simp only [encField, sizeField, hty, List.length_nil]
    split <;> simp [lenDelim_length]
  | .none => by simp [encField, sizeField]
  | .msg fs => by
    cases hty : f.ty <;> simp only [encField, sizeField, hty, List.length_nil]
    rename_i m
    rw [lenDelim_length, encFields_length S (S.fieldsOf m) fs]
  | .strs l => by
    cases hty : f.ty <;> simp only [encField, sizeField, hty, List.length_nil]
    exact encStrs_length _ _
  | .list l => by
    cases hty : f.ty <;> simp only [encField, sizeField, hty, List.length_nil]
    rename_i m
    exact encRep_length S f.num m l
  | .smap l => by
    cases hty : f.ty <;> simp only [encField, sizeField, hty, List.length_nil]
    exact encMap_length _ _
theorem encFields_length (S : Schema) : ∀ (fs : List Field) (vs : List Val),
    (encFields S fs vs).length = sizeFields S fs vs
  | [], _ => by simp [encFields, sizeFields]
  | _ :: _, [] => by simp [encFields, sizeFields]
  | f :: fs, v :: vs => by
    simp only [encFields, sizeFields, List.length_append]
    rw [encField_length S f v, encFields_length S fs vs]
theorem encRep_length (S : Schema) (num m : Nat) : ∀ (l : List Val),
    (encRep S num m l).length = sizeRep S num m l
  | [] => by simp [encRep, sizeRep]
  | .msg fs :: vs => by
    simp only [encRep, sizeRep, List.length_append]
    rw [encRep_length S num m vs, lenDelim_length, encFields_length S (S.fieldsOf m) fs]
  | .none :: vs => by
    simp only [encRep, sizeRep, List.length_append]
    rw [encRep_length S num m vs, lenDelim_length]
    simp
  | .int _ :: vs | .str _ :: vs | .strs _ :: vs | .list _ :: vs | .smap _ :: vs => by
    simp only [encRep, sizeRep, List.length_append]
    rw [encRep_length S num m vs]
    simp
end

theorem encode_length (S : Schema) (m : Nat) (v : List Val) : (encode S m v).length = size S m v :=
  encFields_length S _ v

end Nri.Wire
