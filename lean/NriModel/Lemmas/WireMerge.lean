/-
Concatenation law of the wire model (C12): decoding the records of a value into a message
that already holds another value computes their merge — hence decoding the concatenation
of two encodings yields the merge of the two values (protobuf's documented behaviour, which
both Go decoders implement: `UnmarshalVT` never resets its receiver; `proto.Unmarshal` after
`Reset`).
-/
import NriModel.Lemmas.WireProps

namespace Nri.Wire

/-- a nested message value decodes, into any well-typed accumulator, to the merge -/
def RTM (S : Schema) (m : Nat) (fs : List Val) : Prop :=
  ∀ cur, wtFields S (S.fieldsOf m) cur = true →
  (encode S m fs).length < 2 ^ 64 →
  ∀ fuel, (encode S m fs).length ≤ fuel →
    decMsg S fuel m cur (encode S m fs) = some (mergeFields S (S.fieldsOf m) cur fs)

def NestedM (S : Schema) : FType → Val → Prop
  | .msg m, .msg fs => RTM S m fs
  | _, _ => True

def NestedMAll (S : Schema) : List Field → List Val → Prop
  | f :: fs, v :: vs => NestedM S f.ty v ∧ NestedMAll S fs vs
  | _, _ => True

theorem insertAll_cons (l : List (Bytes × Bytes)) (e : Bytes × Bytes) (es : List (Bytes × Bytes)) :
    insertAll l (e :: es) = insertAll (AList.insert l e.1 e.2) es := rfl

/-- map entries, into any existing map: Go map assignments in wire order -/
theorem decMsg_map_merge (S : Schema) (m : Nat) (f : Field) (i : Nat)
    (hfind : findField (S.fieldsOf m) f.num = some (i, f)) (hty : f.ty = .mapSS)
    (h1 : 1 ≤ f.num) (h2 : f.num < 536870912) :
    ∀ (l prev : List (Bytes × Bytes)) (acc : List Val), acc[i]? = some (.smap prev) →
      l.all okEntry = true → (encMap f.num l).length < 2 ^ 64 →
      ∀ (fuel : Nat) (rest : Bytes) (out : List Val),
        decMsg S fuel m (acc.set i (.smap (insertAll prev l))) rest = some out →
        decMsg S (fuel + (encMap f.num l).length) m acc (encMap f.num l ++ rest) = some out := by
  intro l
  induction l with
  | nil =>
    intro prev acc hacc _ _ fuel rest out h
    simpa [encMap, insertAll, set_same _ _ _ hacc] using h
  | cons e l ih =>
    obtain ⟨k, v⟩ := e
    intro prev acc hacc hok hb fuel rest out h
    simp only [List.all_cons, Bool.and_eq_true, okEntry] at hok
    simp only [encMap, List.length_append] at hb ⊢
    have hpos := lenDelim_length_pos f.num (encEntry k v)
    have hkp := lenDelim_length_pos 1 k
    have hvp := lenDelim_length_pos 2 v
    have hel : (encEntry k v).length = (lenDelim 1 k).length + (lenDelim 2 v).length := by
      simp [encEntry]
    have hi : i < acc.length := (List.getElem?_eq_some_iff.mp hacc).1
    obtain ⟨fuel', hf'⟩ : ∃ fuel', fuel + ((lenDelim f.num (encEntry k v)).length + (encMap f.num l).length) = fuel' + 1 :=
      ⟨fuel + ((lenDelim f.num (encEntry k v)).length + (encMap f.num l).length) - 1, by omega⟩
    rw [hf', List.append_assoc]
    refine decMsg_record S m acc (acc.set i (.smap (AList.insert prev k v))) _ _ f.num (.len (encEntry k v))
      (fuel + (encMap f.num l).length) fuel' out
      (parseField_lenDelim _ _ _ h1 h2 (by omega)) ?_ (by omega) ?_
    · simp [applyItem, hfind, hty, hacc,
        decEntry_encEntry k v hok.1.1 hok.1.2 (by omega) (by omega)]
    · refine ih (AList.insert prev k v) _ (by simp [hi]) hok.2 (by omega) fuel rest out ?_
      simpa [List.set_set, insertAll_cons] using h

/-- one field, into any well-typed existing value of that field -/
theorem decMsg_field_merge (S : Schema) (hS : S.WF = true) (m : Nat) (f : Field) (i : Nat)
    (acc : List Val) (a v : Val)
    (hfind : findField (S.fieldsOf m) f.num = some (i, f))
    (h1 : 1 ≤ f.num) (h2 : f.num < 536870912)
    (hacc : acc[i]? = some a) (hwa : wtVal S f.ty a = true)
    (hwt : wtVal S f.ty v = true) (hn : NestedM S f.ty v)
    (hb : (encField S f v).length < 2 ^ 64)
    (fuel : Nat) (rest : Bytes) (out : List Val)
    (h : decMsg S fuel m (acc.set i (mergeVal S f.ty a v)) rest = some out) :
    decMsg S (fuel + (encField S f v).length) m acc (encField S f v ++ rest) = some out := by
  have hi : i < acc.length := (List.getElem?_eq_some_iff.mp hacc).1
  cases v with
  | int x =>
    cases hty : f.ty <;> simp only [hty, wtVal] at hwt <;> try (simp at hwt)
    rename_i k
    simp only [encField, hty] at hb ⊢
    simp only [mergeVal] at h
    by_cases hx : x = 0
    · subst hx
      simpa [set_same _ _ _ hacc] using h
    · simp only [hx, if_false, List.length_append] at hb h ⊢
      have hp1 := encodeVarint_length_pos (f.num * 8 + 0)
      have hp2 := encodeVarint_length_pos (toU64 k x)
      unfold tag at hb ⊢
      obtain ⟨fuel', hf'⟩ : ∃ fuel', fuel + ((encodeVarint (f.num * 8 + 0)).length
          + (encodeVarint (toU64 k x)).length) = fuel' + 1 :=
        ⟨fuel + ((encodeVarint (f.num * 8 + 0)).length + (encodeVarint (toU64 k x)).length) - 1, by omega⟩
      rw [hf', List.append_assoc]
      refine decMsg_record S m acc (acc.set i (.int x)) _ _ f.num (.varint (toU64 k x)) fuel fuel' out
        (parseField_varint _ _ _ h1 h2 (toU64_lt k x hwt)) ?_ (by omega) h
      simp [applyItem, hfind, hty, ofU64_toU64 k x hwt]
  | str bs =>
    cases hty : f.ty <;> simp only [hty, wtVal] at hwt <;> try (simp at hwt)
    simp only [encField, hty] at hb ⊢
    simp only [mergeVal] at h
    by_cases hx : bs = []
    · subst hx
      simpa [set_same _ _ _ hacc] using h
    · simp only [hx, if_false] at hb h ⊢
      have hpos := lenDelim_length_pos f.num bs
      obtain ⟨fuel', hf'⟩ : ∃ fuel', fuel + (lenDelim f.num bs).length = fuel' + 1 :=
        ⟨fuel + (lenDelim f.num bs).length - 1, by omega⟩
      rw [hf']
      refine decMsg_record S m acc (acc.set i (.str bs)) _ _ f.num (.len bs) fuel fuel' out
        (parseField_lenDelim _ _ _ h1 h2 (by omega)) ?_ (by omega) h
      simp [applyItem, hfind, hty, hwt]
  | none =>
    simp only [mergeVal] at h
    simpa [encField, set_same _ _ _ hacc] using h
  | msg fs =>
    cases hty : f.ty <;> simp only [hty, wtVal] at hwt <;> try (simp at hwt)
    rename_i m'
    simp only [hty, NestedM] at hn
    simp only [encField, hty] at hb ⊢
    simp only [mergeVal, hty] at h
    have hpos := lenDelim_length_pos f.num (encFields S (S.fieldsOf m') fs)
    obtain ⟨fuel', hf'⟩ : ∃ fuel', fuel + (lenDelim f.num (encFields S (S.fieldsOf m') fs)).length = fuel' + 1 :=
      ⟨fuel + (lenDelim f.num (encFields S (S.fieldsOf m') fs)).length - 1, by omega⟩
    rw [hf']
    have hcur : wtFields S (S.fieldsOf m') (curMsg S m' (some a)) = true := by
      cases a <;> simp only [curMsg]
      case msg fs0 => simpa [hty, wtVal] using hwa
      all_goals exact wellTyped_emptyMsg S hS m'
    have hr := hn _ hcur (by unfold encode; omega) fuel' (by unfold encode; omega)
    unfold encode at hr
    refine decMsg_record S m acc (acc.set i (.msg (mergeFields S (S.fieldsOf m') (curMsg S m' (some a)) fs))) _ _ f.num
      (.len (encFields S (S.fieldsOf m') fs)) fuel fuel' out
      (parseField_lenDelim _ _ _ h1 h2 (by omega)) ?_ (by omega) h
    simp [applyItem, hfind, hty, hacc, hr]
  | strs l =>
    cases hty : f.ty <;> simp only [hty, wtVal] at hwt <;> try (simp at hwt)
    simp only [encField, hty] at hb ⊢
    cases a <;> simp only [hty, wtVal] at hwa <;> try (simp at hwa)
    rename_i l0
    simp only [mergeVal] at h
    exact decMsg_strs S m f i hfind hty h1 h2 l l0 acc hacc (by simpa using hwt) hb fuel rest out h
  | list l =>
    cases hty : f.ty <;> simp only [hty, wtVal] at hwt <;> try (simp at hwt)
    rename_i m'
    simp only [encField, hty] at hb ⊢
    cases a <;> simp only [hty, wtVal] at hwa <;> try (simp at hwa)
    rename_i l0
    simp only [mergeVal] at h
    refine decMsg_rep S m f i m' hfind hty h1 h2 l l0 acc hacc hwt ?_ hb fuel rest out h
    intro fs hmem
    have := nested_all S hS _ (.msg fs) (Nat.le_refl _) (.msg m')
      (by simpa [wtVal] using wtList_mem S m' l fs hwt hmem)
    simpa [Nested] using this
  | smap l =>
    cases hty : f.ty <;> simp only [hty, wtVal] at hwt <;> try (simp at hwt)
    simp only [encField, hty] at hb ⊢
    cases a <;> simp only [hty, wtVal] at hwa <;> try (simp at hwa)
    rename_i l0
    simp only [mergeVal] at h
    exact decMsg_map_merge S m f i hfind hty h1 h2 l l0 acc hacc (by simpa using hwt.1) hb fuel rest out h

/-- all fields of a message, into any well-typed accumulator -/
theorem decMsg_fields_merge (S : Schema) (hS : S.WF = true) (m : Nat) :
    ∀ (post pre : List Field) (vpost apost mpre : List Val),
      S.fieldsOf m = pre ++ post → mpre.length = pre.length →
      wtFields S post apost = true → wtFields S post vpost = true → NestedMAll S post vpost →
      (encFields S post vpost).length < 2 ^ 64 →
      ∀ (fuel : Nat) (rest : Bytes) (out : List Val),
        decMsg S fuel m (mpre ++ mergeFields S post apost vpost) rest = some out →
        decMsg S (fuel + (encFields S post vpost).length) m (mpre ++ apost)
          (encFields S post vpost ++ rest) = some out := by
  have hwf := Schema.WF.fields S hS m
  simp only [fieldsWF, Bool.and_eq_true, decide_eq_true_eq, List.all_eq_true] at hwf
  intro post
  induction post with
  | nil =>
    intro pre vpost apost mpre _ _ hwa hwt _ _ fuel rest out h
    cases vpost with
    | nil => simpa [encFields, mergeFields] using h
    | cons v vs => simp [wtFields] at hwt
  | cons f post ih =>
    intro pre vpost apost mpre hsplit hlen hwa hwt hn hb fuel rest out h
    cases vpost with
    | nil => simp [wtFields] at hwt
    | cons v vs =>
      cases apost with
      | nil => simp [wtFields] at hwa
      | cons a as =>
        simp only [wtFields, Bool.and_eq_true] at hwt hwa
        simp only [NestedMAll] at hn
        simp only [encFields, List.length_append] at hb ⊢
        simp only [mergeFields] at h
        have hfok := hwf.1 f (by rw [hsplit]; simp)
        simp only [Field.ok, Bool.and_eq_true, decide_eq_true_eq] at hfok
        have hfind : findField (S.fieldsOf m) f.num = some (mpre.length, f) := by
          rw [hsplit, hlen]
          exact findField_append pre f post (by rw [← hsplit]; exact hwf.2)
        have hrest := ih (pre ++ [f]) vs as (mpre ++ [mergeVal S f.ty a v]) (by simp [hsplit])
          (by simp [hlen]) hwa.2 hwt.2 hn.2 (by omega) fuel rest out (by simpa using h)
        have hset : (mpre ++ a :: as).set mpre.length (mergeVal S f.ty a v)
            = (mpre ++ [mergeVal S f.ty a v]) ++ as := by
          simp
        have := decMsg_field_merge S hS m f mpre.length (mpre ++ a :: as) a v hfind
          hfok.1.1 hfok.1.2 (by simp) hwa.1 hwt.1 hn.1 (by omega)
          (fuel + (encFields S post vs).length) (encFields S post vs ++ rest) out
          (by rw [hset]; exact hrest)
        rw [List.append_assoc]
        have e : fuel + ((encField S f v).length + (encFields S post vs).length)
            = fuel + (encFields S post vs).length + (encField S f v).length := by omega
        rw [e]
        exact this

theorem RTM_of_nested (S : Schema) (hS : S.WF = true) (m : Nat) (fs : List Val)
    (hwt : wtFields S (S.fieldsOf m) fs = true) (hn : NestedMAll S (S.fieldsOf m) fs) :
    RTM S m fs := by
  unfold RTM encode
  intro cur hcur hb fuel hfuel
  have := decMsg_fields_merge S hS m (S.fieldsOf m) [] fs cur [] (by simp) rfl hcur hwt hn hb
    (fuel - (encFields S (S.fieldsOf m) fs).length) [] _ (decMsg_nil S _ m _)
  simp only [List.nil_append, List.append_nil] at this
  have e : fuel - (encFields S (S.fieldsOf m) fs).length + (encFields S (S.fieldsOf m) fs).length = fuel := by
    omega
  rw [e] at this
  exact this

theorem nestedMAll_of (S : Schema) : ∀ (fs : List Field) (vs : List Val),
    (∀ v ∈ vs, ∀ ty, wtVal S ty v = true → NestedM S ty v) →
    wtFields S fs vs = true → NestedMAll S fs vs := by
  intro fs
  induction fs with
  | nil => intro vs _ _; cases vs <;> simp [NestedMAll]
  | cons f fs ih =>
    intro vs hall hwt
    cases vs with
    | nil => simp [NestedMAll]
    | cons v vs =>
      simp only [wtFields, Bool.and_eq_true] at hwt
      exact ⟨hall v (by simp) f.ty hwt.1, ih vs (fun v hv => hall v (by simp [hv])) hwt.2⟩

theorem nestedM_all (S : Schema) (hS : S.WF = true) :
    ∀ (k : Nat) (v : Val), sizeOf v ≤ k → ∀ ty, wtVal S ty v = true → NestedM S ty v := by
  intro k
  induction k with
  | zero =>
    intro v hk
    cases v <;> simp at hk <;> omega
  | succ k ih =>
    intro v hk ty hwt
    cases v with
    | msg fs =>
      cases ty <;> simp only [wtVal] at hwt <;> try (simp at hwt)
      rename_i m
      simp only [NestedM]
      refine RTM_of_nested S hS m fs hwt (nestedMAll_of S _ _ ?_ hwt)
      intro v hv ty' hwt'
      have := List.sizeOf_lt_of_mem hv
      simp at hk
      exact ih v (by omega) ty' hwt'
    | int x => cases ty <;> simp [NestedM]
    | str x => cases ty <;> simp [NestedM]
    | none => cases ty <;> simp [NestedM]
    | strs x => cases ty <;> simp [NestedM]
    | list x => cases ty <;> simp [NestedM]
    | smap x => cases ty <;> simp [NestedM]

/-- decoding the encoding of `b` into a message holding `a` gives `merge a b` -/
theorem decMsg_encode_merge (S : Schema) (hS : S.WF = true) (m : Nat) (a b : List Val)
    (ha : WellTyped S m a = true) (hb : WellTyped S m b = true)
    (hlen : (encode S m b).length < 2 ^ 64) (fuel : Nat) (hfuel : (encode S m b).length ≤ fuel) :
    decMsg S fuel m a (encode S m b) = some (merge S m a b) := by
  have hn : NestedM S (.msg m) (.msg b) :=
    nestedM_all S hS _ (.msg b) (Nat.le_refl _) (.msg m) (by simpa [wtVal, WellTyped] using hb)
  simp only [NestedM] at hn
  exact hn a ha hlen fuel hfuel

/-- **Concatenation = merge.** -/
theorem decode_append (S : Schema) (hS : S.WF = true) (m : Nat) (a b : List Val)
    (ha : WellTyped S m a = true) (hb : WellTyped S m b = true)
    (hlen : (encode S m a ++ encode S m b).length < 2 ^ 64) :
    decode S m (encode S m a ++ encode S m b) = some (merge S m a b) := by
  simp only [List.length_append] at hlen
  have hna : NestedMAll S (S.fieldsOf m) a :=
    nestedMAll_of S _ _ (fun v _ ty hw => nestedM_all S hS _ v (Nat.le_refl _) ty hw) ha
  -- first the records of `a` into the empty message (giving `a`, by the round trip) …
  have hra := decode_encode S hS m a ha (by omega)
  -- … stated with `encode b` still to come
  have h2 := decMsg_encode_merge S hS m a b ha hb (by omega) (encode S m b).length (Nat.le_refl _)
  have hempty : mergeFields S (S.fieldsOf m) (emptyMsg S m) a = a := by
    -- decoding `encode a` into the empty message yields both `a` and `merge empty a`
    have h3 := decMsg_encode_merge S hS m (emptyMsg S m) a (wellTyped_emptyMsg S hS m) ha (by omega)
      (encode S m a).length (Nat.le_refl _)
    unfold decode at hra
    rw [hra] at h3
    exact (Option.some.inj h3).symm
  have := decMsg_fields_merge S hS m (S.fieldsOf m) [] a (emptyMsg S m) [] (by simp) rfl
    (wellTyped_emptyMsg S hS m) ha hna (by unfold encode at hlen; omega)
    (encode S m b).length (encode S m b) (merge S m a b) (by
      simp only [List.nil_append, hempty]; exact h2)
  unfold decode
  simp only [List.nil_append, List.length_append] at this ⊢
  unfold encode at this ⊢
  rw [Nat.add_comm]
  exact this

end Nri.Wire
