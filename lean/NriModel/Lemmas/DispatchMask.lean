/-
Lemmas for C06 about the subscription test `p.events.IsSet(ev)` on 32-bit masks.
-/
import NriModel.Dispatch

namespace Nri.Dispatch
open Nri.Events

/-- `m & (1 << k) != 0` reads bit `k` — for every 32-bit `m` -/
theorem and_one_shift_ne_zero (m : BitVec 32) (k : Nat) (hk : k < 32) :
    ((m &&& (1#32 <<< k)) != 0#32) = m.getLsbD k := by
  cases hb : m.getLsbD k with
  | true =>
    have : (m &&& (1#32 <<< k)).getLsbD k = true := by
      simp [hb, hk]
    cases hz : (m &&& (1#32 <<< k)) != 0#32 with
    | true => rfl
    | false =>
      simp only [bne_eq_false_iff_eq] at hz
      rw [hz] at this
      simp at this
  | false =>
    have : m &&& (1#32 <<< k) = 0#32 := by
      apply BitVec.eq_of_getLsbD_eq
      intro i hi
      simp only [BitVec.getLsbD_and, BitVec.getLsbD_shiftLeft, BitVec.getLsbD_zero]
      by_cases hik : i = k
      · subst hik; simp [hb]
      · have : (1#32).getLsbD (i - k) = false ∨ i < k := by
          by_cases h : i < k
          · exact Or.inr h
          · left
            have : i - k ≠ 0 := by omega
            simp [BitVec.getLsbD_one, this]
        rcases this with h | h
        · simp [h]
        · simp [h]
    simp [this]

theorem isSet_eq_getLsbD (m : Mask) (e : EventNo) (h : e - 1 < 32) : isSet m e = m.getLsbD (e - 1) := by
  simp only [isSet, bit]
  exact and_one_shift_ne_zero m (e - 1) h

theorem valid_getLsbD (k : Nat) (hk : k < 13) : valid.getLsbD k = true := by
  have : k = 0 ∨ k = 1 ∨ k = 2 ∨ k = 3 ∨ k = 4 ∨ k = 5 ∨ k = 6 ∨ k = 7 ∨ k = 8 ∨ k = 9 ∨ k = 10 ∨
      k = 11 ∨ k = 12 := by omega
  rcases this with rfl | rfl | rfl | rfl | rfl | rfl | rfl | rfl | rfl | rfl | rfl | rfl | rfl <;> decide

theorem valid_getLsbD_high (k : Nat) (hk : 13 ≤ k) : valid.getLsbD k = false := by
  by_cases h : k < 32
  · have : k = 13 ∨ k = 14 ∨ k = 15 ∨ k = 16 ∨ k = 17 ∨ k = 18 ∨ k = 19 ∨ k = 20 ∨ k = 21 ∨ k = 22 ∨
        k = 23 ∨ k = 24 ∨ k = 25 ∨ k = 26 ∨ k = 27 ∨ k = 28 ∨ k = 29 ∨ k = 30 ∨ k = 31 := by omega
    rcases this with rfl | rfl | rfl | rfl | rfl | rfl | rfl | rfl | rfl | rfl | rfl | rfl | rfl | rfl |
      rfl | rfl | rfl | rfl | rfl <;> decide
  · exact BitVec.getLsbD_of_ge _ _ (by omega)

end Nri.Dispatch
