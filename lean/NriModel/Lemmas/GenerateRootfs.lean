/-
The rootfs propagation after `AdjustMounts`: the loop's result equals the declarative
`Check.expectedRootfs` (raised to the strongest propagation an applied mount asks for, never
lowered, independent of the order in which the entries ask).  Core Lean only.
-/
import NriModel.Lemmas.GenerateSpec
import NriModel.Lemmas.GenerateMounts

namespace Nri.Generate
open Nri.Api

namespace Mounts
open Check

theorem setStep_prop {hp : Str → Str} {st st' : State} {m : Api.Mount}
    (h : setStep hp st m = .ok st') : st'.prop = m.propagationQuery st.prop := by
  unfold setStep at h
  simp only at h
  split at h
  · split at h
    · cases h; rfl
    · cases h
  · split at h
    · split at h
      · cases h; rfl
      · cases h
    · cases h; rfl

theorem rshared_ne_rslave : str "rshared" ≠ str "rslave" := by decide
theorem rslave_ne_rshared : str "rslave" ≠ str "rshared" := by decide

/-- `raiseRootfs` by a single request, by cases. -/
theorem raiseRootfs_single (old p : Str) :
    raiseRootfs old [p] =
      if p = str "rshared" then str "rshared"
      else if p = str "rslave" then (if old ≠ str "rshared" ∧ old ≠ str "rslave" then str "rslave" else old)
      else old := by
  unfold raiseRootfs
  by_cases h1 : p = str "rshared"
  · subst h1; simp
  · have h1' : ¬ str "rshared" = p := fun h => h1 h.symm
    by_cases h2 : p = str "rslave"
    · subst h2
      by_cases c1 : old = str "rshared"
      · subst c1; simp [rshared_ne_rslave, rslave_ne_rshared]
      · by_cases c2 : old = str "rslave"
        · subst c2; simp [rshared_ne_rslave, rslave_ne_rshared]
        · simp [rshared_ne_rslave, rslave_ne_rshared, c1, c2]
    · have h2' : ¬ str "rslave" = p := fun h => h2 h.symm
      simp [h1, h2, h1', h2']

/-- One applied entry raises the rootfs propagation by exactly its own request. -/
theorem setStep_rootfs {hp : Str → Str} {st st' : State} {m : Api.Mount}
    (h : setStep hp st m = .ok st') :
    st'.rootfs = raiseRootfs st.rootfs [m.propagationQuery st.prop] := by
  rw [raiseRootfs_single]
  unfold setStep at h
  simp only at h
  split at h
  · rename_i hp1
    split at h
    · cases h; simp [hp1]
    · cases h
  · rename_i hp1
    split at h
    · rename_i hp2
      split at h
      · cases h
        simp only [hp1, hp2, if_false, if_true]
        by_cases c1 : st.rootfs = str "rshared"
        · simp [c1]
        · by_cases c2 : st.rootfs = str "rslave"
          · simp [c2]
          · simp [c1, c2]
      · cases h
    · rename_i hp2
      cases h
      simp [hp1, hp2]

/-- Raising twice is raising by the concatenated requests. -/
theorem raiseRootfs_cons (old p : Str) (reqs : List Str) :
    raiseRootfs (raiseRootfs old [p]) reqs = raiseRootfs old (p :: reqs) := by
  rw [raiseRootfs_single]
  unfold raiseRootfs
  by_cases h1 : p = str "rshared"
  · subst h1; simp [rshared_ne_rslave, rslave_ne_rshared]
  · have h1' : ¬ str "rshared" = p := fun h => h1 h.symm
    by_cases h2 : p = str "rslave"
    · subst h2
      by_cases b1 : str "rshared" ∈ reqs
      · simp [b1, rshared_ne_rslave, rslave_ne_rshared]
      · by_cases c1 : old = str "rshared"
        · subst c1; simp [b1, rshared_ne_rslave, rslave_ne_rshared]
        · by_cases c2 : old = str "rslave"
          · subst c2; simp [b1, rshared_ne_rslave, rslave_ne_rshared]
          · simp [b1, c1, c2, rshared_ne_rslave, rslave_ne_rshared]
    · have h2' : ¬ str "rslave" = p := fun h => h2 h.symm
      simp [h1, h2, h1', h2']

theorem sets_rootfs_eq {hp : Str → Str} (L : List Api.Mount) {st st' : State}
    (h : sets hp st L = .ok st') :
    st'.rootfs = raiseRootfs st.rootfs (propRequests st.prop L) := by
  induction L generalizing st with
  | nil =>
    simp only [sets] at h; cases h
    simp [propRequests, raiseRootfs]
  | cons m r ih =>
    unfold sets at h
    unfold propRequests
    split at h
    · rename_i hm; simp only [hm, if_true]; exact ih h
    · rename_i hm
      simp only [hm, Bool.false_eq_true, if_false]
      split at h
      · rename_i st1 h1
        rw [ih h, setStep_prop h1, setStep_rootfs h1, raiseRootfs_cons]
      · cases h

/-- The rootfs propagation `AdjustMounts` leaves is the declarative `expectedRootfs`. -/
theorem apply_rootfs_eq {hp : Str → Str} {ms ms' : List Oci.Mount} {rootfs rootfs' : Str}
    {L : List Api.Mount} (h : apply hp ms rootfs L = .ok (ms', rootfs')) :
    rootfs' = expectedRootfs rootfs L := by
  unfold apply at h
  split at h
  · rename_i he
    have := congrArg Prod.snd (Except.ok.inj h)
    simp only at this
    rw [← this]
    have : L = [] := by simpa using he
    subst this
    simp [expectedRootfs, propRequests, raiseRootfs]
  · split at h
    · rename_i st hst
      have := congrArg Prod.snd (Except.ok.inj h)
      simp only at this
      rw [← this]
      exact sets_rootfs_eq L hst
    · cases h

end Mounts
end Nri.Generate
