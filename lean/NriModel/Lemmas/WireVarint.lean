/-
Varint and scalar-conversion lemmas for the wire model (C12).
-/
import NriModel.Wire

namespace Nri.Wire

theorem decVarintAux_enc (f : Nat) : ∀ (n : Nat) (r : Bytes), n < 2 * 128 ^ f →
    decVarintAux f (encVarintAux f n ++ r) = some (n, r) := by
  induction f with
  | zero =>
    intro n r h
    simp at h
    simp [encVarintAux, decVarintAux, h]
  | succ f ih =>
    intro n r h
    unfold encVarintAux
    by_cases hn : n < 128
    · simp [hn, decVarintAux]
    · have h2 : n / 128 < 2 * 128 ^ f := by
        rw [Nat.pow_succ] at h
        omega
      simp only [hn, if_false, List.cons_append, decVarintAux]
      have hb : ¬ (n % 128 + 128 < 128) := by omega
      simp only [hb, if_false, ih (n / 128) r h2]
      congr 2
      omega

theorem decodeVarint_encodeVarint (n : Nat) (r : Bytes) (h : n < 2 ^ 64) :
    decodeVarint (encodeVarint n ++ r) = some (n, r) := by
  unfold decodeVarint encodeVarint
  apply decVarintAux_enc
  have : (2 : Nat) * 128 ^ 9 = 2 ^ 64 := by decide
  omega

theorem encVarintAux_length (f n : Nat) : (encVarintAux f n).length = sizeVarintAux f n := by
  induction f generalizing n with
  | zero => simp [encVarintAux, sizeVarintAux]
  | succ f ih =>
    unfold encVarintAux sizeVarintAux
    by_cases hn : n < 128
    · simp [hn]
    · simp [hn, ih]; omega

theorem encodeVarint_length (n : Nat) : (encodeVarint n).length = sizeVarint n :=
  encVarintAux_length 9 n

theorem sizeVarintAux_pos (f n : Nat) : 1 ≤ sizeVarintAux f n := by
  cases f with
  | zero => simp [sizeVarintAux]
  | succ f => unfold sizeVarintAux; split <;> omega

theorem sizeVarint_pos (n : Nat) : 1 ≤ sizeVarint n := sizeVarintAux_pos 9 n

theorem encodeVarint_length_pos (n : Nat) : 1 ≤ (encodeVarint n).length := by
  rw [encodeVarint_length]; exact sizeVarint_pos n

theorem encVarintAux_lt (f : Nat) : ∀ n, n < 2 * 128 ^ f → ∀ b ∈ encVarintAux f n, b < 256 := by
  induction f with
  | zero => intro n h b hb; simp [encVarintAux] at hb h; omega
  | succ f ih =>
    intro n h b hb
    unfold encVarintAux at hb
    by_cases hn : n < 128
    · simp [hn] at hb; omega
    · simp only [hn, if_false, List.mem_cons] at hb
      rcases hb with hb | hb
      · omega
      · refine ih (n / 128) ?_ b hb
        rw [Nat.pow_succ] at h
        omega

theorem encodeVarint_lt (n : Nat) (h : n < 2 ^ 64) : ∀ b ∈ encodeVarint n, b < 256 := by
  apply encVarintAux_lt
  have : (2 : Nat) * 128 ^ 9 = 2 ^ 64 := by decide
  omega

/-- the decoder returns a strict suffix: it consumed at least one byte -/
theorem decVarintAux_length (f : Nat) : ∀ (bs : Bytes) (v : Nat) (r : Bytes),
    decVarintAux f bs = some (v, r) → r.length < bs.length := by
  induction f with
  | zero =>
    intro bs v r h
    cases bs with
    | nil => simp [decVarintAux] at h
    | cons b t =>
      simp only [decVarintAux] at h
      split at h
      · simp at h; simp [h.2]
      · simp at h
  | succ f ih =>
    intro bs v r h
    cases bs with
    | nil => simp [decVarintAux] at h
    | cons b t =>
      simp only [decVarintAux] at h
      split at h
      · simp at h; simp [h.2]
      · split at h
        · rename_i v' r' hrec
          simp at h
          have := ih t v' r' hrec
          simp [← h.2]; omega
        · simp at h

theorem decVarintAux_lt (f : Nat) : ∀ (bs : Bytes) (v : Nat) (r : Bytes),
    (∀ b ∈ bs, b < 256) → decVarintAux f bs = some (v, r) → v < 2 * 128 ^ f := by
  induction f with
  | zero =>
    intro bs v r _ h
    cases bs with
    | nil => simp [decVarintAux] at h
    | cons b t =>
      simp only [decVarintAux] at h
      split at h
      · simp at h; omega
      · simp at h
  | succ f ih =>
    intro bs v r hb h
    cases bs with
    | nil => simp [decVarintAux] at h
    | cons b t =>
      simp only [decVarintAux] at h
      have hb0 : b < 256 := hb b (by simp)
      rw [Nat.pow_succ]
      have hp : 0 < 128 ^ f := Nat.pow_pos (by omega)
      split at h
      · simp at h; omega
      · split at h
        · rename_i v' r' hrec
          simp at h
          have := ih t v' r' (fun b hb' => hb b (by simp [hb'])) hrec
          omega
        · simp at h

/-- every value the varint decoder returns fits 64 bits -/
theorem decodeVarint_lt (bs : Bytes) (v : Nat) (r : Bytes) (hb : ∀ b ∈ bs, b < 256)
    (h : decodeVarint bs = some (v, r)) : v < 2 ^ 64 := by
  have := decVarintAux_lt 9 bs v r hb h
  have e : (2 : Nat) * 128 ^ 9 = 2 ^ 64 := by decide
  omega

/-! scalar conversions -/

theorem toU64_lt (k : Scalar) (i : Int) (h : k.inRange i = true) : toU64 k i < 2 ^ 64 := by
  cases k <;> simp [Scalar.inRange] at h <;> simp only [toU64] <;> (try split) <;> omega

theorem ofU64_toU64 (k : Scalar) (i : Int) (h : k.inRange i = true) : ofU64 k (toU64 k i) = i := by
  cases k <;> simp [Scalar.inRange] at h <;> simp only [toU64, ofU64] <;>
    (try split) <;> (try split) <;> omega

theorem ofU64_inRange (k : Scalar) (x : Nat) (h : x < 2 ^ 64) : k.inRange (ofU64 k x) = true := by
  cases k <;> simp only [Scalar.inRange, decide_eq_true_eq] <;> simp only [ofU64] <;>
    (try split) <;> omega

theorem toU64_ne_zero (k : Scalar) (i : Int) (h : k.inRange i = true) (hi : i ≠ 0) :
    toU64 k i ≠ 0 := by
  cases k <;> simp [Scalar.inRange] at h <;> simp only [toU64] <;> (try split) <;> omega

end Nri.Wire
