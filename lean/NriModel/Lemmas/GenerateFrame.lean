/-
`Generator.Adjust` family by family: when `adjust` succeeds, every modelled field of the result
is the corresponding core function applied to the same field of the original spec and the
matching part of the adjustment — i.e. the families do not interfere.  This is what lifts the
per-family lemmas to theorems about `adjust`.  Also: resource scalars and hugepage limits.
Core Lean only.
-/
import NriModel.Lemmas.GenerateAnnotations

namespace Nri.Generate
open Nri.Api
open Nri.Oci (Spec)

/-- Assumption on the (external) CDI injector for the frame theorems: it may only touch the
    ghost field `cdi` of the model.  (A real injector edits devices, mounts, env and hooks of
    the spec; for such an injector the per-family theorems apply to the spec it returns.) -/
def Externals.CDIFramed (ext : Externals) : Prop :=
  ∀ inj, ext.injectCDI = some inj → ∀ s names s', inj s names = .ok s' → s' = { s with cdi := s'.cdi }

theorem recordingInjector_framed (bad : List Str) (s : Spec) (names : List Str) (s' : Spec)
    (h : recordingInjector bad s names = .ok s') : s' = { s with cdi := s'.cdi } := by
  unfold recordingInjector at h
  split at h
  · cases h
  · cases h; rfl

theorem injectCDI_framed {ext : Externals} (hext : ext.CDIFramed) {s s' : Spec} {names : List Str}
    (h : injectCDI ext s names = .ok s') : s' = { s with cdi := s'.cdi } := by
  unfold injectCDI at h
  split at h
  · cases h; rfl
  · rename_i inj hinj
    split at h
    · cases h; rfl
    · split at h
      · rename_i s1 hs1
        cases h
        exact hext inj hinj s names _ hs1
      · cases h

namespace Resources

/-- the CPU section after `AdjustResources` -/
def cpuAfter (c : Oci.CPU) (r : Option LinuxResources) : Oci.CPU :=
  match r with
  | some r => (match r.cpu with | some x => applyCpu c x | none => c)
  | none => c

/-- the memory section after `AdjustResources` -/
def memoryAfter (m : Oci.Memory) (r : Option LinuxResources) : Oci.Memory :=
  match r with
  | some r => (match r.memory with | some x => applyMemory m x | none => m)
  | none => m

def hugepagesAfter (l : List Oci.HugepageLimit) (r : Option LinuxResources) : List Oci.HugepageLimit :=
  match r with | some r => applyHugepages l r.hugepageLimits | none => l

def unifiedAfter (u : AList Str Str) (r : Option LinuxResources) : AList Str Str :=
  match r with | some r => applyUnified u r.unified | none => u

def pidsAfter (p : Option Int) (r : Option LinuxResources) : Option Int :=
  match r with | some r => (match r.pids with | some v => some v | none => p) | none => p

/-- limit of a page size in a hugepage list (first entry) -/
def hfind (k : Str) (l : List Oci.HugepageLimit) : Option Nat :=
  (l.find? (fun h => h.pageSize == k)).map (·.limit)

theorem hfind_addHugepage (l : List Oci.HugepageLimit) (h : Api.HugepageLimit) (k : Str) :
    hfind k (addHugepage l h) = if h.pageSize = k then some h.limit else hfind k l := by
  induction l with
  | nil =>
    by_cases hk : h.pageSize = k <;> simp [addHugepage, hfind, hk]
  | cons x r ih =>
    unfold addHugepage
    by_cases hx : x.pageSize = h.pageSize
    · by_cases hk : h.pageSize = k
      · simp [hx, hk, hfind]
      · have hxk : ¬ x.pageSize = k := by rw [hx]; exact hk
        simp [hx, hk, hfind]
    · simp only [hx, if_false]
      by_cases hxk : x.pageSize = k
      · have hk : ¬ h.pageSize = k := by intro hk; exact hx (hxk.trans hk.symm)
        simp [hfind, hxk, hk]
      · have hb : (x.pageSize == k) = false := by simpa using hxk
        unfold hfind at ih ⊢
        simp only [List.find?_cons, hb]
        exact ih

theorem hfind_applyHugepages (l : List Oci.HugepageLimit) (hs : List Api.HugepageLimit) (k : Str) :
    hfind k (applyHugepages l hs) =
      pick (lastMatch (fun h : Api.HugepageLimit => h.pageSize == k) hs) (·.limit) (hfind k l) := by
  unfold applyHugepages
  induction hs generalizing l with
  | nil => simp [lastMatch]
  | cons h r ih =>
    simp only [List.foldl_cons, lastMatch]
    rw [ih]
    cases lastMatch (fun h : Api.HugepageLimit => h.pageSize == k) r with
    | some x => simp
    | none =>
      simp only [pick_none, hfind_addHugepage]
      by_cases hk : h.pageSize = k
      · simp [hk]
      · have : (h.pageSize == k) = false := by simpa using hk
        simp [hk, this]

end Resources

/-- Everything `adjust` does, field by field. -/
structure AdjustOk (ext : Externals) (s : Spec) (a : Adjustment) (s' : Spec) : Prop where
  annotations : s'.annotations = Annotations.apply s.annotations a.annotations
  env : s'.env = Env.apply s.env a.env
  args : s'.args = Args.apply s.args a.args
  hooks : s'.hooks = (match a.hooks with | some h => Hooks.apply s.hooks h | none => s.hooks)
  devices : (s'.devices, s'.devRules) = Devices.apply (s.devices, s.devRules) a.linuxDevices
  cgroupsPath : s'.cgroupsPath = (if a.cgroupsPath = [] then s.cgroupsPath else a.cgroupsPath)
  oomScoreAdj : s'.oomScoreAdj = (match a.oomScoreAdj with | some v => some v | none => s.oomScoreAdj)
  cpu : s'.cpu = Resources.cpuAfter s.cpu a.resources
  memory : s'.memory = Resources.memoryAfter s.memory a.resources
  hugepages : s'.hugepages = Resources.hugepagesAfter s.hugepages a.resources
  unified : s'.unified = Resources.unifiedAfter s.unified a.resources
  pids : s'.pids = Resources.pidsAfter s.pids a.resources
  mounts : Mounts.apply ext.hostPropagation s.mounts s.rootfsPropagation a.mounts
            = .ok (s'.mounts, s'.rootfsPropagation)
  rlimits : s'.rlimits = s.rlimits ++ a.rlimits.map POSIXRlimit.toOCI
  /-- the injector saw the spec with annotations, env, args and hooks already adjusted and
      nothing else, and `cdi` is what it left -/
  cdi : ∃ s1, injectCDI ext
          (adjustHooks (adjustArgs (adjustEnv (adjustAnnotations s a.annotations) a.env) a.args) a.hooks)
          a.cdiDevices = .ok s1 ∧ s'.cdi = s1.cdi
  blockio : Resources.applyBlockIO ext.resolveBlockIO s.blockio a.blockioClass = .ok s'.blockio
  rdt : Resources.applyRdt ext.resolveRdt s.rdt a.rdtClass = .ok s'.rdt

theorem adjustBlockIOClass_shape {ext : Externals} {s s' : Spec} {c : Option Str}
    (h : adjustBlockIOClass ext s c = .ok s') :
    s' = { s with blockio := s'.blockio } ∧
    Resources.applyBlockIO ext.resolveBlockIO s.blockio c = .ok s'.blockio := by
  unfold adjustBlockIOClass at h
  split at h
  · rename_i b hb; cases h; exact ⟨rfl, hb⟩
  · cases h

theorem adjustRdtClass_shape {ext : Externals} {s s' : Spec} {c : Option Str}
    (h : adjustRdtClass ext s c = .ok s') :
    s' = { s with rdt := s'.rdt } ∧ Resources.applyRdt ext.resolveRdt s.rdt c = .ok s'.rdt := by
  unfold adjustRdtClass at h
  split at h
  · rename_i b hb; cases h; exact ⟨rfl, hb⟩
  · cases h

theorem adjustMounts_shape {ext : Externals} {s s' : Spec} {L : List Api.Mount}
    (h : adjustMounts ext s L = .ok s') :
    s' = { s with mounts := s'.mounts, rootfsPropagation := s'.rootfsPropagation } ∧
    Mounts.apply ext.hostPropagation s.mounts s.rootfsPropagation L = .ok (s'.mounts, s'.rootfsPropagation) := by
  unfold adjustMounts at h
  split at h
  · rename_i r hr
    cases h
    exact ⟨rfl, hr⟩
  · cases h

theorem adjustResources_fields (s : Spec) (r : Option LinuxResources) :
    adjustResources s r =
      { s with cpu := Resources.cpuAfter s.cpu r, memory := Resources.memoryAfter s.memory r,
               hugepages := Resources.hugepagesAfter s.hugepages r,
               unified := Resources.unifiedAfter s.unified r, pids := Resources.pidsAfter s.pids r } := by
  unfold adjustResources Resources.cpuAfter Resources.memoryAfter Resources.hugepagesAfter
    Resources.unifiedAfter Resources.pidsAfter
  cases r with
  | none => rfl
  | some r =>
    obtain ⟨mem, cpu, hl, bc, rc, un, pids⟩ := r
    cases cpu <;> cases mem <;> cases pids <;> rfl

theorem pre_fields (s : Spec) (a : Adjustment) :
    adjustHooks (adjustArgs (adjustEnv (adjustAnnotations s a.annotations) a.env) a.args) a.hooks =
      { s with annotations := Annotations.apply s.annotations a.annotations,
               env := Env.apply s.env a.env, args := Args.apply s.args a.args,
               hooks := (match a.hooks with | some h => Hooks.apply s.hooks h | none => s.hooks) } := by
  unfold adjustHooks adjustArgs adjustEnv adjustAnnotations
  cases a.hooks <;> rfl

theorem mid_fields (s : Spec) (L : List LinuxDevice) (p : Str) (o : Option Int) :
    adjustOomScoreAdj (adjustCgroupsPath (adjustDevices s L) p) o =
      { s with devices := (Devices.apply (s.devices, s.devRules) L).1,
               devRules := (Devices.apply (s.devices, s.devRules) L).2,
               cgroupsPath := (if p = [] then s.cgroupsPath else p),
               oomScoreAdj := (match o with | some v => some v | none => s.oomScoreAdj) } := by
  unfold adjustOomScoreAdj adjustCgroupsPath adjustDevices
  by_cases hp : p = [] <;> cases o <;> simp [hp]

theorem adjust_ok {ext : Externals} (hext : ext.CDIFramed) {s s' : Spec} {a : Adjustment}
    (h : adjust ext s a = .ok s') : AdjustOk ext s a s' := by
  unfold adjust at h
  simp only [bind, Except.bind, pure, Except.pure] at h
  split at h
  · cases h
  rename_i s1 h1
  split at h
  · cases h
  rename_i s2 h2
  split at h
  · cases h
  rename_i s3 h3
  split at h
  · cases h
  rename_i s4 h4
  cases h
  have h1' := h1
  rw [pre_fields] at h1
  rw [mid_fields, adjustResources_fields] at h2
  have e1 := injectCDI_framed hext h1
  generalize s1.cdi = c1 at e1
  obtain ⟨e2, hb⟩ := adjustBlockIOClass_shape h2
  generalize s2.blockio = b2 at e2 hb
  obtain ⟨e3, hr⟩ := adjustRdtClass_shape h3
  generalize s3.rdt = r3 at e3 hr
  obtain ⟨e4, hm⟩ := adjustMounts_shape h4
  generalize s4.mounts = m4 at e4 hm
  generalize s4.rootfsPropagation = p4 at e4 hm
  subst e4
  subst e3
  subst e2
  refine
    { annotations := ?_, env := ?_, args := ?_, hooks := ?_, devices := ?_, cgroupsPath := ?_,
      oomScoreAdj := ?_, cpu := ?_, memory := ?_, hugepages := ?_, unified := ?_, pids := ?_,
      mounts := ?_, rlimits := ?_, cdi := ⟨s1, h1', ?_⟩, blockio := ?_, rdt := ?_ }
  all_goals (try (simp only [adjustRlimits]))
  all_goals (try (subst e1; rfl))
  · subst e1; exact hm
  · subst e1; exact hb
  · subst e1; exact hr

/-! ### closed form of `adjust` for the recording injector -/

/-- the result of `adjust`, assembled from the per-family results -/
def assemble (s : Spec) (a : Adjustment) (c : List Str) (b : Option Nat) (r : Option Str)
    (mp : List Oci.Mount × Str) : Spec :=
  { annotations := Annotations.apply s.annotations a.annotations
    args := Args.apply s.args a.args
    env := Env.apply s.env a.env
    rlimits := s.rlimits ++ a.rlimits.map POSIXRlimit.toOCI
    oomScoreAdj := (match a.oomScoreAdj with | some v => some v | none => s.oomScoreAdj)
    mounts := mp.1
    devices := (Devices.apply (s.devices, s.devRules) a.linuxDevices).1
    devRules := (Devices.apply (s.devices, s.devRules) a.linuxDevices).2
    cpu := Resources.cpuAfter s.cpu a.resources
    memory := Resources.memoryAfter s.memory a.resources
    hugepages := Resources.hugepagesAfter s.hugepages a.resources
    unified := Resources.unifiedAfter s.unified a.resources
    pids := Resources.pidsAfter s.pids a.resources
    blockio := b
    rdt := r
    cgroupsPath := (if a.cgroupsPath = [] then s.cgroupsPath else a.cgroupsPath)
    rootfsPropagation := mp.2
    hooks := (match a.hooks with | some h => Hooks.apply s.hooks h | none => s.hooks)
    cdi := c }

/-- what the recording injector (or no injector) leaves in `cdi` -/
def cdiAfter (hasInjector : Bool) (bad old names : List Str) : Except GenError (List Str) :=
  if !hasInjector || names.isEmpty then .ok old
  else if names.any (fun n => bad.contains n) then .error .cdi
  else .ok (old ++ names)

/-- the spec after the first four (pure) stages, with `cdi` replaced by `c` -/
def preSpec (s : Spec) (a : Adjustment) (c : List Str) : Spec :=
  { s with annotations := Annotations.apply s.annotations a.annotations,
           env := Env.apply s.env a.env, args := Args.apply s.args a.args,
           hooks := (match a.hooks with | some h => Hooks.apply s.hooks h | none => s.hooks),
           cdi := c }

theorem pre_fields' (s : Spec) (a : Adjustment) :
    adjustHooks (adjustArgs (adjustEnv (adjustAnnotations s a.annotations) a.env) a.args) a.hooks =
      preSpec s a s.cdi := by
  rw [pre_fields]; rfl

theorem injectCDI_recording {ext : Externals} {bad : List Str}
    (hi : ext.injectCDI = some (recordingInjector bad) ∨ ext.injectCDI = none) (s : Spec) (a : Adjustment) :
    injectCDI ext (preSpec s a s.cdi) a.cdiDevices =
      match cdiAfter ext.injectCDI.isSome bad s.cdi a.cdiDevices with
      | .error e => .error e
      | .ok c => .ok (preSpec s a c) := by
  unfold injectCDI cdiAfter
  rcases hi with hi | hi
  · rw [hi]
    simp only [Option.isSome_some, Bool.not_true, Bool.false_or]
    cases hn : a.cdiDevices.isEmpty
    · simp only [Bool.false_eq_true, if_false, recordingInjector]
      cases hb : a.cdiDevices.any (fun n => bad.contains n)
      · simp [preSpec]
      · simp
    · simp
  · rw [hi]; simp

theorem adjust_eq {ext : Externals} {bad : List Str}
    (hi : ext.injectCDI = some (recordingInjector bad) ∨ ext.injectCDI = none) (s : Spec) (a : Adjustment) :
    adjust ext s a =
      match cdiAfter ext.injectCDI.isSome bad s.cdi a.cdiDevices with
      | .error e => .error e
      | .ok c =>
        match Resources.applyBlockIO ext.resolveBlockIO s.blockio a.blockioClass with
        | .error e => .error e
        | .ok b =>
          match Resources.applyRdt ext.resolveRdt s.rdt a.rdtClass with
          | .error e => .error e
          | .ok r =>
            match Mounts.apply ext.hostPropagation s.mounts s.rootfsPropagation a.mounts with
            | .error e => .error e
            | .ok mp => .ok (assemble s a c b r mp) := by
  unfold adjust
  simp only [bind, Except.bind, pure, Except.pure]
  rw [pre_fields', injectCDI_recording hi]
  cases cdiAfter ext.injectCDI.isSome bad s.cdi a.cdiDevices with
  | error e => rfl
  | ok c =>
    simp only
    rw [mid_fields, adjustResources_fields]
    unfold adjustBlockIOClass
    simp only [preSpec]
    cases Resources.applyBlockIO ext.resolveBlockIO s.blockio a.blockioClass with
    | error e => rfl
    | ok b =>
      simp only
      unfold adjustRdtClass
      simp only
      cases Resources.applyRdt ext.resolveRdt s.rdt a.rdtClass with
      | error e => rfl
      | ok r =>
        simp only
        unfold adjustMounts
        simp only
        cases Mounts.apply ext.hostPropagation s.mounts s.rootfsPropagation a.mounts with
        | error e => rfl
        | ok mp => rfl

/-- the adjustment with its unified map given in another iteration order -/
def withUnified (a : Adjustment) (σ : AList Str Str) : Adjustment :=
  { a with linux := a.linux.map fun l => { l with resources := l.resources.map fun r => { r with unified := σ } } }

/-- `adjustOrders` (two independent orders for the annotation loops, one for the unified loop)
    is `adjust` on the adjustment whose annotation list is the merged order and whose unified
    list is `σ` — an equality of results, not only of lookups. -/
theorem adjustOrders_eq (ext : Externals) (s : Spec) (a : Adjustment) (π1 π2 σ : List (Str × Str)) :
    adjustOrders ext s a π1 π2 σ =
      adjust ext s { withUnified a σ with annotations := Annotations.mergeOrders π1 π2 } := by
  unfold adjustOrders adjust adjustAnnotations
  rw [Annotations.applyOrders_eq_apply]
  cases hl : a.linux with
  | none =>
    simp only [withUnified, Adjustment.linuxDevices, Adjustment.cgroupsPath, Adjustment.oomScoreAdj,
      Adjustment.resources, Adjustment.blockioClass, Adjustment.rdtClass, hl, Option.map_none]
  | some l =>
    cases hr : l.resources with
    | none =>
      simp only [withUnified, Adjustment.linuxDevices, Adjustment.cgroupsPath, Adjustment.oomScoreAdj,
        Adjustment.resources, Adjustment.blockioClass, Adjustment.rdtClass, hl, hr, Option.map_some,
        Option.map_none]
    | some r =>
      simp only [withUnified, Adjustment.linuxDevices, Adjustment.cgroupsPath, Adjustment.oomScoreAdj,
        Adjustment.resources, Adjustment.blockioClass, Adjustment.rdtClass, hl, hr, Option.map_some]

/-- `adjust` is `adjustOrders` with every map iterated in the order the adjustment lists it. -/
theorem adjust_eq_adjustOrders (ext : Externals) (s : Spec) (a : Adjustment) :
    adjust ext s a =
      adjustOrders ext s a a.annotations a.annotations
        (match a.resources with | some r => r.unified | none => []) := by
  unfold adjustOrders adjust adjustAnnotations Annotations.applyOrders Annotations.apply
  cases hl : a.linux with
  | none => simp only [Adjustment.resources, hl]
  | some l =>
    cases hr : l.resources with
    | none => simp only [Adjustment.resources, hl, hr]
    | some r => simp only [Adjustment.resources, hl, hr]

end Nri.Generate
