/-
C04, last sentence: "what a plugin is shown agrees with what the runtime would obtain by
applying the result combined so far".

`ViewAgrees c s`: the NRI container `c` (what a plugin is shown) agrees with the OCI spec `s`
(what the generator produces), field by field (definition below, with the reason for every
weakening and every field left out).

`ViewSim`: the (stronger) invariant carried along a chain, and the per-adjustment simulation
`viewSim_step`: if the view `c` simulates the spec `x`, then the NRI-level overlay
`overlayContainer c a` simulates `Generator.Adjust` applied to `x` with `toGen a`.

Core Lean only.
-/
import NriModel.Lemmas.ComposeAssemble
import NriModel.Overlay

namespace Nri.Compose
open Nri Nri.Generate Nri.Overlay

/-! ### the agreement relation -/

def ociRlimit (l : NApi.Rlimit) : Oci.Rlimit := (toGenRlimit l).toOCI
def ociHugepage (h : NApi.Hugepage) : Oci.HugepageLimit := { pageSize := h.pageSize, limit := h.limit }

/-- **What a plugin is shown agrees with a spec.**

* equality: args, rlimits, hooks, OOM score, cgroups path, the DEVICE LIST (order included),
  every CPU field, the memory LIMIT, hugepage limits, pids;
* Go maps through `lookup`: annotations, unified;
* environment: the same finite map NAME ↦ value (`EnvEq`) — the view appends a re-set
  variable, the generator replaces it in place (`view_env_order_differs`);
* mounts: the same mounts up to order (`Perm`; with distinct destinations this is equality of
  the finite maps destination ↦ mount, `ViewAgrees.mounts_lookup`) — the view appends and never
  sorts, the generator sorts after every `AdjustMounts` (`view_mounts_order_differs`).

NOT part of the relation, because the two sides legitimately carry different things:
* memory fields other than the limit: the NRI container carries every field a plugin set, the
  generator applies only the limit — to limit AND swap (`view_memory_other_fields_differ`);
* block-I/O / RDT class: the container carries the class NAME, the spec the resolver's answer;
* CDI names, device cgroup rules, rootfs propagation: not part of the NRI container. -/
structure ViewAgrees (c : NApi.Container) (s : Oci.Spec) : Prop where
  args : s.args = c.args
  rlimits : s.rlimits = c.rlimits.map ociRlimit
  hooks : s.hooks = ociHooks c.hooks
  oomScoreAdj : s.oomScoreAdj = c.oomScoreAdj
  cgroupsPath : s.cgroupsPath = c.cgroupsPath
  annotations : MapEq c.annotations s.annotations
  env : EnvEq c.env s.env
  mounts : s.mounts.Perm (c.mounts.map mntConv)
  mountsNodup : NodupKeys Oci.Mount.destination s.mounts
  devices : s.devices = c.devices.map devConv
  cpu : s.cpu = ociCpu (c.resources.cpu.getD {})
  memLimit : s.memory.limit = (c.resources.memory.getD {}).limit
  hugepages : s.hugepages = c.resources.hugepages.map ociHugepage
  unified : MapEq c.resources.unified s.unified
  pids : s.pids = c.resources.pids

/-- mounts as finite maps destination ↦ mount -/
theorem ViewAgrees.mounts_lookup {c : NApi.Container} {s : Oci.Spec} (h : ViewAgrees c s) (k : Str) :
    find Oci.Mount.destination k s.mounts = find Oci.Mount.destination k (c.mounts.map mntConv) :=
  find_perm Oci.Mount.destination h.mounts h.mountsNodup k

/-- the invariant along a chain: `ViewAgrees` plus what keeps it going -/
structure ViewSim (c : NApi.Container) (s : Oci.Spec) : Prop extends ViewAgrees c s where
  /-- every entry of the shown environment is `NAME=value` -/
  envSplit : ∀ e ∈ c.env, ∃ n v, Env.splitEq e = some (n, v)
  envWF : Env.WF s.env
  devicesNodup : NodupKeys Oci.Device.path s.devices

/-! ### guards of the view agreement (beyond `WellFormed`) -/

/-- the adjustment does not request a memory limit of 0 (the generator ignores it — known
    finding C13:memory:limit-zero — while the view shows it) -/
def limitNonzero (a : NApi.Adjustment) : Bool := limitOf a != some 0

/-- no hugepage size of the adjustment is already in the ORIGINAL container (the view appends a
    second entry, the generator overwrites the first in place) -/
def hugeFresh (c0 : NApi.Container) (a : NApi.Adjustment) : Bool :=
  (hugeOf a).all fun h => !(c0.resources.hugepages.map (·.pageSize)).contains h.pageSize

/-- **the guards on one plugin's adjustment for the view agreement**: `WellFormed` (as C03),
    no memory limit 0, no hugepage size of the original container `c0` -/
def viewGuard (c0 : NApi.Container) (a : NApi.Adjustment) : Bool :=
  wellFormed a && limitNonzero a && hugeFresh c0 a

abbrev ViewGuard (c0 : NApi.Container) (a : NApi.Adjustment) : Prop := viewGuard c0 a = true

theorem ViewGuard.wf {c0 : NApi.Container} {a : NApi.Adjustment} (h : ViewGuard c0 a) : WellFormed a := by
  unfold ViewGuard viewGuard at h; simp only [Bool.and_eq_true] at h; exact h.1.1
theorem ViewGuard.limit {c0 : NApi.Container} {a : NApi.Adjustment} (h : ViewGuard c0 a) :
    limitNonzero a = true := by
  unfold ViewGuard viewGuard at h; simp only [Bool.and_eq_true] at h; exact h.1.2
theorem ViewGuard.huge {c0 : NApi.Container} {a : NApi.Adjustment} (h : ViewGuard c0 a) :
    hugeFresh c0 a = true := by
  unfold ViewGuard viewGuard at h; simp only [Bool.and_eq_true] at h; exact h.2

/-- what the ledger guarantees about ONE accepted adjustment against the view it was applied to:
    no key is set twice, and its hugepage sizes are new -/
structure StepFresh (c : NApi.Container) (a : NApi.Adjustment) : Prop where
  mounts : ((a.mounts.filter fun m => !Api.isMarked m.destination).map (·.destination)).Nodup
  env : ((a.env.filter fun e => !Api.isMarked e.key).map (·.key)).Nodup
  devices : (((devsOf a).filter fun d => !Api.isMarked d.path).map (·.path)).Nodup
  hugeNodup : ((hugeOf a).map (·.pageSize)).Nodup
  hugeNew : ∀ h ∈ hugeOf a, h.pageSize ∉ c.resources.hugepages.map (·.pageSize)

/-! ### the resources section of the overlay -/

theorem overlay_resources (c : NApi.Container) (a : NApi.Adjustment) :
    (overlayContainer c a).resources =
      (match resOf a with | some r => Result.overlayRes c.resources r r.pids | none => c.resources) := by
  unfold overlayContainer resOf
  cases hr : a.resources <;> cases hl : a.hasLinux <;> simp

theorem overlay_cpu (c : NApi.Container) (a : NApi.Adjustment) :
    (overlayContainer c a).resources.cpu.getD {} = Result.overlayCpu (c.resources.cpu.getD {}) (cpuOf a) := by
  rw [overlay_resources]
  unfold cpuOf
  cases hr : resOf a with
  | none => simp [Result.overlayCpu, Option.orElse]
  | some r => cases hc : r.cpu <;> simp [Result.overlayRes, hc, Result.overlayCpu, Option.orElse]

theorem overlay_limit (c : NApi.Container) (a : NApi.Adjustment) :
    ((overlayContainer c a).resources.memory.getD {}).limit =
      (limitOf a).orElse (fun _ => (c.resources.memory.getD {}).limit) := by
  rw [overlay_resources]
  unfold limitOf
  cases hr : resOf a with
  | none => simp [Option.orElse]
  | some r => cases hc : r.memory <;> simp [Result.overlayRes, hc, Result.overlayMem, Option.orElse]

theorem overlay_hugepages (c : NApi.Container) (a : NApi.Adjustment) :
    (overlayContainer c a).resources.hugepages = c.resources.hugepages ++ hugeOf a := by
  rw [overlay_resources]
  unfold hugeOf
  cases hr : resOf a <;> simp [Result.overlayRes]

theorem overlay_unified (c : NApi.Container) (a : NApi.Adjustment) :
    (overlayContainer c a).resources.unified = unifiedG c.resources.unified a := by
  rw [overlay_resources, unifiedG_eq]
  unfold uniOf Resources.applyUnified
  have hf : (fun (m : AList Str Str) (x : Str × Str) => match x with | (k, v) => AList.insert m k v) =
      (fun m e => AList.insert m e.1 e.2) := by funext m ⟨k, v⟩; rfl
  cases hr : resOf a <;> simp [Result.overlayRes, hf]

theorem overlay_pids (c : NApi.Container) (a : NApi.Adjustment) :
    (overlayContainer c a).resources.pids = pidsG c.resources.pids a := by
  rw [overlay_resources, pidsG_eq]
  unfold pidsOf
  cases hr : resOf a <;> simp [Result.overlayRes, Option.orElse]

/-! ### scalar and append-only fields -/

theorem ociCpu_overlay (b r : NApi.Cpu) :
    ociCpu (Result.overlayCpu b r) = Resources.applyCpu (ociCpu b) (toGenCpu r) := by
  simp only [applyCpu_eq, toGenCpu, Result.overlayCpu, ociCpu]
  obtain ⟨sh, qu, pe, rr, rp, cpus, mems⟩ := r
  cases sh <;> cases qu <;> cases pe <;> cases rr <;> cases rp <;>
    by_cases h1 : cpus = [] <;> by_cases h2 : mems = [] <;> simp [h1, h2, Option.orElse]

theorem overlay_args (c : NApi.Container) (a : NApi.Adjustment) (h : argsOk a.args = true) :
    (overlayContainer c a).args = argsG c.args a := by
  unfold argsG
  simp only [toGen_args]
  show (match a.args with | [] => c.args | x :: rest => if x = [] then rest else x :: rest) = _
  cases hargs : a.args with
  | nil => simp [Args.apply]
  | cons y rest =>
    cases y with
    | nil =>
      rw [hargs] at h
      cases rest with
      | nil => simp [argsOk] at h
      | cons z r2 => simp [Args.apply]
    | cons ch cs => simp [Args.apply]

theorem overlay_rlimits (c : NApi.Container) (a : NApi.Adjustment) :
    (overlayContainer c a).rlimits.map ociRlimit = rlimitsG (c.rlimits.map ociRlimit) a := by
  show (c.rlimits ++ a.rlimits).map ociRlimit = _
  simp [rlimitsG, ociRlimit, List.map_append]

theorem ociHooks_append (a b : NApi.Hooks) :
    ociHooks (a.append b) = Hooks.apply (ociHooks a) (toGenHooks b) := by
  simp [ociHooks, Hooks.apply, toGenHooks, NApi.Hooks.append, List.map_append]

theorem overlay_hooks (c : NApi.Container) (a : NApi.Adjustment) :
    ociHooks (overlayContainer c a).hooks = hooksG (ociHooks c.hooks) a := by
  show ociHooks (match a.hooks with | some h => c.hooks.append h | none => c.hooks) = _
  unfold hooksG
  rw [toGen_hooks]
  cases hh : a.hooks with
  | none => simp
  | some h => simp [ociHooks_append]

theorem overlay_oom (c : NApi.Container) (a : NApi.Adjustment) :
    (overlayContainer c a).oomScoreAdj = oomG c.oomScoreAdj a := by
  show (if a.hasLinux then a.oomScoreAdj.orElse (fun _ => c.oomScoreAdj) else c.oomScoreAdj) = _
  unfold oomG
  rw [toGen_oomScoreAdj]
  cases a.hasLinux
  · simp
  · cases a.oomScoreAdj <;> simp [Option.orElse]

theorem overlay_cgroups (c : NApi.Container) (a : NApi.Adjustment) :
    (overlayContainer c a).cgroupsPath = cgroupsG c.cgroupsPath a := by
  show (if a.hasLinux && a.cgroupsPath ≠ [] then a.cgroupsPath else c.cgroupsPath) = _
  unfold cgroupsG
  rw [toGen_cgroupsPath]
  cases a.hasLinux
  · simp
  · by_cases hc : a.cgroupsPath = [] <;> simp [hc]

/-! ### annotations: the overlay IS the generator's two passes -/

theorem foldl_erase_delKeys (keys : List (Str × Str)) (m : AList Str Str) :
    (Result.delKeys (keys.map (·.1))).foldl (fun m k => AList.erase m k) m =
      keys.foldl (fun m e => if Api.isMarked e.1 then AList.erase m (Api.stripMarker e.1) else m) m := by
  induction keys generalizing m with
  | nil => rfl
  | cons e r ih =>
    simp only [List.map_cons, List.foldl_cons]
    cases hm : Api.isMarked e.1
    · have : Result.delKeys (e.1 :: r.map (·.1)) = Result.delKeys (r.map (·.1)) := by
        simp [Result.delKeys, List.filterMap_cons, hm]
      rw [this]; simp only [Bool.false_eq_true, if_false]; exact ih m
    · have : Result.delKeys (e.1 :: r.map (·.1)) = Api.stripMarker e.1 :: Result.delKeys (r.map (·.1)) := by
        simp [Result.delKeys, List.filterMap_cons, hm]
      rw [this]; simp only [List.foldl_cons, if_true]; exact ih _

theorem foldl_insert_unmarked (keys : List (Str × Str)) (m : AList Str Str) :
    (keys.filter fun (k, _) => !(NApi.isMarked k).2).foldl (fun m (k, v) => AList.insert m k v) m =
      keys.foldl (fun m e => if Api.isMarked e.1 then m else AList.insert m e.1 e.2) m := by
  have hf : (fun (m : AList Str Str) (x : Str × Str) => match x with | (k, v) => AList.insert m k v) =
      (fun m e => AList.insert m e.1 e.2) := by funext m ⟨k, v⟩; rfl
  have hp : (fun (x : Str × Str) => match x with | (k, _) => !(NApi.isMarked k).2) =
      (fun e => !Api.isMarked e.1) := by funext ⟨k, v⟩; simp
  rw [hf, hp]
  induction keys generalizing m with
  | nil => rfl
  | cons e r ih =>
    simp only [List.filter_cons, List.foldl_cons]
    cases hm : Api.isMarked e.1
    · simp only [Bool.not_false, if_true, List.foldl_cons, Bool.false_eq_true, if_false]; exact ih _
    · simp only [Bool.not_true, Bool.false_eq_true, if_false, if_true]; exact ih _

theorem overlay_annotations (c : NApi.Container) (a : NApi.Adjustment) :
    (overlayContainer c a).annotations = annG c.annotations a := by
  show (a.annotations.filter fun (k, _) => !(NApi.isMarked k).2).foldl (fun m (k, v) => AList.insert m k v)
      ((Ledger.markedKeys (a.annotations.map (·.1))).foldl (fun m k => AList.erase m k) c.annotations) = _
  unfold annG Annotations.apply Annotations.sets Annotations.removals
  rw [toGen_annotations, foldl_insert_unmarked]
  show List.foldl _ ((Result.delKeys (a.annotations.map (·.1))).foldl (fun m k => AList.erase m k) c.annotations) _ = _
  rw [foldl_erase_delKeys]

/-! ### keyed lists: with distinct set keys `putAll` appends -/

theorem putAll_nodup {α : Type} (key : α → Str) (l S : List α) (h : (S.map key).Nodup) :
    putAll key l S = l.filter (fun x => !(S.map key).contains (key x)) ++ S := by
  induction S generalizing l with
  | nil =>
    simp only [putAll, List.foldl_nil, List.map_nil, List.contains_nil, Bool.not_false, List.append_nil]
    exact (List.filter_eq_self.2 (fun _ _ => rfl)).symm
  | cons y r ih =>
    simp only [List.map_cons, List.nodup_cons] at h
    simp only [putAll, List.foldl_cons] at ih ⊢
    rw [ih _ h.2, List.filter_append, List.filter_filter]
    have hy : (!(r.map key).contains (key y)) = true := by simpa using h.1
    simp only [List.filter_cons, List.filter_nil, hy, if_true, List.append_assoc, List.singleton_append]
    congr 1
    apply List.filter_congr
    intro x _
    simp only [List.map_cons, List.contains_cons, Bool.not_or, bne, Bool.and_comm]

/-- the overlay's "drop what is removed or set again, append the sets" is the generator's two
    passes, when no key is set twice -/
theorem overlay_keyed {α ε : Type} (key : α → Str) (rawKey : ε → Str) (conv : ε → α)
    (hconv : ∀ e, key (conv e) = rawKey e) (C : List ε) (L : List ε)
    (hn : ((L.filter fun e => !Api.isMarked (rawKey e)).map rawKey).Nodup) :
    ((C.filter fun m => !(Result.delKeys (L.map rawKey)).contains (rawKey m) &&
        !((L.filter fun e => !(NApi.isMarked (rawKey e)).2).map rawKey).contains (rawKey m)) ++
      (L.filter fun e => !(NApi.isMarked (rawKey e)).2)).map conv =
      twoPass key rawKey conv (C.map conv) L := by
  unfold twoPass
  have hS : (setsOf rawKey conv L).map key = (L.filter fun e => !Api.isMarked (rawKey e)).map rawKey := by
    unfold setsOf; rw [List.map_map]; apply List.map_congr_left; intro e _; exact hconv e
  rw [putAll_nodup key _ _ (by rw [hS]; exact hn), List.map_append, List.filter_filter, hS]
  congr 1
  · rw [List.filter_map]
    congr 1
    apply List.filter_congr
    intro m _
    simp only [Function.comp, hconv, isMarked_snd, delKeys_contains, List.any_map, delOf, Bool.and_comm]
    rfl
  · simp [setsOf]

/-! ### environment -/

theorem envKey_of_split {e n v : Str} (h : Env.splitEq e = some (n, v)) : NApi.envKey e = n := by
  induction e generalizing n v with
  | nil => simp [Env.splitEq] at h
  | cons c r ih =>
    unfold Env.splitEq at h
    unfold NApi.envKey
    by_cases hc : c = '='
    · simp only [hc, if_true, Option.some.injEq, Prod.mk.injEq] at h ⊢; exact h.1
    · simp only [hc, if_false] at h ⊢
      cases hs : Env.splitEq r with
      | none => rw [hs] at h; cases h
      | some p =>
        obtain ⟨n', v'⟩ := p
        rw [hs] at h
        simp only [Option.some.injEq, Prod.mk.injEq] at h
        rw [← h.1, ih hs]

theorem env_lookup_append (A B : List Str) (k : Str) :
    Env.lookup (A ++ B) k = (Env.lookup A k).or (Env.lookup B k) := by
  induction A with
  | nil => simp [Env.lookup]
  | cons e r ih =>
    simp only [List.cons_append, Env.lookup]
    cases hs : Env.splitEq e with
    | none => simpa using ih
    | some p =>
      obtain ⟨n, v⟩ := p
      by_cases hn : n = k
      · simp [hn]
      · simpa [hn] using ih

theorem env_lookup_filter (l : List Str) (q : Str → Bool) (hs : ∀ e ∈ l, ∃ n v, Env.splitEq e = some (n, v))
    (k : Str) :
    Env.lookup (l.filter fun e => q (NApi.envKey e)) k = if q k then Env.lookup l k else none := by
  induction l with
  | nil => simp [Env.lookup]
  | cons e r ih =>
    obtain ⟨n, v, hsp⟩ := hs e (by simp)
    have ih := ih (fun x hx => hs x (List.mem_cons_of_mem _ hx))
    simp only [List.filter_cons, envKey_of_split hsp]
    by_cases hn : n = k
    · subst hn
      cases hq : q n
      · simp only [Bool.false_eq_true, if_false] at ih ⊢; rw [ih]; simp [hq]
      · simp [Env.lookup, hsp]
    · cases hq : q n
      · simp only [Bool.false_eq_true, if_false]
        rw [ih]; simp [Env.lookup, hsp, hn]
      · simp only [if_true, Env.lookup, hsp, hn, if_false]
        exact ih

theorem mem_of_not_mem_strip {c : Char} {k : Str} (hm : Api.isMarked k = false) (h : c ∉ Api.stripMarker k) :
    c ∉ k := by rwa [Api.strip_of_not_marked hm] at h

/-- the value of `k` among the rendered set entries (distinct names without `'='`) -/
theorem env_lookup_sets (S : List NApi.KeyValue) (hne : ∀ e ∈ S, '=' ∉ e.key)
    (hn : (S.map (·.key)).Nodup) (k : Str) :
    Env.lookup (S.map NApi.KeyValue.toOCI) k =
      (lastMatch (fun e : NApi.KeyValue => e.key == k) S).map (·.value) := by
  induction S with
  | nil => rfl
  | cons e r ih =>
    simp only [List.map_cons, List.nodup_cons] at hn
    have ih := ih (fun x hx => hne x (List.mem_cons_of_mem _ hx)) hn.2
    have hsp : Env.splitEq (NApi.KeyValue.toOCI e) = some (e.key, e.value) :=
      Env.splitEq_render e.key e.value (hne e (by simp))
    simp only [List.map_cons, Env.lookup, hsp, lastMatch]
    by_cases hk : e.key = k
    · subst hk
      have : lastMatch (fun x : NApi.KeyValue => x.key == e.key) r = none := by
        rw [lastMatch_none_iff]; intro x hx
        have : x.key ≠ e.key := fun h2 => hn.1 (List.mem_map.2 ⟨x, hx, h2⟩)
        simpa using this
      simp [this]
    · have hb : (e.key == k) = false := by simpa using hk
      simp only [hk, if_false, ih, hb]
      cases lastMatch (fun x : NApi.KeyValue => x.key == k) r <;> simp

theorem overlay_env_lookup (c : NApi.Container) (a : NApi.Adjustment)
    (hs : ∀ e ∈ c.env, ∃ n v, Env.splitEq e = some (n, v))
    (hk : EnvKeysOk a) (hn : ((a.env.filter fun e => !Api.isMarked e.key).map (·.key)).Nodup) (k : Str) :
    Env.lookup (overlayContainer c a).env k = envEffect a.env k (Env.lookup c.env k) := by
  show Env.lookup ((c.env.filter fun s =>
      !(Result.delKeys (a.env.map (·.key))).contains (NApi.envKey s) &&
      !((a.env.filter fun e => !(NApi.isMarked e.key).2).map (·.key)).contains (NApi.envKey s)) ++
      (a.env.filter fun e => !(NApi.isMarked e.key).2).map NApi.KeyValue.toOCI) k = _
  rw [env_lookup_append]
  rw [env_lookup_filter c.env (fun n => !(Result.delKeys (a.env.map (·.key))).contains n &&
      !((a.env.filter fun e => !(NApi.isMarked e.key).2).map (·.key)).contains n) hs k]
  have hset : (a.env.filter fun e => !(NApi.isMarked e.key).2) = a.env.filter fun e => !Api.isMarked e.key := by
    apply List.filter_congr; intro e _; rw [isMarked_snd]
  rw [hset]
  have hne : ∀ e ∈ a.env.filter (fun e => !Api.isMarked e.key), '=' ∉ e.key := by
    intro e he
    simp only [List.mem_filter, Bool.not_eq_true'] at he
    exact mem_of_not_mem_strip he.2 (hk e he.1)
  rw [env_lookup_sets _ hne hn k, Env.lastMatch_filter]
  unfold envEffect
  rw [delKeys_contains, List.any_map]
  have hd : (a.env.any ((fun x => Api.isMarked x && Api.stripMarker x == k) ∘ fun x : NApi.KeyValue => x.key)) =
      delOf (fun e : NApi.KeyValue => e.key) a.env k := rfl
  rw [hd]
  have hc : ((a.env.filter fun e => !Api.isMarked e.key).map (·.key)).contains k =
      (lastMatch (fun e : NApi.KeyValue => !Api.isMarked e.key && e.key == k) a.env).isSome := by
    rw [lastMatch_isSome_iff, Bool.eq_iff_iff]
    simp only [List.contains_iff_mem, List.mem_map, List.mem_filter, Bool.not_eq_true', List.any_eq_true,
      Bool.and_eq_true, beq_iff_eq]
    constructor
    · rintro ⟨e, ⟨he, hm⟩, hek⟩; exact ⟨e, he, hm, hek⟩
    · rintro ⟨e, he, hm, hek⟩; exact ⟨e, ⟨he, hm⟩, hek⟩
  rw [hc]
  cases hl : lastMatch (fun e : NApi.KeyValue => !Api.isMarked e.key && e.key == k) a.env with
  | some e => cases delOf (fun e : NApi.KeyValue => e.key) a.env k <;> simp
  | none => cases delOf (fun e : NApi.KeyValue => e.key) a.env k <;> simp

theorem overlay_env_split (c : NApi.Container) (a : NApi.Adjustment)
    (hs : ∀ e ∈ c.env, ∃ n v, Env.splitEq e = some (n, v)) (hk : EnvKeysOk a) :
    ∀ e ∈ (overlayContainer c a).env, ∃ n v, Env.splitEq e = some (n, v) := by
  intro e he
  have he : e ∈ (c.env.filter fun s =>
      !(Result.delKeys (a.env.map (·.key))).contains (NApi.envKey s) &&
      !((a.env.filter fun e => !(NApi.isMarked e.key).2).map (·.key)).contains (NApi.envKey s)) ++
      (a.env.filter fun e => !(NApi.isMarked e.key).2).map NApi.KeyValue.toOCI := he
  rcases List.mem_append.1 he with h | h
  · exact hs e (List.mem_filter.1 h).1
  · obtain ⟨x, hx, rfl⟩ := List.mem_map.1 h
    simp only [List.mem_filter, isMarked_snd, Bool.not_eq_true'] at hx
    exact ⟨x.key, x.value, Env.splitEq_render x.key x.value (mem_of_not_mem_strip hx.2 (hk x hx.1))⟩

/-! ### hugepages -/

theorem addHugepage_fresh (l : List Oci.HugepageLimit) (h : Api.HugepageLimit)
    (hf : h.pageSize ∉ l.map (·.pageSize)) :
    Resources.addHugepage l h = l ++ [{ pageSize := h.pageSize, limit := h.limit }] := by
  induction l with
  | nil => rfl
  | cons x r ih =>
    simp only [List.map_cons, List.mem_cons, not_or] at hf
    unfold Resources.addHugepage
    have : ¬ x.pageSize = h.pageSize := fun e => hf.1 e.symm
    simp only [this, if_false, List.cons_append]
    rw [ih hf.2]

theorem applyHugepages_fresh (l : List Oci.HugepageLimit) (hs : List NApi.Hugepage)
    (hn : (hs.map (·.pageSize)).Nodup) (hf : ∀ h ∈ hs, h.pageSize ∉ l.map (·.pageSize)) :
    Resources.applyHugepages l (hs.map toGenHugepage) = l ++ hs.map ociHugepage := by
  unfold Resources.applyHugepages
  induction hs generalizing l with
  | nil => simp
  | cons h r ih =>
    simp only [List.map_cons, List.nodup_cons] at hn
    simp only [List.map_cons, List.foldl_cons]
    rw [addHugepage_fresh l (toGenHugepage h) (hf h (by simp))]
    rw [ih _ hn.2]
    · simp [toGenHugepage, ociHugepage]
    · intro x hx hm
      simp only [List.map_append, List.map_cons, List.map_nil, List.mem_append, List.mem_singleton] at hm
      rcases hm with hm | hm
      · exact hf x (List.mem_cons_of_mem _ hx) hm
      · exact hn.1 (List.mem_map.2 ⟨x, hx, hm⟩)

/-! ### the per-adjustment simulation -/

/-- **One plugin's adjustment**: if the container `c` a plugin was shown simulates the spec
    `x`, then the NRI-level overlay of its adjustment `a` on `c` — what the NEXT plugin is
    shown — simulates the spec `Generator.Adjust` makes of `x` with `toGen a`. -/
theorem viewSim_step {ext : Externals} {bad : List Str}
    (hi : ext.injectCDI = some (recordingInjector bad) ∨ ext.injectCDI = none)
    (c : NApi.Container) (x x' : Oci.Spec) (a : NApi.Adjustment)
    (hsim : ViewSim c x) (hwf : WellFormed a) (hz : limitNonzero a = true) (hf : StepFresh c a)
    (h : adjust ext x (toGen a) = .ok x') :
    ViewSim (overlayContainer c a) x' := by
  have w := wfParts a (wellFormed_core a hwf)
  obtain ⟨cd, bl, r, mp, _, _, _, hm, e⟩ := adjust_ok_parts hi h
  have hmnt := mounts_apply_noprop ext.hostPropagation x.mounts x.rootfsPropagation a hsim.mountsNodup
    (wellFormed_noProp a hwf)
  rw [hmnt] at hm
  cases hm
  subst e
  refine ⟨⟨?_, ?_, ?_, ?_, ?_, ?_, ?_, ?_, ?_, ?_, ?_, ?_, ?_, ?_, ?_⟩, ?_, ?_, ?_⟩
  · -- args
    show argsG x.args a = _
    rw [overlay_args c a w.args, hsim.args]
  · show rlimitsG x.rlimits a = _
    rw [overlay_rlimits, hsim.rlimits]
  · show hooksG x.hooks a = _
    rw [overlay_hooks, hsim.hooks]
  · show oomG x.oomScoreAdj a = _
    rw [overlay_oom, hsim.oomScoreAdj]
  · show cgroupsG x.cgroupsPath a = _
    rw [overlay_cgroups, hsim.cgroupsPath]
  · show MapEq _ (annG x.annotations a)
    rw [overlay_annotations]
    exact annG_cong _ _ a hsim.annotations
  · -- env
    show EnvEq _ (envG x.env a)
    intro k hk
    rw [overlay_env_lookup c a hsim.envSplit w.envKeys hf.env k, lookup_envG x.env a hsim.envWF w.envKeys k hk,
      hsim.env k hk]
  · -- mounts
    show (mntG x.mounts a).Perm _
    have hov : (overlayContainer c a).mounts.map mntConv =
        twoPass Oci.Mount.destination (fun m : NApi.Mount => m.destination) mntConv (c.mounts.map mntConv) a.mounts :=
      overlay_keyed Oci.Mount.destination (fun m : NApi.Mount => m.destination) mntConv (fun _ => rfl)
        c.mounts a.mounts hf.mounts
    rw [hov]
    unfold mntG
    by_cases ha : a.mounts = []
    · simp only [ha, if_true, twoPass_nil]; exact hsim.mounts
    · simp only [ha, if_false]
      exact (Mounts.sortMounts_perm _).trans (twoPass_perm _ _ _ _ hsim.mounts)
  · exact mntG_nodup _ a hsim.mountsNodup
  · -- devices
    show (devG (x.devices, x.devRules) a).1 = _
    rw [devG_fst _ _ hsim.devicesNodup]
    simp only
    rw [hsim.devices]
    by_cases hl : a.hasLinux = true
    · have hd : devsOf a = a.devices := by simp [devsOf, hl]
      have := overlay_keyed Oci.Device.path (fun d : NApi.Device => d.path) devConv (fun _ => rfl)
        c.devices a.devices (by rw [← hd]; exact hf.devices)
      rw [hd, ← this]
      show _ = List.map devConv (if a.hasLinux then _ else c.devices)
      rw [if_pos hl]
    · have hl' : a.hasLinux = false := by simpa using hl
      have hd : devsOf a = [] := by simp [devsOf, hl']
      rw [hd, twoPass_nil]
      show _ = List.map devConv (if a.hasLinux then _ else c.devices)
      simp [hl']
  · -- cpu
    show cpuG x.cpu a = _
    rw [cpuG_eq, overlay_cpu, ociCpu_overlay, hsim.cpu]
  · -- memory limit
    show (memG x.memory a).limit = _
    rw [memG_eq, overlay_limit, ← hsim.memLimit]
    unfold limitNonzero at hz
    cases hl : limitOf a with
    | none => simp [applyLimit, Option.orElse]
    | some l =>
      have : l ≠ 0 := by intro h0; rw [hl, h0] at hz; simp at hz
      simp [applyLimit, Option.orElse, this]
  · -- hugepages
    show hugeG x.hugepages a = _
    rw [hugeG_eq, overlay_hugepages, hsim.hugepages, List.map_append]
    apply applyHugepages_fresh _ _ hf.hugeNodup
    intro h hh hm
    apply hf.hugeNew h hh
    rw [List.map_map] at hm
    exact hm
  · show MapEq _ (unifiedG x.unified a)
    rw [overlay_unified]
    exact unifiedG_cong _ _ a hsim.unified
  · show pidsG x.pids a = _
    rw [overlay_pids, hsim.pids]
  · exact overlay_env_split c a hsim.envSplit w.envKeys
  · exact envG_wf x.env a hsim.envWF w.envKeys
  · exact devG_nodup (x.devices, x.devRules) a hsim.devicesNodup

end Nri.Compose
