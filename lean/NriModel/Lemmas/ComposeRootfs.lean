/-
C03, rootfs propagation when mounts carry propagation options (outside `WellFormed`).
`AdjustMounts` raises `Linux.RootfsPropagation` to the highest level (`rshared` > `rslave` >
anything else) any of its mounts asks for — through a `propagation` variable that is sticky
across the entries of one call — and never lowers it.  Sequentially the level raised for a
mount that a later plugin removes or replaces stays; the combined reply no longer contains
that mount.  Hence: combined ⊑ sequential (`RootfsLe`), not equality.  Core Lean only.
-/
import NriModel.Lemmas.ComposeMounts

namespace Nri.Compose
open Nri Nri.Generate

/-- level of a propagation mode -/
def lvl (p : Str) : Nat := if p = str "rshared" then 2 else if p = str "rslave" then 1 else 0

theorem lvl_le (p : Str) : lvl p ≤ 2 := by unfold lvl; split <;> (try split) <;> omega

/-- the canonical mode of a level ≥ 1 -/
def canon (M : Nat) : Str := if 2 ≤ M then str "rshared" else str "rslave"

/-- rootfs propagation `r` after being raised to level `M` -/
def raiseTo (r : Str) (M : Nat) : Str := if M ≤ lvl r then r else canon M

/-- **combined ⊑ sequential** for the rootfs propagation: equal, or the sequential one is
    strictly more shared -/
def RootfsLe (c s : Str) : Prop := c = s ∨ lvl c < lvl s

theorem lvl_rshared : lvl (str "rshared") = 2 := by decide
theorem lvl_rslave : lvl (str "rslave") = 1 := by decide

theorem lvl_canon (M : Nat) (h1 : 1 ≤ M) (h2 : M ≤ 2) : lvl (canon M) = M := by
  unfold canon
  by_cases h : 2 ≤ M
  · simp only [h, if_true, lvl_rshared]; omega
  · simp only [h, if_false, lvl_rslave]; omega

theorem lvl_raiseTo (r : Str) (M : Nat) (h2 : M ≤ 2) : lvl (raiseTo r M) = max (lvl r) M := by
  unfold raiseTo
  by_cases h : M ≤ lvl r
  · simp only [h, if_true]; omega
  · simp only [h, if_false]; rw [lvl_canon M (by omega) h2]; omega

theorem raiseTo_zero (r : Str) : raiseTo r 0 = r := by simp [raiseTo]

theorem raiseTo_raiseTo (r : Str) (M1 M2 : Nat) (h1 : M1 ≤ 2) (_h2 : M2 ≤ 2) :
    raiseTo (raiseTo r M1) M2 = raiseTo r (max M1 M2) := by
  have hl := lvl_raiseTo r M1 h1
  unfold raiseTo at hl ⊢
  by_cases a : M1 ≤ lvl r
  · simp only [a, if_true] at hl ⊢
    by_cases b : M2 ≤ lvl r
    · have : max M1 M2 ≤ lvl r := by omega
      simp [b, this]
    · have : ¬ max M1 M2 ≤ lvl r := by omega
      have e : max M1 M2 = M2 := by omega
      simp [b, this, e]
  · simp only [a, if_false] at hl ⊢
    have n : ¬ max M1 M2 ≤ lvl r := by omega
    simp only [n, if_false]
    by_cases b : M2 ≤ lvl (canon M1)
    · simp only [b, if_true]
      have : max M1 M2 = M1 := by omega
      rw [this]
    · simp only [b, if_false]
      have : max M1 M2 = M2 := by omega
      rw [this]

theorem rootfsLe_raiseTo (r : Str) (Mc Ms : Nat) (h : Mc ≤ Ms) (h2 : Ms ≤ 2) :
    RootfsLe (raiseTo r Mc) (raiseTo r Ms) := by
  unfold RootfsLe
  by_cases e : Mc = Ms
  · left; rw [e]
  · by_cases a : Ms ≤ lvl r
    · left
      have : Mc ≤ lvl r := by omega
      simp [raiseTo, a, this]
    · right
      rw [lvl_raiseTo r Mc (by omega), lvl_raiseTo r Ms h2]
      omega

/-! ### one `AdjustMounts` call -/

/-- the highest level among the EFFECTIVE propagation modes of the unmarked entries, the
    `propagation` variable starting at `p` -/
def effMax : Str → List Api.Mount → Nat
  | _, [] => 0
  | p, m :: r =>
    if Api.isMarked m.destination then effMax p r
    else max (lvl (m.propagationQuery p)) (effMax (m.propagationQuery p) r)

/-- the highest level any unmarked entry asks for by its own options -/
def ownMax : List Api.Mount → Nat
  | [] => 0
  | m :: r => if Api.isMarked m.destination then ownMax r else max (lvl (m.propagationQuery [])) (ownMax r)

theorem effMax_le (p : Str) (L : List Api.Mount) : effMax p L ≤ 2 := by
  induction L generalizing p with
  | nil => simp [effMax]
  | cons m r ih =>
    unfold effMax
    split
    · exact ih p
    · have := lvl_le (m.propagationQuery p); have := ih (m.propagationQuery p); omega

theorem raise_eq (st : Mounts.State) (hp : Str → Str) (m : Api.Mount) (st' : Mounts.State)
    (h : Mounts.setStep hp st m = .ok st') :
    st'.rootfs = raiseTo st.rootfs (lvl (m.propagationQuery st.prop)) ∧ st'.prop = m.propagationQuery st.prop := by
  unfold Mounts.setStep at h
  simp only at h
  by_cases h1 : m.propagationQuery st.prop = str "rshared"
  · simp only [h1, if_true] at h
    split at h
    · cases h
      refine ⟨?_, h1.symm⟩
      rw [h1, lvl_rshared]
      unfold raiseTo
      by_cases a : 2 ≤ lvl st.rootfs
      · simp only [a, if_true]
        unfold lvl at a
        by_cases b : st.rootfs = str "rshared"
        · exact b.symm
        · simp only [b, if_false] at a; split at a <;> omega
      · simp [a, canon]
    · cases h
  · simp only [h1, if_false] at h
    by_cases h2 : m.propagationQuery st.prop = str "rslave"
    · simp only [h2, if_true] at h
      split at h
      · cases h
        refine ⟨?_, h2.symm⟩
        rw [h2, lvl_rslave]
        unfold raiseTo lvl canon
        by_cases b : st.rootfs = str "rshared"
        · simp [b]
        · by_cases c : st.rootfs = str "rslave"
          · simp [c]
          · simp [b, c]
      · cases h
    · simp only [h2, if_false] at h
      cases h
      refine ⟨?_, rfl⟩
      have : lvl (m.propagationQuery st.prop) = 0 := by simp [lvl, h1, h2]
      rw [this, raiseTo_zero]

theorem sets_rootfs (hp : Str → Str) (L : List Api.Mount) (st st' : Mounts.State)
    (h : Mounts.sets hp st L = .ok st') : st'.rootfs = raiseTo st.rootfs (effMax st.prop L) := by
  induction L generalizing st with
  | nil => simp only [Mounts.sets] at h; cases h; simp [effMax, raiseTo_zero]
  | cons m r ih =>
    simp only [Mounts.sets] at h
    unfold effMax
    by_cases hm : Api.isMarked m.destination = true
    · simp only [hm, if_true] at h ⊢; exact ih st h
    · simp only [hm, Bool.false_eq_true, if_false] at h ⊢
      cases hs : Mounts.setStep hp st m with
      | error e => rw [hs] at h; cases h
      | ok st1 =>
        rw [hs] at h
        obtain ⟨e1, e2⟩ := raise_eq st hp m st1 hs
        rw [ih st1 h, e1, e2, raiseTo_raiseTo _ _ _ (lvl_le _) (effMax_le _ _)]

/-- the rootfs propagation after ANY successful `AdjustMounts` -/
theorem mounts_apply_rootfs (hp : Str → Str) (ms : List Oci.Mount) (rootfs : Str) (L : List Api.Mount)
    (mp : List Oci.Mount × Str) (h : Mounts.apply hp ms rootfs L = .ok mp) :
    mp.2 = raiseTo rootfs (effMax [] L) := by
  unfold Mounts.apply at h
  cases L with
  | nil => simp at h; cases h; simp [effMax, raiseTo_zero]
  | cons m0 r0 =>
    simp only [List.isEmpty_cons, Bool.false_eq_true, if_false] at h
    split at h
    · rename_i st hst
      cases h
      exact sets_rootfs hp _ _ st hst
    · cases h

/-! ### effective vs own levels -/

theorem query_dichotomy (m : Api.Mount) (p : Str) :
    m.propagationQuery p = m.propagationQuery [] ∨ (m.propagationQuery p = p ∧ m.propagationQuery [] = []) := by
  unfold Api.Mount.propagationQuery
  generalize m.options = os
  induction os generalizing p with
  | nil => right; exact ⟨rfl, rfl⟩
  | cons o r ih =>
    simp only [List.foldl_cons]
    by_cases ho : Api.isPropagationOpt o = true
    · simp only [ho, if_true]; left; trivial
    · simp only [ho, Bool.false_eq_true, if_false]; exact ih p

theorem lvl_nil : lvl [] = 0 := by decide

theorem effMax_bounds (p : Str) (L : List Api.Mount) :
    ownMax L ≤ effMax p L ∧ effMax p L ≤ max (lvl p) (ownMax L) := by
  induction L generalizing p with
  | nil => simp [effMax, ownMax]
  | cons m r ih =>
    unfold effMax ownMax
    by_cases hm : Api.isMarked m.destination = true
    · simp only [hm, if_true]; exact ih p
    · simp only [hm, Bool.false_eq_true, if_false]
      obtain ⟨i1, i2⟩ := ih (m.propagationQuery p)
      rcases query_dichotomy m p with e | ⟨e1, e2⟩
      · rw [e] at i1 i2 ⊢
        constructor <;> omega
      · rw [e1] at i1 i2 ⊢
        rw [e2, lvl_nil]
        constructor <;> omega

theorem effMax_nil_eq (L : List Api.Mount) : effMax [] L = ownMax L := by
  have := effMax_bounds [] L
  rw [lvl_nil] at this
  omega

theorem ownMax_le_of (L : List Api.Mount) (B : Nat)
    (h : ∀ m ∈ L, Api.isMarked m.destination = false → lvl (m.propagationQuery []) ≤ B) : ownMax L ≤ B := by
  induction L with
  | nil => simp [ownMax]
  | cons m r ih =>
    unfold ownMax
    have hr := ih (fun x hx => h x (List.mem_cons_of_mem _ hx))
    by_cases hm : Api.isMarked m.destination = true
    · simp only [hm, if_true]; exact hr
    · simp only [hm, Bool.false_eq_true, if_false]
      have := h m (by simp) (by simpa using hm)
      omega

theorem le_ownMax (L : List Api.Mount) (m : Api.Mount) (hm : m ∈ L) (hu : Api.isMarked m.destination = false) :
    lvl (m.propagationQuery []) ≤ ownMax L := by
  induction L with
  | nil => cases hm
  | cons x r ih =>
    unfold ownMax
    rcases List.mem_cons.mp hm with rfl | hm
    · simp only [hu, Bool.false_eq_true, if_false]; omega
    · have := ih hm
      split <;> omega

/-! ### along the chain -/

/-- the level one plugin's mounts raise the rootfs propagation to -/
def mntLvl (a : NApi.Adjustment) : Nat := effMax [] (toGen a).mounts

theorem mem_foldl_mounts (as : List NApi.Adjustment) (R : NApi.Adjustment) (m : NApi.Mount)
    (h : m ∈ (as.foldl replyStep R).mounts) : m ∈ R.mounts ∨ ∃ a ∈ as, m ∈ a.mounts := by
  induction as generalizing R with
  | nil => exact .inl h
  | cons a rest ih =>
    simp only [List.foldl_cons] at h
    rcases ih (replyStep R a) h with h1 | ⟨b, hb, hm⟩
    · have h1 : m ∈ keyedStep (·.destination) R.mounts a.mounts := h1
      unfold keyedStep at h1
      simp only [List.mem_append, List.mem_filter] at h1
      rcases h1 with (h1 | h1) | h1
      · exact .inl h1.1
      · exact .inr ⟨a, by simp, h1.1⟩
      · exact .inr ⟨a, by simp, (mem_loneOf _ h1).1⟩
    · exact .inr ⟨b, List.mem_cons_of_mem _ hb, hm⟩

theorem foldl_max_le (as : List NApi.Adjustment) (acc : Nat) (a : NApi.Adjustment) (ha : a ∈ as) :
    mntLvl a ≤ as.foldl (fun acc a => max acc (mntLvl a)) acc := by
  have mono : ∀ (l : List NApi.Adjustment) (x : Nat), x ≤ l.foldl (fun acc a => max acc (mntLvl a)) x := by
    intro l
    induction l with
    | nil => intro x; exact Nat.le_refl _
    | cons b r ih => intro x; simp only [List.foldl_cons]; have := ih (max x (mntLvl b)); omega
  induction as generalizing acc with
  | nil => cases ha
  | cons b r ih =>
    simp only [List.foldl_cons]
    rcases List.mem_cons.mp ha with rfl | ha
    · have := mono r (max acc (mntLvl a)); omega
    · exact ih _ ha

theorem foldl_max_le2 (as : List NApi.Adjustment) (acc : Nat) (h : acc ≤ 2) :
    as.foldl (fun acc a => max acc (mntLvl a)) acc ≤ 2 := by
  induction as generalizing acc with
  | nil => exact h
  | cons b r ih =>
    simp only [List.foldl_cons]
    apply ih
    have := effMax_le [] (toGen b).mounts
    unfold mntLvl; omega

theorem foldl_raiseTo (as : List NApi.Adjustment) (r : Str) (acc : Nat) (h : acc ≤ 2) :
    as.foldl (fun r a => raiseTo r (mntLvl a)) (raiseTo r acc) =
      raiseTo r (as.foldl (fun acc a => max acc (mntLvl a)) acc) := by
  induction as generalizing acc with
  | nil => rfl
  | cons b rest ih =>
    simp only [List.foldl_cons]
    have hb : mntLvl b ≤ 2 := effMax_le [] _
    rw [raiseTo_raiseTo r acc (mntLvl b) h hb]
    exact ih (max acc (mntLvl b)) (by omega)

/-- **the combined reply raises the rootfs propagation at most as far as the plugins'
    adjustments one after another** -/
theorem mntLvl_reply_le (as : List NApi.Adjustment) :
    mntLvl (as.foldl replyStep reply0) ≤ as.foldl (fun acc a => max acc (mntLvl a)) 0 := by
  unfold mntLvl
  rw [effMax_nil_eq]
  apply ownMax_le_of
  intro m hm hu
  rw [toGen_mounts] at hm
  obtain ⟨x, hx, rfl⟩ := List.mem_map.1 hm
  rcases mem_foldl_mounts as reply0 x hx with h0 | ⟨a, ha, hxa⟩
  · simp [reply0] at h0
  · have h1 : lvl ((toGenMount x).propagationQuery []) ≤ ownMax (toGen a).mounts :=
      le_ownMax _ (toGenMount x) (by rw [toGen_mounts]; exact List.mem_map.2 ⟨x, hxa, rfl⟩) hu
    have h2 := foldl_max_le as 0 a ha
    unfold mntLvl at h2
    rw [effMax_nil_eq] at h2
    omega

end Nri.Compose
