/-
The inductive invariant of the adaptation-mutex model (`Nri.Mutex`) used by the C19 theorems.
-/
import NriModel.Locks

namespace Nri.Mutex
variable {α ε : Type}

@[simp] theorem upd_same {β : Type} (f : Uid → β) (u : Uid) (x : β) : upd f u x u = x := by
  simp [upd]

theorem upd_other {β : Type} (f : Uid → β) {u v : Uid} (x : β) (h : v ≠ u) : upd f u x v = f v := by
  simp [upd, h]

/-- what must hold of the ghost logs of call `u`, given where the call is -/
def callOk (mu : Option Owner) (u : Uid) (c : Option (Call α ε))
    (runs : List (List α × FnResult α ε)) (rets : List (List α × Option (StubErr ε))) : Prop :=
  match c with
  | none => runs = [] ∧ rets = []
  | some ⟨_, _, .called⟩ => runs = [] ∧ rets = []
  | some ⟨_, _, .entered⟩ => mu = some (.upd u) ∧ runs = [] ∧ rets = []
  | some ⟨_, L, .ran r⟩ => mu = some (.upd u) ∧ runs = [(L, r)] ∧ rets = []
  | some ⟨_, L, .left r⟩ => runs = [(L, r)] ∧ rets = []
  | some ⟨_, L, .returned r⟩ => runs = [(L, r)] ∧ rets = [expected r]

/-- a call that does not hold the mutex is indifferent to who does -/
theorem callOk_mu {mu mu' : Option Owner} {u : Uid} {c : Option (Call α ε)}
    {runs : List (List α × FnResult α ε)} {rets : List (List α × Option (StubErr ε))}
    (h : callOk mu u c runs rets) (hne : mu ≠ some (.upd u)) : callOk mu' u c runs rets := by
  unfold callOk at h ⊢
  split <;> simp_all

structure GoodM (s : State α ε) : Prop where
  /-- the ghost "inside" list is exactly the mutex holder: never two owners -/
  insideMu : s.inside = s.mu.toList
  calls : ∀ u, callOk s.mu u (s.call u) (s.fnRuns u) (s.rets u)
  /-- a call ends at most once: with a result (`rets`) or because its caller went away (`lost`) -/
  ends : ∀ u, (s.lost u).length + (s.rets u).length ≤ 1

/-- a call that has not returned has no value in its `rets` log -/
theorem callOk_pending {mu : Option Owner} {u : Uid} {c : Call α ε}
    {runs : List (List α × FnResult α ε)} {rets : List (List α × Option (StubErr ε))}
    (h : callOk mu u (some c) runs rets) (hp : c.phase.pending = true) : rets = [] := by
  obtain ⟨p, L, ph⟩ := c
  cases ph <;> simp_all [callOk, CallPhase.pending]

theorem goodM_init : GoodM (init : State α ε) := by
  constructor
  · rfl
  · intro u; simp [init, callOk]
  · intro u; simp [init]

variable [DecidableEq α] [DecidableEq ε]

theorem goodM_step {s s' : State α ε} {e : Ev α ε} (g : GoodM s) (h : step? s e = some s') :
    GoodM s' := by
  cases e with
  | call u p update =>
    simp only [step?] at h
    split at h
    · cases h
    · rename_i hc
      injection h with h; subst h
      refine ⟨g.insideMu, ?_, g.ends⟩
      intro v
      by_cases hv : v = u
      · subst hv
        have := g.calls v
        rw [hc] at this
        simpa [callOk] using this
      · simp only [upd_other _ _ hv]; exact g.calls v
  | enter u =>
    simp only [step?] at h
    split at h
    · rename_i p update hc hmu
      injection h with h; subst h
      refine ⟨by simp [g.insideMu, hmu], ?_, g.ends⟩
      intro v
      by_cases hv : v = u
      · subst hv
        have := g.calls v
        rw [hc] at this
        simpa [callOk] using this
      · simp only [upd_other _ _ hv]
        exact callOk_mu (g.calls v) (by simp [hmu])
    · cases h
  | fn u arg res =>
    simp only [step?] at h
    split at h
    · rename_i p update hc
      split at h
      · rename_i hg
        injection h with h; subst h
        refine ⟨g.insideMu, ?_, g.ends⟩
        intro v
        by_cases hv : v = u
        · subst hv
          have := g.calls v
          rw [hc] at this
          simp only [callOk] at this
          simp [callOk, this.1, this.2.1, this.2.2, hg.2]
        · simp only [upd_other _ _ hv]; exact g.calls v
      · cases h
    · cases h
  | leave u =>
    simp only [step?] at h
    split at h
    · rename_i p update r hc
      split at h
      · rename_i hmu
        injection h with h; subst h
        refine ⟨by simp [g.insideMu, hmu], ?_, g.ends⟩
        intro v
        by_cases hv : v = u
        · subst hv
          have := g.calls v
          rw [hc] at this
          simp only [callOk] at this
          simp [callOk, this.2.1, this.2.2]
        · simp only [upd_other _ _ hv]
          refine callOk_mu (g.calls v) ?_
          rw [hmu]; intro h; injection h with h; injection h with h; exact hv h.symm
      · cases h
    · cases h
  | ret u out =>
    simp only [step?] at h
    split at h
    · rename_i p update r hc
      split at h
      · rename_i ho
        injection h with h; subst h
        refine ⟨g.insideMu, ?_, ?_⟩
        · intro v
          by_cases hv : v = u
          · subst hv
            have := g.calls v
            rw [hc] at this
            simp only [callOk] at this
            simp [callOk, this.1, this.2, ho.1]
          · simp only [upd_other _ _ hv]; exact g.calls v
        · intro v
          by_cases hv : v = u
          · subst hv
            have := g.calls v
            rw [hc] at this
            simp only [callOk] at this
            simp [ho.2, this.2]
          · simp only [upd_other _ _ hv]; exact g.ends v
      · cases h
    · cases h
  | reqBegin r =>
    simp only [step?] at h
    split at h
    · rename_i hc
      injection h with h; subst h
      refine ⟨by simp [g.insideMu, hc.1], ?_, g.ends⟩
      intro v
      exact callOk_mu (g.calls v) (by simp [hc.1])
    · cases h
  | handler r p =>
    simp only [step?] at h
    split at h
    · injection h with h; subst h; exact g
    · cases h
  | reqEnd r =>
    simp only [step?] at h
    split at h
    · rename_i hmu
      injection h with h; subst h
      refine ⟨by simp [g.insideMu, hmu], ?_, g.ends⟩
      intro v
      exact callOk_mu (g.calls v) (by simp [hmu])
    · cases h
  | callUnstarted p update out =>
    simp only [step?] at h
    split at h
    · injection h with h; subst h; exact g
    · cases h
  | gone u e =>
    simp only [step?] at h
    split at h
    · rename_i c hc
      split at h
      · rename_i hg
        injection h with h; subst h
        refine ⟨g.insideMu, g.calls, ?_⟩
        intro v
        by_cases hv : v = u
        · subst hv
          have := g.calls v
          rw [hc] at this
          simp [callOk_pending this hg.1]
        · simp only [upd_other _ _ hv]; exact g.ends v
      · cases h
    · cases h

theorem goodM_run_from {s s' : State α ε} {h : List (Ev α ε)} (g : GoodM s)
    (hr : run s h = some s') : GoodM s' := by
  induction h generalizing s with
  | nil => simp only [run] at hr; injection hr with hr; subst hr; exact g
  | cons e h ih =>
    simp only [run] at hr
    split at hr
    · rename_i s1 hs1; exact ih (goodM_step g hs1) hr
    · cases hr

theorem goodM_run {s : State α ε} {h : List (Ev α ε)} (hr : run init h = some s) : GoodM s :=
  goodM_run_from goodM_init hr

theorem run_append {s : State α ε} (h₁ h₂ : List (Ev α ε)) :
    run s (h₁ ++ h₂) = (run s h₁).bind (fun s' => run s' h₂) := by
  induction h₁ generalizing s with
  | nil => simp [run]
  | cons e h ih =>
    simp only [List.cons_append, run]
    split
    · exact ih
    · simp

/-- while `o` holds the mutex no step of anybody else's section is enabled: the events a
    history can contain before `o` releases are `o`'s own, calls/returns of plugins (which do
    not touch the protected state) and nothing else -/
def foreignTo (o : Owner) : Ev α ε → Bool
  | .enter u => o != .upd u
  | .fn u _ _ => o != .upd u
  | .leave u => o != .upd u
  | .reqBegin r => o != .req r
  | .handler r _ => o != .req r
  | .reqEnd r => o != .req r
  | _ => false

theorem foreign_blocked {s : State α ε} {o : Owner} (hmu : s.mu = some o) {e : Ev α ε}
    (hf : foreignTo o e = true) : step? s e = none := by
  cases e with
  | call u p update => simp [foreignTo] at hf
  | ret u out => simp [foreignTo] at hf
  | callUnstarted p update out => simp [foreignTo] at hf
  | gone u e => simp [foreignTo] at hf
  | enter u =>
    simp only [step?]
    split
    · rename_i h1 h2; rw [hmu] at h2; cases h2
    · rfl
  | fn u arg res =>
    simp only [step?]
    split
    · split
      · rename_i hg
        rw [hmu] at hg
        have : o = .upd u := by injection hg.1
        simp [foreignTo, this] at hf
      · rfl
    · rfl
  | leave u =>
    simp only [step?]
    split
    · split
      · rename_i hg
        rw [hmu] at hg
        have : o = .upd u := by injection hg
        simp [foreignTo, this] at hf
      · rfl
    · rfl
  | reqBegin r =>
    simp only [step?]
    split
    · rename_i hg; rw [hmu] at hg; cases hg.1
    · rfl
  | handler r p =>
    simp only [step?]
    split
    · rename_i hg
      rw [hmu] at hg
      have : o = .req r := by injection hg
      simp [foreignTo, this] at hf
    · rfl
  | reqEnd r =>
    simp only [step?]
    split
    · rename_i hg
      rw [hmu] at hg
      have : o = .req r := by injection hg
      simp [foreignTo, this] at hf
    · rfl

/-- the release events of an owner -/
def releases (o : Owner) : Ev α ε → Bool
  | .leave u => o == .upd u
  | .reqEnd r => o == .req r
  | _ => false

/-- the mutex stays with `o` across any step that is not `o`'s release -/
theorem mu_kept {s s' : State α ε} {o : Owner} (hmu : s.mu = some o) {e : Ev α ε}
    (hs : step? s e = some s') (hr : releases o e = false) : s'.mu = some o := by
  cases e with
  | call u p update =>
    simp only [step?] at hs; split at hs
    · cases hs
    · injection hs with hs; subst hs; exact hmu
  | enter u =>
    simp only [step?] at hs; split at hs
    · rename_i h1 h2; rw [hmu] at h2; cases h2
    · cases hs
  | fn u arg res =>
    simp only [step?] at hs; split at hs
    · split at hs
      · injection hs with hs; subst hs; exact hmu
      · cases hs
    · cases hs
  | leave u =>
    simp only [step?] at hs; split at hs
    · split at hs
      · rename_i hg
        rw [hmu] at hg
        have : o = .upd u := by injection hg
        simp [releases, this] at hr
      · cases hs
    · cases hs
  | ret u out =>
    simp only [step?] at hs; split at hs
    · split at hs
      · injection hs with hs; subst hs; exact hmu
      · cases hs
    · cases hs
  | reqBegin r =>
    simp only [step?] at hs; split at hs
    · rename_i hg; rw [hmu] at hg; cases hg.1
    · cases hs
  | handler r p =>
    simp only [step?] at hs; split at hs
    · injection hs with hs; subst hs; exact hmu
    · cases hs
  | reqEnd r =>
    simp only [step?] at hs; split at hs
    · rename_i hg
      rw [hmu] at hg
      have : o = .req r := by injection hg
      simp [releases, this] at hr
    · cases hs
  | callUnstarted p update out =>
    simp only [step?] at hs; split at hs
    · injection hs with hs; subst hs; exact hmu
    · cases hs
  | gone u e =>
    simp only [step?] at hs; split at hs
    · split at hs
      · injection hs with hs; subst hs; exact hmu
      · cases hs
    · cases hs

/-- interval form of mutual exclusion: a history that runs from a state where `o` holds the
    mutex and does not contain `o`'s release contains no step of another owner's section -/
theorem interval_exclusive {s s' : State α ε} {o : Owner} (hmu : s.mu = some o)
    {m : List (Ev α ε)} (hr : run s m = some s') (hrel : ∀ e ∈ m, releases o e = false) :
    (∀ e ∈ m, foreignTo o e = false) ∧ s'.mu = some o := by
  induction m generalizing s with
  | nil => simp only [run] at hr; injection hr with hr; subst hr; exact ⟨by simp, hmu⟩
  | cons e m ih =>
    simp only [run] at hr
    split at hr
    · rename_i s1 hs1
      have hk := mu_kept hmu hs1 (hrel e List.mem_cons_self)
      obtain ⟨h1, h2⟩ := ih hk hr (fun e' he' => hrel e' (List.mem_cons_of_mem _ he'))
      refine ⟨?_, h2⟩
      intro e' he'
      rcases List.mem_cons.1 he' with rfl | he'
      · cases hf : foreignTo o e' with
        | false => rfl
        | true => rw [foreign_blocked hmu hf] at hs1; cases hs1
      · exact h1 e' he'
    · cases hr

end Nri.Mutex

namespace Nri.Mutex
variable {α ε : Type} [DecidableEq α] [DecidableEq ε]

/-- a call, once made, keeps its plugin and its update list through every later step (only its
    phase moves) -/
theorem call_kept_step {s s' : State α ε} {e : Ev α ε} (h : step? s e = some s') {u : Uid}
    {c : Call α ε} (hc : s.call u = some c) :
    ∃ c', s'.call u = some c' ∧ c'.update = c.update ∧ c'.p = c.p := by
  have keep : ∀ (v : Uid) (x : Call α ε), x.update = c.update → x.p = c.p → v = u →
      ∃ c', upd s.call v (some x) u = some c' ∧ c'.update = c.update ∧ c'.p = c.p := by
    intro v x h1 h2 hv; subst hv; exact ⟨x, by simp, h1, h2⟩
  have other : ∀ (v : Uid) (x : Option (Call α ε)), v ≠ u →
      ∃ c', upd s.call v x u = some c' ∧ c'.update = c.update ∧ c'.p = c.p := by
    intro v x hv
    exact ⟨c, by rw [upd_other _ _ (Ne.symm hv)]; exact hc, rfl, rfl⟩
  cases e with
  | call v p update =>
    simp only [step?] at h
    split at h
    · cases h
    · rename_i hn
      injection h with h; subst h
      by_cases hv : v = u
      · subst hv; rw [hc] at hn; cases hn
      · exact other v _ hv
  | enter v =>
    simp only [step?] at h
    split at h
    · rename_i p update hcv _
      injection h with h; subst h
      by_cases hv : v = u
      · subst hv; rw [hc] at hcv; injection hcv with hcv; subst hcv
        exact keep v _ rfl rfl rfl
      · exact other v _ hv
    · cases h
  | fn v arg res =>
    simp only [step?] at h
    split at h
    · rename_i p update hcv
      split at h
      · injection h with h; subst h
        by_cases hv : v = u
        · subst hv; rw [hc] at hcv; injection hcv with hcv; subst hcv
          exact keep v _ rfl rfl rfl
        · exact other v _ hv
      · cases h
    · cases h
  | leave v =>
    simp only [step?] at h
    split at h
    · rename_i p update r hcv
      split at h
      · injection h with h; subst h
        by_cases hv : v = u
        · subst hv; rw [hc] at hcv; injection hcv with hcv; subst hcv
          exact keep v _ rfl rfl rfl
        · exact other v _ hv
      · cases h
    · cases h
  | ret v out =>
    simp only [step?] at h
    split at h
    · rename_i p update r hcv
      split at h
      · injection h with h; subst h
        by_cases hv : v = u
        · subst hv; rw [hc] at hcv; injection hcv with hcv; subst hcv
          exact keep v _ rfl rfl rfl
        · exact other v _ hv
      · cases h
    · cases h
  | reqBegin r =>
    simp only [step?] at h
    split at h
    · injection h with h; subst h; exact ⟨c, hc, rfl, rfl⟩
    · cases h
  | handler r p =>
    simp only [step?] at h
    split at h
    · injection h with h; subst h; exact ⟨c, hc, rfl, rfl⟩
    · cases h
  | reqEnd r =>
    simp only [step?] at h
    split at h
    · injection h with h; subst h; exact ⟨c, hc, rfl, rfl⟩
    · cases h
  | callUnstarted p update out =>
    simp only [step?] at h
    split at h
    · injection h with h; subst h; exact ⟨c, hc, rfl, rfl⟩
    · cases h
  | gone v e =>
    simp only [step?] at h
    split at h
    · split at h
      · injection h with h; subst h; exact ⟨c, hc, rfl, rfl⟩
      · cases h
    · cases h

theorem call_kept_run {s s' : State α ε} {m : List (Ev α ε)} (h : run s m = some s') {u : Uid}
    {c : Call α ε} (hc : s.call u = some c) :
    ∃ c', s'.call u = some c' ∧ c'.update = c.update ∧ c'.p = c.p := by
  induction m generalizing s c with
  | nil => simp only [run] at h; injection h with h; subst h; exact ⟨c, hc, rfl, rfl⟩
  | cons e m ih =>
    simp only [run] at h
    split at h
    · rename_i s1 hs1
      obtain ⟨c1, h1, h2, h3⟩ := call_kept_step hs1 hc
      obtain ⟨c2, h4, h5, h6⟩ := ih h h1
      exact ⟨c2, h4, h5.trans h2, h6.trans h3⟩
    · cases h

end Nri.Mutex
