/-
Lemmas about the RESULT of one pass of the request loop, for C07: without a veto it is the
fold of `apply` over the responses of the plugins whose call succeeded; a veto ends it.
-/
import NriModel.Lemmas.DispatchRelay

namespace Nri.Dispatch
open Nri.Events

variable {ρ σ ο ε : Type}

/-- `combine`'s error as the loop reports it -/
def liftCombine (r : Except (Plugin × ε) σ) : Except (Err ε) σ :=
  match r with
  | .ok a => .ok a
  | .error pe => .error (.merge pe.1 pe.2)

theorem hasVeto_cons (T ev) (p : Plugin) (c : Call ρ) (rest : List (Plugin × Call ρ)) :
    hasVeto T ev ((p, c) :: rest) = ((subscribed ev p && isVeto (effOut T p c).1) || hasVeto T ev rest) := by
  simp [hasVeto]

theorem relay_result_noveto (M : Merger ρ σ ο ε) (T ev) (acc : σ) (pcs : List (Plugin × Call ρ))
    (hv : hasVeto T ev pcs = false) :
    (relayLoop M T ev acc pcs).1 = liftCombine (combine M acc (okResponses T ev pcs)) := by
  induction pcs generalizing acc with
  | nil => simp [relayLoop_nil, okResponses, combine, liftCombine]
  | cons pc rest ih =>
    obtain ⟨p, c⟩ := pc
    rw [hasVeto_cons] at hv
    simp only [Bool.or_eq_false_iff] at hv
    apply relay_cases M T ev acc p c
    · intro hs
      rw [relayLoop_skip M T ev acc p c rest hs]
      simp only [okResponses, hs, Bool.false_eq_true, if_false]
      exact ih acc hv.2
    · intro hs f d ho
      rw [relayLoop_fatal M T ev acc p c rest hs f d ho]
      simp only [okResponses, hs, if_true, ho]
      exact ih acc hv.2
    · intro hs m d ho
      simp [hs, ho, isVeto] at hv
    · intro hs r d e' ho ha
      rw [relayLoop_refused M T ev acc p c rest hs r d ho e' ha]
      simp [okResponses, hs, ho, combine, ha, liftCombine]
    · intro hs r d a' ho ha
      rw [relayLoop_ok M T ev acc p c rest hs r d ho a' ha]
      simp only [okResponses, hs, if_true, ho, combine, ha]
      exact ih a' hv.2

/-- the responses handed to `apply` by a request that completes are exactly those of the
    subscribed plugins whose call succeeded -/
theorem relay_oks (M : Merger ρ σ ο ε) (T ev) (acc : σ) (pcs : List (Plugin × Call ρ)) (a : σ)
    (h : (relayLoop M T ev acc pcs).1 = .ok a) :
    (relayLoop M T ev acc pcs).2.oks = okResponses T ev pcs := by
  induction pcs generalizing acc with
  | nil => simp [relayLoop_nil, okResponses]
  | cons pc rest ih =>
    obtain ⟨p, c⟩ := pc
    apply relay_cases M T ev acc p c
    · intro hs
      rw [relayLoop_skip M T ev acc p c rest hs] at h ⊢
      simp only [okResponses, hs, Bool.false_eq_true, if_false, Trace.skip]
      exact ih acc h
    · intro hs f d ho
      rw [relayLoop_fatal M T ev acc p c rest hs f d ho] at h ⊢
      simp only [okResponses, hs, if_true, ho]
      exact ih acc h
    · intro hs m d ho
      rw [relayLoop_veto M T ev acc p c rest hs m d ho] at h
      simp at h
    · intro hs r d e' ho ha
      rw [relayLoop_refused M T ev acc p c rest hs r d ho e' ha] at h
      simp at h
    · intro hs r d a' ho ha
      rw [relayLoop_ok M T ev acc p c rest hs r d ho a' ha] at h ⊢
      simp only [okResponses, hs, if_true, ho]
      simp only at h
      rw [ih a' h]

theorem subscribers_append (ev) (l₁ l₂ : List (Plugin × Call ρ)) :
    subscribers ev (l₁ ++ l₂) = subscribers ev l₁ ++ subscribers ev l₂ := by
  simp [subscribers]

/-- a handler error at plugin `p`, reached because nothing before it aborted the loop -/
theorem relay_veto_at (M : Merger ρ σ ο ε) (T ev) (acc : σ)
    (pre post : List (Plugin × Call ρ)) (p : Plugin) (c : Call ρ) (m : Str) (d : Nat)
    (hs : subscribed ev p = true) (ho : effOut T p c = (.handlerErr m, d))
    (hv : hasVeto T ev pre = false) (acc' : σ)
    (hc : combine M acc (okResponses T ev pre) = .ok acc') :
    (relayLoop M T ev acc (pre ++ (p, c) :: post)).1 = .error (.veto p m) ∧
    (relayLoop M T ev acc (pre ++ (p, c) :: post)).2.attempted = subscribers ev pre ++ [p] ∧
    (relayLoop M T ev acc (pre ++ (p, c) :: post)).2.oks = okResponses T ev pre := by
  induction pre generalizing acc with
  | nil =>
    simp only [List.nil_append, relayLoop_veto M T ev acc p c post hs m d ho]
    simp [subscribers, okResponses]
  | cons pc rest ih =>
    obtain ⟨q, cq⟩ := pc
    rw [hasVeto_cons] at hv
    simp only [Bool.or_eq_false_iff] at hv
    simp only [List.cons_append]
    apply relay_cases M T ev acc q cq
    · intro hsq
      rw [relayLoop_skip M T ev acc q cq _ hsq]
      simp only [okResponses, hsq, Bool.false_eq_true, if_false] at hc ⊢
      rw [subscribers_cons_skip ev q cq rest hsq]
      simpa [Trace.skip] using ih acc hv.2 hc
    · intro hsq f dq hoq
      rw [relayLoop_fatal M T ev acc q cq _ hsq f dq hoq]
      simp only [okResponses, hsq, if_true, hoq] at hc ⊢
      rw [subscribers_cons_sub ev q cq rest hsq]
      obtain ⟨h1, h2, h3⟩ := ih acc hv.2 hc
      exact ⟨h1, by simp [h2], h3⟩
    · intro hsq mq dq hoq
      simp [hsq, hoq, isVeto] at hv
    · intro hsq r dq e' hoq ha
      simp [okResponses, hsq, hoq, combine, ha] at hc
    · intro hsq r dq a' hoq ha
      rw [relayLoop_ok M T ev acc q cq _ hsq r dq hoq a' ha]
      simp only [okResponses, hsq, if_true, hoq, combine, ha] at hc ⊢
      rw [subscribers_cons_sub ev q cq rest hsq]
      obtain ⟨h1, h2, h3⟩ := ih a' hv.2 hc
      exact ⟨h1, by simp [h2], by simp [h3]⟩

/-- membership form: nobody behind the vetoing plugin is called -/
theorem relay_veto_nobody_after (M : Merger ρ σ ο ε) (T ev) (acc : σ)
    (pre post : List (Plugin × Call ρ)) (p : Plugin) (c : Call ρ) (m : Str) (d : Nat)
    (hs : subscribed ev p = true) (ho : effOut T p c = (.handlerErr m, d))
    (hv : hasVeto T ev pre = false) (acc' : σ)
    (hc : combine M acc (okResponses T ev pre) = .ok acc')
    (hn : ((pre ++ (p, c) :: post).map (·.1.id)).Nodup) :
    ∀ q ∈ post, q.1 ∉ (relayLoop M T ev acc (pre ++ (p, c) :: post)).2.attempted := by
  intro q hq hmem
  rw [(relay_veto_at M T ev acc pre post p c m d hs ho hv acc' hc).2.1] at hmem
  have hqid : q.1.id ∈ post.map (·.1.id) := List.mem_map_of_mem (f := fun pc : Plugin × Call ρ => pc.1.id) hq
  simp only [List.map_append, List.map_cons] at hn
  have hdis := List.nodup_append.1 hn
  rcases List.mem_append.1 hmem with h | h
  · -- q would be a plugin of `pre`
    simp only [subscribers] at h
    have hin : q.1 ∈ pre.map (·.1) := (List.mem_filter.1 h).1
    obtain ⟨x, hx, hxe⟩ := List.mem_map.1 hin
    have hxid : x.1.id ∈ pre.map (·.1.id) := List.mem_map_of_mem (f := fun pc : Plugin × Call ρ => pc.1.id) hx
    exact hdis.2.2 _ hxid _ (List.mem_cons_of_mem _ hqid) (by rw [hxe])
  · simp only [List.mem_singleton] at h
    have hcons := (List.nodup_cons.1 hdis.2.1).1
    exact hcons (by rw [← h]; exact hqid)

end Nri.Dispatch
