/-
Soundness of the acceptance automaton the C16 driver runs on observed histories
(`applyObs`, `loseConn`, `silent`, `closure` in `NriModel/StubSession.lean`): every state it
can ever hold is a state of the repaired session machine reached by a run of `step? fixed`
from the initial state — so the theorems of `Props/C16.lean` apply to whatever the automaton
accepts. (The driver's record loop only filters these sets and feeds them back in.)
-/
import NriModel.Lemmas.StubSession

namespace Nri.StubSession

/-- reachable by any history (including `stall`; excluded cases contain it) -/
def Reach0 (s : State) : Prop :=
  ∃ (src : ConnSrc) (h : List Event), run fixed (initWith src) h = some s

theorem run_snoc (v : Variant) (e : Event) :
    ∀ (l : List Event) (a b : State), run v a l = some b → run v a (l ++ [e]) = step? v b e := by
  intro l
  induction l with
  | nil => intro a b hab; simp [run] at hab; subst hab; simp [run]; cases step? v a e <;> rfl
  | cons x xs ih =>
    intro a b hab
    simp only [run, List.cons_append] at hab ⊢
    split at hab
    · rename_i a1 ha1; exact ih a1 b hab
    · cases hab

theorem Reach0.step {s s' : State} {e : Event} (h : Reach0 s) (hs : step? fixed s e = some s') :
    Reach0 s' := by
  obtain ⟨src, hist, hr⟩ := h
  exact ⟨src, hist ++ [e], by rw [run_snoc fixed e hist (initWith src) s hr]; exact hs⟩

theorem Reach.reach0 {s : State} (h : Reach s) : Reach0 s := by
  obtain ⟨src, hist, _, hr⟩ := h; exact ⟨src, hist, hr⟩

/-- an observation inside C16's domain -/
def OpObs.inDomain : OpObs → Bool
  | .start .stall _ _ _ _ => false
  | _ => true

theorem loseConn_reach0 {s : State} (conn : Nat) (h : Reach0 s) : Reach0 (loseConn conn s) := by
  unfold loseConn
  split
  · split
    · rename_i s' hs; exact h.step hs
    · exact h
  · exact h

theorem loseConn_reach {s : State} (conn : Nat) (h : Reach s) : Reach (loseConn conn s) := by
  unfold loseConn
  split
  · split
    · rename_i s' hs; exact h.step (by rfl) hs
    · exact h
  · exact h

/-- Label faithfulness: an observed `Start` is only ever explained by a `start` step carrying
    exactly the observed runtime behaviour and the observed result, from a state in which the
    model predicts the observed dial / session number / connection number. -/
theorem applyObs_start {o : Script} {r : StartRes} {d : Bool} {sid conn : Nat} {s s' : State}
    (hm : s' ∈ applyObs (.start o r d sid conn) s) :
    step? fixed s (.start o r) = some s' ∧ wouldDial s = d ∧
    (if s'.cur = s.cur + 1 then s'.cur else 0) = sid ∧
    (if s'.dials = s.dials + 1 then s'.dials else 0) = conn := by
  simp only [applyObs] at hm
  split at hm
  · simp at hm
  · rename_i s1 hs1
    by_cases hc : (wouldDial s = d ∧ (if s1.cur = s.cur + 1 then s1.cur else 0) = sid ∧
        (if s1.dials = s.dials + 1 then s1.dials else 0) = conn)
    · have : s' = s1 := by simpa [hc] using hm
      subst this
      exact ⟨hs1, hc.1, hc.2.1, hc.2.2⟩
    · simp [hc] at hm

/-- … and likewise for every other kind of observation; an `impossible` observation (a
    blocked Stop or Wait, an error of unknown kind) is explained by nothing. -/
theorem applyObs_faithful {p : OpObs} {s s' : State} (hm : s' ∈ applyObs p s) :
    match p with
    | .start o r _ _ _ => step? fixed s (.start o r) = some s'
    | .stop => step? fixed s .stop = some s'
    | .wait b => step? fixed s (.wait b) = some s'
    | .lose conn => s' = loseConn conn s
    | .nop => s' = s
    | .request ok => step? fixed s (.dispatch ok) = some s'
    | .impossible => False := by
  cases p with
  | start o r d sid conn => exact (applyObs_start hm).1
  | stop => simpa [applyObs] using hm
  | wait b => simpa [applyObs] using hm
  | lose conn => simpa [applyObs] using hm
  | nop => simpa [applyObs] using hm
  | request ok => simpa [applyObs] using hm
  | impossible => simp [applyObs] at hm

theorem applyObs_impossible (s : State) : applyObs .impossible s = [] := rfl

theorem applyObs_reach0 {p : OpObs} {s s' : State} (h : Reach0 s) (hm : s' ∈ applyObs p s) :
    Reach0 s' := by
  have hf := applyObs_faithful hm
  cases p with
  | start o r d sid conn => exact h.step hf
  | stop => exact h.step hf
  | wait b => exact h.step hf
  | lose conn => simp only at hf; subst hf; exact loseConn_reach0 conn h
  | nop => simp only at hf; subst hf; exact h
  | request ok => exact h.step hf
  | impossible => exact hf.elim

theorem applyObs_reach {p : OpObs} {s s' : State} (hd : p.inDomain = true) (h : Reach s)
    (hm : s' ∈ applyObs p s) : Reach s' := by
  have hf := applyObs_faithful hm
  cases p with
  | start o r d sid conn =>
    have ho : inDomain (.start o r) = true := by
      cases o <;> simp [OpObs.inDomain] at hd <;> rfl
    exact h.step ho hf
  | stop => exact h.step (by rfl) hf
  | wait b => exact h.step (by rfl) hf
  | lose conn => simp only at hf; subst hf; exact loseConn_reach conn h
  | nop => simp only at hf; subst hf; exact h
  | request ok => exact h.step (by rfl) hf
  | impossible => exact hf.elim

/-- a late return of a blocked `Wait` is explained only by a `waitRet` step of a session that
    some `Wait` of this configuration is blocked on -/
theorem releaseAny_faithful {s s' : State} (hm : s' ∈ releaseAny s) :
    ∃ sid, sid ∈ s.waiting ∧ step? fixed s (.waitRet sid) = some s' := by
  simp only [releaseAny, List.mem_filterMap] at hm
  obtain ⟨sid, h1, h2⟩ := hm
  exact ⟨sid, by simpa using h1, h2⟩

theorem releaseAny_reach {s s' : State} (h : Reach s) (hm : s' ∈ releaseAny s) : Reach s' := by
  obtain ⟨sid, _, hs⟩ := releaseAny_faithful hm
  exact h.step (by rfl) hs

theorem mem_dedup {l : List Cfg} {c : Cfg} (h : c ∈ dedup l) : c ∈ l := by
  unfold dedup at h
  have : ∀ (l acc : List Cfg), c ∈ l.foldl (fun acc c => if acc.contains c then acc else acc ++ [c]) acc →
      c ∈ acc ∨ c ∈ l := by
    intro l
    induction l with
    | nil => intro acc h; simp at h; exact Or.inl h
    | cons x xs ih =>
      intro acc h
      simp only [List.foldl_cons] at h
      rcases ih _ h with h1 | h1
      · split at h1
        · exact Or.inl h1
        · simp at h1; rcases h1 with h1 | h1
          · exact Or.inl h1
          · subst h1; simp
      · exact Or.inr (by simp [h1])
  rcases this l [] h with h1 | h1
  · simp at h1
  · exact h1

/-- `P` holds of every configuration's state -/
def AllCfg (P : State → Prop) (cs : List Cfg) : Prop := ∀ c ∈ cs, P c.s

theorem silent_sound {P : State → Prop} {p : Option OpObs}
    (hstep : ∀ s s' e, P s → (∃ sid, e = .closeNotify sid) → step? fixed s e = some s' → P s')
    (hobs : ∀ pd s s', p = some pd → P s → s' ∈ applyObs pd s → P s')
    {c c' : Cfg} (hc : P c.s) (hm : c' ∈ silent p c) : P c'.s := by
  simp only [silent, List.mem_append, List.mem_filterMap] at hm
  rcases hm with ⟨sid, _, h2⟩ | h2
  · simp only [Option.map_eq_some_iff] at h2
    obtain ⟨s', hs', rfl⟩ := h2
    exact hstep _ _ _ hc ⟨sid, rfl⟩ hs'
  · cases p with
    | none => simp at h2
    | some pd =>
      simp only at h2
      split at h2
      · simp at h2
      · simp only [List.mem_map] at h2
        obtain ⟨s', hs', rfl⟩ := h2
        exact hobs pd _ _ rfl hc hs'

/-- A silent move is either the delivery of one pending close notification (the pending
    operation stays pending) or the pending operation taking effect — once: only from a
    configuration in which it had not, into one in which it has. -/
theorem silent_faithful {p : Option OpObs} {c c' : Cfg} (hm : c' ∈ silent p c) :
    (∃ sid, sid ∈ c.s.inflight ∧ step? fixed c.s (.closeNotify sid) = some c'.s ∧
        c'.applied = c.applied) ∨
    (∃ pd, p = some pd ∧ c.applied = false ∧ c'.applied = true ∧ c'.s ∈ applyObs pd c.s) := by
  simp only [silent, List.mem_append, List.mem_filterMap] at hm
  rcases hm with ⟨sid, h1, h2⟩ | h2
  · simp only [Option.map_eq_some_iff] at h2
    obtain ⟨s', hs', rfl⟩ := h2
    exact Or.inl ⟨sid, h1, hs', rfl⟩
  · cases p with
    | none => simp at h2
    | some pd =>
      simp only at h2
      split at h2
      · simp at h2
      · rename_i hna
        simp only [List.mem_map] at h2
        obtain ⟨s', hs', rfl⟩ := h2
        exact Or.inr ⟨pd, rfl, by simpa using hna, rfl, hs'⟩

theorem closure_sound {P : State → Prop} {p : Option OpObs}
    (hstep : ∀ s s' e, P s → (∃ sid, e = .closeNotify sid) → step? fixed s e = some s' → P s')
    (hobs : ∀ pd s s', p = some pd → P s → s' ∈ applyObs pd s → P s') :
    ∀ (fuel : Nat) (cs : List Cfg), AllCfg P cs → AllCfg P (closure p cs fuel) := by
  intro fuel
  induction fuel with
  | zero => intro cs h; simpa [closure] using h
  | succ n ih =>
    intro cs h
    simp only [closure]
    split
    · exact h
    · apply ih
      intro c hc
      have hc' := mem_dedup hc
      simp only [List.mem_append, List.mem_flatMap] at hc'
      rcases hc' with h1 | ⟨c0, h0, h1⟩
      · exact h c h1
      · exact silent_sound hstep hobs (h c0 h0) h1

/-- Every configuration the automaton derives from reachable configurations is reachable. -/
theorem closure_reach0 (p : Option OpObs) (fuel : Nat) (cs : List Cfg)
    (h : AllCfg Reach0 cs) : AllCfg Reach0 (closure p cs fuel) :=
  closure_sound (fun _ _ _ hs _ he => hs.step he) (fun _ _ _ _ hs hm => applyObs_reach0 hs hm) fuel cs h

/-- … and, when the pending observation is inside C16's domain, reachable by an in-domain
    history, i.e. a state all theorems of `Props/C16.lean` speak about. -/
theorem closure_reach (p : Option OpObs) (hp : ∀ pd, p = some pd → pd.inDomain = true)
    (fuel : Nat) (cs : List Cfg) (h : AllCfg Reach cs) : AllCfg Reach (closure p cs fuel) :=
  closure_sound
    (fun _ _ e hs ⟨sid, hsid⟩ he => hs.step (by subst hsid; rfl) he)
    (fun pd _ _ hpd hs hm => applyObs_reach (hp pd hpd) hs hm) fuel cs h

theorem init_reach (src : ConnSrc) : Reach (initWith src) := ⟨src, [], by simp, rfl⟩

end Nri.StubSession
