/-
C04, last sentence, along a chain: what the ledger guarantees about each accepted adjustment
against the view it is applied to (`StepFresh`: no key set twice, hugepage sizes new), the
simulation along a whole creation request (`run_viewSim`), and the assembled statement
`view_agrees`: the view shown at any position `ViewAgrees` with the spec the generator makes
of the original with the reply combined so far.  Core Lean only.
-/
import NriModel.Lemmas.ComposeView
import NriModel.Lemmas.ResultWalkRel

namespace Nri.Compose
open Nri Nri.NApi Nri.Result Nri.Ledger Nri.Overlay

/-! ### an accepted adjustment names no item twice -/

theorem claimAll_ok_nodup (c : Cid) (p : Plugin) (o o' : Owners) (its : List Item)
    (h : claimAll c p o its = .ok o') : its.Nodup := by
  induction its generalizing o with
  | nil => exact List.nodup_nil
  | cons x rest ih =>
    simp only [claimAll] at h
    cases hc : claim o c x p with
    | error e => rw [hc] at h; cases h
    | ok o1 =>
      rw [hc] at h
      obtain ⟨_, rfl⟩ := (claim_ok_iff o o1 c x p).1 hc
      rw [List.nodup_cons]
      refine ⟨?_, ih _ h⟩
      intro hm
      obtain ⟨e, he⟩ := claimAll_fails_of_owned c p _ rest x p (owner_insert_self o c x p) hm
      simp only [] at h
      rw [he] at h; cases h

theorem adjust_sets_nodup (q st st' p a) (h : adjust q st p (some a) = .ok st') : (adjustSets a).Nodup := by
  obtain ⟨o, ho, _⟩ := (adjust_ok_iff q st st' p a).1 h
  exact claimAll_ok_nodup _ _ _ _ _ ho

theorem nodup_keys_of_items {α : Type} (f : α → Str) (mk : Str → Item)
    (l : List α) (h : (l.map fun x => mk (f x)).Nodup) : (l.map f).Nodup := by
  induction l with
  | nil => exact List.nodup_nil
  | cons y r ih =>
    simp only [List.map_cons, List.nodup_cons] at h ⊢
    refine ⟨?_, ih h.2⟩
    intro hm
    obtain ⟨z, hz, hzy⟩ := List.mem_map.1 hm
    exact h.1 (List.mem_map.2 ⟨z, hz, by rw [hzy]⟩)

/-- the set keys of each keyed family and the hugepage sizes of an adjustment whose items are
    pairwise distinct -/
theorem sets_nodup_parts (a : Adjustment) (h : (adjustSets a).Nodup) :
    ((a.mounts.filter fun m => !Api.isMarked m.destination).map (·.destination)).Nodup ∧
    ((a.env.filter fun e => !Api.isMarked e.key).map (·.key)).Nodup ∧
    (((devsOf a).filter fun d => !Api.isMarked d.path).map (·.path)).Nodup ∧
    ((hugeOf a).map (·.pageSize)).Nodup := by
  unfold adjustSets at h
  -- ((((ann ++ mounts) ++ env) ++ args) ++ linux) ++ rlimits ++ cdi
  have h1 := (List.nodup_append.1 h).1
  have h2 := (List.nodup_append.1 h1).1
  have hlinux := (List.nodup_append.1 h2).2.1
  have h3 := (List.nodup_append.1 h2).1
  have h4 := (List.nodup_append.1 h3).1
  have henv := (List.nodup_append.1 h4).2.1
  have h5 := (List.nodup_append.1 h4).1
  have hmnt := (List.nodup_append.1 h5).2.1
  refine ⟨?_, ?_, ?_, ?_⟩
  · unfold mountSets at hmnt
    have : (a.mounts.filter fun m => !(isMarked m.destination).2) = a.mounts.filter fun m => !Api.isMarked m.destination := by
      apply List.filter_congr; intro m _; rw [isMarked_snd]
    rw [this] at hmnt
    exact nodup_keys_of_items (fun m : Mount => m.destination) Item.mount _ hmnt
  · unfold envSets at henv
    have : (a.env.filter fun m => !(isMarked m.key).2) = a.env.filter fun m => !Api.isMarked m.key := by
      apply List.filter_congr; intro m _; rw [isMarked_snd]
    rw [this] at henv
    exact nodup_keys_of_items (fun m : KeyValue => m.key) Item.env _ henv
  · unfold devsOf
    cases hl : a.hasLinux with
    | false => simp
    | true =>
      simp only [hl, if_true] at hlinux ⊢
      have hd := (List.nodup_append.1 (List.nodup_append.1 (List.nodup_append.1 hlinux).1).1).1
      unfold deviceSets at hd
      have : (a.devices.filter fun m => !(isMarked m.path).2) = a.devices.filter fun m => !Api.isMarked m.path := by
        apply List.filter_congr; intro m _; rw [isMarked_snd]
      rw [this] at hd
      exact nodup_keys_of_items (fun m : Device => m.path) Item.device _ hd
  · unfold hugeOf resOf
    cases hl : a.hasLinux with
    | false => simp
    | true =>
      simp only [hl, if_true] at hlinux ⊢
      cases hr : a.resources with
      | none => simp
      | some r =>
        simp only [hr] at hlinux
        have hres := (List.nodup_append.1 (List.nodup_append.1 (List.nodup_append.1 hlinux).1).1).2.1
        unfold resSets resSetsWith at hres
        -- ((((mem ++ cpu) ++ huge) ++ unified) ++ blockio) ++ rdt ++ pids
        have g1 := (List.nodup_append.1 hres).1
        have g2 := (List.nodup_append.1 g1).1
        have g3 := (List.nodup_append.1 g2).1
        have g4 := (List.nodup_append.1 g3).1
        have hh := (List.nodup_append.1 g4).2.1
        simp only [Option.map_some, Option.getD_some]
        exact nodup_keys_of_items (fun m : Hugepage => m.pageSize) Item.hugepage _ hh

/-! ### hugepage sizes shown: original ones, or owned -/

/-- every hugepage size in the view is one of the original container `c0`, or owned -/
def HugeHeld (c0 : Container) (st : State) : Prop :=
  ∀ z ∈ st.view.resources.hugepages.map (·.pageSize),
    z ∈ c0.resources.hugepages.map (·.pageSize) ∨ ∃ w, st.owners.owner (cidOf st.kind) (.hugepage z) = some w

theorem hugepage_mem_sets (a : Adjustment) (z : Str) (h : z ∈ (hugeOf a).map (·.pageSize)) :
    Item.hugepage z ∈ adjustSets a := by
  unfold hugeOf resOf at h
  cases hl : a.hasLinux with
  | false => simp [hl] at h
  | true =>
    simp only [hl, if_true] at h
    cases hr : a.resources with
    | none => simp [hr] at h
    | some r =>
      simp only [hr, Option.map_some, Option.getD_some] at h
      apply mem_resSets a r _ hl hr
      unfold resSets resSetsWith
      simp only [List.mem_append]
      refine .inl (.inl (.inl (.inl (.inr ?_))))
      obtain ⟨x, hx, rfl⟩ := List.mem_map.1 h
      exact List.mem_map.2 ⟨x, hx, rfl⟩

theorem hugepage_not_removed (a : Adjustment) (z : Str) : Item.hugepage z ∉ removesAdj a :=
  not_removed_scalar _ a (by simp) (by simp) (by simp) (by simp) (by simp)

theorem stepFresh_adjust (c0 : Container) (st st' : State) (p : Plugin) (a : Adjustment)
    (hh : HugeHeld c0 st) (hg : hugeFresh c0 a = true) (h : adjust Quirks.fixed st p (some a) = .ok st') :
    StepFresh st.view a ∧ HugeHeld c0 st' := by
  have hk := adjust_kind _ st st' p (some a) h
  obtain ⟨n1, n2, n3, n4⟩ := sets_nodup_parts a (adjust_sets_nodup _ st st' p a h)
  have hnew : ∀ x ∈ hugeOf a, x.pageSize ∉ st.view.resources.hugepages.map (·.pageSize) := by
    intro x hx hm
    rcases hh _ hm with h0 | ⟨w, hw⟩
    · unfold hugeFresh at hg
      have := List.all_eq_true.1 hg x hx
      simp only [Bool.not_eq_true', List.contains_eq_mem, decide_eq_false_iff_not] at this
      exact this h0
    · obtain ⟨e, he⟩ := adjust_fails_of_owned Quirks.fixed st p a _ w hw
        (hugepage_mem_sets a _ (List.mem_map.2 ⟨x, hx, rfl⟩))
        (fun hc => hugepage_not_removed a _ (adjustClears_subset_removes st a _ hc))
      rw [he] at h; cases h
  refine ⟨⟨n1, n2, n3, n4, hnew⟩, ?_⟩
  obtain ⟨o, hc, hst'⟩ := (adjust_ok_iff _ st st' p a).1 h
  have hview : st'.view = overlayContainer st.view a := by rw [hst']; exact adjustData_view st a
  intro z hz
  rw [hview, overlay_hugepages, List.map_append, List.mem_append] at hz
  rw [hk]
  rcases hz with hz | hz
  · rcases hh z hz with h0 | ⟨w, hw⟩
    · exact .inl h0
    · refine .inr ⟨w, adjust_keeps _ st st' p (some a) h _ _ w hw ?_⟩
      intro a' ha' _ hcl
      cases ha'
      exact hugepage_not_removed a _ (adjustClears_subset_removes st a _ hcl)
  · exact .inr ⟨p, adjust_owns _ st st' p a h _ (hugepage_mem_sets a z hz)⟩

/-! ### the simulation along a creation request -/

/-- **Along a creation request**: if the view simulates the spec `x` before, and the plugins'
    adjustments applied to `x` one after another give `x'`, the view after simulates `x'`. -/
theorem run_viewSim {ext : Generate.Externals} {bad : List Str}
    (hi : ext.injectCDI = some (Generate.recordingInjector bad) ∨ ext.injectCDI = none)
    (c0 : Container) (rs : List (Plugin × Option Response)) :
    ∀ (st st' : State) (x x' : Oci.Spec) (id : Cid), st.kind = .create id →
      ViewSim st.view x → HugeHeld c0 st → (∀ a ∈ adjsOf rs, ViewGuard c0 a) →
      run Quirks.fixed st rs = .ok st' → seqAdjust ext x ((adjsOf rs).map toGen) = .ok x' →
      ViewSim st'.view x' := by
  induction rs with
  | nil =>
    intro st st' x x' id _ hs _ _ h hq
    simp only [run] at h; cases h
    simp only [adjsOf, List.filterMap_nil, List.map_nil, seqAdjust] at hq; cases hq
    exact hs
  | cons y rest ih =>
    intro st st' x x' id hk hs hh hg h hq
    obtain ⟨p, r⟩ := y
    cases r with
    | none =>
      simp only [run] at h
      rw [adjsOf_cons_none] at hg hq
      exact ih st st' x x' id hk hs hh hg h hq
    | some r =>
      simp only [run] at h
      cases h1 : apply Quirks.fixed st p r with
      | error e => rw [h1] at h; cases h
      | ok st1 =>
        rw [h1] at h
        have hk1 : st1.kind = .create id := by rw [apply_kind _ st st1 p r h1]; exact hk
        rw [adjsOf_cons_some] at hg hq
        have h1' := h1
        unfold apply at h1'
        rw [hk] at h1'
        simp only [] at h1'
        cases h2 : adjust Quirks.fixed st p r.adjust with
        | error e => rw [h2] at h1'; cases h1'
        | ok st2 =>
          rw [h2] at h1'
          have hv := updateAll_view _ st2 st1 p r.updates h1'
          have hk12 : st1.kind = st2.kind := updateAll_kind _ st2 st1 p r.updates h1'
          cases ha : r.adjust with
          | none =>
            rw [ha] at h2 hg hq
            simp only [adjust] at h2
            cases h2
            simp only at hg hq
            apply ih st1 st' x x' id hk1 (by rw [hv.1]; exact hs) _ hg h hq
            intro z hz
            rw [hv.1] at hz
            rcases hh z hz with h0 | ⟨w, hw⟩
            · exact .inl h0
            · exact .inr ⟨w, by rw [hk12]; exact updateAll_keeps _ _ st1 p r.updates h1' _ _ w hw⟩
          | some a =>
            rw [ha] at h2 hg hq
            simp only at hg hq
            simp only [List.map_cons, seqAdjust] at hq
            cases hx : Generate.adjust ext x (toGen a) with
            | error e => rw [hx] at hq; cases hq
            | ok x1 =>
              rw [hx] at hq
              have ga := hg a (by simp)
              obtain ⟨hfresh, hh2⟩ := stepFresh_adjust c0 st st2 p a hh ga.huge h2
              have hview : st2.view = overlayContainer st.view a := by
                obtain ⟨o, _, e⟩ := (adjust_ok_iff _ st st2 p a).1 h2
                rw [e]; exact adjustData_view st a
              have hs1 : ViewSim st1.view x1 := by
                rw [hv.1, hview]
                exact viewSim_step hi st.view x x1 a hs ga.wf ga.limit hfresh hx
              apply ih st1 st' x1 x' id hk1 hs1 _ (fun b hb => hg b (List.mem_cons_of_mem _ hb)) h hq
              intro z hz
              rw [hv.1] at hz
              rcases hh2 z hz with h0 | ⟨w, hw⟩
              · exact .inl h0
              · exact .inr ⟨w, by rw [hk12]; exact updateAll_keeps _ st2 st1 p r.updates h1' _ _ w hw⟩

/-! ### the original container and its spec -/

theorem viewSim_init (c0 : Container) (h : SpecWF (toSpec c0)) :
    ViewSim { c0 with resources := normRes c0.resources } (toSpec c0) := by
  obtain ⟨hm, hd, he⟩ := specWF_parts _ h
  refine ⟨⟨rfl, rfl, rfl, rfl, rfl, fun _ => rfl, fun _ _ => rfl, List.Perm.refl _, hm, rfl, ?_, ?_, rfl,
    fun _ => rfl, rfl⟩, ?_, he, hd⟩
  · simp [toSpec, normRes]
  · simp [toSpec, normRes, ociMemory]
  · intro e hm
    obtain ⟨n, v, hs, _⟩ := he.split e hm
    exact ⟨n, v, hs⟩

/-- every container simulates its own spec -/
theorem viewSim_self (c : Container) (h : SpecWF (toSpec c)) : ViewSim c (toSpec c) := by
  obtain ⟨hm, hd, he⟩ := specWF_parts _ h
  refine ⟨⟨rfl, rfl, rfl, rfl, rfl, fun _ => rfl, fun _ _ => rfl, List.Perm.refl _, hm, rfl, rfl, rfl, rfl,
    fun _ => rfl, rfl⟩, ?_, he, hd⟩
  intro e hm
  obtain ⟨n, v, hs, _⟩ := he.split e hm
  exact ⟨n, v, hs⟩

theorem hugeHeld_init (c0 : Container) : HugeHeld c0 (initCreate c0) := by
  intro z hz; exact .inl hz

/-- `ViewAgrees` is compatible with the spec equality of C03 -/
theorem viewAgrees_of_specEq (c : Container) (sC sS : Oci.Spec) (h : ViewAgrees c sS) (e : SpecEq sC sS) :
    ViewAgrees c sC := by
  refine ⟨?_, ?_, ?_, ?_, ?_, ?_, ?_, ?_, ?_, ?_, ?_, ?_, ?_, ?_, ?_⟩
  · rw [e.args]; exact h.args
  · rw [e.rlimits]; exact h.rlimits
  · rw [e.hooks]; exact h.hooks
  · rw [e.oomScoreAdj]; exact h.oomScoreAdj
  · rw [e.cgroupsPath]; exact h.cgroupsPath
  · intro k; rw [h.annotations k, e.annotations k]
  · intro k hk; rw [h.env k hk, e.env k hk]
  · rw [e.mounts]; exact h.mounts
  · rw [e.mounts]; exact h.mountsNodup
  · rw [e.devices]; exact h.devices
  · rw [e.cpu]; exact h.cpu
  · rw [e.memory]; exact h.memLimit
  · rw [e.hugepages]; exact h.hugepages
  · intro k; rw [h.unified k, e.unified k]
  · rw [e.pids]; exact h.pids

theorem mem_adjsOf_take (rs : List (Plugin × Option Response)) (i : Nat) (a : Adjustment)
    (h : a ∈ adjsOf (rs.take i)) : a ∈ adjsOf rs := by
  unfold adjsOf at *
  obtain ⟨x, hx, hxa⟩ := List.mem_filterMap.1 h
  exact List.mem_filterMap.2 ⟨x, List.mem_of_mem_take hx, hxa⟩

/-- **What a plugin is shown agrees with the result combined so far** (lemma form; any
    position `i` of any chain): `s` = the state in which plugin `i` is called, `s.view` what it
    is shown, `s.reply` the reply combined so far; if the generator accepts that reply on the
    original spec, the resulting spec `ViewAgrees` with the view.  It does accept it whenever
    applying the earlier plugins' adjustments one after another succeeds (second part). -/
theorem view_agrees {ext : Generate.Externals} {bad : List Str}
    (hi : ext.injectCDI = some (Generate.recordingInjector bad) ∨ ext.injectCDI = none)
    (c0 : Container) (rs : List (Plugin × Option Response)) (hs0 : SpecWF (toSpec c0))
    (hg : ∀ a ∈ adjsOf rs, ViewGuard c0 a) (i : Nat) (s : State)
    (h : (viewsAlong Quirks.fixed (initCreate c0) rs)[i]? = some s) :
    (∀ sC, Generate.adjust ext (toSpec c0) (toGen s.reply) = .ok sC → ViewAgrees s.view sC) ∧
    ((∃ sS, seqAdjust ext (toSpec c0) ((adjsOf (rs.take i)).map toGen) = .ok sS) →
      ∃ sC, Generate.adjust ext (toSpec c0) (toGen s.reply) = .ok sC) := by
  have hrun := viewsAlong_run _ _ _ i s h
  have hg' : ∀ a ∈ adjsOf (rs.take i), ViewGuard c0 a := fun a ha => hg a (mem_adjsOf_take rs i a ha)
  obtain ⟨hrep, hc⟩ := run_chain c0 (rs.take i) s hrun (fun a ha => wellFormed_core a (hg' a ha).wf)
  have hnp : ∀ a ∈ adjsOf (rs.take i), a.mounts.all noPropagation = true :=
    fun a ha => wellFormed_noProp a (hg' a ha).wf
  constructor
  · intro sC hC
    rw [hrep] at hC
    obtain ⟨sS, hS⟩ := compose_converse hi _ hc hnp (toSpec c0) sC hs0 hC
    obtain ⟨sC', hC', heq⟩ := compose_main hi _ hc hnp (toSpec c0) sS hs0 hS
    rw [hC] at hC'; cases hC'
    have hsim := run_viewSim hi c0 (rs.take i) (initCreate c0) s (toSpec c0) sS c0.id rfl
      (viewSim_init c0 hs0) (hugeHeld_init c0) hg' hrun hS
    exact viewAgrees_of_specEq s.view sC sS hsim.toViewAgrees heq
  · rintro ⟨sS, hS⟩
    obtain ⟨sC, hC, _⟩ := compose_main hi _ hc hnp (toSpec c0) sS hs0 hS
    exact ⟨sC, by rw [hrep]; exact hC⟩

end Nri.Compose
