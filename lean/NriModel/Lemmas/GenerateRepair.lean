/-
The repair /repo 6eaf34c, formerly docs/fixes/C13-1.patch ("all removals before all sets" in `AdjustEnv`,
`AdjustDevices`, `AdjustMounts`) is the code before the repair run on the stably reordered
entry list `removalsFirst L`.  Hence it changes nothing for adjustments that already list
their removals first — in particular for everything the collector in `result.go` produces
from well-formed plugin responses (removal marker immediately before the set).
Core Lean only.
-/
import NriModel.Generate

namespace Nri.Generate
open Nri.Api

theorem removalsFirst_isEmpty {ε : Type} (rawKey : ε → Str) (L : List ε) :
    (removalsFirst rawKey L).isEmpty = L.isEmpty := by
  cases L with
  | nil => rfl
  | cons e r =>
    unfold removalsFirst
    cases hm : isMarked (rawKey e) <;> simp [hm]

namespace Devices

theorem unfixed_marked (st : State) (L : List LinuxDevice) :
    applyUnfixed st (L.filter (fun d => isMarked d.path)) = (removals st.1 L, st.2) := by
  induction L generalizing st with
  | nil => rfl
  | cons d r ih =>
    cases hm : isMarked d.path
    · simp only [List.filter_cons, hm, Bool.false_eq_true, if_false]
      rw [ih]; simp [removals, hm]
    · simp only [List.filter_cons, hm, if_true]
      unfold applyUnfixed at ih ⊢
      simp only [List.foldl_cons, hm, if_true]
      rw [ih]; simp [removals, hm]

theorem unfixed_unmarked (st : State) (L : List LinuxDevice) :
    applyUnfixed st (L.filter (fun d => !isMarked d.path)) = sets st L := by
  induction L generalizing st with
  | nil => rfl
  | cons d r ih =>
    cases hm : isMarked d.path
    · simp only [List.filter_cons, hm, Bool.not_false, if_true]
      unfold applyUnfixed at ih ⊢
      simp only [List.foldl_cons, hm, Bool.false_eq_true, if_false]
      rw [ih]
      simp only [sets, List.foldl_cons, hm, Bool.false_eq_true, if_false, setStep,
        strip_of_not_marked hm]
    · simp only [List.filter_cons, hm, Bool.not_true, Bool.false_eq_true, if_false]
      rw [ih]; simp [sets, hm]

/-- The repaired `AdjustDevices` = the unrepaired one on the removals-first reordering. -/
theorem apply_eq_unfixed (st : State) (L : List LinuxDevice) :
    apply st L = applyUnfixed st (removalsFirst LinuxDevice.path L) := by
  unfold removalsFirst
  have : applyUnfixed st (L.filter (fun d => isMarked d.path) ++ L.filter (fun d => !isMarked d.path)) =
      applyUnfixed (applyUnfixed st (L.filter (fun d => isMarked d.path))) (L.filter (fun d => !isMarked d.path)) := by
    unfold applyUnfixed; rw [List.foldl_append]
  rw [this, unfixed_marked, unfixed_unmarked]; rfl

end Devices

namespace Mounts

theorem loopUnfixed_append (hp : Str → Str) (st : State) (A B : List Api.Mount) :
    loopUnfixed hp st (A ++ B) =
      match loopUnfixed hp st A with
      | .ok st' => loopUnfixed hp st' B
      | .error e => .error e := by
  induction A generalizing st with
  | nil => rfl
  | cons m r ih =>
    simp only [List.cons_append, loopUnfixed]
    cases hm : isMarked m.destination
    · simp only [Bool.false_eq_true, if_false]
      cases setStep hp st m with
      | ok st' => exact ih st'
      | error e => rfl
    · simp only [if_true]; exact ih _

theorem unfixed_marked (hp : Str → Str) (st : State) (L : List Api.Mount) :
    loopUnfixed hp st (L.filter (fun m => isMarked m.destination)) =
      .ok { st with mounts := removals st.mounts L } := by
  induction L generalizing st with
  | nil => rfl
  | cons m r ih =>
    cases hm : isMarked m.destination
    · simp only [List.filter_cons, hm, Bool.false_eq_true, if_false]
      rw [ih]; simp [removals, hm]
    · simp only [List.filter_cons, hm, if_true, loopUnfixed]
      rw [ih]; simp [removals, hm]

theorem unfixed_unmarked (hp : Str → Str) (st : State) (L : List Api.Mount) :
    loopUnfixed hp st (L.filter (fun m => !isMarked m.destination)) = sets hp st L := by
  induction L generalizing st with
  | nil => rfl
  | cons m r ih =>
    cases hm : isMarked m.destination
    · simp only [List.filter_cons, hm, Bool.not_false, if_true, loopUnfixed, sets,
        Bool.false_eq_true, if_false]
      cases setStep hp st m with
      | ok st' => exact ih st'
      | error e => rfl
    · simp only [List.filter_cons, hm, Bool.not_true, Bool.false_eq_true, if_false, sets, if_true]
      exact ih st

/-- The repaired `AdjustMounts` = the unrepaired one on the removals-first reordering. -/
theorem apply_eq_unfixed (hp : Str → Str) (ms : List Oci.Mount) (rootfs : Str) (L : List Api.Mount) :
    apply hp ms rootfs L = applyUnfixed hp ms rootfs (removalsFirst Api.Mount.destination L) := by
  unfold apply applyUnfixed
  rw [removalsFirst_isEmpty]
  cases L.isEmpty
  · simp only [Bool.false_eq_true, if_false]
    unfold removalsFirst
    rw [loopUnfixed_append, unfixed_marked]
    simp only
    rw [unfixed_unmarked]
  · rfl

end Mounts

namespace Env

theorem phase2_removalsFirst (md : AList Str KeyValue) (acc : AList Str Str) (env : List KeyValue) :
    phase2 md acc (removalsFirst KeyValue.key env) = phase2 md acc env := by
  unfold removalsFirst phase2
  rw [List.foldl_append]
  have h1 : ∀ (acc : AList Str Str) (L : List KeyValue),
      (L.filter (fun e => isMarked e.key)).foldl (fun acc e =>
        if isMarked e.key then acc
        else if AList.contains md e.key then addProcessEnv acc e.key e.value else acc) acc = acc := by
    intro acc L
    induction L generalizing acc with
    | nil => rfl
    | cons e r ih =>
      cases hm : isMarked e.key
      · simp only [List.filter_cons, hm, Bool.false_eq_true, if_false]; exact ih acc
      · simp only [List.filter_cons, hm, if_true, List.foldl_cons]; exact ih acc
  rw [h1]
  induction env generalizing acc with
  | nil => rfl
  | cons e r ih =>
    cases hm : isMarked e.key
    · simp only [List.filter_cons, hm, Bool.not_false, if_true, List.foldl_cons, Bool.false_eq_true,
        if_false]
      exact ih _
    · simp only [List.filter_cons, hm, Bool.not_true, Bool.false_eq_true, if_false, List.foldl_cons,
        if_true]
      exact ih _

/-- The repaired `AdjustEnv` = the unrepaired one on the removals-first reordering. -/
theorem apply_eq_unfixed (old : List Str) (env : List KeyValue) :
    apply old env = applyUnfixed old (removalsFirst KeyValue.key env) := by
  unfold apply applyUnfixed applyWith mod
  rw [removalsFirst_isEmpty]
  simp only [phase2_removalsFirst]

end Env
end Nri.Generate
