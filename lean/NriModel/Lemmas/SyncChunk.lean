/-
Helper lemmas for property C09 (split synchronisation). The property theorems themselves
are in `NriModel/Props/C09.lean`.
-/
import NriModel.SyncChunk

namespace Nri.SyncChunk

variable {α β υ ε σ : Type}

/-! ## Receiver -/

def accPods (st : RState α β) : List α := match st.acc with | none => [] | some (ps, _) => ps
def accCtrs (st : RState α β) : List β := match st.acc with | none => [] | some (_, cs) => cs

/-- what the handler's reply turns into -/
def handlerReply (f : List α → List β → Except ε (List υ)) (ps : List α) (cs : List β) :
    Except ε (Reply υ) :=
  match f ps cs with
  | .ok u => .ok { update := u, more := false }
  | .error e => .error e

theorem deliverSync_eq (f : List α → List β → Except ε (List υ)) (st : RState α β) (c : Chunk α β) :
    deliverSync f st c =
      (⟨none, st.calls ++ [(accPods st ++ c.pods, accCtrs st ++ c.ctrs)]⟩,
       handlerReply f (accPods st ++ c.pods) (accCtrs st ++ c.ctrs)) := by
  unfold deliverSync handlerReply accPods accCtrs
  cases hacc : st.acc with
  | none => simp; split <;> simp_all
  | some pc => obtain ⟨ps, cs⟩ := pc; simp; split <;> simp_all

theorem collectSync_eq (st : RState α β) (c : Chunk α β) :
    collectSync (υ := υ) st c =
      (⟨some (accPods st ++ c.pods, accCtrs st ++ c.ctrs), st.calls⟩, ⟨[], c.more⟩) := by
  unfold collectSync accPods accCtrs
  cases hacc : st.acc with
  | none => simp
  | some pc => obtain ⟨ps, cs⟩ := pc; simp

theorem stubRun_cons (h : Handler α β υ ε) (st : RState α β) (c : Chunk α β)
    (rest : List (Chunk α β)) :
    stubRun h st (c :: rest) =
      ((stubRun h (stubRPC h st c).1 rest).1, (stubRPC h st c).2 :: (stubRun h (stubRPC h st c).1 rest).2) := rfl

/-- Generalised receiver lemma: from any accumulator state, a well-flagged list of chunks
    makes exactly one handler call with accumulator ++ all chunks, answers every `more`
    chunk with an empty echo and the last with the handler's reply, and clears the
    accumulator. -/
theorem stubRun_wellFlagged (f : List α → List β → Except ε (List υ)) :
    ∀ (chunks : List (Chunk α β)) (st : RState α β), WellFlagged chunks →
      stubRun (some f) st chunks =
        (⟨none, st.calls ++ [(accPods st ++ allPods chunks, accCtrs st ++ allCtrs chunks)]⟩,
         List.replicate (chunks.length - 1) (.ok ⟨[], true⟩) ++
           [handlerReply f (accPods st ++ allPods chunks) (accCtrs st ++ allCtrs chunks)]) := by
  intro chunks
  induction chunks with
  | nil => intro st h; exact absurd h (by simp [WellFlagged])
  | cons c rest ih =>
    intro st h
    cases rest with
    | nil =>
      have hm : c.more = false := by simpa [WellFlagged] using h
      simp [stubRun, stubRPC, hm, deliverSync_eq, allPods, allCtrs]
    | cons c' rest' =>
      have h' : c.more = true ∧ WellFlagged (c' :: rest') := by simpa [WellFlagged] using h
      obtain ⟨hm, hw⟩ := h'
      have := ih ⟨some (accPods st ++ c.pods, accCtrs st ++ c.ctrs), st.calls⟩ hw
      rw [stubRun_cons]
      have e : stubRPC (some f) st c =
          (⟨some (accPods st ++ c.pods, accCtrs st ++ c.ctrs), st.calls⟩, .ok ⟨[], true⟩) := by
        simp [stubRPC, hm, collectSync_eq]
      rw [e]
      simp only []
      rw [this]
      simp [accPods, accCtrs, allPods, allCtrs, List.append_assoc, List.replicate_succ]

/-- A plugin without a `Synchronize` handler: every chunk is answered with an echo of
    `more`, nothing is accumulated, nothing is called. -/
theorem stubRun_noHandler :
    ∀ (chunks : List (Chunk α β)) (st : RState α β),
      stubRun (none : Handler α β υ ε) st chunks =
        (st, chunks.map fun c => .ok ⟨[], c.more⟩) := by
  intro chunks
  induction chunks with
  | nil => intro st; rfl
  | cons c rest ih => intro st; simp [stubRun, stubRPC, ih]

/-! ## Plans -/

theorem validPlan_spec {fits : Chunk α β → Prop} {ps : List α} {cs : List β}
    {pl : List (Chunk α β)} (h : ValidPlan fits ps cs pl) :
    allPods pl = ps ∧ allCtrs pl = cs ∧ WellFlagged pl ∧ (∀ c ∈ pl, fits c) ∧
      (∀ c ∈ pl, c.more = true → 0 < c.count) := by
  induction h with
  | last ps cs hf => simp [allPods, allCtrs, WellFlagged, hf]
  | more ps cs n k rest hn hk hpos hf _ ih =>
    obtain ⟨h1, h2, h3, h4, h5⟩ := ih
    refine ⟨?_, ?_, ?_, ?_, ?_⟩
    · simp [allPods, h1]
    · simp [allCtrs, h2]
    · cases rest with
      | nil => simp [WellFlagged] at h3
      | cons c' r' => exact ⟨rfl, h3⟩
    · intro c hc
      rcases List.mem_cons.mp hc with rfl | hc
      · exact hf
      · exact h4 c hc
    · intro c hc hm
      rcases List.mem_cons.mp hc with rfl | hc
      · simp only [Chunk.count, List.length_take]
        omega
      · exact h5 c hc hm

theorem accepts_sound [DecidableEq α] [DecidableEq β] (fits : Chunk α β → Bool) :
    ∀ (pl : List (Chunk α β)) (ps : List α) (cs : List β),
      accepts fits ps cs pl = true → ValidPlan (fun c => fits c = true) ps cs pl := by
  intro pl
  induction pl with
  | nil => intro ps cs h; simp [accepts] at h
  | cons c rest ih =>
    intro ps cs h
    cases rest with
    | nil =>
      simp only [accepts, Bool.and_eq_true, Bool.not_eq_true', decide_eq_true_eq] at h
      obtain ⟨⟨⟨hm, hp⟩, hc⟩, hf⟩ := h
      obtain ⟨p, k, m⟩ := c
      simp only at hm hp hc
      subst hm hp hc
      exact ValidPlan.last _ _ hf
    | cons c' rest' =>
      simp only [accepts, Bool.and_eq_true, decide_eq_true_eq] at h
      obtain ⟨⟨⟨⟨⟨⟨⟨hm, hpl⟩, hcl⟩, hp⟩, hc⟩, hpos⟩, hf⟩, hrest⟩ := h
      have hv := ih _ _ hrest
      obtain ⟨p, k, m⟩ := c
      simp only at hm hpl hcl hp hc hpos hf hrest hv
      subst hm
      have := ValidPlan.more (fits := fun c => fits c = true) ps cs p.length k.length (c' :: rest')
        hpl hcl hpos (by rw [← hp, ← hc]; exact hf) hv
      rw [← hp, ← hc] at this
      exact this

theorem accepts_complete [DecidableEq α] [DecidableEq β] (fits : Chunk α β → Bool)
    {ps : List α} {cs : List β} {pl : List (Chunk α β)}
    (h : ValidPlan (fun c => fits c = true) ps cs pl) : accepts fits ps cs pl = true := by
  induction h with
  | last ps cs hf => simp [accepts, hf]
  | more ps cs n k rest hn hk hpos hf hv ih =>
    cases rest with
    | nil => cases hv
    | cons c' r' =>
      have e1 : min n ps.length = n := Nat.min_eq_left hn
      have e2 : min k cs.length = k := Nat.min_eq_left hk
      simp only [accepts, Bool.and_eq_true, decide_eq_true_eq, List.length_take, e1, e2]
      simp [hn, hk, hpos, hf, ih]

end Nri.SyncChunk
