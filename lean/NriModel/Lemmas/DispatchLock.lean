/-
Lemmas about the interleaving model of concurrent callers (`LState`, `step?`, `run?`).
-/
import NriModel.Lemmas.DispatchResult

namespace Nri.Dispatch
open Nri.Events

variable {ρ σ ο ε : Type}

theorem pcOf_filter_ne (pcs : List (Tid × Pc ρ ο ε)) (t t' : Tid) (h : t' ≠ t) :
    pcOf (pcs.filter (fun x => x.1 != t)) t' = pcOf pcs t' := by
  induction pcs with
  | nil => rfl
  | cons x xs ih =>
    obtain ⟨u, pc⟩ := x
    by_cases hu : u = t
    · subst hu
      have hne : ¬ (u = t') := fun e => h e.symm
      simp [pcOf, ih, hne]
    · have : (u != t) = true := by simp [hu]
      simp only [List.filter_cons, this, if_true, pcOf]
      split
      · rfl
      · exact ih

theorem pcOf_setPc_self (pcs : List (Tid × Pc ρ ο ε)) (t : Tid) (pc : Pc ρ ο ε) :
    pcOf (setPc pcs t pc) t = pc := by
  simp [setPc, pcOf]

theorem pcOf_setPc_ne (pcs : List (Tid × Pc ρ ο ε)) (t t' : Tid) (pc : Pc ρ ο ε) (h : t' ≠ t) :
    pcOf (setPc pcs t pc) t' = pcOf pcs t' := by
  have hne : ¬ (t = t') := fun e => h e.symm
  simp only [setPc, pcOf, hne, if_false]
  exact pcOf_filter_ne pcs t t' h

theorem zip_map_fst {α β : Type} : ∀ (l : List α) (m : List β), m.length = l.length → (l.zip m).map (·.1) = l
  | [], _, _ => by simp
  | a :: as, [], h => by simp at h
  | a :: as, b :: bs, h => by
    simp only [List.zip_cons_cons, List.map_cons, List.cons.injEq, true_and]
    exact zip_map_fst as bs (by simpa using h)

/-- the plugin list a request leaves behind is still in index order -/
theorem request_sorted (M : Merger ρ σ ο ε) (T ev) (ps : List Plugin) (calls : List (Call ρ))
    (hl : calls.length = ps.length) (hs : Sorted ps) :
    Sorted (request M T ev (ps.zip calls)).2.2 := by
  simp only [request]
  apply Sorted.prune
  apply Sorted.of_map_idx (l₂ := ps) _ hs
  rw [relay_after_idx, zip_map_fst ps calls hl]

/-- every completed relay recorded in the log is `request` applied to the caller's own request
    and the calls made for it, on an index-sorted plugin list -/
def LogOk (Mof : Nat → EventNo → Merger ρ σ ο ε) (T : Nat) (d : Done ρ ο ε) : Prop :=
  d.calls.length = d.before.length ∧ Sorted d.before ∧
  d.res = (request (Mof d.rid d.ev) T d.ev (d.before.zip d.calls)).1 ∧
  d.trace = (request (Mof d.rid d.ev) T d.ev (d.before.zip d.calls)).2.1

structure WF (Mof : Nat → EventNo → Merger ρ σ ο ε) (T : Nat) (s : LState ρ ο ε) : Prop where
  sorted : Sorted s.plugins
  log : ∀ d ∈ s.log, LogOk Mof T d
  fin : ∀ t rid res, pcOf s.pcs t = .finished rid res → ∃ d ∈ s.log, d.tid = t ∧ d.rid = rid ∧ d.res = res
  rets : ∀ x ∈ s.rets, ∃ d ∈ s.log, d.tid = x.1 ∧ d.rid = x.2.1 ∧ d.res = x.2.2

theorem WF.init (Mof : Nat → EventNo → Merger ρ σ ο ε) (T : Nat) : WF Mof T (LState.init : LState ρ ο ε) :=
  ⟨List.Pairwise.nil, by simp [LState.init], by simp [LState.init, pcOf], by simp [LState.init]⟩

theorem WF.step (Mof : Nat → EventNo → Merger ρ σ ο ε) (T : Nat) (s s' : LState ρ ο ε) (e : Ev ρ)
    (hw : WF Mof T s) (hst : step? Mof T s e = some s') : WF Mof T s' := by
  cases e with
  | inv t rid ev =>
    simp only [step?] at hst
    split at hst
    · simp only [Option.some.injEq] at hst
      subst hst
      refine ⟨hw.sorted, hw.log, ?_, hw.rets⟩
      intro t' rid' res' hpc
      by_cases ht : t' = t
      · subst ht; rw [pcOf_setPc_self] at hpc; cases hpc
      · rw [pcOf_setPc_ne _ _ _ _ ht] at hpc; exact hw.fin t' rid' res' hpc
    · cases hst
  | run t calls =>
    simp only [step?] at hst
    split at hst
    · rename_i rid ev hpc0
      split at hst
      · rename_i hl
        simp only [Option.some.injEq] at hst
        subst hst
        refine ⟨request_sorted _ T ev s.plugins calls hl hw.sorted, ?_, ?_, ?_⟩
        · intro d hd
          rcases List.mem_cons.1 hd with rfl | hd
          · exact ⟨hl, hw.sorted, rfl, rfl⟩
          · exact hw.log d hd
        · intro t' rid' res' hpc
          by_cases ht : t' = t
          · subst ht
            rw [pcOf_setPc_self] at hpc
            cases hpc
            exact ⟨_, List.mem_cons_self, rfl, rfl, rfl⟩
          · rw [pcOf_setPc_ne _ _ _ _ ht] at hpc
            obtain ⟨d, hd, h⟩ := hw.fin t' rid' res' hpc
            exact ⟨d, List.mem_cons_of_mem _ hd, h⟩
        · intro x hx
          obtain ⟨d, hd, h⟩ := hw.rets x hx
          exact ⟨d, List.mem_cons_of_mem _ hd, h⟩
      · cases hst
    · cases hst
  | ret t =>
    simp only [step?] at hst
    split at hst
    · rename_i rid res hpc0
      simp only [Option.some.injEq] at hst
      subst hst
      refine ⟨hw.sorted, hw.log, ?_, ?_⟩
      · intro t' rid' res' hpc
        by_cases ht : t' = t
        · subst ht; rw [pcOf_setPc_self] at hpc; cases hpc
        · rw [pcOf_setPc_ne _ _ _ _ ht] at hpc; exact hw.fin t' rid' res' hpc
      · intro x hx
        rcases List.mem_cons.1 hx with rfl | hx
        · exact hw.fin t rid res hpc0
        · exact hw.rets x hx
    · cases hst
  | activate p arr =>
    simp only [step?] at hst
    split at hst
    · rename_i hact
      simp only [Option.some.injEq] at hst
      subst hst
      exact ⟨((isActivation_iff _ _ _).1 hact).2, hw.log, hw.fin, hw.rets⟩
    · cases hst
  | disconnect id =>
    simp only [step?, Option.some.injEq] at hst
    subst hst
    exact ⟨hw.sorted.disconnect id, hw.log, hw.fin, hw.rets⟩

theorem WF.run (Mof : Nat → EventNo → Merger ρ σ ο ε) (T : Nat) (h : List (Ev ρ)) :
    ∀ (s s' : LState ρ ο ε), WF Mof T s → run? Mof T s h = some s' → WF Mof T s' := by
  induction h with
  | nil => intro s s' hw hr; simp only [run?, Option.some.injEq] at hr; subst hr; exact hw
  | cons e rest ih =>
    intro s s' hw hr
    simp only [run?] at hr
    split at hr
    · cases hr
    · rename_i s1 hs1
      exact ih s1 s' (hw.step Mof T s s1 e hs1) hr

end Nri.Dispatch
