/-
The patched `recalcObjsPerSyncMsg` (`policyFixed`) satisfies the abstract condition
`Shrinks` the sender theorems are stated for.
-/
import NriModel.Lemmas.SyncChunkRun

namespace Nri.SyncChunk


theorem scale_le (x M L : Nat) (h : M < L) : scale x M L ≤ x := by
  unfold scale
  split
  · omega
  · apply Nat.div_le_of_le_mul
    have : x * M ≤ x * L := Nat.mul_le_mul_left x (Nat.le_of_lt h)
    rw [Nat.mul_comm L x]; exact this

theorem scale_lt (x M L : Nat) (h : M < L) (hx : 0 < x) : scale x M L < x := by
  unfold scale
  split
  · omega
  · have hL : 0 < L := by omega
    rw [Nat.div_lt_iff_lt_mul hL]
    exact Nat.mul_lt_mul_of_pos_left h hx

theorem policyFixed_shrinks (m : Nat) (hm : 2 ≤ m) : Shrinks m (policyFixed m) := by
  refine ⟨?_, ?_, ?_⟩
  · intro p c M L p' c' h
    unfold policyFixed at h
    split at h
    · cases h
    · split at h
      · cases h
      · next hle hbad =>
        have hML : M < L := by omega
        have h1 := scale_le p M L hML
        have h2 := scale_le c M L hML
        simp only at h
        split at h
        · simp only [Option.some.injEq, Prod.mk.injEq] at h
          obtain ⟨rfl, rfl⟩ := h
          omega
        · simp only [Option.some.injEq, Prod.mk.injEq] at h
          obtain ⟨rfl, rfl⟩ := h
          unfold keepPos
          by_cases hp : 0 < p <;> by_cases hc : 0 < c
          · have := scale_lt p M L hML hp
            have := scale_lt c M L hML hc
            simp only [hp, hc, if_true]
            omega
          · have := scale_lt p M L hML hp
            simp only [hp, hc, if_true, if_false]
            omega
          · have := scale_lt c M L hML hc
            simp only [hp, hc, if_true, if_false]
            omega
          · omega
  · intro p c M L p' c' h
    unfold policyFixed at h
    split at h
    · cases h
    · split at h
      · cases h
      · simp only at h
        split at h
        · simp only [Option.some.injEq, Prod.mk.injEq] at h
          obtain ⟨rfl, rfl⟩ := h
          omega
        · simp only [Option.some.injEq, Prod.mk.injEq] at h
          obtain ⟨rfl, rfl⟩ := h
          unfold keepPos
          constructor <;> intro hp <;> simp only [hp, if_true] <;> omega
  · intro p c M L hM hML h
    unfold policyFixed at h
    split at h
    · assumption
    · split at h
      · omega
      · simp only at h
        split at h <;> cases h

/-- The shrink policy of the code as it stands does NOT keep a non-zero share. -/
theorem policyUnfixed_not_positive : ¬ Shrinks 8 (policyUnfixed 8) := by
  intro h
  have := (h.positive 2 40 4000 12002 0 13 (by decide)).1 (by decide)
  omega

end Nri.SyncChunk
