/-
Helper lemmas for C17 about `Registration`: index check, mask check, the phases of the
handshake, and the accept loop. Core Lean only.
-/
import NriModel.Registration
import NriModel.Lemmas.StubMask

namespace Nri.Lemmas.Registration
open Nri Nri.Events Nri.Registration

theorem utf8Size_of_digit {c : Char} (h : isDigit c = true) : c.utf8Size = 1 := by
  simp only [isDigit, Bool.and_eq_true, decide_eq_true_eq, Char.le_def] at h
  have h2 : c.val.toNat ≤ 57 := by
    have : c.val ≤ '9'.val := h.2
    simpa using UInt32.le_iff_toNat_le.mp this
  simp only [Char.utf8Size]
  have : c.val ≤ 127 := by
    apply UInt32.le_iff_toNat_le.mpr
    have : (127 : UInt32).toNat = 127 := by decide
    omega
  simp [this]

theorem checkIndex_iff (idx : Str) : checkIndex idx = .ok () ↔ TwoDigits idx := by
  constructor
  · intro h
    unfold checkIndex at h
    by_cases hl : utf8Len idx ≠ 2
    · simp [hl] at h
    · simp only [hl, if_false] at h
      rcases idx with _ | ⟨a, _ | ⟨b, _ | ⟨c, rest⟩⟩⟩
      · simp at h
      · simp at h
      · by_cases hd : (isDigit a && isDigit b) = true
        · simp only [Bool.and_eq_true] at hd
          exact ⟨a, b, rfl, hd.1, hd.2⟩
        · simp [hd] at h
      · simp at h
  · intro ⟨a, b, hab, ha, hb⟩
    subst hab
    have : utf8Len [a, b] = 2 := by
      simp [utf8Len, utf8Size_of_digit ha, utf8Size_of_digit hb]
    simp [checkIndex, this, ha, hb]

theorem registerPlugin_ext_iff (pre : Str × Str) (name idx : Str) (r : Str × Str) :
    registerPlugin true pre name idx = .ok r ↔ name ≠ [] ∧ TwoDigits idx ∧ r = (idx, name) := by
  unfold registerPlugin
  simp only [if_true]
  by_cases hn : name = []
  · simp [hn]
  · simp only [hn, if_false]
    cases hc : checkIndex idx with
    | error e =>
      have : ¬ TwoDigits idx := by
        intro ht
        rw [(checkIndex_iff idx).mpr ht] at hc
        cases hc
      simp [this]
    | ok u =>
      have ht : TwoDigits idx := (checkIndex_iff idx).mp (by cases u; exact hc)
      simp only [ne_eq, hn, not_false_eq_true, ht, true_and]
      constructor
      · intro h; injection h with h; exact h.symm
      · intro h; rw [h]

theorem configureMask_iff (m m' : Mask) :
    configureMask m = .ok m' ↔ m &&& ~~~valid = 0#32 ∧ m' = (if m = 0#32 then valid else m) := by
  unfold configureMask
  by_cases hz : m = 0#32
  · subst hz
    simp only [ne_eq, not_true_eq_false, if_false, if_true]
    constructor
    · intro h; injection h with h; exact ⟨by simp, h.symm⟩
    · intro h; rw [h.2]
  · simp only [ne_eq, hz, not_false_eq_true, if_true, if_false]
    by_cases hx : m &&& ~~~valid = 0#32
    · simp only [hx, not_true_eq_false, if_false, true_and]
      constructor
      · intro h; injection h with h; exact h.symm
      · intro h; rw [h]
    · simp [hx]

/-! ### phases -/

/-- the plugin answers a request within the request timeout -/
def Answers (at_ : Option Nat) (limit : Nat) : Prop := ∃ d, at_ = some d ∧ d < limit

theorem syncPhase_activated (to : Timeouts) (b : Behaviour) (i n : Str) (m : Mask) (t : Nat)
    (i' n' : Str) (m' : Mask) :
    (syncPhase to b i n m t).outcome = .activated i' n' m' ↔
      Answers b.syncAt to.req ∧ b.syncErr = false ∧ i' = i ∧ n' = n ∧ m' = m := by
  unfold syncPhase Answers
  cases hs : b.syncAt with
  | none => simp
  | some d =>
    by_cases hd : d < to.req
    · cases he : b.syncErr with
      | true => simp [hd]
      | false =>
        simp only [hd, if_true, Bool.false_eq_true, if_false, Outcome.activated.injEq]
        constructor
        · intro ⟨h1, h2, h3⟩; exact ⟨⟨d, rfl, hd⟩, trivial, h1.symm, h2.symm, h3.symm⟩
        · intro ⟨_, _, h1, h2, h3⟩; exact ⟨h1.symm, h2.symm, h3.symm⟩
    · simp only [hd, if_false]
      constructor
      · intro h; cases h
      · intro ⟨⟨d', h1, h2⟩, _⟩
        injection h1 with h1; subst h1; exact absurd h2 hd

theorem syncPhase_flags (to : Timeouts) (b : Behaviour) (i n : Str) (m : Mask) (t : Nat) :
    (syncPhase to b i n m t).configured = true ∧ (syncPhase to b i n m t).synced = true ∧
    (syncPhase to b i n m t).elapsed ≤ t + to.req := by
  unfold syncPhase
  cases b.syncAt with
  | none => simp
  | some d =>
    by_cases hd : d < to.req
    · cases b.syncErr <;> simp [hd] <;> omega
    · simp [hd]

theorem configurePhase_activated (to : Timeouts) (b : Behaviour) (i n : Str) (t : Nat)
    (i' n' : Str) (m' : Mask) :
    (configurePhase to b i n t).outcome = .activated i' n' m' ↔
      Answers b.cfgAt to.req ∧ b.cfgErr = false ∧ b.events &&& ~~~valid = 0#32 ∧
      Answers b.syncAt to.req ∧ b.syncErr = false ∧ i' = i ∧ n' = n ∧
      m' = (if b.events = 0#32 then valid else b.events) := by
  unfold configurePhase
  cases hc : b.cfgAt with
  | none => simp [Answers]
  | some d =>
    by_cases hd : d < to.req
    · have hA : Answers (some d) to.req := ⟨d, rfl, hd⟩
      cases he : b.cfgErr with
      | true => simp [hd]
      | false =>
        simp only [hd, if_true, Bool.false_eq_true, if_false]
        cases hm : configureMask b.events with
        | error x =>
          cases x with
          | invalidEvents x =>
            have : ¬ (b.events &&& ~~~valid = 0#32) := by
              intro hv
              have := (configureMask_iff b.events _).mpr ⟨hv, rfl⟩
              rw [hm] at this; cases this
            simp [this]
        | ok m =>
          have ⟨hv, hmm⟩ := (configureMask_iff b.events m).mp hm
          simp only [syncPhase_activated, hA, hv, true_and, hmm]
    · simp only [hd, if_false]
      constructor
      · intro h; cases h
      · intro ⟨⟨d', h1, h2⟩, _⟩
        injection h1 with h1; subst h1; exact absurd h2 hd

theorem configurePhase_flags (to : Timeouts) (b : Behaviour) (i n : Str) (t : Nat) :
    (configurePhase to b i n t).configured = true ∧
    (configurePhase to b i n t).elapsed ≤ t + 2 * to.req ∧
    ((configurePhase to b i n t).synced = true →
       Answers b.cfgAt to.req ∧ b.cfgErr = false ∧ b.events &&& ~~~valid = 0#32) := by
  unfold configurePhase
  cases hc : b.cfgAt with
  | none => simp; omega
  | some d =>
    by_cases hd : d < to.req
    · cases he : b.cfgErr with
      | true => simp [hd]; omega
      | false =>
        simp only [hd, if_true, Bool.false_eq_true, if_false]
        cases hm : configureMask b.events with
        | error x => cases x; simp; omega
        | ok m =>
          have ⟨hv, _⟩ := (configureMask_iff b.events m).mp hm
          have hf := syncPhase_flags to b i n m (t + d)
          dsimp only
          refine ⟨hf.1, by have := hf.2.2; omega, fun _ => ⟨⟨d, rfl, hd⟩, trivial, hv⟩⟩
    · simp [hd]; omega

/-- the registration wins the race against the plugin hanging up and the timer -/
def Timely (to : Timeouts) (b : Behaviour) : Prop :=
  ∃ r, b.regAt = some r ∧ r < to.reg ∧ ∀ c, b.closeAt = some c → r < c

theorem lt_regLimit_iff (to : Timeouts) (b : Behaviour) (r : Nat) :
    r < regLimit to b ↔ r < to.reg ∧ ∀ c, b.closeAt = some c → r < c := by
  unfold regLimit
  cases b.closeAt with
  | none => simp
  | some c =>
    simp only [Option.some.injEq, forall_eq']
    omega

theorem regLost_facts (to : Timeouts) (b : Behaviour) :
    (∀ i n m, (regLost to b).outcome ≠ .activated i n m) ∧ (regLost to b).configured = false ∧
    (regLost to b).synced = false ∧ (regLost to b).elapsed ≤ to.reg := by
  unfold regLost
  cases b.closeAt with
  | none => simp
  | some c =>
    by_cases hc : c < to.reg
    · simp [hc]; omega
    · simp [hc]

theorem handle_activated (to : Timeouts) (b : Behaviour) (i n : Str) (m : Mask) :
    (handle to b).outcome = .activated i n m ↔
      Timely to b ∧ b.name ≠ [] ∧ TwoDigits b.idx ∧
      Answers b.cfgAt to.req ∧ b.cfgErr = false ∧ b.events &&& ~~~valid = 0#32 ∧
      Answers b.syncAt to.req ∧ b.syncErr = false ∧
      i = b.idx ∧ n = b.name ∧ m = (if b.events = 0#32 then valid else b.events) := by
  unfold handle
  cases hr : b.regAt with
  | none =>
    have := (regLost_facts to b).1 i n m
    simp [this, Timely, hr]
  | some r =>
    by_cases hl : r < regLimit to b
    · have hT : Timely to b := ⟨r, hr, (lt_regLimit_iff to b r).mp hl⟩
      simp only [hl, if_true]
      cases hreg : registerPlugin true ([], []) b.name b.idx with
      | error e =>
        have : ¬ (b.name ≠ [] ∧ TwoDigits b.idx) := by
          intro ⟨h1, h2⟩
          have := (registerPlugin_ext_iff ([], []) b.name b.idx (b.idx, b.name)).mpr ⟨h1, h2, rfl⟩
          rw [hreg] at this; cases this
        constructor
        · intro h; cases h
        · intro ⟨_, h1, h2, _⟩; exact absurd ⟨h1, h2⟩ this
      | ok pr =>
        obtain ⟨h1, h2, h3⟩ := (registerPlugin_ext_iff ([], []) b.name b.idx pr).mp hreg
        subst h3
        simp only [configurePhase_activated, hT, h1, h2, true_and, ne_eq, not_false_eq_true]
    · simp only [hl, if_false]
      have := (regLost_facts to b).1 i n m
      constructor
      · intro h; exact absurd h this
      · intro ⟨⟨r', h1, h2, h3⟩, _⟩
        rw [hr] at h1
        injection h1 with h1; subst h1
        exact absurd ((lt_regLimit_iff to b r).mpr ⟨h2, h3⟩) hl

theorem handle_flags (to : Timeouts) (b : Behaviour) :
    (handle to b).elapsed ≤ to.reg + 2 * to.req ∧
    ((handle to b).configured = true → Timely to b ∧ b.name ≠ [] ∧ TwoDigits b.idx) ∧
    ((handle to b).synced = true →
       Timely to b ∧ b.name ≠ [] ∧ TwoDigits b.idx ∧
       Answers b.cfgAt to.req ∧ b.cfgErr = false ∧ b.events &&& ~~~valid = 0#32) := by
  unfold handle
  cases hr : b.regAt with
  | none =>
    have := regLost_facts to b
    simp [this.2.1, this.2.2.1]
    omega
  | some r =>
    by_cases hl : r < regLimit to b
    · have hT : Timely to b := ⟨r, hr, (lt_regLimit_iff to b r).mp hl⟩
      have hrl := ((lt_regLimit_iff to b r).mp hl).1
      simp only [hl, if_true]
      cases hreg : registerPlugin true ([], []) b.name b.idx with
      | error e => simp; omega
      | ok pr =>
        obtain ⟨h1, h2, h3⟩ := (registerPlugin_ext_iff ([], []) b.name b.idx pr).mp hreg
        subst h3
        have hf := configurePhase_flags to b b.idx b.name r
        dsimp only
        refine ⟨by have := hf.2.1; omega, fun _ => ⟨hT, h1, h2⟩, fun hs => ?_⟩
        have := hf.2.2 hs
        exact ⟨hT, h1, h2, this⟩
    · have := regLost_facts to b
      simp only [hl, if_false, this.2.1, this.2.2.1]
      simp
      omega

/-! ### the accept loop -/

/-- the `r.plugins` entries contributed by a list of handled connections numbered from `base` -/
def activeOf : Nat → List Handled → List Active
  | _, [] => []
  | base, h :: hs =>
    (match h.outcome with
      | .activated idx name ev => [⟨base, idx, name, ev⟩]
      | _ => []) ++ activeOf (base + 1) hs

theorem acceptAll_spec (to : Timeouts) (s : State) (bs : List Behaviour) :
    (acceptAll to s bs).2 = bs.map (handle to) ∧
    (acceptAll to s bs).1.plugins = s.plugins ++ activeOf s.accepted (bs.map (handle to)) ∧
    (acceptAll to s bs).1.accepted = s.accepted + bs.length ∧
    (acceptAll to s bs).1.clock = s.clock + ((bs.map (handle to)).map (·.elapsed)).sum := by
  induction bs generalizing s with
  | nil => simp [acceptAll, activeOf]
  | cons b bs ih =>
    have := ih (accept to s b).1
    simp only [acceptAll, List.map_cons, List.length_cons, List.sum_cons]
    refine ⟨by rw [this.1]; rfl, ?_, ?_, ?_⟩
    · rw [this.2.1]
      simp only [accept, activeOf]
      cases (handle to b).outcome <;> simp
    · rw [this.2.2.1]; simp only [accept]; omega
    · rw [this.2.2.2]; simp only [accept]; omega

theorem mem_activeOf (base : Nat) (hs : List Handled) (a : Active) :
    a ∈ activeOf base hs ↔
      ∃ j h, hs[j]? = some h ∧ a.conn = base + j ∧ h.outcome = .activated a.idx a.name a.events := by
  induction hs generalizing base with
  | nil => simp [activeOf]
  | cons h hs ih =>
    simp only [activeOf, List.mem_append, ih]
    constructor
    · intro hx
      rcases hx with hx | ⟨j, h', hj, hc, ho⟩
      · refine ⟨0, h, rfl, ?_⟩
        cases ho : h.outcome <;> simp [ho] at hx
        subst hx; simp
      · exact ⟨j + 1, h', by simpa using hj, by omega, ho⟩
    · intro ⟨j, h', hj, hc, ho⟩
      cases j with
      | zero =>
        simp at hj; subst hj
        left
        rw [ho]
        obtain ⟨c, i, n, e⟩ := a
        simp at hc ⊢
        exact hc
      | succ j =>
        right
        exact ⟨j, h', by simpa using hj, by omega, ho⟩

end Nri.Lemmas.Registration
