/-
Stream-level consequences of the codec lemmas: what a sequence of writes delivers.
-/
import NriModel.Lemmas.MuxCodec
import NriModel.Lemmas.MuxTrace

namespace Nri.Mux

theorem encodeWrite_eq (mp : Nat) (hmp : 0 < mp) (id : Nat) (buf : Bytes) :
    encodeWrite mp id buf = some (encodeFrames ((chunkSpec mp buf).map (Frame.mk id))) := by
  simp [encodeWrite, framesOfWrite, chunks_eq_spec mp hmp]

theorem encodeFrames_append (a b : List Frame) :
    encodeFrames (a ++ b) = encodeFrames a ++ encodeFrames b := by
  simp [encodeFrames]

theorem encodeWrites_eq (mp : Nat) (hmp : 0 < mp) (ws : List (Nat × Bytes)) :
    encodeWrites mp ws = some (encodeFrames (specFrames mp ws)) := by
  induction ws with
  | nil => simp [encodeWrites, specFrames, encodeFrames]
  | cons w ws ih =>
    simp only [encodeWrites, encodeWrite_eq mp hmp, ih]
    simp [specFrames, encodeFrames_append]

theorem specFrames_bounds (mp : Nat) (hmp : 0 < mp) (hmp32 : mp < 4294967296)
    (ws : List (Nat × Bytes)) (hid : ∀ w ∈ ws, w.1 < 4294967296) :
    ∀ f ∈ specFrames mp ws, f.id < 4294967296 ∧ f.payload.length < 4294967296 := by
  intro f hf
  simp only [specFrames, List.mem_flatMap, List.mem_map] at hf
  obtain ⟨w, hw, c, hc, rfl⟩ := hf
  exact ⟨hid w hw, Nat.lt_of_le_of_lt (chunkSpec_length_le mp hmp w.2 c hc) hmp32⟩

theorem payloadsOf_map_mk (id i : Nat) (cs : List Bytes) :
    payloadsOf id (cs.map (Frame.mk i)) = if i = id then cs else [] := by
  by_cases h : i = id
  · subst h; simp [payloadsOf, List.filter_map, Function.comp_def]
  · simp [payloadsOf, List.filter_map, Function.comp_def, h]

theorem payloadsOf_specFrames (mp id : Nat) (ws : List (Nat × Bytes)) :
    payloadsOf id (specFrames mp ws) =
      (ws.filter (·.1 == id)).flatMap (fun w => chunkSpec mp w.2) := by
  induction ws with
  | nil => simp [specFrames, payloadsOf]
  | cons w ws ih =>
    have hs : specFrames mp (w :: ws) = (chunkSpec mp w.2).map (Frame.mk w.1) ++ specFrames mp ws := by
      simp [specFrames]
    rw [hs, payloadsOf_append, payloadsOf_map_mk, ih]
    by_cases h : w.1 = id
    · simp [h, List.filter_cons]
    · simp [h, List.filter_cons]

theorem bytesDelivered_specFrames (mp id : Nat) (ws : List (Nat × Bytes)) :
    bytesDelivered id (specFrames mp ws) = ((ws.filter (·.1 == id)).map (·.2)).flatten := by
  rw [bytesDelivered, payloadsOf_specFrames]
  induction ws.filter (·.1 == id) with
  | nil => simp
  | cons w ws ih => simp [List.flatMap_cons, chunkSpec_flatten, ih]

theorem payloadsOf_prefix {id : Nat} {a b : List Frame} (h : a <+: b) :
    payloadsOf id a <+: payloadsOf id b := by
  obtain ⟨t, rfl⟩ := h
  rw [payloadsOf_append]; exact List.prefix_append _ _

theorem flatten_prefix {a b : List Bytes} (h : a <+: b) : a.flatten <+: b.flatten := by
  obtain ⟨t, rfl⟩ := h
  rw [List.flatten_append]; exact List.prefix_append _ _

theorem drop_prefix_of_prefix {α : Type} {a b : List α} (n : Nat) (h : a <+: b) :
    a.drop n <+: b.drop n := by
  obtain ⟨t, rfl⟩ := h
  by_cases hn : n ≤ a.length
  · rw [List.drop_append_of_le_length hn]; exact List.prefix_append _ _
  · rw [List.drop_of_length_le (by omega)]; exact List.nil_prefix

/-- the ghost `base` of an object created by the `openNew` at position `pre.length` -/
theorem base_of_open {cfg : Cfg} {pre post : List Ev} {id h : Nat} {s : MuxSt} {c : Conn}
    (hr : run (MuxSt.init cfg) (pre ++ Ev.openNew id h :: post) = some s)
    (hc : s.objs[h]? = some c) : c.id = id ∧ c.base = countFor id (delivered pre) := by
  rw [run_append] at hr
  cases h1 : run (MuxSt.init cfg) pre with
  | none => simp [h1] at hr
  | some s1 =>
    simp only [h1, Option.bind_some, run] at hr
    split at hr
    · rename_i s2 h2
      have hseen := run_seen h1
      simp only [MuxSt.init, List.nil_append] at hseen
      simp only [Mux.step] at h2
      split at h2
      · rename_i hcond
        cases h2
        let c0 : Conn := { id := id, base := countFor id s1.seen, closed := s1.cfg.lateClosed && s1.closed }
        have hnew := run_stable (h := h) (c := c0) hr (by simp [c0, hcond.2.2])
        obtain ⟨c1, hc1, st⟩ := hnew
        rw [hc] at hc1; cases hc1
        exact ⟨st.1, by rw [st.2.1]; simp [c0, hseen]⟩
      · cases h2
    · cases hr

end Nri.Mux
