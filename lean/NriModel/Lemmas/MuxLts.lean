/-
Invariants of the one-end transition system of `NriModel/Mux.lean` (part 2).
-/
import NriModel.Mux
import NriModel.Lemmas.MuxCodec

namespace Nri.Mux

/-! ### closing handles only touches the `closed` flag -/

def Conn.close (c : Conn) : Conn := { c with closed := true }

theorem closeAt_length (objs : List Conn) (x : Nat) : (closeAt objs x).length = objs.length := by
  unfold closeAt; split <;> simp

theorem closeAt_get (objs : List Conn) (x h : Nat) :
    (closeAt objs x)[h]? = if x = h then objs[h]?.map Conn.close else objs[h]? := by
  unfold closeAt
  split
  · rename_i c hc
    by_cases hx : x = h
    · subst hx; simp [hc, Conn.close, List.getElem?_set]
      exact (List.getElem?_eq_some_iff.mp hc).1
    · simp [hx]
  · rename_i hc
    by_cases hx : x = h
    · subst hx; simp [hc]
    · simp [hx]

theorem closeHandles_length (objs : List Conn) (hs : List Nat) :
    (closeHandles objs hs).length = objs.length := by
  induction hs generalizing objs with
  | nil => rfl
  | cons x hs ih => simp [closeHandles, ih, closeAt_length]

theorem closeHandles_get (objs : List Conn) (hs : List Nat) (h : Nat) :
    (closeHandles objs hs)[h]? = if h ∈ hs then objs[h]?.map Conn.close else objs[h]? := by
  induction hs generalizing objs with
  | nil => simp [closeHandles]
  | cons x hs ih =>
    simp only [closeHandles, ih, closeAt_get, List.mem_cons]
    by_cases hx : x = h
    · subst hx
      by_cases hm : x ∈ hs
      · simp [hm]; cases objs[x]? <;> simp [Conn.close]
      · simp [hm]
    · have hx' : ¬ h = x := fun e => hx e.symm
      simp [hx, hx']

end Nri.Mux

namespace Nri.Mux

/-! ### small list facts -/

theorem payloadsOf_append (id : Nat) (a b : List Frame) :
    payloadsOf id (a ++ b) = payloadsOf id a ++ payloadsOf id b := by
  simp [payloadsOf]

theorem payloadsOf_single (id : Nat) (f : Frame) :
    payloadsOf id [f] = if f.id = id then [f.payload] else [] := by
  by_cases h : f.id = id <;> simp [payloadsOf, h]

theorem length_payloadsOf (id : Nat) (fs : List Frame) :
    (payloadsOf id fs).length = countFor id fs := by
  simp [payloadsOf, countFor]

theorem countFor_append (id : Nat) (a b : List Frame) :
    countFor id (a ++ b) = countFor id a + countFor id b := by
  simp [countFor]

theorem lookup_erase_some {m : AList Nat Nat} {k k' v : Nat}
    (h : AList.lookup (AList.erase m k) k' = some v) : AList.lookup m k' = some v ∧ k ≠ k' := by
  by_cases hk : k = k'
  · subst hk; rw [AList.lookup_erase_self] at h; cases h
  · rw [AList.lookup_erase_other _ _ _ hk] at h; exact ⟨h, hk⟩

/-! ### the invariant -/

structure ObjInv (qlen : Nat) (seen : List Frame) (cmap : AList Nat Nat) (h : Nat) (c : Conn) :
    Prop where
  split : c.got = c.rcvd ++ c.queue
  qbound : c.queue.length ≤ qlen
  base_le : c.base ≤ countFor c.id seen
  got_pre : c.got <+: (payloadsOf c.id seen).drop c.base
  got_eq : AList.lookup cmap c.id = some h → c.got = (payloadsOf c.id seen).drop c.base
  unmapped_closed : AList.lookup cmap c.id ≠ some h → c.closed = true

structure Inv (s : MuxSt) : Prop where
  obj : ∀ h c, s.objs[h]? = some c → ObjInv s.cfg.qlen s.seen s.cmap h c
  map : ∀ id h, AList.lookup s.cmap id = some h → ∃ c, s.objs[h]? = some c ∧ c.id = id

theorem Inv.init (cfg : Cfg) : Inv (MuxSt.init cfg) := by
  constructor
  · intro h c hc; simp [MuxSt.init] at hc
  · intro id h hl; simp [MuxSt.init] at hl

theorem ObjInv.close {q seen cmap h c} (hi : ObjInv q seen cmap h c) :
    ObjInv q seen cmap h c.close := by
  obtain ⟨a, b, c1, d, e, f⟩ := hi
  exact ⟨a, b, c1, d, e, fun _ => rfl⟩

theorem Inv.congr {s s' : MuxSt} (hc : s'.cfg = s.cfg) (hs : s'.seen = s.seen)
    (hm : s'.cmap = s.cmap) (ho : s'.objs = s.objs) (hi : Inv s) : Inv s' := by
  constructor
  · intro h c hcc; rw [hc, hs, hm]; rw [ho] at hcc; exact hi.obj h c hcc
  · intro id h hl; rw [hm] at hl; rw [ho]; exact hi.map id h hl

theorem Inv.setError {s : MuxSt} (e : Err) (hi : Inv s) : Inv (setError s e) := by
  unfold Mux.setError; split
  · exact hi
  · exact Inv.congr (s := s) rfl rfl rfl rfl hi

theorem Inv.doClose {s : MuxSt} (hi : Inv s) : Inv (doClose s) := by
  unfold Mux.doClose; split
  · exact hi
  · constructor
    · intro h c hc
      simp only [closeHandles_get] at hc
      split at hc
      · cases ho : s.objs[h]? with
        | none => simp [ho] at hc
        | some c0 =>
          simp [ho] at hc; subst hc
          exact (hi.obj h c0 ho).close
      · exact hi.obj h c hc
    · intro id h hl
      obtain ⟨c, hc, hid⟩ := hi.map id h hl
      simp only [closeHandles_get]
      split
      · exact ⟨c.close, by simp [hc], hid⟩
      · exact ⟨c, hc, hid⟩

/-- frames addressed elsewhere do not disturb an object's invariant -/
theorem ObjInv.seen_other {q seen cmap h c} (f : Frame) (hi : ObjInv q seen cmap h c)
    (hne : AList.lookup cmap c.id = some h → f.id ≠ c.id) :
    ObjInv q (seen ++ [f]) cmap h c := by
  obtain ⟨a, b, c1, d, e, g⟩ := hi
  refine ⟨a, b, ?_, ?_, ?_, g⟩
  · rw [countFor_append]; omega
  · rw [payloadsOf_append, List.drop_append_of_le_length (by rw [length_payloadsOf]; exact c1)]
    exact d.trans (List.prefix_append _ _)
  · intro hl
    have := hne hl
    rw [payloadsOf_append, payloadsOf_single, if_neg this, List.append_nil]
    exact e hl

theorem set_lookup {objs : List Conn} {h0 : Nat} {c0 : Conn} (c0' : Conn)
    (hc0 : objs[h0]? = some c0) (hid : c0'.id = c0.id) {h : Nat} {c : Conn}
    (hc : objs[h]? = some c) : ∃ c', (objs.set h0 c0')[h]? = some c' ∧ c'.id = c.id := by
  have hlt0 : h0 < objs.length := (List.getElem?_eq_some_iff.mp hc0).1
  simp only [List.getElem?_set]
  by_cases hh : h0 = h
  · subst hh; rw [hc0] at hc; cases hc
    exact ⟨c0', by simp [hlt0], hid⟩
  · exact ⟨c, by simp [hh, hc], rfl⟩

theorem Inv.step {s s' : MuxSt} {ev : Ev} (hi : Inv s) (hg : ev.guard = true)
    (hs : step s ev = some s') : Inv s' := by
  cases ev with
  | openReserved => simp [Mux.step] at hs; subst hs; exact hi
  | openOld id h =>
    simp only [Mux.step] at hs; split at hs
    · cases hs; exact hi
    · cases hs
  | readerExit =>
    simp only [Mux.step] at hs; split at hs
    · cases hs; exact Inv.congr (s := s) rfl rfl rfl rfl hi
    · cases hs
  | closeMux => simp only [Mux.step] at hs; cases hs; exact hi.doClose
  | readerFail e =>
    simp only [Mux.step] at hs; split at hs
    · cases hs
    · cases hs; exact Inv.congr (s := Mux.doClose (Mux.setError s e)) rfl rfl rfl rfl (hi.setError e).doClose
  | overflow f =>
    simp only [Mux.step] at hs
    split at hs
    · cases hs
    · split at hs
      · cases hs
      · split at hs
        · cases hs
        · split at hs
          · cases hs
          · cases hs; exact Inv.congr (s := Mux.doClose (Mux.setError s .overflow)) rfl rfl rfl rfl (hi.setError .overflow).doClose
  | openNew id h =>
    simp only [Mux.step] at hs
    split at hs
    · rename_i hcond
      obtain ⟨hid0, hnone, hh⟩ := hcond
      cases hs
      subst hh
      constructor
      · intro h1 c hc
        simp only [List.getElem?_append] at hc
        split at hc
        · rename_i hlt
          have hold := hi.obj h1 c hc
          obtain ⟨a, b, c1, d, e, g⟩ := hold
          refine ⟨a, b, c1, d, ?_, ?_⟩
          · intro hl
            by_cases hcid : id = c.id
            · subst hcid; rw [AList.lookup_insert_self] at hl
              simp at hl; omega
            · rw [AList.lookup_insert_other _ _ _ _ hcid] at hl; exact e hl
          · intro hl
            by_cases hcid : id = c.id
            · subst hcid; apply g; rw [hnone]; simp
            · rw [AList.lookup_insert_other _ _ _ _ hcid] at hl; exact g hl
        · rename_i hge
          have : h1 - s.objs.length = 0 := by
            cases hx : h1 - s.objs.length with
            | zero => rfl
            | succ n => simp [hx] at hc
          simp [this] at hc
          subst hc
          have h1eq : h1 = s.objs.length := by omega
          subst h1eq
          refine ⟨rfl, Nat.zero_le _, Nat.le_refl _, List.nil_prefix, ?_, ?_⟩
          · intro _
            simp only
            rw [List.drop_of_length_le (by rw [length_payloadsOf]; exact Nat.le_refl _)]
          · intro hl; simp only at hl; rw [AList.lookup_insert_self] at hl; exact absurd rfl hl
      · intro id' h' hl
        by_cases hcid : id = id'
        · subst hcid; rw [AList.lookup_insert_self] at hl
          cases hl
          exact ⟨{ id := id, base := countFor id s.seen, closed := s.cfg.lateClosed && s.closed }, by simp, rfl⟩
        · rw [AList.lookup_insert_other _ _ _ _ hcid] at hl
          obtain ⟨c, hc, hcid'⟩ := hi.map id' h' hl
          refine ⟨c, ?_, hcid'⟩
          have := (List.getElem?_eq_some_iff.mp hc).1
          rw [List.getElem?_append_left this]; exact hc
    · cases hs
  | closeConn h0 =>
    simp only [Mux.step] at hs
    split at hs
    · cases hs
    · rename_i c0 hc0
      cases hs
      have hlt0 : h0 < s.objs.length := (List.getElem?_eq_some_iff.mp hc0).1
      constructor
      · intro h c hc
        simp only [List.getElem?_set] at hc
        by_cases hh : h0 = h
        · subst hh
          simp [hlt0] at hc; subst hc
          obtain ⟨a, b, c1, d, e, g⟩ := hi.obj h0 c0 hc0
          refine ⟨a, b, c1, d, ?_, fun _ => rfl⟩
          intro hl; simp only at hl
          split at hl
          · exact e (lookup_erase_some hl).1
          · exact e hl
        · simp [hh] at hc
          obtain ⟨a, b, c1, d, e, g⟩ := hi.obj h c hc
          refine ⟨a, b, c1, d, ?_, ?_⟩
          · intro hl; simp only at hl
            split at hl
            · exact e (lookup_erase_some hl).1
            · exact e hl
          · intro hl; simp only at hl
            by_cases hold : AList.lookup s.cmap c.id = some h
            · exfalso
              split at hl
              · rename_i hm
                by_cases hk : c0.id = c.id
                · rw [hk] at hm; rw [hm] at hold; cases hold; exact hh rfl
                · rw [AList.lookup_erase_other _ _ _ hk] at hl; exact hl hold
              · exact hl hold
            · exact g hold
      · intro id h hl
        simp only at hl
        have hl' : AList.lookup s.cmap id = some h := by
          split at hl
          · exact (lookup_erase_some hl).1
          · exact hl
        obtain ⟨c, hc, hcid⟩ := hi.map id h hl'
        obtain ⟨c', hc', hid'⟩ := set_lookup ({ c0 with closed := true } : Conn) hc0 rfl hc
        exact ⟨c', hc', hid'.trans hcid⟩
  | write h p r =>
    simp only [Mux.step] at hs
    split at hs
    · cases hs
    · cases r with
      | errEof => simp only at hs; split at hs <;> cases hs; exact hi
      | ok =>
        simp only at hs; split at hs
        · split at hs
          · cases hs; exact Inv.congr (s := s) rfl rfl rfl rfl hi
          · cases hs
        · cases hs
      | errTrunk pw =>
        simp only at hs; split at hs
        · cases hs
        · split at hs
          · cases hs; exact (hi.setError .wfail).doClose
          · cases hs; exact hi
  | read h blen bcap r =>
    simp only [Mux.step] at hs
    split at hs
    · cases hs
    · rename_i c0 hc0
      have hlt0 : h < s.objs.length := (List.getElem?_eq_some_iff.mp hc0).1
      split at hs
      · cases r with
        | err e => simp only at hs; split at hs <;> cases hs; exact hi.setError .eof
        | enomem => simp [Ev.guard] at hg
        | data p n =>
          simp only at hs
          split at hs
          · cases hs
          · rename_i q rest hq
            split at hs
            · rename_i hcond
              obtain ⟨hcap, hp, hn⟩ := hcond
              cases hs
              simp [Ev.guard] at hg
              have hpq : p = q := by rw [hp]; exact List.take_of_length_le (by omega)
              subst hpq
              constructor
              · intro h1 c hc
                simp only [List.getElem?_set] at hc
                by_cases hh : h = h1
                · subst hh; simp [hlt0] at hc; subst hc
                  obtain ⟨a, b, c1, d, e, g⟩ := hi.obj h c0 hc0
                  refine ⟨?_, ?_, c1, d, e, g⟩
                  · simp only; rw [a, hq]; simp
                  · simp only; rw [hq] at b; simp at b; omega
                · simp [hh] at hc; exact hi.obj h1 c hc
              · intro id h1 hl
                obtain ⟨c, hc, hcid⟩ := hi.map id h1 hl
                obtain ⟨c', hc', hid'⟩ := set_lookup
                  ({ c0 with queue := rest, rcvd := c0.rcvd ++ [p] } : Conn) hc0 rfl hc
                exact ⟨c', hc', hid'.trans hcid⟩
            · cases hs
      · cases hs
  | deliver f =>
    simp only [Mux.step] at hs
    split at hs
    · cases hs
    · split at hs
      · rename_i hnone
        cases hs
        constructor
        · intro h c hc
          apply (hi.obj h c hc).seen_other f
          intro hl hfid; rw [hfid] at hnone; rw [hnone] at hl; cases hl
        · exact hi.map
      · rename_i h0 hsome
        split at hs
        · cases hs
        · rename_i c0 hc0
          have hlt0 : h0 < s.objs.length := (List.getElem?_eq_some_iff.mp hc0).1
          obtain ⟨c0', hc0', hid0⟩ := hi.map f.id h0 hsome
          rw [hc0] at hc0'; cases hc0'
          split at hs
          · rename_i hq
            cases hs
            constructor
            · intro h c hc
              simp only [List.getElem?_set] at hc
              by_cases hh : h0 = h
              · subst hh; simp [hlt0] at hc; subst hc
                obtain ⟨a, b, c1, d, e, g⟩ := hi.obj h0 c0 hc0
                have hmapped : AList.lookup s.cmap c0.id = some h0 := by rw [hid0]; exact hsome
                have hgot := e hmapped
                have hnew : c0.got ++ [f.payload] =
                    (payloadsOf c0.id (s.seen ++ [f])).drop c0.base := by
                  rw [payloadsOf_append, payloadsOf_single, if_pos hid0.symm,
                    List.drop_append_of_le_length (by rw [length_payloadsOf]; exact c1), ← hgot]
                refine ⟨?_, ?_, ?_, ?_, ?_, ?_⟩
                · simp only; rw [a]; simp
                · simp only [List.length_append, List.length_singleton]; omega
                · simp only; rw [countFor_append]; omega
                · simp only; rw [hnew]; exact List.prefix_refl _
                · intro _; exact hnew
                · intro hl; exact absurd hmapped hl
              · simp [hh] at hc
                apply (hi.obj h c hc).seen_other f
                intro hl hfid
                rw [← hfid, hsome] at hl; cases hl; exact hh rfl
            · intro id h hl
              obtain ⟨c, hc, hcid⟩ := hi.map id h hl
              obtain ⟨c', hc', hid'⟩ := set_lookup
                ({ c0 with queue := c0.queue ++ [f.payload], got := c0.got ++ [f.payload] } : Conn)
                hc0 rfl hc
              exact ⟨c', hc', hid'.trans hcid⟩
          · cases hs

end Nri.Mux
