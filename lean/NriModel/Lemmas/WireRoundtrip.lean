/-
Round trip of the wire model (C12): the decoder run on what the encoder wrote rebuilds the
value, for every well-formed schema and every well-typed value.
-/
import NriModel.Lemmas.WireDecode

namespace Nri.Wire

/-! ### helpers -/

theorem set_same {α : Type} (l : List α) (i : Nat) (a : α) (h : l[i]? = some a) : l.set i a = l := by
  obtain ⟨hi, rfl⟩ := List.getElem?_eq_some_iff.mp h
  exact List.set_getElem_self hi

/-- one record the encoder wrote, consumed by the loop -/
theorem decMsg_record (S : Schema) (m : Nat) (acc acc' : List Val) (bs rest : Bytes) (num : Nat)
    (it : Item) (fuel fuel' : Nat) (out : List Val)
    (hp : parseField bs = some (num, it, rest))
    (ha : applyItem S (decMsg S fuel') (S.fieldsOf m) acc num it = some acc')
    (hf : fuel ≤ fuel') (h : decMsg S fuel m acc' rest = some out) :
    decMsg S (fuel' + 1) m acc bs = some out := by
  rw [decMsg_step S fuel' m acc bs rest num it hp, ha]
  exact decMsg_mono _ _ _ _ _ _ _ hf h

/-- nested message values round trip from the empty accumulator -/
def RT (S : Schema) (m : Nat) (fs : List Val) : Prop :=
  (encode S m fs).length < 2 ^ 64 →
  ∀ fuel, (encode S m fs).length ≤ fuel →
    decMsg S fuel m (emptyMsg S m) (encode S m fs) = some fs

/-- the induction hypothesis available for the message values directly inside `v` -/
def Nested (S : Schema) : FType → Val → Prop
  | .msg m, .msg fs => RT S m fs
  | .repMsg m, .list l => ∀ fs, Val.msg fs ∈ l → RT S m fs
  | _, _ => True

def NestedAll (S : Schema) : List Field → List Val → Prop
  | f :: fs, v :: vs => Nested S f.ty v ∧ NestedAll S fs vs
  | _, _ => True

/-! ### repeated strings -/

theorem decMsg_strs (S : Schema) (m : Nat) (f : Field) (i : Nat)
    (hfind : findField (S.fieldsOf m) f.num = some (i, f)) (hty : f.ty = .repString)
    (h1 : 1 ≤ f.num) (h2 : f.num < 536870912) :
    ∀ (l prev : List Bytes) (acc : List Val), acc[i]? = some (.strs prev) →
      l.all okStr = true → (encStrs f.num l).length < 2 ^ 64 →
      ∀ (fuel : Nat) (rest : Bytes) (out : List Val),
        decMsg S fuel m (acc.set i (.strs (prev ++ l))) rest = some out →
        decMsg S (fuel + (encStrs f.num l).length) m acc (encStrs f.num l ++ rest) = some out := by
  intro l
  induction l with
  | nil =>
    intro prev acc hacc _ _ fuel rest out h
    simpa [encStrs, set_same _ _ _ hacc] using h
  | cons s l ih =>
    intro prev acc hacc hok hb fuel rest out h
    simp only [List.all_cons, Bool.and_eq_true] at hok
    simp only [encStrs, List.length_append] at hb ⊢
    have hpos := lenDelim_length_pos f.num s
    have hi : i < acc.length := (List.getElem?_eq_some_iff.mp hacc).1
    obtain ⟨fuel', hf'⟩ : ∃ fuel', fuel + ((lenDelim f.num s).length + (encStrs f.num l).length) = fuel' + 1 :=
      ⟨fuel + ((lenDelim f.num s).length + (encStrs f.num l).length) - 1, by omega⟩
    rw [hf', List.append_assoc]
    refine decMsg_record S m acc (acc.set i (.strs (prev ++ [s]))) _ _ f.num (.len s)
      (fuel + (encStrs f.num l).length) fuel' out
      (parseField_lenDelim _ _ _ h1 h2 (by omega)) ?_ (by omega) ?_
    · simp [applyItem, hfind, hty, hok.1, hacc]
    · refine ih (prev ++ [s]) _ (by simp [hi]) hok.2 (by omega) fuel rest out ?_
      simpa [List.set_set] using h

/-! ### maps -/

theorem decMsg_map (S : Schema) (m : Nat) (f : Field) (i : Nat)
    (hfind : findField (S.fieldsOf m) f.num = some (i, f)) (hty : f.ty = .mapSS)
    (h1 : 1 ≤ f.num) (h2 : f.num < 536870912) :
    ∀ (l prev : List (Bytes × Bytes)) (acc : List Val), acc[i]? = some (.smap prev) →
      l.all okEntry = true → ((prev ++ l).map (·.1)).Nodup → (encMap f.num l).length < 2 ^ 64 →
      ∀ (fuel : Nat) (rest : Bytes) (out : List Val),
        decMsg S fuel m (acc.set i (.smap (prev ++ l))) rest = some out →
        decMsg S (fuel + (encMap f.num l).length) m acc (encMap f.num l ++ rest) = some out := by
  intro l
  induction l with
  | nil =>
    intro prev acc hacc _ _ _ fuel rest out h
    simpa [encMap, set_same _ _ _ hacc] using h
  | cons e l ih =>
    obtain ⟨k, v⟩ := e
    intro prev acc hacc hok hnd hb fuel rest out h
    simp only [List.all_cons, Bool.and_eq_true, okEntry] at hok
    simp only [encMap, List.length_append] at hb ⊢
    have hpos := lenDelim_length_pos f.num (encEntry k v)
    have hkp := lenDelim_length_pos 1 k
    have hvp := lenDelim_length_pos 2 v
    have hel : (encEntry k v).length = (lenDelim 1 k).length + (lenDelim 2 v).length := by
      simp [encEntry]
    have hi : i < acc.length := (List.getElem?_eq_some_iff.mp hacc).1
    obtain ⟨fuel', hf'⟩ : ∃ fuel', fuel + ((lenDelim f.num (encEntry k v)).length + (encMap f.num l).length) = fuel' + 1 :=
      ⟨fuel + ((lenDelim f.num (encEntry k v)).length + (encMap f.num l).length) - 1, by omega⟩
    rw [hf', List.append_assoc]
    have hfresh : k ∉ prev.map (·.1) := by
      simp only [List.map_append, List.map_cons] at hnd
      have := (List.nodup_append.mp hnd).2.2
      intro hk
      exact this k hk k (by simp) rfl
    refine decMsg_record S m acc (acc.set i (.smap (prev ++ [(k, v)]))) _ _ f.num (.len (encEntry k v))
      (fuel + (encMap f.num l).length) fuel' out
      (parseField_lenDelim _ _ _ h1 h2 (by omega)) ?_ (by omega) ?_
    · simp [applyItem, hfind, hty, hacc,
        decEntry_encEntry k v hok.1.1 hok.1.2 (by omega) (by omega), insert_fresh _ _ _ hfresh]
    · refine ih (prev ++ [(k, v)]) _ (by simp [hi]) hok.2 (by simpa using hnd) (by omega) fuel rest out ?_
      simpa [List.set_set] using h

/-! ### repeated messages -/

theorem decMsg_rep (S : Schema) (m : Nat) (f : Field) (i : Nat) (m' : Nat)
    (hfind : findField (S.fieldsOf m) f.num = some (i, f)) (hty : f.ty = .repMsg m')
    (h1 : 1 ≤ f.num) (h2 : f.num < 536870912) :
    ∀ (l prev : List Val) (acc : List Val), acc[i]? = some (.list prev) →
      wtList S m' l = true → (∀ fs, Val.msg fs ∈ l → RT S m' fs) →
      (encRep S f.num m' l).length < 2 ^ 64 →
      ∀ (fuel : Nat) (rest : Bytes) (out : List Val),
        decMsg S fuel m (acc.set i (.list (prev ++ l))) rest = some out →
        decMsg S (fuel + (encRep S f.num m' l).length) m acc (encRep S f.num m' l ++ rest) = some out := by
  intro l
  induction l with
  | nil =>
    intro prev acc hacc _ _ _ fuel rest out h
    simpa [encRep, set_same _ _ _ hacc] using h
  | cons v l ih =>
    intro prev acc hacc hwt hrt hb fuel rest out h
    cases v with
    | msg fs =>
      simp only [wtList, Bool.and_eq_true] at hwt
      simp only [encRep, List.length_append] at hb ⊢
      have hpos := lenDelim_length_pos f.num (encFields S (S.fieldsOf m') fs)
      have hi : i < acc.length := (List.getElem?_eq_some_iff.mp hacc).1
      obtain ⟨fuel', hf'⟩ : ∃ fuel', fuel + ((lenDelim f.num (encFields S (S.fieldsOf m') fs)).length
          + (encRep S f.num m' l).length) = fuel' + 1 :=
        ⟨fuel + ((lenDelim f.num (encFields S (S.fieldsOf m') fs)).length + (encRep S f.num m' l).length) - 1,
          by omega⟩
      rw [hf', List.append_assoc]
      have hr := hrt fs (by simp) (by unfold encode; omega) fuel' (by unfold encode; omega)
      unfold encode at hr
      refine decMsg_record S m acc (acc.set i (.list (prev ++ [.msg fs]))) _ _ f.num
        (.len (encFields S (S.fieldsOf m') fs))
        (fuel + (encRep S f.num m' l).length) fuel' out
        (parseField_lenDelim _ _ _ h1 h2 (by omega)) ?_ (by omega) ?_
      · simp [applyItem, hfind, hty, hacc, hr]
      · refine ih (prev ++ [.msg fs]) _ (by simp [hi]) hwt.2
          (fun fs' hm => hrt fs' (by simp [hm])) (by omega) fuel rest out ?_
        simpa [List.set_set] using h
    | _ => simp [wtList] at hwt

/-! ### one field -/

theorem decMsg_field (S : Schema) (m : Nat) (f : Field) (i : Nat) (acc : List Val) (v : Val)
    (hfind : findField (S.fieldsOf m) f.num = some (i, f))
    (h1 : 1 ≤ f.num) (h2 : f.num < 536870912)
    (hacc : acc[i]? = some f.ty.default)
    (hwt : wtVal S f.ty v = true) (hn : Nested S f.ty v)
    (hb : (encField S f v).length < 2 ^ 64)
    (fuel : Nat) (rest : Bytes) (out : List Val)
    (h : decMsg S fuel m (acc.set i v) rest = some out) :
    decMsg S (fuel + (encField S f v).length) m acc (encField S f v ++ rest) = some out := by
  have hi : i < acc.length := (List.getElem?_eq_some_iff.mp hacc).1
  cases v with
  | int x =>
    cases hty : f.ty <;> simp only [hty, wtVal] at hwt <;> try (simp at hwt)
    rename_i k
    simp only [encField, hty] at hb ⊢
    by_cases hx : x = 0
    · subst hx
      simp only [hty, FType.default] at hacc
      simpa [set_same _ _ _ hacc] using h
    · simp only [hx, if_false, List.length_append] at hb ⊢
      have hp1 := encodeVarint_length_pos (f.num * 8 + 0)
      have hp2 := encodeVarint_length_pos (toU64 k x)
      unfold tag at hb ⊢
      obtain ⟨fuel', hf'⟩ : ∃ fuel', fuel + ((encodeVarint (f.num * 8 + 0)).length
          + (encodeVarint (toU64 k x)).length) = fuel' + 1 :=
        ⟨fuel + ((encodeVarint (f.num * 8 + 0)).length + (encodeVarint (toU64 k x)).length) - 1, by omega⟩
      rw [hf', List.append_assoc]
      refine decMsg_record S m acc (acc.set i (.int x)) _ _ f.num (.varint (toU64 k x)) fuel fuel' out
        (parseField_varint _ _ _ h1 h2 (toU64_lt k x hwt)) ?_ (by omega) h
      simp [applyItem, hfind, hty, ofU64_toU64 k x hwt]
  | str bs =>
    cases hty : f.ty <;> simp only [hty, wtVal] at hwt <;> try (simp at hwt)
    simp only [encField, hty] at hb ⊢
    by_cases hx : bs = []
    · subst hx
      simp only [hty, FType.default] at hacc
      simpa [set_same _ _ _ hacc] using h
    · simp only [hx, if_false] at hb ⊢
      have hpos := lenDelim_length_pos f.num bs
      obtain ⟨fuel', hf'⟩ : ∃ fuel', fuel + (lenDelim f.num bs).length = fuel' + 1 :=
        ⟨fuel + (lenDelim f.num bs).length - 1, by omega⟩
      rw [hf']
      refine decMsg_record S m acc (acc.set i (.str bs)) _ _ f.num (.len bs) fuel fuel' out
        (parseField_lenDelim _ _ _ h1 h2 (by omega)) ?_ (by omega) h
      simp [applyItem, hfind, hty, hwt]
  | none =>
    cases hty : f.ty <;> simp only [hty, wtVal] at hwt <;> try (simp at hwt)
    simp only [hty, FType.default] at hacc
    simpa [encField, set_same _ _ _ hacc] using h
  | msg fs =>
    cases hty : f.ty <;> simp only [hty, wtVal] at hwt <;> try (simp at hwt)
    rename_i m'
    simp only [hty, Nested] at hn
    simp only [hty, FType.default] at hacc
    simp only [encField, hty] at hb ⊢
    have hpos := lenDelim_length_pos f.num (encFields S (S.fieldsOf m') fs)
    obtain ⟨fuel', hf'⟩ : ∃ fuel', fuel + (lenDelim f.num (encFields S (S.fieldsOf m') fs)).length = fuel' + 1 :=
      ⟨fuel + (lenDelim f.num (encFields S (S.fieldsOf m') fs)).length - 1, by omega⟩
    rw [hf']
    have hr := hn (by unfold encode; omega) fuel' (by unfold encode; omega)
    unfold encode at hr
    refine decMsg_record S m acc (acc.set i (.msg fs)) _ _ f.num
      (.len (encFields S (S.fieldsOf m') fs)) fuel fuel' out
      (parseField_lenDelim _ _ _ h1 h2 (by omega)) ?_ (by omega) h
    simp [applyItem, hfind, hty, hacc, curMsg, hr]
  | strs l =>
    cases hty : f.ty <;> simp only [hty, wtVal] at hwt <;> try (simp at hwt)
    simp only [hty, FType.default] at hacc
    simp only [encField, hty] at hb ⊢
    exact decMsg_strs S m f i hfind hty h1 h2 l [] acc hacc (by simpa using hwt) hb fuel rest out
      (by simpa using h)
  | list l =>
    cases hty : f.ty <;> simp only [hty, wtVal] at hwt <;> try (simp at hwt)
    rename_i m'
    simp only [hty, Nested] at hn
    simp only [hty, FType.default] at hacc
    simp only [encField, hty] at hb ⊢
    exact decMsg_rep S m f i m' hfind hty h1 h2 l [] acc hacc hwt hn hb fuel rest out
      (by simpa using h)
  | smap l =>
    cases hty : f.ty <;> simp only [hty, wtVal] at hwt <;> try (simp at hwt)
    simp only [hty, FType.default] at hacc
    simp only [encField, hty] at hb ⊢
    exact decMsg_map S m f i hfind hty h1 h2 l [] acc hacc (by simpa using hwt.1)
      (by simpa using hwt.2) hb fuel rest out (by simpa using h)

/-! ### all fields of a message, in schema order -/

theorem wtFields_length (S : Schema) : ∀ (fs : List Field) (vs : List Val),
    wtFields S fs vs = true → vs.length = fs.length := by
  intro fs
  induction fs with
  | nil => intro vs h; cases vs <;> simp_all [wtFields]
  | cons f fs ih =>
    intro vs h
    cases vs with
    | nil => simp [wtFields] at h
    | cons v vs =>
      simp only [wtFields, Bool.and_eq_true] at h
      simp [ih vs h.2]

theorem decMsg_fields (S : Schema) (m n : Nat) (hwf : fieldsWF n (S.fieldsOf m) = true) :
    ∀ (post pre : List Field) (vpost vpre : List Val),
      S.fieldsOf m = pre ++ post → vpre.length = pre.length →
      wtFields S post vpost = true → NestedAll S post vpost →
      (encFields S post vpost).length < 2 ^ 64 →
      ∀ (fuel : Nat) (rest : Bytes) (out : List Val),
        decMsg S fuel m (vpre ++ vpost) rest = some out →
        decMsg S (fuel + (encFields S post vpost).length) m (vpre ++ post.map (·.ty.default))
          (encFields S post vpost ++ rest) = some out := by
  intro post
  induction post with
  | nil =>
    intro pre vpost vpre _ _ hwt _ _ fuel rest out h
    cases vpost with
    | nil => simpa [encFields] using h
    | cons v vs => simp [wtFields] at hwt
  | cons f post ih =>
    intro pre vpost vpre hsplit hlen hwt hn hb fuel rest out h
    cases vpost with
    | nil => simp [wtFields] at hwt
    | cons v vs =>
      simp only [wtFields, Bool.and_eq_true] at hwt
      simp only [NestedAll] at hn
      simp only [encFields, List.length_append] at hb ⊢
      simp only [fieldsWF, Bool.and_eq_true, decide_eq_true_eq, List.all_eq_true] at hwf
      have hfok := hwf.1 f (by rw [hsplit]; simp)
      simp only [Field.ok, Bool.and_eq_true, decide_eq_true_eq] at hfok
      have hfind : findField (S.fieldsOf m) f.num = some (vpre.length, f) := by
        rw [hsplit, hlen]
        exact findField_append pre f post (by rw [← hsplit]; exact hwf.2)
      -- the rest of the fields, after this one has been stored
      have hrest := ih (pre ++ [f]) vs (vpre ++ [v]) (by simp [hsplit]) (by simp [hlen]) hwt.2 hn.2
        (by omega) fuel rest out (by simpa using h)
      have hset : (vpre ++ (f :: post).map (·.ty.default)).set vpre.length v
          = (vpre ++ [v]) ++ post.map (·.ty.default) := by
        simp
      have := decMsg_field S m f vpre.length (vpre ++ (f :: post).map (·.ty.default)) v hfind
        hfok.1.1 hfok.1.2 (by simp) hwt.1 hn.1 (by omega)
        (fuel + (encFields S post vs).length) (encFields S post vs ++ rest) out
        (by rw [hset]; exact hrest)
      rw [List.append_assoc]
      have e : fuel + ((encField S f v).length + (encFields S post vs).length)
          = fuel + (encFields S post vs).length + (encField S f v).length := by omega
      rw [e]
      exact this

theorem Schema.WF.fields (S : Schema) (h : S.WF = true) (m : Nat) :
    fieldsWF S.length (S.fieldsOf m) = true := by
  unfold Schema.fieldsOf
  cases hm : S[m]? with
  | none => simp [fieldsWF]
  | some d =>
    simp only [Schema.WF, List.all_eq_true] at h
    exact h d (List.mem_of_getElem? hm)

/-- a message value round trips once everything nested in its fields does -/
theorem RT_of_nested (S : Schema) (hS : S.WF = true) (m : Nat) (fs : List Val)
    (hwt : wtFields S (S.fieldsOf m) fs = true) (hn : NestedAll S (S.fieldsOf m) fs) :
    RT S m fs := by
  unfold RT encode
  intro hb fuel hfuel
  have := decMsg_fields S m S.length (Schema.WF.fields S hS m) (S.fieldsOf m) [] fs [] (by simp)
    rfl hwt hn hb (fuel - (encFields S (S.fieldsOf m) fs).length) [] fs (decMsg_nil S _ m fs)
  simp only [List.nil_append, List.append_nil] at this
  have e : fuel - (encFields S (S.fieldsOf m) fs).length + (encFields S (S.fieldsOf m) fs).length = fuel := by
    omega
  rw [e] at this
  exact this

theorem nestedAll_of (S : Schema) : ∀ (fs : List Field) (vs : List Val),
    (∀ v ∈ vs, ∀ ty, wtVal S ty v = true → Nested S ty v) →
    wtFields S fs vs = true → NestedAll S fs vs := by
  intro fs
  induction fs with
  | nil => intro vs _ _; cases vs <;> simp [NestedAll]
  | cons f fs ih =>
    intro vs hall hwt
    cases vs with
    | nil => simp [NestedAll]
    | cons v vs =>
      simp only [wtFields, Bool.and_eq_true] at hwt
      exact ⟨hall v (by simp) f.ty hwt.1, ih vs (fun v hv => hall v (by simp [hv])) hwt.2⟩

theorem wtList_mem (S : Schema) (m : Nat) : ∀ (l : List Val) (fs : List Val),
    wtList S m l = true → Val.msg fs ∈ l → wtFields S (S.fieldsOf m) fs = true := by
  intro l
  induction l with
  | nil => intro fs _ h; simp at h
  | cons v l ih =>
    intro fs hwt hmem
    cases v with
    | msg fs' =>
      simp only [wtList, Bool.and_eq_true] at hwt
      rcases List.mem_cons.mp hmem with e | hm
      · cases e; exact hwt.1
      · exact ih fs hwt.2 hm
    | _ => simp [wtList] at hwt

/-- the induction over nested values (on `sizeOf`) -/
theorem nested_all (S : Schema) (hS : S.WF = true) :
    ∀ (k : Nat) (v : Val), sizeOf v ≤ k → ∀ ty, wtVal S ty v = true → Nested S ty v := by
  intro k
  induction k with
  | zero =>
    intro v hk
    cases v <;> simp at hk <;> omega
  | succ k ih =>
    intro v hk ty hwt
    cases v with
    | msg fs =>
      cases ty <;> simp only [wtVal] at hwt <;> try (simp at hwt)
      rename_i m
      simp only [Nested]
      refine RT_of_nested S hS m fs hwt (nestedAll_of S _ _ ?_ hwt)
      intro v hv ty' hwt'
      have := List.sizeOf_lt_of_mem hv
      simp at hk
      exact ih v (by omega) ty' hwt'
    | list l =>
      cases ty <;> simp only [wtVal] at hwt <;> try (simp at hwt)
      rename_i m
      simp only [Nested]
      intro fs hmem
      have hs := List.sizeOf_lt_of_mem hmem
      simp at hk hs
      have hn := ih (.msg fs) (by simp; omega) (.msg m) (by simpa [wtVal] using wtList_mem S m l fs hwt hmem)
      simpa [Nested] using hn
    | int x => cases ty <;> simp [Nested]
    | str x => cases ty <;> simp [Nested]
    | none => cases ty <;> simp [Nested]
    | strs x => cases ty <;> simp [Nested]
    | smap x => cases ty <;> simp [Nested]

/-- **Round trip.** -/
theorem decode_encode (S : Schema) (hS : S.WF = true) (m : Nat) (v : List Val)
    (hv : WellTyped S m v = true) (hlen : (encode S m v).length < 2 ^ 64) :
    decode S m (encode S m v) = some v := by
  have hn : Nested S (.msg m) (.msg v) :=
    nested_all S hS _ (.msg v) (Nat.le_refl _) (.msg m) (by simpa [wtVal, WellTyped] using hv)
  simp only [Nested] at hn
  exact hn hlen _ (Nat.le_refl _)

end Nri.Wire
