/-
The writer-side fail-stop invariant of `NriModel/MuxWriter.lean`: in every run of the REPAIRED
write loop the trunk holds the frames that went out whole, followed by at most one torn frame,
and a torn frame is there only if the mux has closed (so nothing is ever written after it).
Hence a reader decoding the trunk — or any prefix of it — finds exactly (a prefix of) the whole
frames: never a frame glued together from the pieces of two.
Core Lean only.
-/
import NriModel.MuxWriter
import NriModel.Lemmas.MuxCodec
import NriModel.Lemmas.MuxStream

namespace Nri.Mux

theorem be32Encode_length (n : Nat) : (be32Encode n).length = 4 := rfl

theorem encodeFrame_length (f : Frame) : (encodeFrame f).length = 8 + f.payload.length := by
  simp [encodeFrame, be32Encode_length]; omega

/-- A strict prefix of an encoded frame decodes to no frame at all (the reader is left waiting
    inside the header or inside the payload). -/
theorem decode_torn (f : Frame) (hlen : f.payload.length < 4294967296) (m : Nat)
    (hm : m < 8 + f.payload.length) : (decode ((encodeFrame f).take m)).1 = [] := by
  by_cases h8 : m < 8
  · rw [decode_short]
    simp [encodeFrame_length]; omega
  · have hm8 : 8 ≤ m := by omega
    have : (encodeFrame f).take m =
        be32Encode f.id ++ be32Encode f.payload.length ++ f.payload.take (m - 8) := by
      simp only [encodeFrame]
      rw [List.take_append]
      simp only [List.length_append, be32Encode_length]
      rw [List.take_of_length_le (by simp [be32Encode_length]; omega)]
    rw [this]
    simp only [be32Encode, List.cons_append, List.nil_append]
    rw [decode]
    simp only [be32_ofNat _ hlen]
    have hlt : ¬ min f.payload.length (m - 8) = f.payload.length := by omega
    simp [hlt]

/-- the frames `mux.write` cuts a buffer into fit their headers, for a maximum payload below 2^32
    (it is 4 MiB + 10 in the code) and a connection id below 2^32 (`ConnID` is a `uint32`) -/
theorem WOp.ofWrite_bounded (mp id : Nat) (buf : Bytes) (fail : Option (Nat × CallFail))
    (hmp : 0 < mp) (hmp32 : mp < 4294967296) (hid : id < 4294967296) :
    (WOp.ofWrite mp id buf fail).Bounded := by
  intro f hf
  have := specFrames_bounds mp hmp hmp32 [(id, buf)] (by intro w hw; simp at hw; subst hw; exact hid) f
  apply this
  simpa [specFrames, WOp.ofWrite] using hf

/-- The invariant. -/
structure WInv (s : WSt) : Prop where
  bounded : ∀ f ∈ s.whole, f.id < 4294967296 ∧ f.payload.length < 4294967296
  shape : ∃ tail, s.out = encodeFrames s.whole ++ tail ∧ (tail ≠ [] → s.closed = true) ∧
            (decode tail).1 = []

theorem WInv.init : WInv {} :=
  ⟨(by intro f hf; cases hf), ⟨[], (by simp [encodeFrames]), (by simp), (by rw [decode_nil])⟩⟩

theorem encodeFrames_snoc (fs : List Frame) (f : Frame) :
    encodeFrames (fs ++ [f]) = encodeFrames fs ++ encodeFrame f := by
  simp [encodeFrames]

/-- the loop, started on a trunk that holds only whole frames, keeps the invariant -/
theorem writeFramesW_inv (fs : List Frame) (fail : Option (Nat × CallFail)) (s : WSt)
    (hb : ∀ f ∈ fs, f.id < 4294967296 ∧ f.payload.length < 4294967296)
    (hw : ∀ f ∈ s.whole, f.id < 4294967296 ∧ f.payload.length < 4294967296)
    (hout : s.out = encodeFrames s.whole) :
    WInv (writeFramesW true fs fail s).1 := by
  induction fs generalizing fail s with
  | nil =>
    simp only [writeFramesW]
    exact ⟨hw, ⟨[], (by simp [hout]), (by simp), (by rw [decode_nil])⟩⟩
  | cons f fs ih =>
    have hf := hb f List.mem_cons_self
    have hfs : ∀ g ∈ fs, g.id < 4294967296 ∧ g.payload.length < 4294967296 :=
      fun g hg => hb g (List.mem_cons_of_mem _ hg)
    have hw' : ∀ g ∈ s.whole ++ [f], g.id < 4294967296 ∧ g.payload.length < 4294967296 := by
      intro g hg
      rcases List.mem_append.mp hg with h | h
      · exact hw g h
      · simp at h; subst h; exact hf
    match fail with
    | none =>
      simp only [writeFramesW]
      exact ih none _ hfs hw' (by simp [hout, encodeFrames_snoc])
    | some (i + 1, cf) =>
      simp only [writeFramesW]
      exact ih (some (i, cf)) _ hfs hw' (by simp [hout, encodeFrames_snoc])
    | some (0, .hdr n) =>
      simp only [writeFramesW]
      refine ⟨hw, ⟨(encodeFrame f).take (min n 7), (by simp [hout]), ?_, ?_⟩⟩
      · intro hne
        by_cases h0 : min n 7 = 0
        · rw [h0] at hne; simp at hne
        · simp [h0]
      · exact decode_torn f hf.2 _ (by omega)
    | some (0, .payload n) =>
      simp only [writeFramesW]
      by_cases hall : min n f.payload.length = f.payload.length
      · simp only [hall, if_true]
        exact ⟨hw', ⟨[], (by simp [hout, encodeFrames_snoc]), (by simp), (by rw [decode_nil])⟩⟩
      · simp only [hall, if_false]
        refine ⟨hw, ⟨(encodeFrame f).take (8 + min n f.payload.length), (by simp [hout]), ?_, ?_⟩⟩
        · intro _; simp
        · exact decode_torn f hf.2 _ (by omega)

theorem wstep_inv (s : WSt) (op : WOp) (hop : op.Bounded) (h : WInv s) : WInv (wstep true s op) := by
  unfold wstep
  by_cases hc : s.closed = true
  · simp [hc]; exact h
  · simp only [hc]
    obtain ⟨tail, hout, hcl, _⟩ := h.shape
    have ht : tail = [] := by
      by_cases ht : tail = []
      · exact ht
      · exact absurd (hcl ht) hc
    subst ht
    exact writeFramesW_inv op.frames op.fail s hop h.bounded (by simpa using hout)

theorem wrun_inv (ops : List WOp) (hops : ∀ op ∈ ops, op.Bounded) (s : WSt) (h : WInv s) :
    WInv (wrun true ops s) := by
  unfold wrun
  induction ops generalizing s with
  | nil => exact h
  | cons op ops ih =>
    simp only [List.foldl_cons]
    exact ih (fun o ho => hops o (List.mem_cons_of_mem _ ho)) _
      (wstep_inv s op (hops op List.mem_cons_self) h)

/-- What a reader finds on a trunk that satisfies the invariant: exactly the whole frames. -/
theorem WInv.decode_out {s : WSt} (h : WInv s) : (decode s.out).1 = s.whole := by
  obtain ⟨tail, hout, _, hd⟩ := h.shape
  rw [hout, decode_frames _ h.bounded, hd]; simp

/-- Once closed, nothing is ever written again. -/
theorem wrun_closed (fixed : Bool) (ops : List WOp) (s : WSt) (hc : s.closed = true) :
    wrun fixed ops s = s := by
  unfold wrun
  induction ops with
  | nil => rfl
  | cons op ops ih =>
    simp only [List.foldl_cons]
    have : wstep fixed s op = s := by unfold wstep; simp [hc]
    rw [this]; exact ih

end Nri.Mux
