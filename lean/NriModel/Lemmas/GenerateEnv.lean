/-
Environment: closed form of the two phases of `AdjustEnv` on a well-formed original
environment (entries `NAME=value`, names non-empty and distinct), what `Env.lookup` returns
for every name afterwards, and that untouched entries keep their order.
Core Lean only.
-/
import NriModel.Lemmas.GenerateAnnotations

namespace Nri.Generate
open Nri.Api

namespace Env

/-! ### `splitEq`, `render`, `lookup` -/

theorem splitEq_render (n v : Str) (h : '=' ∉ n) : splitEq (n ++ '=' :: v) = some (n, v) := by
  induction n with
  | nil => simp [splitEq]
  | cons c r ih =>
    have hc : c ≠ '=' := by intro hc; apply h; simp [hc]
    have hr : '=' ∉ r := by intro hr; apply h; simp [hr]
    simp [splitEq, hc, ih hr]

theorem splitEq_some {e n v : Str} (h : splitEq e = some (n, v)) : e = n ++ '=' :: v ∧ '=' ∉ n := by
  induction e generalizing n with
  | nil => simp [splitEq] at h
  | cons c r ih =>
    unfold splitEq at h
    by_cases hc : c = '='
    · simp only [hc, if_true, Option.some.injEq, Prod.mk.injEq] at h
      obtain ⟨h1, h2⟩ := h
      subst h1 h2 hc; simp
    · simp only [hc, if_false] at h
      cases hs : splitEq r with
      | none => rw [hs] at h; cases h
      | some p =>
        obtain ⟨n', v'⟩ := p
        rw [hs] at h
        simp only [Option.some.injEq, Prod.mk.injEq] at h
        obtain ⟨h1, h2⟩ := h
        subst h1 h2
        obtain ⟨e1, e2⟩ := ih hs
        refine ⟨by rw [e1]; rfl, ?_⟩
        intro hm
        rcases List.mem_cons.mp hm with hm | hm
        · exact hc hm.symm
        · exact e2 hm

theorem nameOf_of_split {e n v : Str} (h : splitEq e = some (n, v)) : nameOf e = n := by
  simp [nameOf, h]

/-- Names in a generator state contain no `'='`. -/
def NoEq (acc : AList Str Str) : Prop := ∀ x ∈ acc, '=' ∉ x.1

theorem lookup_render {acc : AList Str Str} (h : NoEq acc) (k : Str) :
    lookup (render acc) k = AList.lookup acc k := by
  induction acc with
  | nil => rfl
  | cons x r ih =>
    obtain ⟨n, v⟩ := x
    have hn : '=' ∉ n := h (n, v) (by simp)
    have hr : NoEq r := fun y hy => h y (List.mem_cons_of_mem _ hy)
    simp only [render, List.map_cons, lookup, splitEq_render n v hn, AList.lookup]
    have := ih hr
    simp only [render] at this
    rw [this]

/-! ### association-list facts -/

theorem insert_of_absent {ν : Type} {m : AList Str ν} {k : Str} (v : ν) (h : k ∉ m.map (·.1)) :
    AList.insert m k v = m ++ [(k, v)] := by
  induction m with
  | nil => rfl
  | cons x r ih =>
    obtain ⟨k', v'⟩ := x
    have hk : k' ≠ k := by intro hk; apply h; simp [hk]
    have hr : k ∉ r.map (·.1) := by intro hr; apply h; simp [hr]
    simp [AList.insert, hk, ih hr]

theorem lookup_append {ν : Type} (a b : AList Str ν) (k : Str) :
    AList.lookup (a ++ b) k = (AList.lookup a k).or (AList.lookup b k) := by
  induction a with
  | nil => simp [AList.lookup]
  | cons x r ih =>
    obtain ⟨k', v'⟩ := x
    by_cases hk : k' = k <;> simp [AList.lookup, hk, ih]

theorem lookup_none_of_absent {ν : Type} {m : AList Str ν} {k : Str} (h : k ∉ m.map (·.1)) :
    AList.lookup m k = none := by
  induction m with
  | nil => rfl
  | cons x r ih =>
    obtain ⟨k', v'⟩ := x
    have hk : k' ≠ k := by intro hk; apply h; simp [hk]
    have hr : k ∉ r.map (·.1) := by intro hr; apply h; simp [hr]
    simp [AList.lookup, hk, ih hr]

theorem mem_keys_of_lookup {ν : Type} {m : AList Str ν} {k : Str} {v : ν}
    (h : AList.lookup m k = some v) : k ∈ m.map (·.1) := by
  induction m with
  | nil => simp [AList.lookup] at h
  | cons x r ih =>
    obtain ⟨k', v'⟩ := x
    by_cases hk : k' = k
    · simp [hk]
    · simp only [AList.lookup, hk, if_false] at h
      simp [ih h]

theorem filter_insert_rejected {m : AList Str Str} (q : Str → Bool) {k : Str} (v : Str)
    (hq : q k = false) :
    (AList.insert m k v).filter (fun x => q x.1) = m.filter (fun x => q x.1) := by
  induction m with
  | nil => simp [AList.insert, hq]
  | cons x r ih =>
    obtain ⟨k', v'⟩ := x
    by_cases hk : k' = k
    · subst hk; simp [AList.insert, hq]
    · simp [AList.insert, hk, List.filter_cons, ih]

theorem mem_insert {m : AList Str Str} {k v : Str} {x : Str × Str}
    (h : x ∈ AList.insert m k v) : x ∈ m ∨ x = (k, v) := by
  induction m with
  | nil => simp [AList.insert] at h; exact Or.inr h
  | cons y r ih =>
    obtain ⟨k', v'⟩ := y
    by_cases hk : k' = k
    · simp only [AList.insert, hk, if_true, List.mem_cons] at h
      rcases h with h | h
      · exact Or.inr h
      · exact Or.inl (List.mem_cons_of_mem _ h)
    · simp only [AList.insert, hk, if_false, List.mem_cons] at h
      rcases h with h | h
      · exact Or.inl (by simp [h])
      · rcases ih h with h | h
        · exact Or.inl (List.mem_cons_of_mem _ h)
        · exact Or.inr h

/-! ### the `mod` map -/

/-- every entry of `mod` sits under its own stripped key -/
def ModOK (md : AList Str KeyValue) : Prop :=
  ∀ n m, AList.lookup md n = some m → stripMarker m.key = n

/-- `e` is an unmarked entry for name `k` -/
def setsKey (k : Str) (e : KeyValue) : Bool := !isMarked e.key && e.key == k
/-- `e` is the removal marker of name `k` -/
def removes (k : Str) (e : KeyValue) : Bool := isMarked e.key && stripMarker e.key == k

theorem lookup_modUnfixed (L : List KeyValue) (k : Str) :
    AList.lookup (modUnfixed L) k = lastMatch (fun e => stripMarker e.key == k) L := by
  unfold modUnfixed
  have := lookup_foldl_insert (fun _ : KeyValue => true) (fun e => stripMarker e.key) (fun e => e) L [] k
  simp only [if_true, Bool.true_and, AList.lookup_nil] at this
  rw [this]
  cases lastMatch (fun e => stripMarker e.key == k) L <;> rfl

theorem modOK_unfixed (L : List KeyValue) : ModOK (modUnfixed L) := by
  intro n m h
  rw [lookup_modUnfixed] at h
  have := (lastMatch_some h).2
  simpa using this

theorem lastMatch_filter {ε : Type} (q p : ε → Bool) (L : List ε) :
    lastMatch q (L.filter p) = lastMatch (fun e => p e && q e) L := by
  induction L with
  | nil => rfl
  | cons e r ih =>
    by_cases hp : p e = true
    · simp only [List.filter_cons, hp, if_true, lastMatch, ih, Bool.true_and]
    · have hp' : p e = false := by simpa using hp
      simp only [List.filter_cons, hp', Bool.false_eq_true, if_false, lastMatch, ih, Bool.false_and]
      cases lastMatch (fun e => p e && q e) r <;> rfl

/-- The repaired `mod`: the last SET of `k` if there is one, else the last removal of `k`. -/
theorem lookup_mod (env : List KeyValue) (k : Str) :
    AList.lookup (mod env) k =
      match lastMatch (setsKey k) env with
      | some e => some e
      | none => lastMatch (removes k) env := by
  unfold mod removalsFirst
  rw [lookup_modUnfixed, lastMatch_append, lastMatch_filter, lastMatch_filter]
  have h1 : (fun e : KeyValue => (!isMarked e.key) && stripMarker e.key == k) = setsKey k := by
    funext e
    unfold setsKey
    cases hm : isMarked e.key
    · simp [strip_of_not_marked hm]
    · simp
  have h2 : (fun e : KeyValue => isMarked e.key && stripMarker e.key == k) = removes k := rfl
  rw [h1, h2]
  cases lastMatch (setsKey k) env <;> rfl

theorem modOK (env : List KeyValue) : ModOK (mod env) := modOK_unfixed _

/-! ### phase 1 -/

/-- what phase 1 does with one original entry -/
def keep (md : AList Str KeyValue) (e : Str) : Option (Str × Str) :=
  match splitEq e with
  | none => none
  | some (n, v) =>
    match AList.lookup md n with
    | some m => if isMarked m.key then none else some (m.key, m.value)
    | none => some (n, v)

/-- Well-formed original environment: `NAME=value`, names non-empty and distinct. -/
structure WF (old : List Str) : Prop where
  split : ∀ e ∈ old, ∃ n v, splitEq e = some (n, v) ∧ n ≠ []
  nodup : (old.map nameOf).Nodup

theorem WF.tail {e : Str} {r : List Str} (h : WF (e :: r)) : WF r :=
  ⟨fun x hx => h.split x (List.mem_cons_of_mem _ hx), (List.nodup_cons.mp h.nodup).2⟩

theorem filterMap_congr' {α β : Type} {f g : α → Option β} {l : List α}
    (h : ∀ x ∈ l, f x = g x) : l.filterMap f = l.filterMap g := by
  induction l with
  | nil => rfl
  | cons a r ih =>
    simp only [List.filterMap_cons, h a (by simp)]
    rw [ih (fun x hx => h x (List.mem_cons_of_mem _ hx))]

theorem keep_erase {md : AList Str KeyValue} {n : Str} {e : Str} (hne : nameOf e ≠ n) :
    keep (AList.erase md n) e = keep md e := by
  unfold keep
  cases hs : splitEq e with
  | none => rfl
  | some p =>
    obtain ⟨n', v'⟩ := p
    have : n' ≠ n := by rw [← nameOf_of_split hs]; exact hne
    simp only [AList.lookup_erase_other _ _ _ (fun h => this h.symm)]

theorem phase1_snd (old : List Str) (md : AList Str KeyValue) (acc : AList Str Str)
    (hwf : WF old) (hdisj : ∀ e ∈ old, nameOf e ∉ acc.map (·.1)) (hmod : ModOK md) :
    (phase1 (md, acc) old).2 = acc ++ old.filterMap (keep md) := by
  induction old generalizing md acc with
  | nil => simp [phase1]
  | cons e r ih =>
    obtain ⟨n, v, hs, hn⟩ := hwf.split e (by simp)
    have hname : nameOf e = n := nameOf_of_split hs
    have hnd := List.nodup_cons.mp hwf.nodup
    have hrn : ∀ e' ∈ r, nameOf e' ≠ n := by
      intro e' he' h
      apply hnd.1; rw [hname, ← h]; exact List.mem_map.mpr ⟨e', he', rfl⟩
    have hacc : n ∉ acc.map (·.1) := by
      have := hdisj e (by simp); rwa [hname] at this
    unfold phase1
    simp only [hs]
    cases hl : AList.lookup md n with
    | none =>
      simp only
      have hadd : addProcessEnv acc n v = acc ++ [(n, v)] := by
        unfold addProcessEnv; simp only [hn, if_false]; exact insert_of_absent v hacc
      rw [hadd, ih md (acc ++ [(n, v)]) hwf.tail ?_ hmod]
      · simp [keep, hs, hl]
      · intro e' he'
        simp only [List.map_append, List.map_cons, List.map_nil, List.mem_append, List.mem_singleton, not_or]
        exact ⟨hdisj e' (List.mem_cons_of_mem _ he'), hrn e' he'⟩
    | some m =>
      simp only
      have hmod' : ModOK (AList.erase md n) := by
        intro n' m' h'
        by_cases hnn : n = n'
        · subst hnn; rw [AList.lookup_erase_self] at h'; cases h'
        · rw [AList.lookup_erase_other _ _ _ hnn] at h'; exact hmod n' m' h'
      have hcongr : r.filterMap (keep (AList.erase md n)) = r.filterMap (keep md) := by
        apply filterMap_congr'
        intro e' he'; exact keep_erase (hrn e' he')
      cases hmk : isMarked m.key with
      | true =>
        simp only [if_true]
        rw [ih (AList.erase md n) acc hwf.tail (fun e' he' => hdisj e' (List.mem_cons_of_mem _ he')) hmod', hcongr]
        simp [keep, hs, hl, hmk]
      | false =>
        simp only [Bool.false_eq_true, if_false]
        have hkey : m.key = n := by
          have := hmod n m hl; rwa [strip_of_not_marked hmk] at this
        have hadd : addProcessEnv acc m.key m.value = acc ++ [(n, m.value)] := by
          unfold addProcessEnv; rw [hkey]; simp only [hn, if_false]; exact insert_of_absent _ hacc
        have hmk' : isMarked n = false := hkey ▸ hmk
        rw [hadd, ih (AList.erase md n) (acc ++ [(n, m.value)]) hwf.tail ?_ hmod', hcongr]
        · simp [keep, hs, hl, hkey, hmk']
        · intro e' he'
          simp only [List.map_append, List.map_cons, List.map_nil, List.mem_append, List.mem_singleton, not_or]
          exact ⟨hdisj e' (List.mem_cons_of_mem _ he'), hrn e' he'⟩

theorem phase1_fst (old : List Str) (md : AList Str KeyValue) (acc : AList Str Str)
    (hwf : WF old) (k : Str) :
    AList.lookup (phase1 (md, acc) old).1 k =
      if k ∈ old.map nameOf then none else AList.lookup md k := by
  induction old generalizing md acc with
  | nil => simp [phase1]
  | cons e r ih =>
    obtain ⟨n, v, hs, _⟩ := hwf.split e (by simp)
    have hname : nameOf e = n := nameOf_of_split hs
    unfold phase1
    simp only [hs, List.map_cons, List.mem_cons, hname]
    cases hl : AList.lookup md n with
    | none =>
      simp only
      rw [ih md _ hwf.tail]
      by_cases hk : k = n
      · subst hk; simp [hl]
      · simp [hk]
    | some m =>
      simp only
      rw [ih _ _ hwf.tail]
      by_cases hk : k = n
      · subst hk; simp [AList.lookup_erase_self]
      · simp [hk, AList.lookup_erase_other _ _ _ (fun h => hk h.symm)]

/-- `lookup` in the closed form of phase 1. -/
theorem lookup_filterMap_keep (old : List Str) (md : AList Str KeyValue) (hwf : WF old)
    (hmod : ModOK md) (k : Str) :
    AList.lookup (old.filterMap (keep md)) k =
      if k ∈ old.map nameOf then
        (match AList.lookup md k with
          | some m => if isMarked m.key then none else some m.value
          | none => lookup old k)
      else none := by
  induction old with
  | nil => simp
  | cons e r ih =>
    obtain ⟨n, v, hs, hn⟩ := hwf.split e (by simp)
    have hname : nameOf e = n := nameOf_of_split hs
    have hnd := List.nodup_cons.mp hwf.nodup
    have hnr : n ∉ r.map nameOf := by rw [← hname]; exact hnd.1
    have ih := ih hwf.tail
    simp only [List.map_cons, List.mem_cons, hname, lookup, hs]
    by_cases hk : k = n
    · subst hk
      have hrest : AList.lookup (r.filterMap (keep md)) k = none := by
        rw [ih]; simp [hnr]
      simp only [true_or, if_true]
      cases hl : AList.lookup md k with
      | none =>
        simp [keep, hs, hl, AList.lookup]
      | some m =>
        cases hmk : isMarked m.key with
        | true => simp [keep, hs, hl, hmk, hrest]
        | false =>
          have hkey : m.key = k := by
            have := hmod k m hl; rwa [strip_of_not_marked hmk] at this
          have hmk' : isMarked k = false := hkey ▸ hmk
          simp [keep, hs, hl, AList.lookup, hkey, hmk']
    · have hnk : n ≠ k := fun h => hk h.symm
      simp only [hk, false_or, hnk, if_false]
      have : AList.lookup (List.filterMap (keep md) (e :: r)) k = AList.lookup (r.filterMap (keep md)) k := by
        simp only [List.filterMap_cons]
        cases hke : keep md e with
        | none => rfl
        | some p =>
          obtain ⟨n', v'⟩ := p
          have : n' = n := by
            unfold keep at hke
            simp only [hs] at hke
            cases hl : AList.lookup md n with
            | none => rw [hl] at hke; simp at hke; exact hke.1.symm
            | some m =>
              rw [hl] at hke
              cases hmk : isMarked m.key with
              | true => simp [hmk] at hke
              | false =>
                simp [hmk] at hke
                have := hmod n m hl; rw [strip_of_not_marked hmk] at this
                rw [← hke.1, this]
          subst this
          simp [AList.lookup, hnk]
      rw [this, ih]

/-! ### phase 2 -/

theorem phase2_eq (md : AList Str KeyValue) (acc : AList Str Str) (env : List KeyValue) :
    phase2 md acc env =
      env.foldl (fun acc e =>
        if (!isMarked e.key && AList.contains md e.key && !(e.key == [])) then AList.insert acc e.key e.value
        else acc) acc := by
  unfold phase2
  congr 1
  funext acc e
  cases hm : isMarked e.key
  · cases hc : AList.contains md e.key
    · simp
    · by_cases he : e.key = []
      · simp [addProcessEnv, he]
      · simp [addProcessEnv, he]
  · simp

theorem lookup_phase2 (md : AList Str KeyValue) (acc : AList Str Str) (env : List KeyValue) (k : Str) :
    AList.lookup (phase2 md acc env) k =
      pick (lastMatch (fun e => (!isMarked e.key && AList.contains md e.key && !(e.key == [])) && e.key == k) env)
        (·.value) (AList.lookup acc k) := by
  rw [phase2_eq]
  exact lookup_foldl_insert _ (fun e => e.key) (fun e => e.value) env acc k

theorem filter_phase2 (md : AList Str KeyValue) (acc : AList Str Str) (env : List KeyValue)
    (q : Str → Bool) (hq : ∀ e ∈ env, q (stripMarker e.key) = false) :
    (phase2 md acc env).filter (fun x => q x.1) = acc.filter (fun x => q x.1) := by
  rw [phase2_eq]
  induction env generalizing acc with
  | nil => rfl
  | cons e r ih =>
    simp only [List.foldl_cons]
    rw [ih _ (fun x hx => hq x (List.mem_cons_of_mem _ hx))]
    by_cases hc : (!isMarked e.key && AList.contains md e.key && !(e.key == [])) = true
    · simp only [hc, if_true]
      have hm : isMarked e.key = false := by
        simp only [Bool.and_eq_true, Bool.not_eq_true'] at hc; exact hc.1.1
      have := hq e (by simp); rw [strip_of_not_marked hm] at this
      exact filter_insert_rejected q _ this
    · rw [if_neg hc]

theorem noEq_phase2 (md : AList Str KeyValue) (acc : AList Str Str) (env : List KeyValue)
    (hacc : NoEq acc) (henv : ∀ e ∈ env, '=' ∉ stripMarker e.key) : NoEq (phase2 md acc env) := by
  rw [phase2_eq]
  induction env generalizing acc with
  | nil => exact hacc
  | cons e r ih =>
    simp only [List.foldl_cons]
    apply ih _ _ (fun x hx => henv x (List.mem_cons_of_mem _ hx))
    by_cases hc : (!isMarked e.key && AList.contains md e.key && !(e.key == [])) = true
    · simp only [hc, if_true]
      have hm : isMarked e.key = false := by
        simp only [Bool.and_eq_true, Bool.not_eq_true'] at hc; exact hc.1.1
      intro x hx
      rcases mem_insert hx with hx | hx
      · exact hacc x hx
      · rw [hx]; have := henv e (by simp); rwa [strip_of_not_marked hm] at this
    · simp only [hc]; exact hacc

theorem noEq_filterMap_keep (old : List Str) (md : AList Str KeyValue) (hmod : ModOK md) :
    NoEq (old.filterMap (keep md)) := by
  intro x hx
  rcases List.mem_filterMap.mp hx with ⟨e, _, hke⟩
  unfold keep at hke
  cases hs : splitEq e with
  | none => simp [hs] at hke
  | some p =>
    obtain ⟨n, v⟩ := p
    have hne := (splitEq_some hs).2
    simp only [hs] at hke
    cases hl : AList.lookup md n with
    | none => rw [hl] at hke; simp at hke; rw [← hke]; exact hne
    | some m =>
      rw [hl] at hke
      cases hmk : isMarked m.key with
      | true => simp [hmk] at hke
      | false =>
        simp [hmk] at hke
        have := hmod n m hl; rw [strip_of_not_marked hmk] at this
        rw [← hke]; simp only; rw [this]; exact hne

/-! ### the whole of `AdjustEnv` -/

/-- The generator state at the end of the repaired `AdjustEnv` (non-empty adjustment). -/
def finalAcc (old : List Str) (env : List KeyValue) : AList Str Str :=
  let st := phase1 (mod env, []) old
  phase2 st.1 st.2 env

theorem apply_eq (old : List Str) (env : List KeyValue) (h : env ≠ []) :
    apply old env = render (finalAcc old env) := by
  unfold apply applyWith finalAcc
  cases env with
  | nil => exact absurd rfl h
  | cons e r => simp

/-- What `Env.lookup` returns after the repaired `AdjustEnv`, for every name `k ≠ ""`. -/
theorem lookup_apply (old : List Str) (env : List KeyValue) (hwf : WF old) (hne : env ≠ [])
    (hkeys : ∀ e ∈ env, '=' ∉ stripMarker e.key) (k : Str) (hk : k ≠ []) :
    lookup (apply old env) k =
      match lastMatch (setsKey k) env with
      | some e => some e.value
      | none => if env.any (removes k) then none else lookup old k := by
  rw [apply_eq old env hne]
  have hmod := modOK env
  have hsnd := phase1_snd old (mod env) [] hwf (by simp) hmod
  have hfst := fun k => phase1_fst old (mod env) [] hwf k
  simp only [List.nil_append] at hsnd
  have hnoeq : NoEq (finalAcc old env) := by
    unfold finalAcc; simp only
    rw [hsnd]
    exact noEq_phase2 _ _ _ (noEq_filterMap_keep old _ hmod) hkeys
  rw [lookup_render hnoeq]
  unfold finalAcc; simp only
  rw [lookup_phase2, hsnd, lookup_filterMap_keep old _ hwf hmod, lookup_mod]
  -- the entries phase 2 appends for `k`: the sets of `k`, if `k` is still in `mod`
  have hq : (fun e : KeyValue => (!isMarked e.key && AList.contains (phase1 (mod env, []) old).1 e.key && !(e.key == [])) && e.key == k)
      = fun e => AList.contains (phase1 (mod env, []) old).1 k && setsKey k e := by
    funext e
    unfold setsKey
    by_cases hek : e.key = k
    · subst hek
      have : (e.key == ([] : Str)) = false := by simpa using hk
      simp [this, Bool.and_comm]
    · have : (e.key == k) = false := by simpa using hek
      simp [this]
  rw [hq]
  cases hc : AList.contains (phase1 (mod env, []) old).1 k with
  | false =>
    -- nothing appended: `k` is an original name, or `mod` never had it
    have hnone : lastMatch (fun e => false && setsKey k e) env = none := by
      rw [lastMatch_none_iff]; intro e _; rfl
    rw [hnone, pick_none]
    unfold AList.contains at hc
    rw [hfst k] at hc
    by_cases hin : k ∈ old.map nameOf
    · simp only [hin, if_true]
      cases hls : lastMatch (setsKey k) env with
      | some e =>
        have hq := (lastMatch_some hls).2
        simp only [setsKey, Bool.and_eq_true, Bool.not_eq_true', beq_iff_eq] at hq
        simp [hq.1]
      | none =>
        simp only
        cases hlr : lastMatch (removes k) env with
        | some e =>
          have hq := (lastMatch_some hlr)
          have hany : env.any (removes k) = true := List.any_eq_true.mpr ⟨e, hq.1, hq.2⟩
          have hm : isMarked e.key = true := by
            have := hq.2; simp only [removes, Bool.and_eq_true] at this; exact this.1
          simp [hany, hm]
        | none =>
          have hany : env.any (removes k) = false := by
            rw [lastMatch_none_iff] at hlr
            rw [Bool.eq_false_iff]; intro h
            obtain ⟨e, he, hq⟩ := List.any_eq_true.mp h
            rw [hlr e he] at hq; cases hq
          simp [hany]
    · simp only [hin, if_false] at hc ⊢
      rw [lookup_mod] at hc
      cases hls : lastMatch (setsKey k) env with
      | some e => rw [hls] at hc; simp at hc
      | none =>
        rw [hls] at hc
        simp only at hc ⊢
        cases hlr : lastMatch (removes k) env with
        | some e => rw [hlr] at hc; simp at hc
        | none =>
          have hany : env.any (removes k) = false := by
            rw [lastMatch_none_iff] at hlr
            rw [Bool.eq_false_iff]; intro h
            obtain ⟨e, he, hq⟩ := List.any_eq_true.mp h
            rw [hlr e he] at hq; cases hq
          simp only [hany, Bool.false_eq_true, if_false]
          -- `k` is not an original name
          symm
          clear hc hq hnone hsnd hfst hnoeq
          induction old with
          | nil => rfl
          | cons e r ih =>
            obtain ⟨n, v, hs, _⟩ := hwf.split e (by simp)
            simp only [List.map_cons, List.mem_cons, not_or, nameOf_of_split hs] at hin
            simp only [lookup, hs]
            have : n ≠ k := fun h => hin.1 h.symm
            simp only [this, if_false]
            exact ih hwf.tail hin.2
  | true =>
    -- `k` is still in `mod` after phase 1: it is not an original name and `mod` has it
    unfold AList.contains at hc
    rw [hfst k] at hc
    have hin : k ∉ old.map nameOf := by
      intro hin; simp [hin] at hc
    simp only [hin, if_false, Bool.true_and]
    have hfun : (fun e => setsKey k e) = setsKey k := rfl
    rw [hfun]
    cases hls : lastMatch (setsKey k) env with
    | some e => simp
    | none =>
      simp only [pick_none]
      simp only [hin, if_false] at hc
      rw [lookup_mod, hls] at hc
      simp only at hc
      cases hlr : lastMatch (removes k) env with
      | none => rw [hlr] at hc; simp at hc
      | some e =>
        have hq := lastMatch_some hlr
        have hany : env.any (removes k) = true := List.any_eq_true.mpr ⟨e, hq.1, hq.2⟩
        simp [hany]

/-! ### order of the untouched entries -/

theorem nameOf_render (n v : Str) (h : '=' ∉ n) : nameOf (n ++ '=' :: v) = n := by
  simp [nameOf, splitEq_render n v h]

theorem filter_render {acc : AList Str Str} (h : NoEq acc) (q : Str → Bool) :
    (render acc).filter (fun e => q (nameOf e)) = render (acc.filter (fun x => q x.1)) := by
  induction acc with
  | nil => rfl
  | cons x r ih =>
    obtain ⟨n, v⟩ := x
    have hn : '=' ∉ n := h (n, v) (by simp)
    have hr : NoEq r := fun y hy => h y (List.mem_cons_of_mem _ hy)
    have ih := ih hr
    simp only [render, List.map_cons, List.filter_cons, nameOf_render n v hn] at ih ⊢
    cases q n <;> simp [ih]

theorem lookup_mod_none {env : List KeyValue} {k : Str} (h : ∀ e ∈ env, stripMarker e.key ≠ k) :
    AList.lookup (mod env) k = none := by
  rw [lookup_mod]
  have h1 : lastMatch (setsKey k) env = none := by
    rw [lastMatch_none_iff]; intro e he
    cases hm : isMarked e.key
    · have := h e he; rw [strip_of_not_marked hm] at this
      simp [setsKey, hm, this]
    · simp [setsKey, hm]
  have h2 : lastMatch (removes k) env = none := by
    rw [lastMatch_none_iff]; intro e he
    have := h e he
    simp [removes, this]
  rw [h1, h2]

theorem render_filter_keep (old : List Str) (md : AList Str KeyValue) (hwf : WF old) (hmod : ModOK md)
    (q : Str → Bool) (hq : ∀ e ∈ old, q (nameOf e) = true → AList.lookup md (nameOf e) = none) :
    render ((old.filterMap (keep md)).filter (fun x => q x.1)) = old.filter (fun e => q (nameOf e)) := by
  induction old with
  | nil => rfl
  | cons e r ih =>
    obtain ⟨n, v, hs, _⟩ := hwf.split e (by simp)
    have hname : nameOf e = n := nameOf_of_split hs
    have ih := ih hwf.tail (fun x hx => hq x (List.mem_cons_of_mem _ hx))
    simp only [List.filterMap_cons, List.filter_cons, hname]
    cases hqn : q n with
    | true =>
      have hl : AList.lookup md n = none := by
        have := hq e (by simp); rw [hname] at this; exact this hqn
      have hk : keep md e = some (n, v) := by simp [keep, hs, hl]
      simp only [hk, List.filter_cons, hqn, if_true, render, List.map_cons]
      simp only [render] at ih
      rw [ih, (splitEq_some hs).1]
    | false =>
      simp only [Bool.false_eq_true, if_false]
      cases hk : keep md e with
      | none => exact ih
      | some p =>
        obtain ⟨n', v'⟩ := p
        have : n' = n := by
          unfold keep at hk
          simp only [hs] at hk
          cases hl : AList.lookup md n with
          | none => rw [hl] at hk; simp at hk; exact hk.1.symm
          | some m =>
            rw [hl] at hk
            cases hmk : isMarked m.key with
            | true => simp [hmk] at hk
            | false =>
              simp [hmk] at hk
              have := hmod n m hl; rw [strip_of_not_marked hmk] at this
              rw [← hk.1, this]
        subst this
        simp only [List.filter_cons, hqn, Bool.false_eq_true, if_false]
        exact ih

/-- Entries whose names the adjustment does not mention come out unchanged and in their
    original relative order (`q` = any predicate on names that rejects every named key). -/
theorem filter_apply (old : List Str) (env : List KeyValue) (hwf : WF old)
    (hkeys : ∀ e ∈ env, '=' ∉ stripMarker e.key) (q : Str → Bool)
    (hq : ∀ e ∈ env, q (stripMarker e.key) = false) :
    (apply old env).filter (fun e => q (nameOf e)) = old.filter (fun e => q (nameOf e)) := by
  by_cases hne : env = []
  · subst hne; simp [apply, applyWith]
  rw [apply_eq old env hne]
  have hmod := modOK env
  have hsnd := phase1_snd old (mod env) [] hwf (by simp) hmod
  simp only [List.nil_append] at hsnd
  have hnoeq : NoEq (finalAcc old env) := by
    unfold finalAcc; simp only
    rw [hsnd]
    exact noEq_phase2 _ _ _ (noEq_filterMap_keep old _ hmod) hkeys
  rw [filter_render hnoeq]
  unfold finalAcc; simp only
  rw [filter_phase2 _ _ _ q hq, hsnd]
  apply render_filter_keep old _ hwf hmod
  intro e _ hqe
  apply lookup_mod_none
  intro x hx hxe
  have := hq x hx
  rw [hxe, hqe] at this; cases this

/-! ### the result is again a well-formed environment -/

theorem keys_insert (m : AList Str Str) (k v : Str) :
    (AList.insert m k v).map (·.1) = if k ∈ m.map (·.1) then m.map (·.1) else m.map (·.1) ++ [k] := by
  induction m with
  | nil => simp [AList.insert]
  | cons x r ih =>
    obtain ⟨k', v'⟩ := x
    by_cases hk : k' = k
    · subst hk; simp [AList.insert]
    · have hk2 : ¬ k = k' := fun h => hk h.symm
      simp only [AList.insert, hk, if_false, List.map_cons, ih, List.mem_cons, hk2, false_or]
      by_cases hm : k ∈ r.map (·.1) <;> simp [hm]

theorem keys_insert_nodup {m : AList Str Str} (k v : Str) (h : (m.map (·.1)).Nodup) :
    ((AList.insert m k v).map (·.1)).Nodup := by
  rw [keys_insert]
  by_cases hm : k ∈ m.map (·.1)
  · simp only [hm, if_true]; exact h
  · simp only [hm, if_false]
    rw [List.nodup_append]
    refine ⟨h, by simp, ?_⟩
    intro a ha b hb
    simp only [List.mem_singleton] at hb
    rw [hb]; intro hab; exact hm (hab ▸ ha)

theorem keep_fst {md : AList Str KeyValue} (hmod : ModOK md) {e : Str} {p : Str × Str}
    (h : keep md e = some p) : p.1 = nameOf e ∧ '=' ∉ p.1 := by
  unfold keep at h
  cases hs : splitEq e with
  | none => simp [hs] at h
  | some q =>
    obtain ⟨n, v⟩ := q
    have hne := (splitEq_some hs).2
    simp only [hs] at h
    rw [nameOf_of_split hs]
    cases hl : AList.lookup md n with
    | none => rw [hl] at h; simp at h; rw [← h]; exact ⟨rfl, hne⟩
    | some m =>
      rw [hl] at h
      cases hmk : isMarked m.key with
      | true => simp [hmk] at h
      | false =>
        simp [hmk] at h
        have := hmod n m hl; rw [strip_of_not_marked hmk] at this
        rw [← h]; simp only; rw [this]; exact ⟨rfl, hne⟩

theorem keys_filterMap_keep_sublist (old : List Str) (md : AList Str KeyValue) (hmod : ModOK md) :
    List.Sublist ((old.filterMap (keep md)).map (·.1)) (old.map nameOf) := by
  induction old with
  | nil => exact List.Sublist.slnil
  | cons e r ih =>
    simp only [List.filterMap_cons, List.map_cons]
    cases hk : keep md e with
    | none => exact List.Sublist.cons _ ih
    | some p =>
      simp only [List.map_cons]
      rw [(keep_fst hmod hk).1]
      exact List.Sublist.cons_cons _ ih

/-- invariant of a generator state: names distinct, non-empty and without `'='` -/
def GoodAcc (acc : AList Str Str) : Prop :=
  (acc.map (·.1)).Nodup ∧ (∀ x ∈ acc, x.1 ≠ []) ∧ NoEq acc

theorem goodAcc_phase2 (md : AList Str KeyValue) (acc : AList Str Str) (env : List KeyValue)
    (hacc : GoodAcc acc) (henv : ∀ e ∈ env, '=' ∉ stripMarker e.key) : GoodAcc (phase2 md acc env) := by
  refine ⟨?_, ?_, noEq_phase2 md acc env hacc.2.2 henv⟩
  · rw [phase2_eq]
    have h1 := hacc.1
    clear hacc henv
    induction env generalizing acc with
    | nil => exact h1
    | cons e r ih =>
      simp only [List.foldl_cons]
      apply ih
      by_cases hc : (!isMarked e.key && AList.contains md e.key && !(e.key == [])) = true
      · rw [if_pos hc]; exact keys_insert_nodup _ _ h1
      · rw [if_neg hc]; exact h1
  · rw [phase2_eq]
    have h2 := hacc.2.1
    clear hacc henv
    induction env generalizing acc with
    | nil => exact h2
    | cons e r ih =>
      simp only [List.foldl_cons]
      apply ih
      by_cases hc : (!isMarked e.key && AList.contains md e.key && !(e.key == [])) = true
      · rw [if_pos hc]
        have hne : e.key ≠ [] := by
          simp only [Bool.and_eq_true, Bool.not_eq_true', beq_eq_false_iff_ne] at hc; exact hc.2
        intro x hx
        rcases mem_insert hx with hx | hx
        · exact h2 x hx
        · rw [hx]; exact hne
      · rw [if_neg hc]; exact h2

theorem wf_render {acc : AList Str Str} (h : GoodAcc acc) : WF (render acc) := by
  obtain ⟨hnd, hne, hnoeq⟩ := h
  constructor
  · intro e he
    unfold render at he
    rcases List.mem_map.mp he with ⟨x, hx, hxe⟩
    exact ⟨x.1, x.2, by rw [← hxe]; exact splitEq_render x.1 x.2 (hnoeq x hx), hne x hx⟩
  · have : (render acc).map nameOf = acc.map (·.1) := by
      unfold render
      rw [List.map_map]
      apply List.map_congr_left
      intro x hx
      exact nameOf_render x.1 x.2 (hnoeq x hx)
    rw [this]; exact hnd

/-- `AdjustEnv` maps a well-formed environment to a well-formed environment: entries
    `NAME=value`, every name non-empty and occurring ONCE. -/
theorem wf_apply (old : List Str) (env : List KeyValue) (hwf : WF old)
    (hkeys : ∀ e ∈ env, '=' ∉ stripMarker e.key) : WF (apply old env) := by
  by_cases hne : env = []
  · subst hne; simpa [apply, applyWith] using hwf
  rw [apply_eq old env hne]
  apply wf_render
  have hmod := modOK env
  have hsnd := phase1_snd old (mod env) [] hwf (by simp) hmod
  simp only [List.nil_append] at hsnd
  unfold finalAcc; simp only
  rw [hsnd]
  apply goodAcc_phase2 _ _ _ _ hkeys
  refine ⟨(keys_filterMap_keep_sublist old _ hmod).nodup hwf.nodup, ?_, noEq_filterMap_keep old _ hmod⟩
  intro x hx
  rcases List.mem_filterMap.mp hx with ⟨e, he, hke⟩
  rw [(keep_fst hmod hke).1]
  obtain ⟨n, v, hs, hn⟩ := hwf.split e he
  rw [nameOf_of_split hs]; exact hn

end Env
end Nri.Generate
