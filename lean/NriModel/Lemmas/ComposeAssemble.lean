/-
C03 assembled: the invariant of the reply, the per-step condition, the per-family fold
theorems, the fields of `adjust` on a converted adjustment, and the main theorem — if the
sequential application succeeds, the generator succeeds on the combined reply and the two specs
are `SpecEq`.  Core Lean only.
-/
import NriModel.Lemmas.ComposeLedger
import NriModel.Lemmas.ComposeAnnotations
import NriModel.Lemmas.ComposeDevices
import NriModel.Lemmas.ComposeRootfs
import NriModel.Lemmas.ComposeEnv

namespace Nri.Compose
open Nri Nri.Generate

/-! ### what `WellFormed` gives -/

structure WFParts (a : NApi.Adjustment) : Prop where
  ann : ∀ k ∈ a.annotations.map (·.1), keyOk k = true
  mounts : ∀ k ∈ a.mounts.map (·.destination), keyOk k = true
  env : ∀ k ∈ a.env.map (·.key), keyOk k = true
  envKeys : EnvKeysOk a
  devices : ∀ k ∈ a.devices.map (·.path), keyOk k = true
  args : argsOk a.args = true

theorem mem_stripMarker {c : Char} {k : Str} (h : c ∈ Api.stripMarker k) : c ∈ k := by
  cases k with
  | nil => exact h
  | cons d r =>
    by_cases hd : d = '-'
    · subst hd; exact List.mem_cons_of_mem _ h
    · have : Api.stripMarker (d :: r) = d :: r := by
        unfold Api.stripMarker; split
        · rename_i heq; cases heq; exact absurd rfl hd
        · rfl
      rw [this] at h; exact h

theorem wfParts (a : NApi.Adjustment) (h : WellFormedCore a) : WFParts a := by
  unfold WellFormedCore wellFormedCore at h
  simp only [Bool.and_eq_true] at h
  obtain ⟨⟨⟨⟨⟨h1, h2⟩, h3⟩, h4⟩, h5⟩, h6⟩ := h
  refine ⟨(keysOk_iff _).1 h1, (keysOk_iff _).1 h2, (keysOk_iff _).1 h3, ?_,
    (keysOk_iff _).1 h5, h6⟩
  intro e he hm
  have := List.all_eq_true.1 h4 e he
  simp only [Bool.not_eq_true', List.contains_eq_mem, decide_eq_false_iff_not] at this
  exact this (mem_stripMarker hm)

theorem wellFormed_core (a : NApi.Adjustment) (h : WellFormed a) : WellFormedCore a := by
  unfold WellFormed wellFormed at h
  simp only [Bool.and_eq_true] at h
  exact h.1

theorem wellFormed_noProp (a : NApi.Adjustment) (h : WellFormed a) : a.mounts.all noPropagation = true := by
  unfold WellFormed wellFormed at h
  simp only [Bool.and_eq_true] at h
  exact h.2

/-! ### invariant of the reply, per-step condition -/

structure ReplyInv (R : NApi.Adjustment) : Prop where
  hasLinux : R.hasLinux = true
  args : argsNorm R.args
  ann : (R.annotations.map (·.1)).Nodup
  uni : ((uniOf R).map (·.1)).Nodup
  envKeys : EnvKeysOk R

structure StepOk (R a : NApi.Adjustment) : Prop extends LedgerOk R a where
  wf : WellFormedCore a

theorem replyInv_reply0 : ReplyInv reply0 := by
  refine ⟨rfl, ?_, by simp [reply0], by simp [reply0, uniOf, resOf, Result.normRes], ?_⟩
  · intro x rest h; simp [reply0] at h
  · intro e he; simp [reply0] at he

theorem replyInv_step (R a : NApi.Adjustment) (hR : ReplyInv R) (hs : StepOk R a) :
    ReplyInv (replyStep R a) := by
  have w := wfParts a hs.wf
  exact ⟨hR.hasLinux, argsStep_norm R.args a.args hR.args w.args, annStep_nodup _ _ hR.ann,
    uniOf_step_nodup R a hR.hasLinux hR.uni, envKeysOk_step R a hR.envKeys w.envKeys⟩

/-- no propagation option in any response ⇒ none in the reply -/
theorem noProp_foldl (as : List NApi.Adjustment) (R : NApi.Adjustment)
    (hR : R.mounts.all noPropagation = true) (h : ∀ a ∈ as, a.mounts.all noPropagation = true) :
    (as.foldl replyStep R).mounts.all noPropagation = true := by
  rw [List.all_eq_true]
  intro m hm
  rcases mem_foldl_mounts as R m hm with h0 | ⟨a, ha, hma⟩
  · exact List.all_eq_true.1 hR m h0
  · exact List.all_eq_true.1 (h a ha) m hma

/-! ### per-family fold theorems: generator on the folded reply vs generator on each
    adjustment in turn -/

section Families
variable (as : List NApi.Adjustment) (R : NApi.Adjustment) (hR : ReplyInv R) (hc : Chain StepOk R as)
include hR hc

theorem fam_hooks (x : Oci.Hooks) : hooksG x (as.foldl replyStep R) = as.foldl hooksG (hooksG x R) :=
  fold_eq' hooksG ReplyInv StepOk replyInv_step (fun x R a _ _ => hooksG_step x R a) as R x hR hc

theorem fam_rlimits (x : List Oci.Rlimit) : rlimitsG x (as.foldl replyStep R) = as.foldl rlimitsG (rlimitsG x R) :=
  fold_eq' rlimitsG ReplyInv StepOk replyInv_step (fun x R a _ _ => rlimitsG_step x R a) as R x hR hc

theorem fam_args (x : List Str) : argsG x (as.foldl replyStep R) = as.foldl argsG (argsG x R) :=
  fold_eq' argsG ReplyInv StepOk replyInv_step
    (fun x R a hR hs => argsG_step x R a hR.args (wfParts a hs.wf).args) as R x hR hc

theorem fam_cgroups (x : Str) : cgroupsG x (as.foldl replyStep R) = as.foldl cgroupsG (cgroupsG x R) :=
  fold_eq' cgroupsG ReplyInv StepOk replyInv_step (fun x R a hR _ => cgroupsG_step x R a hR.hasLinux) as R x hR hc

theorem fam_oom (x : Option Int) : oomG x (as.foldl replyStep R) = as.foldl oomG (oomG x R) :=
  fold_eq' oomG ReplyInv StepOk replyInv_step (fun x R a hR _ => oomG_step x R a hR.hasLinux) as R x hR hc

theorem fam_pids (x : Option Int) : pidsG x (as.foldl replyStep R) = as.foldl pidsG (pidsG x R) :=
  fold_eq' pidsG ReplyInv StepOk replyInv_step (fun x R a hR _ => pidsG_step x R a hR.hasLinux) as R x hR hc

theorem fam_cpu (x : Oci.CPU) : cpuG x (as.foldl replyStep R) = as.foldl cpuG (cpuG x R) :=
  fold_eq' cpuG ReplyInv StepOk replyInv_step (fun x R a hR _ => cpuG_step x R a hR.hasLinux) as R x hR hc

theorem fam_memory (x : Oci.Memory) : memG x (as.foldl replyStep R) = as.foldl memG (memG x R) :=
  fold_eq' memG ReplyInv StepOk replyInv_step (fun x R a hR hs => memG_step x R a hR.hasLinux hs.mem) as R x hR hc

theorem fam_hugepages (x : List Oci.HugepageLimit) :
    hugeG x (as.foldl replyStep R) = as.foldl hugeG (hugeG x R) :=
  fold_eq' hugeG ReplyInv StepOk replyInv_step (fun x R a hR _ => hugeG_step x R a hR.hasLinux) as R x hR hc

theorem fam_unified (x : AList Str Str) :
    MapEq (unifiedG x (as.foldl replyStep R)) (as.foldl unifiedG (unifiedG x R)) :=
  fold_sim unifiedG MapEq (fun _ => True) (fun _ => True) ReplyInv StepOk
    (fun _ _ => rfl) (fun _ _ _ h1 h2 k => (h1 k).trans (h2 k))
    (fun _ _ _ _ => trivial) (fun _ _ => trivial) (fun _ _ _ => trivial) replyInv_step
    (fun x R a _ hR _ => unifiedG_step x R a hR.hasLinux hR.uni)
    (fun x y a _ _ _ h => unifiedG_cong x y a h) as R x trivial hR hc

theorem fam_annotations (x : AList Str Str) :
    MapEq (annG x (as.foldl replyStep R)) (as.foldl annG (annG x R)) :=
  fold_sim annG MapEq (fun _ => True) (fun _ => True) ReplyInv StepOk
    (fun _ _ => rfl) (fun _ _ _ h1 h2 k => (h1 k).trans (h2 k))
    (fun _ _ _ _ => trivial) (fun _ _ => trivial) (fun _ _ _ => trivial) replyInv_step
    (fun x R a _ hR hs => annG_step x R a hR.ann (wfParts a hs.wf).ann)
    (fun x y a _ _ _ h => annG_cong x y a h) as R x trivial hR hc

theorem fam_devices (x : Devices.State) (hx : NodupKeys Oci.Device.path x.1) :
    DevEq (devG x (as.foldl replyStep R)) (as.foldl devG (devG x R)) :=
  fold_sim devG DevEq (fun st => NodupKeys Oci.Device.path st.1) (fun _ => True) ReplyInv StepOk
    (fun _ => ⟨rfl, fun _ h => h⟩) (fun _ _ _ h1 h2 => ⟨h1.1.trans h2.1, fun r hr => h2.2 r (h1.2 r hr)⟩)
    (fun x a hx _ => devG_nodup x a hx) (fun _ _ => trivial) (fun _ _ _ => trivial) replyInv_step
    (fun x R a hx hR hs => devG_step x R a hx hR.hasLinux (wfParts a hs.wf).devices)
    (fun x y a hx hy _ h => devG_cong x y a hx hy h) as R x hx hR hc

theorem fam_mounts (x : List Oci.Mount) (hx : NodupKeys Oci.Mount.destination x) :
    mntG x (as.foldl replyStep R) = as.foldl mntG (mntG x R) :=
  fold_eq mntG (fun ms => NodupKeys Oci.Mount.destination ms) (fun _ => True) ReplyInv StepOk
    (fun x a hx _ => mntG_nodup x a hx) (fun _ _ => trivial) (fun _ _ _ => trivial) replyInv_step
    (fun x R a hx _ hs => mntG_step x R a hx (wfParts a hs.wf).mounts) as R x hx hR hc

theorem fam_env (x : List Str) (hx : Env.WF x) :
    EnvEq (envG x (as.foldl replyStep R)) (as.foldl envG (envG x R)) :=
  fold_sim envG EnvEq Env.WF EnvKeysOk ReplyInv StepOk
    (fun _ _ _ => rfl) (fun _ _ _ h1 h2 k hk => (h1 k hk).trans (h2 k hk))
    (fun x a hx hk => envG_wf x a hx hk) (fun _ hR => hR.envKeys) (fun _ a hs => (wfParts a hs.wf).envKeys)
    replyInv_step
    (fun x R a hx hR hs => envG_step x R a hx hR.envKeys (wfParts a hs.wf).envKeys (wfParts a hs.wf).env)
    (fun x y a hx hy hk h => envG_cong x y a hx hy hk h) as R x hx hR hc

theorem fam_cdi (has : Bool) (bad : List Str) (x y z : List Str)
    (h0 : cdiG has bad x R = .ok y) (h : foldE (cdiG has bad) y as = .ok z) :
    cdiG has bad x (as.foldl replyStep R) = .ok z :=
  foldE_sim (cdiG has bad) ReplyInv StepOk replyInv_step
    (fun x y y1 R a _ _ h0 h1 => cdiG_step has bad x y y1 R a h0 h1) as R x y z hR hc h0 h

theorem fam_blockio (res : Option (Str → Except Unit Nat)) (x y z : Option Nat)
    (h0 : blockioG res x R = .ok y) (h : foldE (blockioG res) y as = .ok z) :
    blockioG res x (as.foldl replyStep R) = .ok z :=
  foldE_sim (blockioG res) ReplyInv StepOk replyInv_step
    (fun x y y1 R a hR _ h0 h1 => blockioG_step res x y y1 R a hR.hasLinux h0 h1) as R x y z hR hc h0 h

theorem fam_rdt (res : Option (Str → Except Unit Str)) (x y z : Option Str)
    (h0 : rdtG res x R = .ok y) (h : foldE (rdtG res) y as = .ok z) :
    rdtG res x (as.foldl replyStep R) = .ok z :=
  foldE_sim (rdtG res) ReplyInv StepOk replyInv_step
    (fun x y y1 R a hR _ h0 h1 => rdtG_step res x y y1 R a hR.hasLinux h0 h1) as R x y z hR hc h0 h

theorem replyInv_foldl : ReplyInv (as.foldl replyStep R) := by
  induction as generalizing R with
  | nil => exact hR
  | cons a rest ih => exact ih (replyStep R a) (replyInv_step R a hR hc.1) hc.2

end Families

/-! ### the generator's steps on the initial reply -/

theorem hooksG_reply0 (x : Oci.Hooks) : hooksG x reply0 = x := by
  rw [hooksG_eq]; exact hooksApply_empty x
theorem rlimitsG_reply0 (x : List Oci.Rlimit) : rlimitsG x reply0 = x := by simp [rlimitsG, reply0]
theorem argsG_reply0 (x : List Str) : argsG x reply0 = x := by simp [argsG, reply0, Args.apply]
theorem cgroupsG_reply0 (x : Str) : cgroupsG x reply0 = x := by
  simp [cgroupsG, toGen_cgroupsPath, reply0]
theorem oomG_reply0 (x : Option Int) : oomG x reply0 = x := by
  simp [oomG, toGen_oomScoreAdj, reply0]
theorem pidsG_reply0 (x : Option Int) : pidsG x reply0 = x := by
  rw [pidsG_eq]; simp [pidsOf, resOf, reply0, Result.normRes, Option.orElse]
theorem cpuG_reply0 (x : Oci.CPU) : cpuG x reply0 = x := by
  rw [cpuG_eq]
  simp [cpuOf, resOf, reply0, Result.normRes, applyCpu_eq, toGenCpu, Option.orElse]
theorem memG_reply0 (x : Oci.Memory) : memG x reply0 = x := by
  rw [memG_eq]; simp [limitOf, resOf, reply0, Result.normRes, applyLimit]
theorem hugeG_reply0 (x : List Oci.HugepageLimit) : hugeG x reply0 = x := by
  rw [hugeG_eq]; simp [hugeOf, resOf, reply0, Result.normRes, Resources.applyHugepages]
theorem unifiedG_reply0 (x : AList Str Str) : unifiedG x reply0 = x := by
  rw [unifiedG_eq]; simp [uniOf, resOf, reply0, Result.normRes, Resources.applyUnified]
theorem annG_reply0 (x : AList Str Str) : annG x reply0 = x := by
  simp [annG, reply0, Annotations.apply, Annotations.sets, Annotations.removals]
theorem devG_reply0 (x : Devices.State) : devG x reply0 = x := by
  simp [devG, toGen_linuxDevices, reply0, Devices.apply, Devices.sets, Devices.removals]
theorem mntG_reply0 (x : List Oci.Mount) : mntG x reply0 = x := by simp [mntG, reply0]
theorem envG_reply0 (x : List Str) : envG x reply0 = x := by
  simp [envG, reply0, Env.apply, Env.applyWith]
theorem cdiG_reply0 (has : Bool) (bad x : List Str) : cdiG has bad x reply0 = .ok x := by
  simp [cdiG, cdiAfter, reply0]
theorem blockioG_reply0 (res : Option (Str → Except Unit Nat)) (x : Option Nat) :
    blockioG res x reply0 = .ok x := by
  unfold blockioG; rw [toGen_blockioClass]
  simp [blockioOf, resOf, reply0, Result.normRes, Resources.applyBlockIO]
theorem rdtG_reply0 (res : Option (Str → Except Unit Str)) (x : Option Str) :
    rdtG res x reply0 = .ok x := by
  unfold rdtG; rw [toGen_rdtClass]
  simp [rdtOf, resOf, reply0, Result.normRes, Resources.applyRdt]

/-! ### `adjust` with the recording injector, as its four fallible parts -/

section Adjust
variable {ext : Externals} {bad : List Str}
  (hi : ext.injectCDI = some (recordingInjector bad) ∨ ext.injectCDI = none)
include hi

theorem adjust_ok_parts {s s' : Oci.Spec} {b : Api.Adjustment} (h : adjust ext s b = .ok s') :
    ∃ c bl r mp,
      cdiAfter ext.injectCDI.isSome bad s.cdi b.cdiDevices = .ok c ∧
      Resources.applyBlockIO ext.resolveBlockIO s.blockio b.blockioClass = .ok bl ∧
      Resources.applyRdt ext.resolveRdt s.rdt b.rdtClass = .ok r ∧
      Mounts.apply ext.hostPropagation s.mounts s.rootfsPropagation b.mounts = .ok mp ∧
      s' = assemble s b c bl r mp := by
  rw [adjust_eq hi] at h
  split at h
  · cases h
  · rename_i c hc
    split at h
    · cases h
    · rename_i bl hb
      split at h
      · cases h
      · rename_i r hr
        split at h
        · cases h
        · rename_i mp hm
          cases h
          exact ⟨c, bl, r, mp, hc, hb, hr, hm, rfl⟩

theorem adjust_of_parts {s : Oci.Spec} {b : Api.Adjustment} {c bl r mp}
    (hc : cdiAfter ext.injectCDI.isSome bad s.cdi b.cdiDevices = .ok c)
    (hb : Resources.applyBlockIO ext.resolveBlockIO s.blockio b.blockioClass = .ok bl)
    (hr : Resources.applyRdt ext.resolveRdt s.rdt b.rdtClass = .ok r)
    (hm : Mounts.apply ext.hostPropagation s.mounts s.rootfsPropagation b.mounts = .ok mp) :
    adjust ext s b = .ok (assemble s b c bl r mp) := by
  rw [adjust_eq hi, hc]; simp only; rw [hb]; simp only; rw [hr]; simp only; rw [hm]

omit hi in
/-- a field of the sequential result is the fold of the field's own step -/
theorem seq_proj {X : Type} (π : Oci.Spec → X) (G : X → NApi.Adjustment → X)
    (V : Oci.Spec → Prop) (P : NApi.Adjustment → Prop)
    (hV : ∀ s a s', V s → P a → adjust ext s (toGen a) = .ok s' → V s')
    (hG : ∀ s a s', V s → P a → adjust ext s (toGen a) = .ok s' → π s' = G (π s) a)
    (as : List NApi.Adjustment) (hP : ∀ a ∈ as, P a) (s sS : Oci.Spec) (hs : V s)
    (h : seqAdjust ext s (as.map toGen) = .ok sS) :
    π sS = as.foldl G (π s) ∧ V sS := by
  induction as generalizing s with
  | nil => simp only [List.map_nil, seqAdjust] at h; cases h; exact ⟨rfl, hs⟩
  | cons a rest ih =>
    simp only [List.map_cons, seqAdjust] at h
    cases h1 : adjust ext s (toGen a) with
    | error e => rw [h1] at h; cases h
    | ok s1 =>
      rw [h1] at h
      have pa := hP a (by simp)
      obtain ⟨e1, e2⟩ := ih (fun b hb => hP b (List.mem_cons_of_mem _ hb)) s1 (hV s a s1 hs pa h1) h
      exact ⟨by rw [e1, hG s a s1 hs pa h1]; rfl, e2⟩

omit hi in
theorem seq_projE {X : Type} (π : Oci.Spec → X) (G : X → NApi.Adjustment → Except GenError X)
    (hG : ∀ s a s', adjust ext s (toGen a) = .ok s' → G (π s) a = .ok (π s'))
    (as : List NApi.Adjustment) (s sS : Oci.Spec)
    (h : seqAdjust ext s (as.map toGen) = .ok sS) :
    foldE G (π s) as = .ok (π sS) := by
  induction as generalizing s with
  | nil => simp only [List.map_nil, seqAdjust] at h; cases h; rfl
  | cons a rest ih =>
    simp only [List.map_cons, seqAdjust] at h
    cases h1 : adjust ext s (toGen a) with
    | error e => rw [h1] at h; cases h
    | ok s1 => rw [h1] at h; simp only [foldE, hG s a s1 h1]; exact ih s1 h

end Adjust

/-! ### spec equality with the two named weakenings -/

/-- **Weakening 2**: the device-cgroup allow rules of the combined application are among those
    of the sequential one. -/
def RulesSub (c s : List Oci.DeviceCgroup) : Prop := ∀ r ∈ c, r ∈ s

/-- Equality of every modelled field except the rootfs propagation, `c` = generator on the
    combined reply, `s` = sequential.  Structural equality, except: Go maps (`annotations`,
    `unified`) are compared through `lookup` (the models' convention for maps); **weakening 1**
    the environment is compared as a finite map NAME ↦ value (`EnvEq`) between two well-formed
    environments; **weakening 2** `devRules` by `RulesSub`. -/
structure SpecEqCore (c s : Oci.Spec) : Prop where
  annotations : MapEq c.annotations s.annotations
  args : c.args = s.args
  env : EnvEq c.env s.env
  envWF : Env.WF c.env ∧ Env.WF s.env
  rlimits : c.rlimits = s.rlimits
  oomScoreAdj : c.oomScoreAdj = s.oomScoreAdj
  mounts : c.mounts = s.mounts
  devices : c.devices = s.devices
  devRules : RulesSub c.devRules s.devRules
  cpu : c.cpu = s.cpu
  memory : c.memory = s.memory
  hugepages : c.hugepages = s.hugepages
  unified : MapEq c.unified s.unified
  pids : c.pids = s.pids
  blockio : c.blockio = s.blockio
  rdt : c.rdt = s.rdt
  cgroupsPath : c.cgroupsPath = s.cgroupsPath
  hooks : c.hooks = s.hooks
  cdi : c.cdi = s.cdi

/-- `SpecEqCore` and equal rootfs propagation: the spec equality of C03. -/
structure SpecEq (c s : Oci.Spec) : Prop extends SpecEqCore c s where
  rootfsPropagation : c.rootfsPropagation = s.rootfsPropagation

theorem specWF_parts (s : Oci.Spec) (h : SpecWF s) :
    NodupKeys Oci.Mount.destination s.mounts ∧ NodupKeys Oci.Device.path s.devices ∧ Env.WF s.env := by
  unfold SpecWF specWF at h
  simp only [Bool.and_eq_true, decide_eq_true_eq] at h
  obtain ⟨⟨⟨h1, h2⟩, h3⟩, h4⟩ := h
  refine ⟨h1, h2, ⟨?_, h4⟩⟩
  intro e he
  have := List.all_eq_true.1 h3 e he
  cases hs : Env.splitEq e with
  | none => simp [hs] at this
  | some p =>
    obtain ⟨n, v⟩ := p
    rw [hs] at this
    exact ⟨n, v, rfl, by simpa using this⟩

/-- **The core of C03** (any starting spec `s0`; `as` = the plugins' adjustments in order;
    `Chain StepOk` = each satisfies the core guard and the ledger's memory-limit fact holds;
    mounts may carry propagation options): if the sequential application succeeds with `sS`
    and `AdjustMounts` succeeds on the combined reply with `mp`, then `Adjust` succeeds on the
    combined reply, the result agrees with `sS` up to `SpecEqCore`, and the rootfs propagation
    of both is the original one raised to the respective level. -/
theorem compose_core {ext : Externals} {bad : List Str}
    (hi : ext.injectCDI = some (recordingInjector bad) ∨ ext.injectCDI = none)
    (as : List NApi.Adjustment) (hc : Chain StepOk reply0 as)
    (s0 sS : Oci.Spec) (hs0 : SpecWF s0)
    (hseq : seqAdjust ext s0 (as.map toGen) = .ok sS)
    (mp : List Oci.Mount × Str)
    (hm : Mounts.apply ext.hostPropagation s0.mounts s0.rootfsPropagation
            (toGen (as.foldl replyStep reply0)).mounts = .ok mp) :
    ∃ sC, adjust ext s0 (toGen (as.foldl replyStep reply0)) = .ok sC ∧ SpecEqCore sC sS ∧
      sC.rootfsPropagation = raiseTo s0.rootfsPropagation (mntLvl (as.foldl replyStep reply0)) ∧
      sS.rootfsPropagation = raiseTo s0.rootfsPropagation (as.foldl (fun acc a => max acc (mntLvl a)) 0) := by
  obtain ⟨hm0, hd0, he0⟩ := specWF_parts s0 hs0
  have hR := replyInv_reply0
  have hRn := replyInv_foldl as reply0 hR hc
  have hwf : ∀ a ∈ as, WFParts a := fun a ha =>
    wfParts a (Chain.forall (K := WellFormedCore) (fun _ _ h => h.wf) hc a ha)
  -- sequential fields
  have sq {X : Type} (π : Oci.Spec → X) (G : X → NApi.Adjustment → X)
      (hG : ∀ s a s' c bl r mp, s' = assemble s (toGen a) c bl r mp → π s' = G (π s) a) :
      π sS = as.foldl G (π s0) :=
    (seq_proj π G (fun _ => True) (fun _ => True) (fun _ _ _ _ _ _ => trivial)
      (fun s a s' _ _ h => by
        obtain ⟨c, bl, r, mp, _, _, _, _, e⟩ := adjust_ok_parts hi h
        exact hG s a s' c bl r mp e) as (fun _ _ => trivial) s0 sS trivial hseq).1
  have s_ann := sq (·.annotations) annG (fun s a s' c bl r mp e => by rw [e]; rfl)
  have s_args := sq (·.args) argsG (fun s a s' c bl r mp e => by rw [e]; rfl)
  have s_rl := sq (·.rlimits) rlimitsG (fun s a s' c bl r mp e => by rw [e]; rfl)
  have s_oom := sq (·.oomScoreAdj) oomG (fun s a s' c bl r mp e => by rw [e]; rfl)
  have s_dev := sq (fun s => (s.devices, s.devRules)) devG (fun s a s' c bl r mp e => by rw [e]; rfl)
  have s_cpu := sq (·.cpu) cpuG (fun s a s' c bl r mp e => by rw [e]; rfl)
  have s_mem := sq (·.memory) memG (fun s a s' c bl r mp e => by rw [e]; rfl)
  have s_huge := sq (·.hugepages) hugeG (fun s a s' c bl r mp e => by rw [e]; rfl)
  have s_uni := sq (·.unified) unifiedG (fun s a s' c bl r mp e => by rw [e]; rfl)
  have s_pids := sq (·.pids) pidsG (fun s a s' c bl r mp e => by rw [e]; rfl)
  have s_cg := sq (·.cgroupsPath) cgroupsG (fun s a s' c bl r mp e => by rw [e]; rfl)
  have s_hooks := sq (·.hooks) hooksG (fun s a s' c bl r mp e => by rw [e]; unfold hooksG; rfl)
  have s_env := sq (·.env) envG (fun s a s' c bl r mp e => by rw [e]; rfl)
  have s_cdi := seq_projE (·.cdi) (cdiG ext.injectCDI.isSome bad)
    (fun s a s' h => by
      obtain ⟨c, bl, r, mp, h1, _, _, _, e⟩ := adjust_ok_parts hi h
      rw [e]; exact h1) as s0 sS hseq
  have s_bio := seq_projE (·.blockio) (blockioG ext.resolveBlockIO)
    (fun s a s' h => by
      obtain ⟨c, bl, r, mp, _, h2, _, _, e⟩ := adjust_ok_parts hi h
      rw [e]; exact h2) as s0 sS hseq
  have s_rdt := seq_projE (·.rdt) (rdtG ext.resolveRdt)
    (fun s a s' h => by
      obtain ⟨c, bl, r, mp, _, _, h3, _, e⟩ := adjust_ok_parts hi h
      rw [e]; exact h3) as s0 sS hseq
  have s_mnt := seq_proj (fun s => (s.mounts, s.rootfsPropagation))
    (fun (x : List Oci.Mount × Str) a => (mntG x.1 a, raiseTo x.2 (mntLvl a)))
    (fun s => NodupKeys Oci.Mount.destination s.mounts) (fun _ => True)
    (fun s a s' hv _ h => by
      obtain ⟨c, bl, r, mp, _, _, _, h4, e⟩ := adjust_ok_parts hi h
      have := mounts_apply_mounts _ _ _ a mp hv h4
      rw [e]; show NodupKeys Oci.Mount.destination mp.1
      rw [this]; exact mntG_nodup _ a hv)
    (fun s a s' hv _ h => by
      obtain ⟨c, bl, r, mp, _, _, _, h4, e⟩ := adjust_ok_parts hi h
      have h5 := mounts_apply_mounts _ _ _ a mp hv h4
      have h6 := mounts_apply_rootfs _ _ _ _ mp h4
      rw [e]; show (mp.1, mp.2) = _
      rw [h5, h6]; rfl)
    as (fun _ _ => trivial) s0 sS hm0 hseq
  have s_mnt1 : sS.mounts = as.foldl mntG s0.mounts ∧
      sS.rootfsPropagation = as.foldl (fun r a => raiseTo r (mntLvl a)) s0.rootfsPropagation := by
    have h := s_mnt.1
    have aux : ∀ (l : List NApi.Adjustment) (x : List Oci.Mount × Str),
        l.foldl (fun (x : List Oci.Mount × Str) a => (mntG x.1 a, raiseTo x.2 (mntLvl a))) x =
          (l.foldl mntG x.1, l.foldl (fun r a => raiseTo r (mntLvl a)) x.2) := by
      intro l
      induction l with
      | nil => intro x; rfl
      | cons a r ih => intro x; simp only [List.foldl_cons]; rw [ih]
    rw [aux] at h
    exact ⟨congrArg Prod.fst h, congrArg Prod.snd h⟩
  -- the combined application succeeds
  have c_cdi := fam_cdi as reply0 hR hc ext.injectCDI.isSome bad s0.cdi s0.cdi sS.cdi (cdiG_reply0 _ _ _) s_cdi
  have c_bio := fam_blockio as reply0 hR hc ext.resolveBlockIO s0.blockio s0.blockio sS.blockio
    (blockioG_reply0 _ _) s_bio
  have c_rdt := fam_rdt as reply0 hR hc ext.resolveRdt s0.rdt s0.rdt sS.rdt (rdtG_reply0 _ _) s_rdt
  have c_mnt1 := mounts_apply_mounts _ _ _ (as.foldl replyStep reply0) mp hm0 hm
  have c_mnt2 := mounts_apply_rootfs _ _ _ _ mp hm
  refine ⟨_, adjust_of_parts hi c_cdi c_bio c_rdt hm, ?_, c_mnt2, ?_⟩
  · -- field by field
    have f_ann := fam_annotations as reply0 hR hc s0.annotations
    have f_uni := fam_unified as reply0 hR hc s0.unified
    have f_dev := fam_devices as reply0 hR hc (s0.devices, s0.devRules) hd0
    have f_env := fam_env as reply0 hR hc s0.env he0
    rw [annG_reply0] at f_ann
    rw [unifiedG_reply0] at f_uni
    rw [devG_reply0] at f_dev
    rw [envG_reply0] at f_env
    have wf_seq : Env.WF (as.foldl envG s0.env) :=
      foldl_valid envG Env.WF EnvKeysOk (fun x a hx hk => envG_wf x a hx hk) as
        (fun a ha => (hwf a ha).envKeys) s0.env he0
    constructor
    · show MapEq (annG s0.annotations _) _; rw [s_ann]; exact f_ann
    · show argsG s0.args _ = _; rw [s_args, fam_args as reply0 hR hc, argsG_reply0]
    · show EnvEq (envG s0.env _) _; rw [s_env]; exact f_env
    · exact ⟨envG_wf _ _ he0 hRn.envKeys, by rw [s_env]; exact wf_seq⟩
    · show rlimitsG s0.rlimits _ = _; rw [s_rl, fam_rlimits as reply0 hR hc, rlimitsG_reply0]
    · show oomG s0.oomScoreAdj _ = _; rw [s_oom, fam_oom as reply0 hR hc, oomG_reply0]
    · show mp.1 = _; rw [c_mnt1, s_mnt1.1, fam_mounts as reply0 hR hc s0.mounts hm0, mntG_reply0]
    · show (devG (s0.devices, s0.devRules) _).1 = _
      rw [f_dev.1, ← s_dev]
    · show RulesSub (devG (s0.devices, s0.devRules) _).2 _
      intro r hr
      have := f_dev.2 r hr
      rw [← s_dev] at this; exact this
    · show cpuG s0.cpu _ = _; rw [s_cpu, fam_cpu as reply0 hR hc, cpuG_reply0]
    · show memG s0.memory _ = _; rw [s_mem, fam_memory as reply0 hR hc, memG_reply0]
    · show hugeG s0.hugepages _ = _; rw [s_huge, fam_hugepages as reply0 hR hc, hugeG_reply0]
    · show MapEq (unifiedG s0.unified _) _; rw [s_uni]; exact f_uni
    · show pidsG s0.pids _ = _; rw [s_pids, fam_pids as reply0 hR hc, pidsG_reply0]
    · rfl
    · rfl
    · show cgroupsG s0.cgroupsPath _ = _; rw [s_cg, fam_cgroups as reply0 hR hc, cgroupsG_reply0]
    · show hooksG s0.hooks _ = _; rw [s_hooks, fam_hooks as reply0 hR hc, hooksG_reply0]
    · rfl
  · rw [s_mnt1.2]
    have := foldl_raiseTo as s0.rootfsPropagation 0 (by omega)
    rw [raiseTo_zero] at this
    exact this

/-- **C03, assembled** (`WellFormed` includes: no propagation option): sequential ok ⇒
    combined ok and `SpecEq`. -/
theorem compose_main {ext : Externals} {bad : List Str}
    (hi : ext.injectCDI = some (recordingInjector bad) ∨ ext.injectCDI = none)
    (as : List NApi.Adjustment) (hc : Chain StepOk reply0 as)
    (hnp : ∀ a ∈ as, a.mounts.all noPropagation = true)
    (s0 sS : Oci.Spec) (hs0 : SpecWF s0)
    (hseq : seqAdjust ext s0 (as.map toGen) = .ok sS) :
    ∃ sC, adjust ext s0 (toGen (as.foldl replyStep reply0)) = .ok sC ∧ SpecEq sC sS := by
  obtain ⟨hm0, _, _⟩ := specWF_parts s0 hs0
  have hnR := noProp_foldl as reply0 (by simp [reply0]) hnp
  have hm := mounts_apply_noprop ext.hostPropagation s0.mounts s0.rootfsPropagation
    (as.foldl replyStep reply0) hm0 hnR
  obtain ⟨sC, h1, h2, h3, h4⟩ := compose_core hi as hc s0 sS hs0 hseq _ hm
  refine ⟨sC, h1, h2, ?_⟩
  -- both rootfs propagations are the original one
  have hc_ok := adjust_ok_parts hi h1
  obtain ⟨c, bl, r, mp, _, _, _, hmp, e⟩ := hc_ok
  rw [hm] at hmp
  cases hmp
  have lv0 : ∀ a : NApi.Adjustment, a.mounts.all noPropagation = true → mntLvl a = 0 := by
    intro a ha
    unfold mntLvl
    rw [effMax_nil_eq]
    have : ownMax (toGen a).mounts ≤ 0 := by
      apply ownMax_le_of
      intro m hm _
      rw [propagationQuery_none m (toGenMount_noprop a ha m hm), lvl_nil]
      exact Nat.le_refl _
    omega
  have e1 : sC.rootfsPropagation = s0.rootfsPropagation := by rw [e]; rfl
  have e2 : sS.rootfsPropagation = s0.rootfsPropagation := by
    rw [h4]
    have : as.foldl (fun acc a => max acc (mntLvl a)) 0 = 0 := by
      have gen : ∀ (l : List NApi.Adjustment), (∀ a ∈ l, a.mounts.all noPropagation = true) →
          l.foldl (fun acc a => max acc (mntLvl a)) 0 = 0 := by
        intro l
        induction l with
        | nil => intro _; rfl
        | cons b rest ih =>
          intro hl
          simp only [List.foldl_cons]
          rw [lv0 b (hl b (by simp))]
          exact ih (fun a ha => hl a (List.mem_cons_of_mem _ ha))
      exact gen as hnp
    rw [this, raiseTo_zero]
  rw [e1, e2]

/-- **C03 with propagation options**: if both ways succeed, the specs agree up to
    `SpecEqCore` and the rootfs propagation of the combined application is ⊑ that of the
    sequential one (`RootfsLe`). -/
theorem compose_propagation {ext : Externals} {bad : List Str}
    (hi : ext.injectCDI = some (recordingInjector bad) ∨ ext.injectCDI = none)
    (as : List NApi.Adjustment) (hc : Chain StepOk reply0 as)
    (s0 sS sC : Oci.Spec) (hs0 : SpecWF s0)
    (hseq : seqAdjust ext s0 (as.map toGen) = .ok sS)
    (hcomb : adjust ext s0 (toGen (as.foldl replyStep reply0)) = .ok sC) :
    SpecEqCore sC sS ∧ RootfsLe sC.rootfsPropagation sS.rootfsPropagation := by
  obtain ⟨c, bl, r, mp, _, _, _, hmp, _⟩ := adjust_ok_parts hi hcomb
  obtain ⟨sC', h1, h2, h3, h4⟩ := compose_core hi as hc s0 sS hs0 hseq mp hmp
  rw [hcomb] at h1
  cases h1
  refine ⟨h2, ?_⟩
  rw [h3, h4]
  exact rootfsLe_raiseTo _ _ _ (mntLvl_reply_le as) (foldl_max_le2 as 0 (by omega))

/-- a successful creation request: the reply is the fold, every step is `StepOk` -/
theorem run_chain (c0 : NApi.Container) (rs : List (Result.Plugin × Option Result.Response))
    (st' : Result.State) (h : Result.run Result.Quirks.fixed (Result.initCreate c0) rs = .ok st')
    (hwf : ∀ a ∈ adjsOf rs, WellFormedCore a) :
    st'.reply = (adjsOf rs).foldl replyStep reply0 ∧ Chain StepOk reply0 (adjsOf rs) := by
  refine ⟨run_reply rs (Result.initCreate c0) st' c0.id rfl h, ?_⟩
  have h1 := run_ledgerOk c0 rs st' h
  have h2 : Chain (fun _ a => WellFormedCore a) reply0 (adjsOf rs) := Chain.of_forall hwf
  exact Chain.mono (fun R a hh => ⟨hh.2, hh.1⟩) (Chain.and h2 h1)

/-! ### the converse for success: combined ok ⇒ sequential ok (inside `WellFormed`) -/

section Converse

/-- converse of `foldE_sim` -/
theorem foldE_conv {X ε : Type} (G : X → NApi.Adjustment → Except ε X)
    (I : NApi.Adjustment → Prop) (C : NApi.Adjustment → NApi.Adjustment → Prop)
    (hI : ∀ R a, I R → C R a → I (replyStep R a))
    (hstep : ∀ x y1 R a, I R → C R a → G x (replyStep R a) = .ok y1 → ∃ y, G x R = .ok y ∧ G y a = .ok y1)
    (as : List NApi.Adjustment) (R : NApi.Adjustment) (x z : X) (hR : I R) (hc : Chain C R as)
    (h : G x (as.foldl replyStep R) = .ok z) :
    ∃ y, G x R = .ok y ∧ foldE G y as = .ok z := by
  induction as generalizing R with
  | nil => exact ⟨z, h, rfl⟩
  | cons a rest ih =>
    obtain ⟨h1, h2⟩ := hc
    simp only [List.foldl_cons] at h
    obtain ⟨y1, e1, e2⟩ := ih (replyStep R a) (hI R a hR h1) h2 h
    obtain ⟨y, e3, e4⟩ := hstep x y1 R a hR h1 e1
    exact ⟨y, e3, by simp only [foldE, e4]; exact e2⟩

theorem cdiAfter_append_conv (has : Bool) (bad : List Str) (x y1 A B : List Str)
    (h : cdiAfter has bad x (A ++ B) = .ok y1) :
    ∃ y, cdiAfter has bad x A = .ok y ∧ cdiAfter has bad y B = .ok y1 := by
  unfold cdiAfter at *
  cases has
  · simp only [Bool.not_false, Bool.true_or, if_true] at h ⊢
    exact ⟨x, rfl, h⟩
  · simp only [Bool.not_true, Bool.false_or] at *
    cases A with
    | nil => simp only [List.nil_append] at h; exact ⟨x, by simp, h⟩
    | cons a0 as =>
      simp only [List.cons_append, List.isEmpty_cons, Bool.false_eq_true, if_false] at h ⊢
      split at h
      · cases h
      · rename_i hb
        cases h
        have e : a0 :: (as ++ B) = (a0 :: as) ++ B := rfl
        rw [e, List.any_append] at hb
        simp only [Bool.or_eq_true, not_or, Bool.not_eq_true] at hb
        refine ⟨x ++ a0 :: as, by rw [hb.1]; simp, ?_⟩
        cases B with
        | nil => simp
        | cons b0 bs =>
          simp only [List.isEmpty_cons, Bool.false_eq_true, if_false]
          rw [hb.2]; simp

theorem blockioG_conv (res : Option (Str → Except Unit Nat)) (x y1 : Option Nat) (R a : NApi.Adjustment)
    (hR : R.hasLinux = true) (hf : (blockioOf a).isSome → blockioOf R = none)
    (h : blockioG res x (replyStep R a) = .ok y1) :
    ∃ y, blockioG res x R = .ok y ∧ blockioG res y a = .ok y1 := by
  simp only [blockioG, toGen_blockioClass] at h ⊢
  rw [blockioOf_step R a hR] at h
  cases ha : blockioOf a with
  | none =>
    rw [ha] at h
    simp only [Option.orElse] at h
    exact ⟨y1, h, by simp [Resources.applyBlockIO]⟩
  | some c =>
    rw [ha] at h
    simp only [Option.orElse] at h
    have := hf (by rw [ha]; rfl)
    rw [this]
    refine ⟨x, by simp [Resources.applyBlockIO], h⟩

theorem rdtG_conv (res : Option (Str → Except Unit Str)) (x y1 : Option Str) (R a : NApi.Adjustment)
    (hR : R.hasLinux = true) (hf : (rdtOf a).isSome → rdtOf R = none)
    (h : rdtG res x (replyStep R a) = .ok y1) :
    ∃ y, rdtG res x R = .ok y ∧ rdtG res y a = .ok y1 := by
  simp only [rdtG, toGen_rdtClass] at h ⊢
  rw [rdtOf_step R a hR] at h
  cases ha : rdtOf a with
  | none =>
    rw [ha] at h
    simp only [Option.orElse] at h
    exact ⟨y1, h, by simp [Resources.applyRdt]⟩
  | some c =>
    rw [ha] at h
    simp only [Option.orElse] at h
    have := hf (by rw [ha]; rfl)
    rw [this]
    refine ⟨x, by simp [Resources.applyRdt], h⟩

/-- the sequential application succeeds when its three fallible folds do (no propagation
    options: `AdjustMounts` cannot fail) -/
theorem seq_of_parts {ext : Externals} {bad : List Str}
    (hi : ext.injectCDI = some (recordingInjector bad) ∨ ext.injectCDI = none)
    (as : List NApi.Adjustment) (hnp : ∀ a ∈ as, a.mounts.all noPropagation = true)
    (s : Oci.Spec) (hm : NodupKeys Oci.Mount.destination s.mounts)
    (zc : List Str) (zb : Option Nat) (zr : Option Str)
    (h1 : foldE (cdiG ext.injectCDI.isSome bad) s.cdi as = .ok zc)
    (h2 : foldE (blockioG ext.resolveBlockIO) s.blockio as = .ok zb)
    (h3 : foldE (rdtG ext.resolveRdt) s.rdt as = .ok zr) :
    ∃ sS, seqAdjust ext s (as.map toGen) = .ok sS := by
  induction as generalizing s with
  | nil => exact ⟨s, rfl⟩
  | cons a rest ih =>
    simp only [foldE] at h1 h2 h3
    cases e1 : cdiG ext.injectCDI.isSome bad s.cdi a with
    | error e => rw [e1] at h1; cases h1
    | ok c =>
      cases e2 : blockioG ext.resolveBlockIO s.blockio a with
      | error e => rw [e2] at h2; cases h2
      | ok bl =>
        cases e3 : rdtG ext.resolveRdt s.rdt a with
        | error e => rw [e3] at h3; cases h3
        | ok r =>
          rw [e1] at h1; rw [e2] at h2; rw [e3] at h3
          have hmnt := mounts_apply_noprop ext.hostPropagation s.mounts s.rootfsPropagation a hm
            (hnp a (by simp))
          have hadj := adjust_of_parts hi e1 e2 e3 hmnt
          simp only [List.map_cons, seqAdjust, hadj]
          exact ih (fun b hb => hnp b (List.mem_cons_of_mem _ hb)) _ (mntG_nodup _ a hm) h1 h2 h3

/-- **combined ok ⇒ sequential ok** (no propagation options; uses the ledger's single setter of
    the block-I/O and RDT class) -/
theorem compose_converse {ext : Externals} {bad : List Str}
    (hi : ext.injectCDI = some (recordingInjector bad) ∨ ext.injectCDI = none)
    (as : List NApi.Adjustment) (hc : Chain StepOk reply0 as)
    (hnp : ∀ a ∈ as, a.mounts.all noPropagation = true)
    (s0 sC : Oci.Spec) (hs0 : SpecWF s0)
    (hcomb : adjust ext s0 (toGen (as.foldl replyStep reply0)) = .ok sC) :
    ∃ sS, seqAdjust ext s0 (as.map toGen) = .ok sS := by
  obtain ⟨hm0, _, _⟩ := specWF_parts s0 hs0
  obtain ⟨c, bl, r, mp, p1, p2, p3, _, _⟩ := adjust_ok_parts hi hcomb
  have hR := replyInv_reply0
  obtain ⟨y1, a1, b1⟩ := foldE_conv (cdiG ext.injectCDI.isSome bad) ReplyInv StepOk replyInv_step
    (fun x y1 R a _ _ h => cdiAfter_append_conv _ _ x y1 R.cdiDevices a.cdiDevices h) as reply0 s0.cdi c hR hc p1
  obtain ⟨y2, a2, b2⟩ := foldE_conv (blockioG ext.resolveBlockIO) ReplyInv StepOk replyInv_step
    (fun x y1 R a hR hs h => blockioG_conv _ x y1 R a hR.hasLinux hs.blockio h) as reply0 s0.blockio bl hR hc p2
  obtain ⟨y3, a3, b3⟩ := foldE_conv (rdtG ext.resolveRdt) ReplyInv StepOk replyInv_step
    (fun x y1 R a hR hs h => rdtG_conv _ x y1 R a hR.hasLinux hs.rdt h) as reply0 s0.rdt r hR hc p3
  rw [cdiG_reply0] at a1
  rw [blockioG_reply0] at a2
  rw [rdtG_reply0] at a3
  cases a1; cases a2; cases a3
  exact seq_of_parts hi as hnp s0 hm0 c bl r b1 b2 b3

end Converse

end Nri.Compose
