/-
Lemmas about the keyed-list operations of the generator model (`removeFirst`, `addOrReplace`,
`find`) and about the generic two-pass shape "all removals, then all sets" shared by the
device and mount families.  Core Lean only.
-/
import NriModel.Generate

namespace Nri.Generate
open Nri.Api

section Keyed
variable {α : Type} (key : α → Str)

@[simp] theorem find_nil (k : Str) : find key k ([] : List α) = none := rfl

theorem find_cons (k : Str) (x : α) (l : List α) :
    find key k (x :: l) = if key x = k then some x else find key k l := by
  unfold find
  by_cases h : key x = k
  · simp [List.find?, h]
  · have : (key x == k) = false := by simpa using h
    simp [List.find?, this, h]

theorem find_append (k : Str) (l₁ l₂ : List α) :
    find key k (l₁ ++ l₂) = (find key k l₁).or (find key k l₂) := by
  unfold find; exact List.find?_append

theorem find_eq_none_iff (k : Str) (l : List α) :
    find key k l = none ↔ ∀ x ∈ l, key x ≠ k := by
  unfold find; simp [List.find?_eq_none]

theorem find_some_mem {k : Str} {l : List α} {x : α} (h : find key k l = some x) :
    x ∈ l ∧ key x = k := by
  unfold find at h
  have h1 := List.mem_of_find?_eq_some h
  have h2 := List.find?_some h
  exact ⟨h1, by simpa using h2⟩

theorem mem_removeFirst {k : Str} {l : List α} {x : α} (h : x ∈ removeFirst key k l) : x ∈ l := by
  induction l with
  | nil => simp [removeFirst] at h
  | cons y r ih =>
    unfold removeFirst at h
    by_cases hy : key y = k
    · simp [hy] at h; exact List.mem_cons_of_mem _ h
    · simp [hy] at h
      rcases h with h | h
      · simp [h]
      · exact List.mem_cons_of_mem _ (ih h)

theorem nodup_removeFirst {k : Str} {l : List α} (h : NodupKeys key l) :
    NodupKeys key (removeFirst key k l) := by
  induction l with
  | nil => simpa [removeFirst] using h
  | cons y r ih =>
    unfold NodupKeys at h ih ⊢
    simp only [List.map_cons, List.nodup_cons] at h
    unfold removeFirst
    by_cases hy : key y = k
    · simp [hy, h.2]
    · simp only [hy, if_false, List.map_cons, List.nodup_cons]
      refine ⟨?_, ih h.2⟩
      intro hm
      apply h.1
      rcases List.mem_map.mp hm with ⟨z, hz, hzk⟩
      exact List.mem_map.mpr ⟨z, mem_removeFirst key hz, hzk⟩

theorem find_removeFirst_self {k : Str} {l : List α} (h : NodupKeys key l) :
    find key k (removeFirst key k l) = none := by
  induction l with
  | nil => rfl
  | cons y r ih =>
    unfold NodupKeys at h ih
    simp only [List.map_cons, List.nodup_cons] at h
    unfold removeFirst
    by_cases hy : key y = k
    · simp only [hy, if_true]
      rw [find_eq_none_iff]
      intro x hx hxk
      apply h.1
      exact List.mem_map.mpr ⟨x, hx, by rw [hxk, hy]⟩
    · simp only [hy, if_false, find_cons]
      exact ih h.2

theorem find_removeFirst_other {k k' : Str} (hne : k' ≠ k) (l : List α) :
    find key k' (removeFirst key k l) = find key k' l := by
  induction l with
  | nil => rfl
  | cons y r ih =>
    unfold removeFirst
    by_cases hy : key y = k
    · have h2 : key y ≠ k' := by intro h; exact hne (by rw [← h, hy])
      simp only [hy, if_true, find_cons]
      rw [hy] at h2
      simp [h2]
    · simp only [hy, if_false, find_cons, ih]

theorem removeFirst_of_absent {k : Str} {l : List α} (h : ∀ x ∈ l, key x ≠ k) :
    removeFirst key k l = l := by
  induction l with
  | nil => rfl
  | cons y r ih =>
    unfold removeFirst
    have hy : key y ≠ k := h y (by simp)
    simp only [hy, if_false]
    rw [ih (fun x hx => h x (List.mem_cons_of_mem _ hx))]

theorem addOrReplace_of_absent {x : α} {l : List α} (h : ∀ y ∈ l, key y ≠ key x) :
    addOrReplace key x l = l ++ [x] := by
  induction l with
  | nil => rfl
  | cons y r ih =>
    unfold addOrReplace
    have hy : key y ≠ key x := h y (by simp)
    simp only [hy, if_false, List.cons_append]
    rw [ih (fun z hz => h z (List.mem_cons_of_mem _ hz))]

/-- Filtering by a predicate on keys that rejects `k` does not see `removeFirst k`. -/
theorem filter_removeFirst (p : Str → Bool) {k : Str} (hp : p k = false) (l : List α) :
    (removeFirst key k l).filter (fun x => p (key x)) = l.filter (fun x => p (key x)) := by
  induction l with
  | nil => rfl
  | cons y r ih =>
    unfold removeFirst
    by_cases hy : key y = k
    · simp [hy, hp]
    · simp only [hy, if_false, List.filter_cons, ih]

/-- Under distinct keys, `find` only depends on the set of elements. -/
theorem find_eq_some_iff {k : Str} {l : List α} (hn : NodupKeys key l) {x : α} :
    find key k l = some x ↔ x ∈ l ∧ key x = k := by
  constructor
  · exact find_some_mem key
  · intro ⟨hx, hk⟩
    induction l with
    | nil => simp at hx
    | cons y r ih =>
      unfold NodupKeys at hn ih
      simp only [List.map_cons, List.nodup_cons] at hn
      rw [find_cons]
      by_cases hy : key y = k
      · simp only [hy, if_true]
        rcases List.mem_cons.mp hx with h | h
        · rw [h]
        · exfalso; apply hn.1
          exact List.mem_map.mpr ⟨x, h, by rw [hk, hy]⟩
      · simp only [hy, if_false]
        rcases List.mem_cons.mp hx with h | h
        · exfalso; exact hy (h ▸ hk)
        · exact ih hn.2 h

theorem find_perm {l l' : List α} (hp : l.Perm l') (hn : NodupKeys key l) (k : Str) :
    find key k l = find key k l' := by
  have hn' : NodupKeys key l' := by
    unfold NodupKeys at hn ⊢
    exact (hp.map key).nodup_iff.mp hn
  cases h : find key k l with
  | none =>
    symm
    rw [find_eq_none_iff] at h ⊢
    intro x hx; exact h x (hp.mem_iff.mpr hx)
  | some x =>
    symm
    rw [find_eq_some_iff key hn] at h
    rw [find_eq_some_iff key hn']
    exact ⟨hp.mem_iff.mp h.1, h.2⟩

end Keyed

/-! ## The generic two-pass shape -/

section TwoPass
variable {α ε : Type} (key : α → Str) (rawKey : ε → Str) (conv : ε → α)

/-- pass 1: `removeFirst` of the stripped key for every marked entry -/
def gRemovals (l : List α) (L : List ε) : List α :=
  L.foldl (fun l e => if isMarked (rawKey e) then removeFirst key (stripMarker (rawKey e)) l else l) l

/-- pass 2: `removeFirst` of the key, then append, for every unmarked entry -/
def gSets (l : List α) (L : List ε) : List α :=
  L.foldl (fun l e => if isMarked (rawKey e) then l else removeFirst key (rawKey e) l ++ [conv e]) l

/-- `some (g e)` for `some e`, the default otherwise (one shared definition, so that statements
    in different files mention the same term). -/
def pick {ε β : Type} (o : Option ε) (g : ε → β) (d : Option β) : Option β :=
  match o with
  | some e => some (g e)
  | none => d

@[simp] theorem pick_some {ε β : Type} (e : ε) (g : ε → β) (d : Option β) : pick (some e) g d = some (g e) := rfl
@[simp] theorem pick_none {ε β : Type} (g : ε → β) (d : Option β) : pick (none : Option ε) g d = d := rfl

/-- the LAST entry of `L` satisfying `q` -/
def lastMatch (q : ε → Bool) : List ε → Option ε
  | [] => none
  | e :: r => match lastMatch q r with
    | some x => some x
    | none => if q e then some e else none

theorem lastMatch_append (q : ε → Bool) (A B : List ε) :
    lastMatch q (A ++ B) = match lastMatch q B with | some x => some x | none => lastMatch q A := by
  induction A with
  | nil => simp [lastMatch]; cases lastMatch q B <;> rfl
  | cons a r ih =>
    simp only [List.cons_append, lastMatch, ih]
    cases lastMatch q B <;> simp

theorem lastMatch_none_iff (q : ε → Bool) (L : List ε) :
    lastMatch q L = none ↔ ∀ e ∈ L, q e = false := by
  induction L with
  | nil => simp [lastMatch]
  | cons a r ih =>
    simp only [lastMatch]
    cases h : lastMatch q r with
    | some x =>
      simp only [List.mem_cons, forall_eq_or_imp, false_iff, reduceCtorEq]
      intro ⟨_, h2⟩
      rw [ih.mpr h2] at h; cases h
    | none =>
      have := ih.mp h
      by_cases ha : q a = true
      · simp [ha]
      · simp [ha]; exact this

theorem lastMatch_some {q : ε → Bool} {L : List ε} {e : ε} (h : lastMatch q L = some e) :
    e ∈ L ∧ q e = true := by
  induction L with
  | nil => simp [lastMatch] at h
  | cons a r ih =>
    simp only [lastMatch] at h
    cases h2 : lastMatch q r with
    | some x =>
      rw [h2] at h; simp at h; subst h
      exact ⟨List.mem_cons_of_mem _ (ih h2).1, (ih h2).2⟩
    | none =>
      rw [h2] at h
      by_cases ha : q a = true
      · simp [ha] at h; subst h; exact ⟨by simp, ha⟩
      · simp [ha] at h

/-- `e` is the last entry satisfying `q` when nothing after it does. -/
theorem lastMatch_split {q : ε → Bool} {pre post : List ε} {e : ε} (he : q e = true)
    (hpost : ∀ x ∈ post, q x = false) : lastMatch q (pre ++ e :: post) = some e := by
  rw [lastMatch_append]
  have : lastMatch q (e :: post) = some e := by
    simp only [lastMatch, (lastMatch_none_iff q post).mpr hpost, he, if_true]
  rw [this]

variable (hconv : ∀ e, isMarked (rawKey e) = false → key (conv e) = rawKey e)

theorem nodup_gRemovals {l : List α} (L : List ε) (h : NodupKeys key l) :
    NodupKeys key (gRemovals key rawKey l L) := by
  induction L generalizing l with
  | nil => exact h
  | cons e r ih =>
    simp only [gRemovals, List.foldl_cons]
    by_cases hm : isMarked (rawKey e) = true
    · simp only [hm, if_true]; exact ih (nodup_removeFirst key h)
    · simp only [hm]; exact ih h

theorem find_gRemovals {l : List α} (L : List ε) (h : NodupKeys key l) (k : Str) :
    find key k (gRemovals key rawKey l L) =
      if L.any (fun e => isMarked (rawKey e) && stripMarker (rawKey e) == k) then none
      else find key k l := by
  induction L generalizing l with
  | nil => simp [gRemovals]
  | cons e r ih =>
    simp only [gRemovals, List.foldl_cons, List.any_cons]
    by_cases hm : isMarked (rawKey e) = true
    · simp only [hm, if_true, Bool.true_and]
      have := ih (nodup_removeFirst key (k := stripMarker (rawKey e)) h)
      simp only [gRemovals] at this
      rw [this]
      by_cases hk : stripMarker (rawKey e) = k
      · subst hk; simp [find_removeFirst_self key h]
      · have hk' : (stripMarker (rawKey e) == k) = false := by simpa using hk
        rw [hk', Bool.false_or, find_removeFirst_other key (fun h => hk h.symm)]
    · have hm' : isMarked (rawKey e) = false := by simpa using hm
      simp only [hm', Bool.false_and, Bool.false_or]
      have := ih h
      simp only [gRemovals] at this
      simpa using this

theorem filter_gRemovals (p : Str → Bool) (L : List ε)
    (hp : ∀ e ∈ L, p (stripMarker (rawKey e)) = false) (l : List α) :
    (gRemovals key rawKey l L).filter (fun x => p (key x)) = l.filter (fun x => p (key x)) := by
  induction L generalizing l with
  | nil => rfl
  | cons e r ih =>
    simp only [gRemovals, List.foldl_cons]
    have hr : ∀ e ∈ r, p (stripMarker (rawKey e)) = false := fun x hx => hp x (List.mem_cons_of_mem _ hx)
    by_cases hm : isMarked (rawKey e) = true
    · simp only [hm, if_true]
      have := ih hr (removeFirst key (stripMarker (rawKey e)) l)
      simp only [gRemovals] at this
      rw [this, filter_removeFirst key p (hp e (by simp))]
    · simp only [hm]
      have := ih hr l
      simpa [gRemovals] using this

theorem mem_gRemovals {l : List α} (L : List ε) {x : α} (h : x ∈ gRemovals key rawKey l L) : x ∈ l := by
  induction L generalizing l with
  | nil => exact h
  | cons e r ih =>
    simp only [gRemovals, List.foldl_cons] at h
    by_cases hm : isMarked (rawKey e) = true
    · simp only [hm, if_true] at h
      exact mem_removeFirst key (ih h)
    · simp only [hm] at h; exact ih h

theorem mem_gSets {l : List α} (L : List ε) {x : α} (h : x ∈ gSets key rawKey conv l L) :
    x ∈ l ∨ ∃ e ∈ L, isMarked (rawKey e) = false ∧ x = conv e := by
  induction L generalizing l with
  | nil => exact Or.inl h
  | cons e r ih =>
    simp only [gSets, List.foldl_cons] at h
    by_cases hm : isMarked (rawKey e) = true
    · simp only [hm, if_true] at h
      rcases ih h with h | ⟨e', he', h2⟩
      · exact Or.inl h
      · exact Or.inr ⟨e', List.mem_cons_of_mem _ he', h2⟩
    · have hm' : isMarked (rawKey e) = false := by simpa using hm
      simp only [hm', Bool.false_eq_true, if_false] at h
      rcases ih h with h | ⟨e', he', h2⟩
      · rcases List.mem_append.mp h with h | h
        · exact Or.inl (mem_removeFirst key h)
        · simp only [List.mem_singleton] at h
          exact Or.inr ⟨e, by simp, hm', h⟩
      · exact Or.inr ⟨e', List.mem_cons_of_mem _ he', h2⟩

include hconv in
theorem nodup_gSets_step {l : List α} {e : ε} (hm : isMarked (rawKey e) = false) (h : NodupKeys key l) :
    NodupKeys key (removeFirst key (rawKey e) l ++ [conv e]) := by
  have h1 := nodup_removeFirst key (k := rawKey e) h
  have h2 := find_removeFirst_self key (k := rawKey e) h
  rw [find_eq_none_iff] at h2
  unfold NodupKeys at h1 ⊢
  rw [List.map_append, List.nodup_append]
  refine ⟨h1, by simp, ?_⟩
  intro a ha b hb
  simp only [List.map_cons, List.map_nil, List.mem_singleton] at hb
  rcases List.mem_map.mp ha with ⟨z, hz, hzk⟩
  rw [hb, hconv e hm, ← hzk]
  exact h2 z hz

include hconv in
theorem nodup_gSets {l : List α} (L : List ε) (h : NodupKeys key l) :
    NodupKeys key (gSets key rawKey conv l L) := by
  induction L generalizing l with
  | nil => exact h
  | cons e r ih =>
    simp only [gSets, List.foldl_cons]
    by_cases hm : isMarked (rawKey e) = true
    · simp only [hm, if_true]; exact ih h
    · have hm' : isMarked (rawKey e) = false := by simpa using hm
      simp only [hm', Bool.false_eq_true, if_false]
      exact ih (nodup_gSets_step key rawKey conv hconv hm' h)

include hconv in
/-- After the set pass, key `k` holds the converted LAST unmarked entry for `k`, if any. -/
theorem find_gSets {l : List α} (L : List ε) (h : NodupKeys key l) (k : Str) :
    find key k (gSets key rawKey conv l L) =
      pick (lastMatch (fun e => !isMarked (rawKey e) && rawKey e == k) L) conv (find key k l) := by
  induction L generalizing l with
  | nil => simp [gSets, lastMatch]
  | cons e r ih =>
    simp only [gSets, List.foldl_cons, lastMatch]
    by_cases hm : isMarked (rawKey e) = true
    · simp only [hm, if_true, Bool.not_true, Bool.false_and]
      have := ih h
      simp only [gSets] at this
      rw [this]
      cases lastMatch (fun e => !isMarked (rawKey e) && rawKey e == k) r <;> simp
    · have hm' : isMarked (rawKey e) = false := by simpa using hm
      simp only [hm', Bool.false_eq_true, if_false, Bool.not_false, Bool.true_and]
      have := ih (nodup_gSets_step key rawKey conv hconv hm' h)
      simp only [gSets] at this
      rw [this]
      cases lastMatch (fun e => !isMarked (rawKey e) && rawKey e == k) r with
      | some x => simp
      | none =>
        simp only [find_append, find_cons, find_nil, hconv e hm']
        by_cases hk : rawKey e = k
        · subst hk
          simp [find_removeFirst_self key h]
        · have hk' : (rawKey e == k) = false := by simpa using hk
          simp only [hk, if_false, hk', Option.or_none]
          rw [find_removeFirst_other key (fun h => hk h.symm)]
          simp

include hconv in
theorem filter_gSets (p : Str → Bool) (L : List ε)
    (hp : ∀ e ∈ L, p (stripMarker (rawKey e)) = false) (l : List α) :
    (gSets key rawKey conv l L).filter (fun x => p (key x)) = l.filter (fun x => p (key x)) := by
  induction L generalizing l with
  | nil => rfl
  | cons e r ih =>
    simp only [gSets, List.foldl_cons]
    have hr : ∀ e ∈ r, p (stripMarker (rawKey e)) = false := fun x hx => hp x (List.mem_cons_of_mem _ hx)
    by_cases hm : isMarked (rawKey e) = true
    · simp only [hm, if_true]
      have := ih hr l
      simpa [gSets] using this
    · have hm' : isMarked (rawKey e) = false := by simpa using hm
      simp only [hm', Bool.false_eq_true, if_false]
      have := ih hr (removeFirst key (rawKey e) l ++ [conv e])
      simp only [gSets] at this
      rw [this]
      have hpe : p (rawKey e) = false := by
        have := hp e (by simp); rwa [strip_of_not_marked hm'] at this
      rw [List.filter_append, filter_removeFirst key p hpe]
      simp [hconv e hm', hpe]

include hconv in
/-- The two passes together: what `find` returns for every key. -/
theorem find_twoPass {l : List α} (L : List ε) (h : NodupKeys key l) (k : Str) :
    find key k (gSets key rawKey conv (gRemovals key rawKey l L) L) =
      pick (lastMatch (fun e => !isMarked (rawKey e) && rawKey e == k) L) conv
        (if L.any (fun e => isMarked (rawKey e) && stripMarker (rawKey e) == k) then none
         else find key k l) := by
  rw [find_gSets key rawKey conv hconv L (nodup_gRemovals key rawKey L h), find_gRemovals key rawKey L h]

end TwoPass
end Nri.Generate
