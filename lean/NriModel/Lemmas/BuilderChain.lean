/-
Lemmas for Props/Builder.lean, part 4: from one message to a plugin's response and to chains.
`Ledger.setsOn` / `removesOn` of the response a plugin's programs build, read off the programs;
the ledger/reply agreement along `run`; acceptance by the abstract ledger of chains of
adjustment programs naming pairwise distinct items; the list-order lemmas behind "Remove after
Add of the same key". Core Lean only.
-/
import NriModel.Lemmas.BuilderClears
import NriModel.Lemmas.BuilderVals

namespace Nri.Builder
open Nri Nri.NApi Nri.Result Nri.Ledger Nri.UpdateWalk

/-! ### target and ignore flag of an update program -/

theorem foldU_target (prog : List UOp) : ∀ (u : Update),
    (prog.foldl stepU u).containerId =
      prog.foldl (fun acc op => match op with | .setContainerId id => id | _ => acc) u.containerId := by
  induction prog with
  | nil => intro u; rfl
  | cons op rest ih =>
    intro u
    simp only [List.foldl_cons]
    rw [ih]
    cases op <;> rfl

theorem runU_target (prog : List UOp) : (runU prog).containerId = progTarget prog := foldU_target prog _

theorem foldU_ignore (prog : List UOp) : ∀ (u : Update),
    (prog.foldl stepU u).ignoreFailure = (u.ignoreFailure || prog.any fun op => op = .setIgnoreFailure) := by
  induction prog with
  | nil => intro u; simp
  | cons op rest ih =>
    intro u
    simp only [List.foldl_cons, List.any_cons]
    rw [ih]
    cases op <;> simp [stepU]

theorem runU_ignore (prog : List UOp) : (runU prog).ignoreFailure = progIgnore prog := by
  have := foldU_ignore prog { containerId := [] }
  simpa [runU, progIgnore] using this

theorem foldU_resources (prog : List UOp) : ∀ (u : Update) (acc : List (Item × Val)),
    ValsOK (u.resources.getD {}) acc →
    ValsOK ((prog.foldl stepU u).resources.getD {}) (prog.foldl (fun acc op => applyEffV acc (setEffU op)) acc) := by
  induction prog with
  | nil => intro u acc h; exact h
  | cons op rest ih =>
    intro u acc h
    simp only [List.foldl_cons]
    apply ih
    cases op with
    | setContainerId id => exact h
    | setIgnoreFailure => exact h
    | res r => exact stepR_vals _ r acc h

theorem runU_vals (prog : List UOp) : ValsOK ((runU prog).resources.getD {}) (progValsU prog) :=
  foldU_resources prog _ [] (by intro it v h; cases h)

/-! ### hooks -/

theorem foldA_hooks (prog : List AOp) : ∀ (a : Adjustment),
    (prog.foldl stepA a).hooks.getD {} =
      prog.foldl (fun acc op => match op with | .addHooks h => acc.append h | _ => acc) (a.hooks.getD {}) := by
  induction prog with
  | nil => intro a; rfl
  | cons op rest ih =>
    intro a
    simp only [List.foldl_cons]
    rw [ih]
    cases op <;> rfl

/-! ### `setsOn` / `removesOn` of the response the programs build -/

theorem mem_progSetsOn (strict : Bool) (k : Kind) (pp : PluginProg) (c : Cid) (it : Item) :
    it ∈ setsOn strict k pp.response c ↔ it ∈ progSetsOn strict k pp c := by
  rw [mem_setsOn_iff]
  unfold progSetsOn PluginProg.response
  simp only [List.mem_append, List.mem_flatMap, List.mem_filter, List.mem_map, Option.map_eq_some_iff]
  constructor
  · rintro (⟨a, ⟨prog, hp, rfl⟩, rfl, hm⟩ | ⟨u, ⟨prog, hp, rfl⟩, hc, hs, hm⟩)
    · left
      simp only [hp, ↓reduceIte]
      exact (runA_sets_perm prog).mem_iff.1 hm
    · right
      refine ⟨prog, ⟨hp, ?_⟩, (runU_sets_perm prog).mem_iff.1 hm⟩
      rw [runU_target] at hc
      rw [runU_ignore] at hs
      cases strict with
      | false => simp [hc]
      | true => simp [hc, hs rfl]
  · rintro (h | ⟨prog, ⟨hp, hf⟩, hm⟩)
    · left
      cases k with
      | create id =>
        cases hpa : pp.adjust with
        | none => simp [hpa] at h
        | some prog =>
          simp only [hpa] at h
          by_cases hid : id = c
          · subst hid
            simp only [↓reduceIte] at h
            exact ⟨runA prog, ⟨prog, rfl, rfl⟩, rfl, (runA_sets_perm prog).mem_iff.2 h⟩
          · simp [hid] at h
      | update id => simp at h
      | stop => simp at h
    · right
      refine ⟨runU prog, ⟨prog, hp, rfl⟩, ?_, ?_, (runU_sets_perm prog).mem_iff.2 hm⟩
      · rw [runU_target]; simp at hf; exact hf.1
      · intro hs; subst hs; rw [runU_ignore]; simp at hf; exact hf.2

theorem mem_progRemovesOn (k : Kind) (pp : PluginProg) (c : Cid) (it : Item) :
    it ∈ removesOn k pp.response c ↔ it ∈ progRemovesOn k pp c := by
  rw [mem_removesOn_iff]
  unfold progRemovesOn PluginProg.response
  cases k with
  | create id =>
    cases hpa : pp.adjust with
    | none => simp
    | some prog =>
      by_cases hid : id = c
      · subst hid; simp [runA_clears_mem]
      · simp [hid]
  | update id => simp
  | stop => simp

/-! ### the ledger/reply agreement along a chain -/

theorem replyHolds_run (rs : List (Plugin × Option Response)) : ∀ (st st' : State), ReplyHolds st →
    run Quirks.fixed st rs = .ok st' → ReplyHolds st' := by
  induction rs with
  | nil => intro st st' rh h; simp [run] at h; subst h; exact rh
  | cons x rest ih =>
    intro st st' rh h
    obtain ⟨p, r⟩ := x
    cases r with
    | none => simp only [run] at h; exact ih st st' rh h
    | some r =>
      simp only [run] at h
      cases h1 : apply Quirks.fixed st p r with
      | error e => rw [h1] at h; cases h
      | ok st1 => rw [h1] at h; exact ih st1 st' (replyHolds_apply st st1 p r rh h1) h

/-- a conflict raised by an adjustment on an item it marks for removal can only be the
    plugin's own second mention of that item -/
theorem released_conflict_is_own (st : State) (rh : ReplyHolds st) (p : Plugin) (a : Adjustment)
    (c : Cid) (it : Item) (p' q : Plugin)
    (herr : adjust Quirks.fixed st p (some a) = .error (.conflict c it p' q))
    (hrel : it ∈ removesAdj a) : q = p ∧ 2 ≤ (adjustSets a).count it := by
  unfold adjust at herr
  simp only [] at herr
  cases hc : claimAll (cidOf st.kind) p (clearAll st.owners (cidOf st.kind) (adjustClears Quirks.fixed st a)) (adjustSets a) with
  | ok o => rw [hc] at herr; cases herr
  | error e =>
    rw [hc] at herr
    cases herr
    obtain ⟨it', q', _, he, hw⟩ := claimAll_error_inv _ _ _ _ _ hc
    cases he
    rcases hw with h1 | h2
    · exfalso
      have h0 := owner_clearAll_some _ _ _ _ _ _ h1
      have hcl := clears_effective st a rh it q h0 hrel
      rw [owner_clearAll_mem _ _ _ _ hcl] at h1
      cases h1
    · exact h2

/-! ### chains of adjustment programs naming pairwise distinct items -/

/-- the chain in which plugin `p` answers a creation request with the adjustment `prog` builds -/
def adjChain (progs : List (Plugin × List AOp)) : List (Plugin × Response) :=
  progs.map fun x => (x.1, { adjust := some (runA x.2) })

theorem absRun_adjChain (id : Cid) (progs : List (Plugin × List AOp)) : ∀ (owned : List (Cid × Item)),
    (∀ c it, (c, it) ∈ owned → ∀ x ∈ progs, it ∉ progSets x.2) →
    (progs.flatMap fun x => progSets x.2).Nodup →
    ∃ owned', absRun (.create id) owned (adjChain progs) = some owned' := by
  induction progs with
  | nil => intro owned _ _; exact ⟨owned, rfl⟩
  | cons x rest ih =>
    intro owned hown hnd
    obtain ⟨p, prog⟩ := x
    simp only [List.flatMap_cons] at hnd
    obtain ⟨hnd1, hnd2, hdisj⟩ := List.nodup_append.1 hnd
    have hperm := runA_sets_perm prog
    have hsets : allSets (.create id) { adjust := some (runA prog) } = (adjustSets (runA prog)).map fun it => (id, it) := by
      rw [allSets_create id _ (runA prog) rfl]; simp
    simp only [adjChain, List.map_cons, absRun]
    have hstep : ∃ owned1, absStep (.create id) owned { adjust := some (runA prog) } = some owned1 ∧
        ∀ c it, (c, it) ∈ owned1 → (c, it) ∈ owned ∨ it ∈ progSets prog := by
      unfold absStep
      have hself : selfUpdates (.create id) { adjust := some (runA prog) } = false := by simp [selfUpdates]
      simp only [hself, Bool.false_eq_true, ↓reduceIte, hsets]
      have hn : ((adjustSets (runA prog)).map fun it => (id, it)).Nodup := by
        have h0 : (adjustSets (runA prog)).Nodup := hperm.nodup_iff.2 hnd1
        exact List.pairwise_map.2 (List.Pairwise.imp (fun hne heq => hne (by cases heq; rfl)) h0)
      simp only [hn, decide_true, Bool.not_true, Bool.false_eq_true, ↓reduceIte]
      have hany : ((adjustSets (runA prog)).map fun it => (id, it)).any (fun x =>
          (owned.filter fun x => !(allRemoves (.create id) { adjust := some (runA prog) }).contains x).contains x) = false := by
        rw [List.any_eq_false]
        intro y hy hc
        obtain ⟨it, hit, rfl⟩ := List.mem_map.1 hy
        have : (id, it) ∈ owned := by
          have := List.contains_iff_mem.1 hc
          exact (List.mem_filter.1 this).1
        exact hown id it this (p, prog) List.mem_cons_self (hperm.mem_iff.1 hit)
      simp only [hany, Bool.false_eq_true, ↓reduceIte]
      refine ⟨_, rfl, ?_⟩
      intro c it hm
      rcases List.mem_append.1 hm with h | h
      · exact .inl (List.mem_filter.1 h).1
      · obtain ⟨it', hit', heq⟩ := List.mem_map.1 h
        cases heq
        exact .inr (hperm.mem_iff.1 hit')
    obtain ⟨owned1, hs, hsub⟩ := hstep
    rw [hs]
    apply ih owned1 _ hnd2
    intro c it hm y hy hin
    rcases hsub c it hm with h | h
    · exact hown c it h y (List.mem_cons_of_mem _ hy) hin
    · exact hdisj it h it (List.mem_flatMap.2 ⟨y, hy, hin⟩) rfl

/-- an update naming pairwise distinct, untaken items takes them all -/
theorem claimedPrefix_self (c : Cid) (its : List Item) : ∀ T, its.Nodup → (∀ it ∈ its, (c, it) ∉ T) →
    claimedPrefix T c its = its := by
  induction its with
  | nil => intro T _ _; rfl
  | cons x rest ih =>
    intro T hnd hfree
    have hx : T.contains (c, x) = false := by
      cases h : T.contains (c, x) with
      | false => rfl
      | true => exact absurd (List.contains_iff_mem.1 h) (hfree x List.mem_cons_self)
    simp only [claimedPrefix, hx, Bool.false_eq_true, ↓reduceIte]
    rw [ih _ (List.nodup_cons.1 hnd).2]
    intro it hit hm
    rcases List.mem_cons.1 hm with heq | hm
    · cases heq; exact (List.nodup_cons.1 hnd).1 hit
    · exact hfree it (List.mem_cons_of_mem _ hit) hm

/-! ### list order inside one response: set and removal marker of the same key -/

theorem delKeys_append (l₁ l₂ : List Str) : delKeys (l₁ ++ l₂) = delKeys l₁ ++ delKeys l₂ := by
  simp [delKeys, List.filterMap_append]

theorem delKeys_pair_swap (k : Str) (hk : unmarked k = true) :
    delKeys [k, markForRemoval k] = delKeys [markForRemoval k, k] := by
  have h1 : (isMarked k).2 = false := by simpa [unmarked] using hk
  simp [delKeys, List.filterMap_cons, isMarked_mark, h1]


theorem filter_pair_swap {α : Type} (P : α → Bool) (l : List α) (x m : α) (hx : P x = false) :
    (l ++ [x, m]).filter P = (l ++ [m, x]).filter P := by
  simp only [List.filter_append]
  congr 1
  cases hm : P m <;> simp [List.filter_cons, hx, hm]

theorem delKeys_map_swap {α : Type} (g : α → Str) (l : List α) (x m : α) (hx : (isMarked (g x)).2 = false) :
    delKeys ((l ++ [x, m]).map g) = delKeys ((l ++ [m, x]).map g) := by
  simp only [List.map_append, delKeys_append]
  congr 1
  simp only [List.map_cons, List.map_nil, delKeys, List.filterMap_cons, List.filterMap_nil]
  cases hgm : isMarked (g m) with
  | mk km bm =>
    cases hgx : isMarked (g x) with
    | mk kx bx =>
      rw [hgx] at hx
      simp only at hx
      subst hx
      cases bm <;> simp

/-- `adjustEnv` sees its list only through these three readings -/
def envData' (q : Quirks) (st : State) (del : List Str) (add : List KeyValue)
    (marked : List Str → List KeyValue) : State :=
  let mod := add.map (·.key)
  let reply1 := st.reply.env.filter fun e => !del.contains e.key
  let view1 := st.view.env.filter fun s => !del.contains (envKey s) && !mod.contains (envKey s)
  let lone := marked mod
  let lone := lone.foldr (fun e acc => if acc.any (fun e' => e'.key = e.key) then acc else e :: acc) []
  let lone := if q.envDevNoMarker then [] else lone
  { st with reply := { st.reply with env := reply1 ++ add ++ lone },
            view := { st.view with env := view1 ++ add.map KeyValue.toOCI } }

theorem envData_eq (q : Quirks) (st : State) (es : List KeyValue) :
    envData q st es = envData' q st (delKeys (es.map (·.key))) (es.filter fun e => !(isMarked e.key).2)
      (fun mod => es.filter fun e => (isMarked e.key).2 && !mod.contains (clearMarker e.key)) := rfl

theorem env_swap (q : Quirks) (es : List KeyValue) (x m : KeyValue) (hx : (isMarked x.key).2 = false)
    (hm : (isMarked m.key).2 = true) :
    envSets (es ++ [x, m]) = envSets (es ++ [m, x]) ∧
    (∀ st, envClears st (es ++ [x, m]) = envClears st (es ++ [m, x])) ∧
    (∀ st, envData q st (es ++ [x, m]) = envData q st (es ++ [m, x])) := by
  have hP : ∀ (P : KeyValue → Bool), P x = false → (es ++ [x, m]).filter P = (es ++ [m, x]).filter P :=
    fun P h => filter_pair_swap P es x m h
  have hD := delKeys_map_swap (fun (e : KeyValue) => e.key) es x m hx
  refine ⟨?_, ?_, ?_⟩
  · unfold envSets
    -- the unmarked entries come out in the same order: only `x` of the pair is unmarked
    have : (es ++ [x, m]).filter (fun e => !(isMarked e.key).2) = (es ++ [m, x]).filter (fun e => !(isMarked e.key).2) := by
      simp only [List.filter_append]
      congr 1
      simp [List.filter_cons, hx, hm]
    rw [this]
  · intro st; unfold envClears; rw [hD]
  · intro st
    rw [envData_eq, envData_eq, hD]
    have h2 : (es ++ [x, m]).filter (fun e => !(isMarked e.key).2) = (es ++ [m, x]).filter (fun e => !(isMarked e.key).2) := by
      simp only [List.filter_append]
      congr 1
      simp [List.filter_cons, hx, hm]
    rw [h2]
    congr 1
    funext mod
    exact hP _ (by simp [hx])

def mountData' (st : State) (del : List Str) (add : List Mount) (marked : List Str → List Mount) : State :=
  let mod := add.map (·.destination)
  let reply1 := st.reply.mounts.filter fun m => !del.contains m.destination
  let view1 := st.view.mounts.filter fun m => !del.contains m.destination && !mod.contains m.destination
  let lone := marked mod
  let lone := lone.foldr (fun m acc => if acc.any (fun m' => m'.destination = m.destination) then acc else m :: acc) []
  { st with reply := { st.reply with mounts := reply1 ++ add ++ lone },
            view := { st.view with mounts := view1 ++ add } }

theorem mountData_eq (st : State) (ms : List Mount) :
    mountData st ms = mountData' st (delKeys (ms.map (·.destination))) (ms.filter fun m => !(isMarked m.destination).2)
      (fun mod => ms.filter fun m => (isMarked m.destination).2 && !mod.contains (clearMarker m.destination)) := rfl

theorem mount_swap (ms : List Mount) (x m : Mount) (hx : (isMarked x.destination).2 = false)
    (hm : (isMarked m.destination).2 = true) :
    mountSets (ms ++ [x, m]) = mountSets (ms ++ [m, x]) ∧
    (∀ st, mountClears st (ms ++ [x, m]) = mountClears st (ms ++ [m, x])) ∧
    (∀ st, mountData st (ms ++ [x, m]) = mountData st (ms ++ [m, x])) := by
  have hD := delKeys_map_swap (fun (e : Mount) => e.destination) ms x m hx
  have h2 : (ms ++ [x, m]).filter (fun e => !(isMarked e.destination).2) = (ms ++ [m, x]).filter (fun e => !(isMarked e.destination).2) := by
    simp only [List.filter_append]
    congr 1
    simp [List.filter_cons, hx, hm]
  refine ⟨?_, ?_, ?_⟩
  · unfold mountSets; rw [h2]
  · intro st; unfold mountClears; rw [hD]
  · intro st
    rw [mountData_eq, mountData_eq, hD, h2]
    congr 1
    funext mod
    exact filter_pair_swap _ ms x m (by simp [hx])

def deviceData' (q : Quirks) (st : State) (del : List Str) (add : List Device) (marked : List Str → List Device) : State :=
  let mod := add.map (·.path)
  let reply1 := st.reply.devices.filter fun d => !del.contains d.path
  let view1 := st.view.devices.filter fun d => !del.contains d.path && !mod.contains d.path
  let lone := marked mod
  let lone := lone.foldr (fun d acc => if acc.any (fun d' => d'.path = d.path) then acc else d :: acc) []
  let lone := if q.envDevNoMarker then [] else lone
  { st with reply := { st.reply with devices := reply1 ++ add ++ lone },
            view := { st.view with devices := view1 ++ add } }

theorem deviceData_eq (q : Quirks) (st : State) (ds : List Device) :
    deviceData q st ds = deviceData' q st (delKeys (ds.map (·.path))) (ds.filter fun d => !(isMarked d.path).2)
      (fun mod => ds.filter fun d => (isMarked d.path).2 && !mod.contains (clearMarker d.path)) := rfl

theorem device_swap (q : Quirks) (ds : List Device) (x m : Device) (hx : (isMarked x.path).2 = false)
    (hm : (isMarked m.path).2 = true) :
    deviceSets (ds ++ [x, m]) = deviceSets (ds ++ [m, x]) ∧
    (∀ st, deviceClears st (ds ++ [x, m]) = deviceClears st (ds ++ [m, x])) ∧
    (∀ st, deviceData q st (ds ++ [x, m]) = deviceData q st (ds ++ [m, x])) := by
  have hD := delKeys_map_swap (fun (e : Device) => e.path) ds x m hx
  have h2 : (ds ++ [x, m]).filter (fun e => !(isMarked e.path).2) = (ds ++ [m, x]).filter (fun e => !(isMarked e.path).2) := by
    simp only [List.filter_append]
    congr 1
    simp [List.filter_cons, hx, hm]
  refine ⟨?_, ?_, ?_⟩
  · unfold deviceSets; rw [h2]
  · intro st; unfold deviceClears; rw [hD]
  · intro st
    rw [deviceData_eq, deviceData_eq, hD, h2]
    congr 1
    funext mod
    exact filter_pair_swap _ ds x m (by simp [hx])

/-- `result.adjust` reads the environment list of an adjustment only through `envSets`,
    `envClears` and `envData` (likewise mounts and devices) -/
theorem adjust_congr_env (q : Quirks) (st : State) (p : Plugin) (a : Adjustment) (es es' : List KeyValue)
    (h1 : envSets es = envSets es') (h2 : ∀ st, envClears st es = envClears st es')
    (h3 : ∀ st, envData q st es = envData q st es') :
    adjust q st p (some { a with env := es }) = adjust q st p (some { a with env := es' }) := by
  unfold adjust adjustSets adjustClears adjustData
  simp only [h1, h2, h3]

theorem adjust_congr_mounts (q : Quirks) (st : State) (p : Plugin) (a : Adjustment) (ms ms' : List Mount)
    (h1 : mountSets ms = mountSets ms') (h2 : ∀ st, mountClears st ms = mountClears st ms')
    (h3 : ∀ st, mountData st ms = mountData st ms') :
    adjust q st p (some { a with mounts := ms }) = adjust q st p (some { a with mounts := ms' }) := by
  unfold adjust adjustSets adjustClears adjustData
  simp only [h1, h2, h3]

theorem adjust_congr_devices (q : Quirks) (st : State) (p : Plugin) (a : Adjustment) (ds ds' : List Device)
    (h1 : deviceSets ds = deviceSets ds') (h2 : ∀ st, deviceClears st ds = deviceClears st ds')
    (h3 : ∀ st, deviceData q st ds = deviceData q st ds') :
    adjust q st p (some { a with hasLinux := true, devices := ds }) =
    adjust q st p (some { a with hasLinux := true, devices := ds' }) := by
  unfold adjust adjustSets adjustClears adjustData
  simp only [h1, h2, h3]

end Nri.Builder
