/-
Lemmas for Props/Builder.lean, part 4: from one message to a plugin's response and to chains.
`Ledger.setsOn` / `removesOn` of the response a plugin's programs build, read off the programs;
the ledger/reply agreement along `run`; acceptance by the abstract ledger of chains of
adjustment programs naming pairwise distinct items; the list-order lemmas behind "Remove after
Add of the same key". Core Lean only.
-/
import NriModel.Lemmas.BuilderClears
import NriModel.Lemmas.BuilderVals

namespace Nri.Builder
open Nri Nri.NApi Nri.Result Nri.Ledger Nri.UpdateWalk

/-! ### target and ignore flag of an update program -/

theorem foldU_target (prog : List UOp) : ∀ (u : Update),
    (prog.foldl stepU u).containerId =
      prog.foldl (fun acc op => match op with | .setContainerId id => id | _ => acc) u.containerId := by
  induction prog with
  | nil => intro u; rfl
  | cons op rest ih =>
    intro u
    simp only [List.foldl_cons]
    rw [ih]
    cases op <;> rfl

theorem runU_target (prog : List UOp) : (runU prog).containerId = progTarget prog := foldU_target prog _

theorem foldU_ignore (prog : List UOp) : ∀ (u : Update),
    (prog.foldl stepU u).ignoreFailure = (u.ignoreFailure || prog.any fun op => op = .setIgnoreFailure) := by
  induction prog with
  | nil => intro u; simp
  | cons op rest ih =>
    intro u
    simp only [List.foldl_cons, List.any_cons]
    rw [ih]
    cases op <;> simp [stepU]

theorem runU_ignore (prog : List UOp) : (runU prog).ignoreFailure = progIgnore prog := by
  have := foldU_ignore prog { containerId := [] }
  simpa [runU, progIgnore] using this

theorem foldU_resources (prog : List UOp) : ∀ (u : Update) (acc : List (Item × Val)),
    ValsOK (u.resources.getD {}) acc →
    ValsOK ((prog.foldl stepU u).resources.getD {}) (prog.foldl (fun acc op => applyEffV acc (setEffU op)) acc) := by
  induction prog with
  | nil => intro u acc h; exact h
  | cons op rest ih =>
    intro u acc h
    simp only [List.foldl_cons]
    apply ih
    cases op with
    | setContainerId id => exact h
    | setIgnoreFailure => exact h
    | res r => exact stepR_vals _ r acc h

theorem runU_vals (prog : List UOp) : ValsOK ((runU prog).resources.getD {}) (progValsU prog) :=
  foldU_resources prog _ [] (by intro it v h; cases h)

/-! ### `setsOn` / `removesOn` of the response the programs build -/

theorem mem_progSetsOn (strict : Bool) (k : Kind) (pp : PluginProg) (c : Cid) (it : Item) :
    it ∈ setsOn strict k pp.response c ↔ it ∈ progSetsOn strict k pp c := by
  rw [mem_setsOn_iff]
  unfold progSetsOn PluginProg.response
  simp only [List.mem_append, List.mem_flatMap, List.mem_filter, List.mem_map, Option.map_eq_some_iff]
  constructor
  · rintro (⟨a, ⟨prog, hp, rfl⟩, rfl, hm⟩ | ⟨u, ⟨prog, hp, rfl⟩, hc, hs, hm⟩)
    · left
      simp only [hp, ↓reduceIte]
      exact (runA_sets_perm prog).mem_iff.1 hm
    · right
      refine ⟨prog, ⟨hp, ?_⟩, (runU_sets_perm prog).mem_iff.1 hm⟩
      rw [runU_target] at hc
      rw [runU_ignore] at hs
      cases strict with
      | false => simp [hc]
      | true => simp [hc, hs rfl]
  · rintro (h | ⟨prog, ⟨hp, hf⟩, hm⟩)
    · left
      cases k with
      | create id =>
        cases hpa : pp.adjust with
        | none => simp [hpa] at h
        | some prog =>
          simp only [hpa] at h
          by_cases hid : id = c
          · subst hid
            simp only [↓reduceIte] at h
            exact ⟨runA prog, ⟨prog, rfl, rfl⟩, rfl, (runA_sets_perm prog).mem_iff.2 h⟩
          · simp [hid] at h
      | update id => simp at h
      | stop => simp at h
    · right
      refine ⟨runU prog, ⟨prog, hp, rfl⟩, ?_, ?_, (runU_sets_perm prog).mem_iff.2 hm⟩
      · rw [runU_target]; simp at hf; exact hf.1
      · intro hs; subst hs; rw [runU_ignore]; simp at hf; exact hf.2

theorem mem_progRemovesOn (k : Kind) (pp : PluginProg) (c : Cid) (it : Item) :
    it ∈ removesOn k pp.response c ↔ it ∈ progRemovesOn k pp c := by
  rw [mem_removesOn_iff]
  unfold progRemovesOn PluginProg.response
  cases k with
  | create id =>
    cases hpa : pp.adjust with
    | none => simp
    | some prog =>
      by_cases hid : id = c
      · subst hid; simp [runA_clears_mem]
      · simp [hid]
  | update id => simp
  | stop => simp

/-! ### the ledger/reply agreement along a chain -/

theorem replyHolds_run (rs : List (Plugin × Option Response)) : ∀ (st st' : State), ReplyHolds st →
    run Quirks.fixed st rs = .ok st' → ReplyHolds st' := by
  induction rs with
  | nil => intro st st' rh h; simp [run] at h; subst h; exact rh
  | cons x rest ih =>
    intro st st' rh h
    obtain ⟨p, r⟩ := x
    cases r with
    | none => simp only [run] at h; exact ih st st' rh h
    | some r =>
      simp only [run] at h
      cases h1 : apply Quirks.fixed st p r with
      | error e => rw [h1] at h; cases h
      | ok st1 => rw [h1] at h; exact ih st1 st' (replyHolds_apply st st1 p r rh h1) h

/-- a conflict raised by an adjustment on an item it marks for removal can only be the
    plugin's own second mention of that item -/
theorem released_conflict_is_own (st : State) (rh : ReplyHolds st) (p : Plugin) (a : Adjustment)
    (c : Cid) (it : Item) (p' q : Plugin)
    (herr : adjust Quirks.fixed st p (some a) = .error (.conflict c it p' q))
    (hrel : it ∈ removesAdj a) : q = p ∧ 2 ≤ (adjustSets a).count it := by
  unfold adjust at herr
  simp only [] at herr
  cases hc : claimAll (cidOf st.kind) p (clearAll st.owners (cidOf st.kind) (adjustClears Quirks.fixed st a)) (adjustSets a) with
  | ok o => rw [hc] at herr; cases herr
  | error e =>
    rw [hc] at herr
    cases herr
    obtain ⟨it', q', _, he, hw⟩ := claimAll_error_inv _ _ _ _ _ hc
    cases he
    rcases hw with h1 | h2
    · exfalso
      have h0 := owner_clearAll_some _ _ _ _ _ _ h1
      have hcl := clears_effective st a rh it q h0 hrel
      rw [owner_clearAll_mem _ _ _ _ hcl] at h1
      cases h1
    · exact h2

/-! ### chains of adjustment programs naming pairwise distinct items -/

/-- the chain in which plugin `p` answers a creation request with the adjustment `prog` builds -/
def adjChain (progs : List (Plugin × List AOp)) : List (Plugin × Response) :=
  progs.map fun x => (x.1, { adjust := some (runA x.2) })

theorem absRun_adjChain (id : Cid) (progs : List (Plugin × List AOp)) : ∀ (owned : List (Cid × Item)),
    (∀ c it, (c, it) ∈ owned → ∀ x ∈ progs, it ∉ progSets x.2) →
    (progs.flatMap fun x => progSets x.2).Nodup →
    ∃ owned', absRun (.create id) owned (adjChain progs) = some owned' := by
  induction progs with
  | nil => intro owned _ _; exact ⟨owned, rfl⟩
  | cons x rest ih =>
    intro owned hown hnd
    obtain ⟨p, prog⟩ := x
    simp only [List.flatMap_cons] at hnd
    obtain ⟨hnd1, hnd2, hdisj⟩ := List.nodup_append.1 hnd
    have hperm := runA_sets_perm prog
    have hsets : allSets (.create id) { adjust := some (runA prog) } = (adjustSets (runA prog)).map fun it => (id, it) := by
      rw [allSets_create id _ (runA prog) rfl]; simp
    simp only [adjChain, List.map_cons, absRun]
    have hstep : ∃ owned1, absStep (.create id) owned { adjust := some (runA prog) } = some owned1 ∧
        ∀ c it, (c, it) ∈ owned1 → (c, it) ∈ owned ∨ it ∈ progSets prog := by
      unfold absStep
      have hself : selfUpdates (.create id) { adjust := some (runA prog) } = false := by simp [selfUpdates]
      simp only [hself, Bool.false_eq_true, ↓reduceIte, hsets]
      have hn : ((adjustSets (runA prog)).map fun it => (id, it)).Nodup := by
        have h0 : (adjustSets (runA prog)).Nodup := hperm.nodup_iff.2 hnd1
        exact List.pairwise_map.2 (List.Pairwise.imp (fun hne heq => hne (by cases heq; rfl)) h0)
      simp only [hn, decide_true, Bool.not_true, Bool.false_eq_true, ↓reduceIte]
      have hany : ((adjustSets (runA prog)).map fun it => (id, it)).any (fun x =>
          (owned.filter fun x => !(allRemoves (.create id) { adjust := some (runA prog) }).contains x).contains x) = false := by
        rw [List.any_eq_false]
        intro y hy hc
        obtain ⟨it, hit, rfl⟩ := List.mem_map.1 hy
        have : (id, it) ∈ owned := by
          have := List.contains_iff_mem.1 hc
          exact (List.mem_filter.1 this).1
        exact hown id it this (p, prog) List.mem_cons_self (hperm.mem_iff.1 hit)
      simp only [hany, Bool.false_eq_true, ↓reduceIte]
      refine ⟨_, rfl, ?_⟩
      intro c it hm
      rcases List.mem_append.1 hm with h | h
      · exact .inl (List.mem_filter.1 h).1
      · obtain ⟨it', hit', heq⟩ := List.mem_map.1 h
        cases heq
        exact .inr (hperm.mem_iff.1 hit')
    obtain ⟨owned1, hs, hsub⟩ := hstep
    rw [hs]
    apply ih owned1 _ hnd2
    intro c it hm y hy hin
    rcases hsub c it hm with h | h
    · exact hown c it h y (List.mem_cons_of_mem _ hy) hin
    · exact hdisj it h it (List.mem_flatMap.2 ⟨y, hy, hin⟩) rfl

/-! ### list order inside one response: set and removal marker of the same key -/

theorem delKeys_append (l₁ l₂ : List Str) : delKeys (l₁ ++ l₂) = delKeys l₁ ++ delKeys l₂ := by
  simp [delKeys, List.filterMap_append]

theorem delKeys_pair_swap (k : Str) (hk : unmarked k = true) :
    delKeys [k, markForRemoval k] = delKeys [markForRemoval k, k] := by
  have h1 : (isMarked k).2 = false := by simpa [unmarked] using hk
  simp [delKeys, List.filterMap_cons, isMarked_mark, h1]

end Nri.Builder
