/-
The inductive invariant of the sync-lock model (`Nri.Locks`), its preservation by every step
and the facts the C08 property theorems are read off from. Core tactics only.
-/
import NriModel.Locks

namespace Nri.Locks

/-! ### `setP` / `deliver` -/

@[simp] theorem setP_same (pl : Pid → PState) (p : Pid) (x : PState) : setP pl p x p = x := by
  simp [setP]

theorem setP_other (pl : Pid → PState) {p q : Pid} (x : PState) (h : q ≠ p) :
    setP pl p x q = pl q := by
  simp [setP, h]

@[simp] theorem deliver_phase (pl : Pid → PState) (c : Cid) (q : Pid) :
    (deliver pl c q).phase = (pl q).phase := by
  unfold deliver deliver1; split <;> rfl

@[simp] theorem deliver_snap (pl : Pid → PState) (c : Cid) (q : Pid) :
    (deliver pl c q).snap = (pl q).snap := by
  unfold deliver deliver1; split <;> rfl

theorem deliver_got_active (pl : Pid → PState) (c : Cid) (q : Pid) (h : (pl q).phase = .active) :
    (deliver pl c q).got = c :: (pl q).got := by
  unfold deliver deliver1; simp [h]

theorem deliver_got_inactive (pl : Pid → PState) (c : Cid) (q : Pid) (h : (pl q).phase ≠ .active) :
    (deliver pl c q).got = (pl q).got := by
  unfold deliver deliver1; simp [h]

/-! ### the invariant -/

/-- What holds in every reachable state of the sync-lock model. -/
structure Good (s : State) : Prop where
  /-- RW-lock exclusion: a writer excludes every reader -/
  excl : ∀ p, s.writer = some p → s.holding = []
  /-- a block is held at most once (so releasing it removes it) -/
  holdNodup : s.holding.Nodup
  /-- a half-done creation belongs to a block that is still held -/
  halfHeld : ∀ x ∈ s.half, x.1 ∈ s.holding
  /-- a container is recorded iff its request was relayed, unless its creation is half done -/
  settled : ∀ c, (c ∈ s.store ↔ c ∈ s.sent) ∨ ∃ b, (b, c) ∈ s.half
  /-- a half-done creation has exactly one of its halves done … -/
  halfXor : ∀ x ∈ s.half, (x.2 ∈ s.store ∧ x.2 ∉ s.sent) ∨ (x.2 ∉ s.store ∧ x.2 ∈ s.sent)
  /-- … and is listed once -/
  halfNodup : (s.half.map (·.2)).Nodup
  storeNodup : s.store.Nodup
  sentNodup : s.sent.Nodup
  /-- only the writer is being synchronised -/
  inSection : ∀ p, (s.pl p).phase = .syncing ∨ (s.pl p).phase = .snapped → s.writer = some p
  /-- the writer is on its way through the section (it can always take its next step) -/
  writerBusy : ∀ p, s.writer = some p → (s.pl p).phase ≠ .idle
  /-- between snapshot and activation the snapshot IS the store -/
  snapped : ∀ p, (s.pl p).phase = .snapped → (s.pl p).snap = s.store
  /-- an active plugin received exactly the relayed creations that were not in its snapshot -/
  gotIff : ∀ p, (s.pl p).phase = .active →
    ∀ c, c ∈ (s.pl p).got ↔ (c ∈ s.sent ∧ c ∉ (s.pl p).snap)
  snapSent : ∀ p, (s.pl p).phase = .active → ∀ c ∈ (s.pl p).snap, c ∈ s.sent
  snapStore : ∀ p, (s.pl p).phase = .active → ∀ c ∈ (s.pl p).snap, c ∈ s.store
  gotNodup : ∀ p, (s.pl p).phase = .active → (s.pl p).got.Nodup
  snapNodup : ∀ p, (s.pl p).phase = .active → (s.pl p).snap.Nodup

theorem good_init : Good init := by
  constructor <;> simp [init]

/-- with no block held nothing is half done, so store and relayed set coincide -/
theorem Good.quiescent {s : State} (g : Good s) (h : s.holding = []) (c : Cid) :
    c ∈ s.store ↔ c ∈ s.sent := by
  rcases g.settled c with h1 | ⟨b, hb⟩
  · exact h1
  · have := g.halfHeld _ hb
    rw [h] at this
    cases this

/-- nobody is between `syncBegin` and `activate` while a block is held -/
theorem Good.noSyncWhileHeld {s : State} (g : Good s) {b : Bid} (hb : b ∈ s.holding) (p : Pid) :
    (s.pl p).phase ≠ .syncing ∧ (s.pl p).phase ≠ .snapped := by
  constructor <;> intro hp
  · have := g.excl p (g.inSection p (Or.inl hp)); rw [this] at hb; cases hb
  · have := g.excl p (g.inSection p (Or.inr hp)); rw [this] at hb; cases hb

/-- in a list of half-done creations with distinct containers, erasing the entry of `c` leaves
    no entry of `c` -/
theorem snd_ne_of_mem_erase {l : List (Bid × Cid)} (hn : (l.map (·.2)).Nodup) {b : Bid} {c : Cid}
    (hm : (b, c) ∈ l) {x : Bid × Cid} (hx : x ∈ l.erase (b, c)) : x.2 ≠ c := by
  induction l with
  | nil => cases hm
  | cons y l ih =>
    simp only [List.map_cons, List.nodup_cons] at hn
    by_cases hy : y = (b, c)
    · subst hy
      rw [List.erase_cons_head] at hx
      intro h
      exact hn.1 (List.mem_map.2 ⟨x, hx, h⟩)
    · have hm' : (b, c) ∈ l := by
        rcases List.mem_cons.1 hm with h | h
        · exact absurd h.symm hy
        · exact h
      rw [List.erase_cons_tail (by simpa using hy)] at hx
      rcases List.mem_cons.1 hx with rfl | hx
      · intro h
        exact hn.1 (List.mem_map.2 ⟨(b, c), hm', h.symm⟩)
      · exact ih hn.2 hm' hx

theorem nodup_map_erase {l : List (Bid × Cid)} (hn : (l.map (·.2)).Nodup) (x : Bid × Cid) :
    ((l.erase x).map (·.2)).Nodup :=
  hn.sublist (List.Sublist.map _ List.erase_sublist)

theorem good_relay_first {s : State} (g : Good s) {b : Bid} {c : Cid}
    (hb : b ∈ s.holding) (hs : c ∉ s.sent) (hst : c ∉ s.store) :
    Good { s with sent := c :: s.sent, half := (b, c) :: s.half, pl := deliver s.pl c } where
  excl := g.excl
  holdNodup := g.holdNodup
  halfHeld := by
    intro x hx
    rcases List.mem_cons.1 hx with rfl | hx
    · exact hb
    · exact g.halfHeld x hx
  settled := by
    intro c'
    by_cases hc : c' = c
    · subst hc; exact Or.inr ⟨b, List.mem_cons_self⟩
    · rcases g.settled c' with h1 | ⟨b', hb'⟩
      · left; simp [hc, h1]
      · exact Or.inr ⟨b', List.mem_cons_of_mem _ hb'⟩
  halfXor := by
    intro x hx
    rcases List.mem_cons.1 hx with rfl | hx
    · exact Or.inr ⟨hst, List.mem_cons_self⟩
    · rcases g.halfXor x hx with ⟨h1, h2⟩ | ⟨h1, h2⟩
      · refine Or.inl ⟨h1, ?_⟩
        intro h
        rcases List.mem_cons.1 h with h | h
        · exact hst (h ▸ h1)
        · exact h2 h
      · exact Or.inr ⟨h1, List.mem_cons_of_mem _ h2⟩
  halfNodup := by
    simp only [List.map_cons, List.nodup_cons]
    refine ⟨?_, g.halfNodup⟩
    intro h
    obtain ⟨x, hx, hxc⟩ := List.mem_map.1 h
    rcases g.halfXor x hx with ⟨h1, _⟩ | ⟨_, h2⟩
    · exact hst (hxc ▸ h1)
    · exact hs (hxc ▸ h2)
  storeNodup := g.storeNodup
  sentNodup := List.nodup_cons.2 ⟨hs, g.sentNodup⟩
  inSection := by intro p; simpa using g.inSection p
  writerBusy := by intro p; simpa using g.writerBusy p
  snapped := by intro p; simpa using g.snapped p
  gotIff := by
    intro p hp c'
    simp only [deliver_phase] at hp
    simp only [deliver_snap, deliver_got_active _ _ _ hp, List.mem_cons]
    by_cases hc : c' = c
    · subst hc
      simp only [true_or, true_and, true_iff]
      intro hsn; exact hs (g.snapSent p hp _ hsn)
    · simp only [hc, false_or]; exact g.gotIff p hp c'
  snapSent := by
    intro p hp c' hc'
    simp only [deliver_phase] at hp
    simp only [deliver_snap] at hc'
    exact List.mem_cons_of_mem _ (g.snapSent p hp c' hc')
  snapStore := by
    intro p hp c' hc'
    simp only [deliver_phase] at hp
    simp only [deliver_snap] at hc'
    exact g.snapStore p hp c' hc'
  gotNodup := by
    intro p hp
    simp only [deliver_phase] at hp
    rw [deliver_got_active _ _ _ hp]
    refine List.nodup_cons.2 ⟨?_, g.gotNodup p hp⟩
    intro hg; exact hs ((g.gotIff p hp c).1 hg).1
  snapNodup := by
    intro p hp
    simp only [deliver_phase] at hp
    simpa using g.snapNodup p hp

theorem good_relay_second {s : State} (g : Good s) {b : Bid} {c : Cid}
    (hs : c ∉ s.sent) (hst : c ∈ s.store) (hm : (b, c) ∈ s.half) :
    Good { s with sent := c :: s.sent, half := s.half.erase (b, c), pl := deliver s.pl c } where
  excl := g.excl
  holdNodup := g.holdNodup
  halfHeld := by
    intro x hx
    exact g.halfHeld x (List.mem_of_mem_erase hx)
  settled := by
    intro c'
    by_cases hc : c' = c
    · subst hc; left; simp [hst]
    · rcases g.settled c' with h1 | ⟨b', hb'⟩
      · left; simp [hc, h1]
      · refine Or.inr ⟨b', ?_⟩
        have hne : (b', c') ≠ (b, c) := by
          intro h; exact hc (Prod.mk.inj h).2
        exact (List.mem_erase_of_ne hne).2 hb'
  halfXor := by
    intro x hx
    have hne : x.2 ≠ c := snd_ne_of_mem_erase g.halfNodup hm hx
    rcases g.halfXor x (List.mem_of_mem_erase hx) with ⟨h1, h2⟩ | ⟨h1, h2⟩
    · refine Or.inl ⟨h1, ?_⟩
      intro h
      rcases List.mem_cons.1 h with h | h
      · exact hne h
      · exact h2 h
    · exact Or.inr ⟨h1, List.mem_cons_of_mem _ h2⟩
  halfNodup := nodup_map_erase g.halfNodup _
  storeNodup := g.storeNodup
  sentNodup := List.nodup_cons.2 ⟨hs, g.sentNodup⟩
  inSection := by intro p; simpa using g.inSection p
  writerBusy := by intro p; simpa using g.writerBusy p
  snapped := by intro p; simpa using g.snapped p
  gotIff := by
    intro p hp c'
    simp only [deliver_phase] at hp
    simp only [deliver_snap, deliver_got_active _ _ _ hp, List.mem_cons]
    by_cases hc : c' = c
    · subst hc
      simp only [true_or, true_and, true_iff]
      intro hsn; exact hs (g.snapSent p hp _ hsn)
    · simp only [hc, false_or]; exact g.gotIff p hp c'
  snapSent := by
    intro p hp c' hc'
    simp only [deliver_phase] at hp
    simp only [deliver_snap] at hc'
    exact List.mem_cons_of_mem _ (g.snapSent p hp c' hc')
  snapStore := by
    intro p hp c' hc'
    simp only [deliver_phase] at hp
    simp only [deliver_snap] at hc'
    exact g.snapStore p hp c' hc'
  gotNodup := by
    intro p hp
    simp only [deliver_phase] at hp
    rw [deliver_got_active _ _ _ hp]
    refine List.nodup_cons.2 ⟨?_, g.gotNodup p hp⟩
    intro hg; exact hs ((g.gotIff p hp c).1 hg).1
  snapNodup := by
    intro p hp
    simp only [deliver_phase] at hp
    simpa using g.snapNodup p hp

theorem good_record_first {s : State} (g : Good s) {b : Bid} {c : Cid}
    (hb : b ∈ s.holding) (hst : c ∉ s.store) (hs : c ∉ s.sent) :
    Good { s with store := c :: s.store, half := (b, c) :: s.half } where
  excl := g.excl
  holdNodup := g.holdNodup
  halfHeld := by
    intro x hx
    rcases List.mem_cons.1 hx with rfl | hx
    · exact hb
    · exact g.halfHeld x hx
  settled := by
    intro c'
    by_cases hc : c' = c
    · subst hc; exact Or.inr ⟨b, List.mem_cons_self⟩
    · rcases g.settled c' with h1 | ⟨b', hb'⟩
      · left; simp [hc, h1]
      · exact Or.inr ⟨b', List.mem_cons_of_mem _ hb'⟩
  halfXor := by
    intro x hx
    rcases List.mem_cons.1 hx with rfl | hx
    · exact Or.inl ⟨List.mem_cons_self, hs⟩
    · rcases g.halfXor x hx with ⟨h1, h2⟩ | ⟨h1, h2⟩
      · exact Or.inl ⟨List.mem_cons_of_mem _ h1, h2⟩
      · refine Or.inr ⟨?_, h2⟩
        intro h
        rcases List.mem_cons.1 h with h | h
        · exact hs (h ▸ h2)
        · exact h1 h
  halfNodup := by
    simp only [List.map_cons, List.nodup_cons]
    refine ⟨?_, g.halfNodup⟩
    intro h
    obtain ⟨x, hx, hxc⟩ := List.mem_map.1 h
    rcases g.halfXor x hx with ⟨h1, _⟩ | ⟨_, h2⟩
    · exact hst (hxc ▸ h1)
    · exact hs (hxc ▸ h2)
  storeNodup := List.nodup_cons.2 ⟨hst, g.storeNodup⟩
  sentNodup := g.sentNodup
  inSection := g.inSection
  writerBusy := g.writerBusy
  snapped := by
    intro p hp
    exact absurd hp (g.noSyncWhileHeld hb p).2
  gotIff := g.gotIff
  snapSent := g.snapSent
  snapStore := by
    intro p hp c' hc'
    exact List.mem_cons_of_mem _ (g.snapStore p hp c' hc')
  gotNodup := g.gotNodup
  snapNodup := g.snapNodup

theorem good_record_second {s : State} (g : Good s) {b : Bid} {c : Cid}
    (hb : b ∈ s.holding) (hst : c ∉ s.store) (hs : c ∈ s.sent) (hm : (b, c) ∈ s.half) :
    Good { s with store := c :: s.store, half := s.half.erase (b, c) } where
  excl := g.excl
  holdNodup := g.holdNodup
  halfHeld := by
    intro x hx
    exact g.halfHeld x (List.mem_of_mem_erase hx)
  settled := by
    intro c'
    by_cases hc : c' = c
    · subst hc; left; simp [hs]
    · rcases g.settled c' with h1 | ⟨b', hb'⟩
      · left; simp [hc, h1]
      · refine Or.inr ⟨b', ?_⟩
        have hne : (b', c') ≠ (b, c) := by
          intro h; exact hc (Prod.mk.inj h).2
        exact (List.mem_erase_of_ne hne).2 hb'
  halfXor := by
    intro x hx
    have hne : x.2 ≠ c := snd_ne_of_mem_erase g.halfNodup hm hx
    rcases g.halfXor x (List.mem_of_mem_erase hx) with ⟨h1, h2⟩ | ⟨h1, h2⟩
    · exact Or.inl ⟨List.mem_cons_of_mem _ h1, h2⟩
    · refine Or.inr ⟨?_, h2⟩
      intro h
      rcases List.mem_cons.1 h with h | h
      · exact hne h
      · exact h1 h
  halfNodup := nodup_map_erase g.halfNodup _
  storeNodup := List.nodup_cons.2 ⟨hst, g.storeNodup⟩
  sentNodup := g.sentNodup
  inSection := g.inSection
  writerBusy := g.writerBusy
  snapped := by
    intro p hp
    exact absurd hp (g.noSyncWhileHeld hb p).2
  gotIff := g.gotIff
  snapSent := g.snapSent
  snapStore := by
    intro p hp c' hc'
    exact List.mem_cons_of_mem _ (g.snapStore p hp c' hc')
  gotNodup := g.gotNodup
  snapNodup := g.snapNodup

/-- the invariant is preserved by every step of the model -/
theorem good_step {s s' : State} {e : Ev} (g : Good s) (h : step? s e = some s') : Good s' := by
  cases e with
  | block b =>
    simp only [step?] at h
    split at h
    · rename_i hc
      injection h with h; subst h
      exact {
        excl := by intro p hp; simp [hc.1] at hp
        holdNodup := List.nodup_cons.2 ⟨hc.2, g.holdNodup⟩
        halfHeld := by intro x hx; exact List.mem_cons_of_mem _ (g.halfHeld x hx)
        settled := g.settled, storeNodup := g.storeNodup, sentNodup := g.sentNodup
        halfXor := g.halfXor, halfNodup := g.halfNodup
        inSection := g.inSection, writerBusy := g.writerBusy, snapped := g.snapped
        gotIff := g.gotIff, snapSent := g.snapSent, snapStore := g.snapStore
        gotNodup := g.gotNodup, snapNodup := g.snapNodup }
    · cases h
  | relay b c =>
    simp only [step?] at h
    split at h
    · rename_i hc
      split at h
      · rename_i hst
        split at h
        · rename_i hm
          injection h with h; subst h
          exact good_relay_second g hc.2 hst hm
        · cases h
      · rename_i hst
        injection h with h; subst h
        exact good_relay_first g hc.1 hc.2 hst
    · cases h
  | record b c =>
    simp only [step?] at h
    split at h
    · rename_i hc
      split at h
      · rename_i hs
        split at h
        · rename_i hm
          injection h with h; subst h
          exact good_record_second g hc.1 hc.2 hs hm
        · cases h
      · rename_i hs
        injection h with h; subst h
        exact good_record_first g hc.1 hc.2 hs
    · cases h
  | unblock b =>
    simp only [step?] at h
    split at h
    · split at h
      · rename_i hb hc
        injection h with h; subst h
        exact {
          excl := by
            intro p hp
            have := g.excl p hp
            simp [this]
          holdNodup := g.holdNodup.sublist List.erase_sublist
          halfHeld := by
            intro x hx
            exact (List.mem_erase_of_ne (hc x hx)).2 (g.halfHeld x hx)
          settled := g.settled, storeNodup := g.storeNodup, sentNodup := g.sentNodup
          halfXor := g.halfXor, halfNodup := g.halfNodup
          inSection := g.inSection, writerBusy := g.writerBusy, snapped := g.snapped
          gotIff := g.gotIff, snapSent := g.snapSent, snapStore := g.snapStore
          gotNodup := g.gotNodup, snapNodup := g.snapNodup }
      · cases h
    · injection h with h; subst h; exact g
  | syncBegin p =>
    simp only [step?] at h
    split at h
    · rename_i hc
      obtain ⟨hw, hh, hp⟩ := hc
      injection h with h; subst h
      have other : ∀ q, q ≠ p → setP s.pl p { phase := .syncing } q = s.pl q :=
        fun q hq => setP_other _ _ hq
      have notActive : ∀ q, (setP s.pl p { phase := .syncing } q).phase = .active →
          q ≠ p := by
        intro q hq hqp; subst hqp; simp at hq
      exact {
        excl := by intro q _; exact hh
        holdNodup := g.holdNodup
        halfHeld := g.halfHeld, settled := g.settled
        storeNodup := g.storeNodup, sentNodup := g.sentNodup
        halfXor := g.halfXor, halfNodup := g.halfNodup
        inSection := by
          intro q hq
          by_cases hqp : q = p
          · subst hqp; rfl
          · simp only [other q hqp] at hq
            have := g.inSection q hq
            simp [hw] at this
        writerBusy := by
          intro q hq
          have : p = q := by simpa using hq
          subst this; simp
        snapped := by
          intro q hq
          by_cases hqp : q = p
          · subst hqp; simp at hq
          · simp only [other q hqp] at hq ⊢; exact g.snapped q hq
        gotIff := by
          intro q hq; have hqp := notActive q hq
          simp only [other q hqp] at hq ⊢; exact g.gotIff q hq
        snapSent := by
          intro q hq; have hqp := notActive q hq
          simp only [other q hqp] at hq ⊢; exact g.snapSent q hq
        snapStore := by
          intro q hq; have hqp := notActive q hq
          simp only [other q hqp] at hq ⊢; exact g.snapStore q hq
        gotNodup := by
          intro q hq; have hqp := notActive q hq
          simp only [other q hqp] at hq ⊢; exact g.gotNodup q hq
        snapNodup := by
          intro q hq; have hqp := notActive q hq
          simp only [other q hqp] at hq ⊢; exact g.snapNodup q hq }
    · cases h
  | snapshot p =>
    simp only [step?] at h
    split at h
    · rename_i hc
      obtain ⟨hw, hp⟩ := hc
      injection h with h; subst h
      have other : ∀ q, q ≠ p → setP s.pl p { phase := .snapped, snap := s.store } q = s.pl q :=
        fun q hq => setP_other _ _ hq
      have notActive : ∀ q, (setP s.pl p { phase := .snapped, snap := s.store } q).phase = .active →
          q ≠ p := by
        intro q hq hqp; subst hqp; simp at hq
      exact {
        excl := g.excl, holdNodup := g.holdNodup, halfHeld := g.halfHeld, settled := g.settled
        storeNodup := g.storeNodup, sentNodup := g.sentNodup
        halfXor := g.halfXor, halfNodup := g.halfNodup
        inSection := by
          intro q hq
          by_cases hqp : q = p
          · subst hqp; exact hw
          · simp only [other q hqp] at hq; exact g.inSection q hq
        writerBusy := by
          intro q hq
          by_cases hqp : q = p
          · subst hqp; simp
          · simp only [other q hqp]; exact g.writerBusy q hq
        snapped := by
          intro q hq
          by_cases hqp : q = p
          · subst hqp; simp
          · simp only [other q hqp] at hq ⊢; exact g.snapped q hq
        gotIff := by
          intro q hq; have hqp := notActive q hq
          simp only [other q hqp] at hq ⊢; exact g.gotIff q hq
        snapSent := by
          intro q hq; have hqp := notActive q hq
          simp only [other q hqp] at hq ⊢; exact g.snapSent q hq
        snapStore := by
          intro q hq; have hqp := notActive q hq
          simp only [other q hqp] at hq ⊢; exact g.snapStore q hq
        gotNodup := by
          intro q hq; have hqp := notActive q hq
          simp only [other q hqp] at hq ⊢; exact g.gotNodup q hq
        snapNodup := by
          intro q hq; have hqp := notActive q hq
          simp only [other q hqp] at hq ⊢; exact g.snapNodup q hq }
    · cases h
  | activate p =>
    simp only [step?] at h
    split at h
    · rename_i hc
      obtain ⟨hw, hp⟩ := hc
      injection h with h; subst h
      have hsnap : (s.pl p).snap = s.store := g.snapped p hp
      have hq0 : s.holding = [] := g.excl p hw
      have hqu := g.quiescent hq0
      have other : ∀ q, q ≠ p →
          setP s.pl p { phase := .active, snap := (s.pl p).snap, got := [] } q = s.pl q :=
        fun q hq => setP_other _ _ hq
      exact {
        excl := g.excl, holdNodup := g.holdNodup, halfHeld := g.halfHeld, settled := g.settled
        storeNodup := g.storeNodup, sentNodup := g.sentNodup
        halfXor := g.halfXor, halfNodup := g.halfNodup
        inSection := by
          intro q hq
          by_cases hqp : q = p
          · subst hqp; exact hw
          · simp only [other q hqp] at hq; exact g.inSection q hq
        writerBusy := by
          intro q hq
          by_cases hqp : q = p
          · subst hqp; simp
          · simp only [other q hqp]; exact g.writerBusy q hq
        snapped := by
          intro q hq
          by_cases hqp : q = p
          · subst hqp; simp at hq
          · simp only [other q hqp] at hq ⊢; exact g.snapped q hq
        gotIff := by
          intro q hq c
          by_cases hqp : q = p
          · subst hqp
            simp only [setP_same, List.not_mem_nil, false_iff, hsnap, not_and, Classical.not_not]
            intro hs; exact (hqu c).2 hs
          · simp only [other q hqp] at hq ⊢; exact g.gotIff q hq c
        snapSent := by
          intro q hq c hc
          by_cases hqp : q = p
          · subst hqp
            simp only [setP_same, hsnap] at hc
            exact (hqu c).1 hc
          · simp only [other q hqp] at hq hc; exact g.snapSent q hq c hc
        snapStore := by
          intro q hq c hc
          by_cases hqp : q = p
          · subst hqp
            simp only [setP_same, hsnap] at hc
            exact hc
          · simp only [other q hqp] at hq hc; exact g.snapStore q hq c hc
        gotNodup := by
          intro q hq
          by_cases hqp : q = p
          · subst hqp; simp
          · simp only [other q hqp] at hq ⊢; exact g.gotNodup q hq
        snapNodup := by
          intro q hq
          by_cases hqp : q = p
          · subst hqp; simp only [setP_same, hsnap]; exact g.storeNodup
          · simp only [other q hqp] at hq ⊢; exact g.snapNodup q hq }
    · cases h
  | syncEnd p =>
    simp only [step?] at h
    split at h
    · rename_i hc
      obtain ⟨hw, hp⟩ := hc
      injection h with h; subst h
      exact {
        excl := by intro q hq; cases hq
        holdNodup := g.holdNodup
        halfHeld := g.halfHeld, settled := g.settled
        storeNodup := g.storeNodup, sentNodup := g.sentNodup
        halfXor := g.halfXor, halfNodup := g.halfNodup
        inSection := by
          intro q hq
          have h1 := g.inSection q hq
          rw [hw] at h1
          injection h1 with h1; subst h1
          rcases hq with hq | hq <;> simp [hp] at hq
        writerBusy := by intro q hq; cases hq
        snapped := g.snapped, gotIff := g.gotIff, snapSent := g.snapSent
        snapStore := g.snapStore, gotNodup := g.gotNodup, snapNodup := g.snapNodup }
    · cases h
  | abort p =>
    simp only [step?] at h
    split at h
    · rename_i hc
      obtain ⟨hw, hp⟩ := hc
      injection h with h; subst h
      have other : ∀ q, q ≠ p → setP s.pl p {} q = s.pl q := fun q hq => setP_other _ _ hq
      have notP : ∀ q ph, (setP s.pl p {} q).phase = ph → ph ≠ .idle → q ≠ p := by
        intro q ph hq hne hqp; subst hqp; simp at hq; exact hne hq.symm
      exact {
        excl := by intro q hq; cases hq
        holdNodup := g.holdNodup
        halfHeld := g.halfHeld, settled := g.settled
        storeNodup := g.storeNodup, sentNodup := g.sentNodup
        halfXor := g.halfXor, halfNodup := g.halfNodup
        inSection := by
          intro q hq
          have hqp : q ≠ p := (by rcases hq with hq | hq <;> exact notP q _ hq (by decide))
          simp only [other q hqp] at hq
          have h1 := g.inSection q hq
          rw [hw] at h1
          injection h1 with h1; exact absurd h1.symm hqp
        writerBusy := by intro q hq; cases hq
        snapped := by
          intro q hq
          have hqp : q ≠ p := notP q _ hq (by decide)
          simp only [other q hqp] at hq ⊢; exact g.snapped q hq
        gotIff := by
          intro q hq
          have hqp : q ≠ p := notP q _ hq (by decide)
          simp only [other q hqp] at hq ⊢; exact g.gotIff q hq
        snapSent := by
          intro q hq
          have hqp : q ≠ p := notP q _ hq (by decide)
          simp only [other q hqp] at hq ⊢; exact g.snapSent q hq
        snapStore := by
          intro q hq
          have hqp : q ≠ p := notP q _ hq (by decide)
          simp only [other q hqp] at hq ⊢; exact g.snapStore q hq
        gotNodup := by
          intro q hq
          have hqp : q ≠ p := notP q _ hq (by decide)
          simp only [other q hqp] at hq ⊢; exact g.gotNodup q hq
        snapNodup := by
          intro q hq
          have hqp : q ≠ p := notP q _ hq (by decide)
          simp only [other q hqp] at hq ⊢; exact g.snapNodup q hq }
    · cases h
  | drop p =>
    simp only [step?] at h
    split at h
    · rename_i hc
      obtain ⟨hw, hp⟩ := hc
      injection h with h; subst h
      have other : ∀ q, q ≠ p → setP s.pl p {} q = s.pl q := fun q hq => setP_other _ _ hq
      have notP : ∀ q ph, (setP s.pl p {} q).phase = ph → ph ≠ .idle → q ≠ p := by
        intro q ph hq hne hqp; subst hqp; simp at hq; exact hne hq.symm
      exact {
        excl := g.excl, holdNodup := g.holdNodup, halfHeld := g.halfHeld, settled := g.settled
        storeNodup := g.storeNodup, sentNodup := g.sentNodup
        halfXor := g.halfXor, halfNodup := g.halfNodup
        inSection := by
          intro q hq
          have hqp : q ≠ p := (by rcases hq with hq | hq <;> exact notP q _ hq (by decide))
          simp only [other q hqp] at hq
          exact g.inSection q hq
        writerBusy := by
          intro q hq
          have hqp : q ≠ p := by intro h; subst h; exact hw hq
          simp only [other q hqp]; exact g.writerBusy q hq
        snapped := by
          intro q hq
          have hqp : q ≠ p := notP q _ hq (by decide)
          simp only [other q hqp] at hq ⊢; exact g.snapped q hq
        gotIff := by
          intro q hq
          have hqp : q ≠ p := notP q _ hq (by decide)
          simp only [other q hqp] at hq ⊢; exact g.gotIff q hq
        snapSent := by
          intro q hq
          have hqp : q ≠ p := notP q _ hq (by decide)
          simp only [other q hqp] at hq ⊢; exact g.snapSent q hq
        snapStore := by
          intro q hq
          have hqp : q ≠ p := notP q _ hq (by decide)
          simp only [other q hqp] at hq ⊢; exact g.snapStore q hq
        gotNodup := by
          intro q hq
          have hqp : q ≠ p := notP q _ hq (by decide)
          simp only [other q hqp] at hq ⊢; exact g.gotNodup q hq
        snapNodup := by
          intro q hq
          have hqp : q ≠ p := notP q _ hq (by decide)
          simp only [other q hqp] at hq ⊢; exact g.snapNodup q hq }
    · cases h

theorem good_run_from {s s' : State} {h : List Ev} (g : Good s) (hr : run s h = some s') :
    Good s' := by
  induction h generalizing s with
  | nil => simp only [run] at hr; injection hr with hr; subst hr; exact g
  | cons e h ih =>
    simp only [run] at hr
    split at hr
    · rename_i s1 hs1; exact ih (good_step g hs1) hr
    · cases hr

/-- every reachable state satisfies the invariant -/
theorem good_run {s : State} {h : List Ev} (hr : run init h = some s) : Good s :=
  good_run_from good_init hr

theorem run_append {s : State} (h₁ h₂ : List Ev) :
    run s (h₁ ++ h₂) = (run s h₁).bind (fun s' => run s' h₂) := by
  induction h₁ generalizing s with
  | nil => simp [run]
  | cons e h ih =>
    simp only [List.cons_append, run]
    split
    · exact ih
    · simp

end Nri.Locks
