/-
Lemmas for C06: `strLt` is a strict order, the plugin list stays index-sorted under
activation, pruning and disconnects.
-/
import NriModel.Lemmas.DispatchIdx

namespace Nri.Dispatch
open Nri.Events

theorem strLt_irrefl (a : Str) : strLt a a = false := by
  induction a with
  | nil => rfl
  | cons x xs ih => simp [strLt, ih]

theorem strLt_trans : ∀ (a b c : Str), strLt a b = true → strLt b c = true → strLt a c = true
  | [], [], _, h, _ => by simp [strLt] at h
  | [], _ :: _, [], _, h => by simp [strLt] at h
  | [], _ :: _, _ :: _, _, _ => by simp [strLt]
  | _ :: _, [], _, h, _ => by simp [strLt] at h
  | _ :: _, _ :: _, [], _, h => by simp [strLt] at h
  | x :: xs, y :: ys, z :: zs, h1, h2 => by
    simp only [strLt] at h1 h2 ⊢
    by_cases hxy : x.toNat < y.toNat
    · by_cases hyz : y.toNat < z.toNat
      · have : x.toNat < z.toNat := by omega
        simp [this]
      · by_cases hzy : z.toNat < y.toNat
        · simp [hyz, hzy] at h2
        · have : x.toNat < z.toNat := by omega
          simp [this]
    · by_cases hyx : y.toNat < x.toNat
      · simp [hxy, hyx] at h1
      · simp only [hxy, hyx, if_false] at h1
        by_cases hyz : y.toNat < z.toNat
        · have : x.toNat < z.toNat := by omega
          simp [this]
        · by_cases hzy : z.toNat < y.toNat
          · simp [hyz, hzy] at h2
          · simp only [hyz, hzy, if_false] at h2
            have e1 : ¬ x.toNat < z.toNat := by omega
            have e2 : ¬ z.toNat < x.toNat := by omega
            simp only [e1, e2, if_false]
            exact strLt_trans xs ys zs h1 h2

theorem strLt_asymm (a b : Str) (h : strLt a b = true) : strLt b a = false := by
  cases hba : strLt b a with
  | false => rfl
  | true =>
    have := strLt_trans a b a h hba
    simp [strLt_irrefl] at this

/-- totality up to equality of keys: not `a < b` and not `b < a` is transitive with `<` -/
theorem strLt_of_not_lt_of_lt : ∀ (a b c : Str), strLt b a = false → strLt b c = true → strLt a c = true
  | [], [], _, _, h => h
  | [], _ :: _, [], _, h => by simp [strLt] at h
  | [], _ :: _, _ :: _, _, _ => by simp [strLt]
  | _ :: _, [], [], _, h => by simp [strLt] at h
  | _ :: _, [], _ :: _, h, _ => by simp [strLt] at h
  | _ :: _, _ :: _, [], _, h => by simp [strLt] at h
  | x :: xs, y :: ys, z :: zs, h1, h2 => by
    simp only [strLt] at h1 h2 ⊢
    by_cases hyx : y.toNat < x.toNat
    · simp [hyx] at h1
    · simp only [hyx, if_false] at h1
      by_cases hxy : x.toNat < y.toNat
      · by_cases hyz : y.toNat < z.toNat
        · have : x.toNat < z.toNat := by omega
          simp [this]
        · by_cases hzy : z.toNat < y.toNat
          · simp [hyz, hzy] at h2
          · have : x.toNat < z.toNat := by omega
            simp [this]
      · simp only [hxy, if_false] at h1
        by_cases hyz : y.toNat < z.toNat
        · have : x.toNat < z.toNat := by omega
          simp [this]
        · by_cases hzy : z.toNat < y.toNat
          · simp [hyz, hzy] at h2
          · simp only [hyz, hzy, if_false] at h2
            have e1 : ¬ x.toNat < z.toNat := by omega
            have e2 : ¬ z.toNat < x.toNat := by omega
            simp only [e1, e2, if_false]
            exact strLt_of_not_lt_of_lt xs ys zs h1 h2

theorem idxLe_trans (a b c : Plugin) (h1 : idxLe a b = true) (h2 : idxLe b c = true) : idxLe a c = true := by
  simp only [idxLe, Bool.not_eq_eq_eq_not, Bool.not_true] at *
  cases h : strLt c.idx a.idx with
  | false => rfl
  | true =>
    -- c < a and ¬ b < a give c < b?? use: ¬ (c < b) and c < a  ⇒  b < a
    have := strLt_of_not_lt_of_lt b.idx c.idx a.idx h2 h
    simp [this] at h1

theorem sortedB_iff (ps : List Plugin) : sortedB ps = true ↔ Sorted ps := by
  induction ps with
  | nil => simp [sortedB, Sorted]
  | cons p rest ih =>
    simp only [sortedB, Bool.and_eq_true, List.all_eq_true, Sorted, List.pairwise_cons]
    rw [ih]
    rfl

instance (ps : List Plugin) : Decidable (Sorted ps) := decidable_of_iff _ (sortedB_iff ps)

theorem Sorted.sublist {l₁ l₂ : List Plugin} (h : l₁.Sublist l₂) (hs : Sorted l₂) : Sorted l₁ :=
  List.Pairwise.sublist h hs

theorem Sorted.prune {ps : List Plugin} (h : Sorted ps) : Sorted (prune ps) :=
  h.sublist List.filter_sublist

/-- sortedness only looks at indices -/
theorem Sorted.of_map_idx {l₁ l₂ : List Plugin} (he : l₁.map (·.idx) = l₂.map (·.idx)) (hs : Sorted l₂) :
    Sorted l₁ := by
  induction l₁ generalizing l₂ with
  | nil => exact List.Pairwise.nil
  | cons a as ih =>
    cases l₂ with
    | nil => simp at he
    | cons b bs =>
      simp only [List.map_cons, List.cons.injEq] at he
      simp only [Sorted, List.pairwise_cons] at hs ⊢
      refine ⟨?_, ih he.2 hs.2⟩
      intro a' ha'
      have : a'.idx ∈ bs.map (·.idx) := by rw [← he.2]; exact List.mem_map_of_mem ha'
      obtain ⟨b', hb', hbi⟩ := List.mem_map.1 this
      have := hs.1 b' hb'
      simp only [idxLe] at this ⊢
      rw [← hbi, he.1]; exact this

theorem disconnect_map_idx (ps : List Plugin) (id : Nat) : (disconnect ps id).map (·.idx) = ps.map (·.idx) := by
  simp only [disconnect, List.map_map]
  apply List.map_congr_left
  intro p _
  simp only [Function.comp]
  split <;> rfl

theorem Sorted.disconnect {ps : List Plugin} (h : Sorted ps) (id : Nat) : Sorted (disconnect ps id) :=
  Sorted.of_map_idx (disconnect_map_idx ps id) h

theorem mem_insertByIdx (p q : Plugin) (ps : List Plugin) : q ∈ insertByIdx p ps ↔ q = p ∨ q ∈ ps := by
  induction ps with
  | nil => simp [insertByIdx]
  | cons r rest ih =>
    simp only [insertByIdx]
    split
    · simp
    · simp [ih, or_left_comm]

theorem insertByIdx_sorted (p : Plugin) (ps : List Plugin) (h : Sorted ps) : Sorted (insertByIdx p ps) := by
  induction ps with
  | nil => simp [insertByIdx, Sorted]
  | cons q rest ih =>
    simp only [Sorted, List.pairwise_cons] at h
    simp only [insertByIdx]
    split
    · rename_i hlt
      simp only [Sorted, List.pairwise_cons]
      refine ⟨?_, h.1, h.2⟩
      intro a ha
      rcases List.mem_cons.1 ha with rfl | ha
      · simp [idxLe, strLt_asymm _ _ hlt]
      · have hqa := h.1 a ha
        -- p < q ≤ a
        simp only [idxLe, Bool.not_eq_eq_eq_not, Bool.not_true] at hqa ⊢
        cases hap : strLt a.idx p.idx with
        | false => rfl
        | true =>
          have := strLt_trans _ _ _ hap hlt
          simp [this] at hqa
    · rename_i hnlt
      simp only [Sorted, List.pairwise_cons]
      refine ⟨?_, ih h.2⟩
      intro a ha
      rcases (mem_insertByIdx p a rest).1 ha with rfl | ha
      · simpa [idxLe] using hnlt
      · exact h.1 a ha

theorem insertByIdx_perm (p : Plugin) (ps : List Plugin) : (insertByIdx p ps).Perm (ps ++ [p]) := by
  induction ps with
  | nil => simp [insertByIdx]
  | cons q rest ih =>
    simp only [insertByIdx]
    split
    · -- p :: q :: rest ~ q :: rest ++ [p]
      have : (p :: (q :: rest)).Perm ((q :: rest) ++ [p]) := by
        simpa using (List.perm_append_singleton p (q :: rest)).symm
      exact this
    · simpa using List.Perm.cons q ih

/-- the executable `activate` is one of the arrangements `sortPlugins` may produce -/
theorem activate_isActivation (ps : List Plugin) (p : Plugin) (h : Sorted ps) :
    IsActivation ps p (activate ps p) :=
  ⟨insertByIdx_perm p (prune ps), insertByIdx_sorted p _ h.prune⟩

theorem isActivation_iff (ps : List Plugin) (p : Plugin) (ps' : List Plugin) :
    isActivation ps p ps' = true ↔ IsActivation ps p ps' := by
  simp only [isActivation, Bool.and_eq_true, List.isPerm_iff, sortedB_iff, IsActivation]

end Nri.Dispatch
