/-
Refinement of the state-free update walk (`Nri.UpdateWalk.walk`, the specification side of
the value clauses of C05 and C04) by the result.go model: facts about `claimedPrefix`, what one
`simUpdate` step does to `taken` and to the resources per target, and the exact ledger reached
by `claimAllPartial` (the claimed items are the walk's claimed prefix: those before the first
owned or repeated one). Core Lean only.
-/
import NriModel.UpdateWalk
import NriModel.Lemmas.ResultAbs

namespace Nri.UpdateWalk
open Nri.NApi Nri.Result Nri.Ledger

/-! ### `claimedPrefix` -/

theorem claimedPrefix_length_le (c : Cid) (its : List Item) :
    ∀ T, (claimedPrefix T c its).length ≤ its.length := by
  induction its with
  | nil => intro T; simp [claimedPrefix]
  | cons x rest ih =>
    intro T
    simp only [claimedPrefix]
    split
    · simp
    · simp only [List.length_cons]; have := ih ((c, x) :: T); omega

/-- a claimed prefix as long as the list is the list -/
theorem claimedPrefix_eq_self_of_length (c : Cid) (its : List Item) :
    ∀ T, (claimedPrefix T c its).length = its.length → claimedPrefix T c its = its := by
  induction its with
  | nil => intro T _; rfl
  | cons x rest ih =>
    intro T h
    simp only [claimedPrefix] at h ⊢
    split at h
    · simp at h
    · rename_i hx
      simp only [hx, Bool.false_eq_true, ↓reduceIte]
      simp only [List.length_cons, Nat.add_right_cancel_iff] at h
      rw [ih _ h]

/-- no claimed item was taken before -/
theorem claimedPrefix_not_taken (c : Cid) (its : List Item) :
    ∀ T, ∀ it ∈ claimedPrefix T c its, (c, it) ∉ T := by
  induction its with
  | nil => intro T it h; simp [claimedPrefix] at h
  | cons x rest ih =>
    intro T it h
    simp only [claimedPrefix] at h
    split at h
    · cases h
    · rename_i hx
      rcases List.mem_cons.1 h with rfl | h
      · simpa using hx
      · intro hm
        exact ih _ it h (List.mem_cons_of_mem _ hm)

/-- the claimed items are pairwise distinct -/
theorem claimedPrefix_nodup (c : Cid) (its : List Item) : ∀ T, (claimedPrefix T c its).Nodup := by
  induction its with
  | nil => intro T; simp [claimedPrefix]
  | cons x rest ih =>
    intro T
    simp only [claimedPrefix]
    split
    · exact List.nodup_nil
    · refine List.nodup_cons.2 ⟨?_, ih _⟩
      intro hm
      exact claimedPrefix_not_taken c rest _ x hm List.mem_cons_self

/-! ### `Sim.get` / `Sim.put` -/

theorem get_put (base : Cid → Resources) (s : Sim) (c c' : Cid) (r : Resources) :
    (s.put c r).get base c' = if c' = c then r else s.get base c' := by
  unfold Sim.put
  split
  · rename_i hany
    unfold Sim.get
    simp only [List.find?_map]
    by_cases hc : c' = c
    · subst hc
      simp only [↓reduceIte]
      have : ∀ l : List (Cid × Resources), (l.any fun x => decide (x.1 = c')) = true →
          Option.map (fun x => if x.1 = c' then (c', r) else x)
            (List.find? ((fun x => decide (x.1 = c')) ∘ fun x => if x.1 = c' then (c', r) else x) l) = some (c', r) := by
        intro l
        induction l with
        | nil => simp
        | cons x rest ih =>
          intro h
          by_cases hx : x.1 = c'
          · simp [hx]
          · simp only [List.any_cons, hx, decide_false, Bool.false_or] at h
            simp [hx, ih h]
      rw [this _ hany]
    · simp only [hc, ↓reduceIte]
      have : ∀ l : List (Cid × Resources),
          Option.map (fun x => if x.1 = c then (c, r) else x)
            (List.find? ((fun x => decide (x.1 = c')) ∘ fun x => if x.1 = c then (c, r) else x) l) =
          List.find? (fun x => decide (x.1 = c')) l := by
        intro l
        induction l with
        | nil => simp
        | cons x rest ih =>
          by_cases hx : x.1 = c
          · have hx' : ¬ x.1 = c' := fun h => hc (h.symm.trans hx)
            have hcc : ¬ c = c' := fun h => hc h.symm
            simp [hx, hcc, ih]
          · by_cases hx' : x.1 = c'
            · simp [hx', hc]
            · simp [hx, hx', ih]
      rw [this]
  · rename_i hany
    unfold Sim.get
    simp only [List.find?_append]
    by_cases hc : c' = c
    · subst hc
      have : List.find? (fun x => decide (x.1 = c')) s.res = none := by
        rw [List.find?_eq_none]
        intro x hx hd
        apply hany
        simp only [List.any_eq_true]
        exact ⟨x, hx, hd⟩
      simp [this]
    · have hcc : ¬ c = c' := fun h => hc h.symm
      simp only [hc, ↓reduceIte]
      cases List.find? (fun x => decide (x.1 = c')) s.res with
      | none => simp [hcc]
      | some x => simp

theorem taken_put (s : Sim) (c : Cid) (r : Resources) : (s.put c r).taken = s.taken := by
  unfold Sim.put; split <;> rfl

/-- the state after the "first mention" step of `simUpdate` -/
def ensure (base : Cid → Resources) (s : Sim) (c : Cid) : Sim :=
  if s.res.any (fun x => x.1 = c) then s else s.put c (base c)

theorem ensure_taken (base s c) : (ensure base s c).taken = s.taken := by
  unfold ensure; split
  · rfl
  · exact taken_put _ _ _

theorem ensure_get (base : Cid → Resources) (s : Sim) (c c' : Cid) :
    (ensure base s c).get base c' = s.get base c' := by
  unfold ensure
  split
  · rfl
  · rename_i hany
    rw [get_put]
    split
    · rename_i hc
      subst hc
      unfold Sim.get
      have : List.find? (fun x => decide (x.1 = c')) s.res = none := by
        rw [List.find?_eq_none]
        intro x hx hd
        apply hany
        simp only [List.any_eq_true]
        exact ⟨x, hx, hd⟩
      rw [this]
    · rfl

/-! ### one step of the walk -/

/-- the items of `u` before the first taken or repeated one -/
def freeOf (s : Sim) (u : Update) : List Item := claimedPrefix s.taken u.containerId (setsUpd u)

/-- the walk overlays `u` on its target -/
def applies (s : Sim) (u : Update) : Bool :=
  match u.resources with
  | none => false
  | some _ => (freeOf s u).length == (setsUpd u).length

theorem applies_some (s : Sim) (u : Update) (h : applies s u = true) :
    ∃ r, u.resources = some r ∧ freeOf s u = setsUpd u := by
  unfold applies at h
  cases hr : u.resources with
  | none => rw [hr] at h; cases h
  | some r =>
    rw [hr] at h
    simp only [beq_iff_eq] at h
    exact ⟨r, rfl, claimedPrefix_eq_self_of_length _ _ _ h⟩

theorem applies_nodup (s : Sim) (u : Update) (h : applies s u = true) : (setsUpd u).Nodup := by
  obtain ⟨_, _, hfree⟩ := applies_some s u h
  rw [← hfree]
  exact claimedPrefix_nodup _ _ _

theorem simUpdate_none (base s) (u : Update) (h : u.resources = none) :
    simUpdate base s u = ensure base s u.containerId := by
  unfold simUpdate ensure
  simp only [h]

theorem simUpdate_some (base s) (u : Update) (r : Resources) (h : u.resources = some r) :
    simUpdate base s u =
      if applies s u then
        { ((ensure base s u.containerId).put u.containerId
              (overlayRes ((ensure base s u.containerId).get base u.containerId) r r.pids)) with
          taken := s.taken ++ (setsUpd u).map fun it => (u.containerId, it) }
      else { ensure base s u.containerId with
          taken := s.taken ++ (freeOf s u).map fun it => (u.containerId, it) } := by
  unfold simUpdate applies freeOf
  simp only [h]
  unfold ensure
  split
  · rfl
  · simp only [taken_put]

theorem freeOf_none (s) (u : Update) (h : u.resources = none) : freeOf s u = [] := by
  unfold freeOf setsUpd; simp [h, claimedPrefix]

/-- what a step does to `taken`: the claimed prefix is added -/
theorem simUpdate_taken (base s) (u : Update) (c : Cid) (it : Item) :
    (c, it) ∈ (simUpdate base s u).taken ↔ (c, it) ∈ s.taken ∨ (c = u.containerId ∧ it ∈ freeOf s u) := by
  have key : ∀ l : List Item, (c, it) ∈ s.taken ++ l.map (fun it => (u.containerId, it)) ↔
      (c, it) ∈ s.taken ∨ (c = u.containerId ∧ it ∈ l) := by
    intro l
    simp only [List.mem_append, List.mem_map, Prod.mk.injEq]
    constructor
    · rintro (h | ⟨x, hx, rfl, rfl⟩)
      · exact .inl h
      · exact .inr ⟨rfl, hx⟩
    · rintro (h | ⟨rfl, hx⟩)
      · exact .inl h
      · exact .inr ⟨it, hx, rfl, rfl⟩
  cases hr : u.resources with
  | none =>
    rw [simUpdate_none base s u hr, ensure_taken, freeOf_none s u hr]
    simp
  | some r =>
    rw [simUpdate_some base s u r hr]
    split
    · rename_i happ
      obtain ⟨_, _, hfree⟩ := applies_some s u happ
      rw [hfree]
      exact key _
    · exact key _

theorem simUpdate_get (base : Cid → Resources) (s : Sim) (u : Update) (c : Cid) :
    (simUpdate base s u).get base c =
      match u.resources with
      | some r => if applies s u = true ∧ c = u.containerId then overlayRes (s.get base c) r r.pids else s.get base c
      | none => s.get base c := by
  cases hr : u.resources with
  | none => simp only [simUpdate_none base s u hr, ensure_get]
  | some r =>
    simp only [simUpdate_some base s u r hr]
    split
    · rename_i happ
      show (Sim.put _ _ _).get base c = _
      rw [get_put]
      simp only [happ, true_and, ensure_get]
      split
      · rename_i hc; subst hc; rfl
      · rfl
    · rename_i happ
      show (ensure base s u.containerId).get base c = _
      simp only [happ, Bool.false_eq_true, false_and, ↓reduceIte, ensure_get]

end Nri.UpdateWalk

namespace Nri.Result
open Nri.NApi Nri.Ledger Nri.UpdateWalk

/-! ### the ledger reached by `claimAllPartial` -/

/-- a successful `claimAll` named no item twice -/
theorem claimAll_ok_nodup (c : Cid) (p : Plugin) (o o' : Owners) (its : List Item)
    (h : claimAll c p o its = .ok o') : its.Nodup := by
  induction its generalizing o with
  | nil => exact List.nodup_nil
  | cons x rest ih =>
    simp only [claimAll] at h
    cases hc : claim o c x p with
    | error e => rw [hc] at h; cases h
    | ok o1 =>
      rw [hc] at h
      obtain ⟨_, rfl⟩ := (claim_ok_iff o o1 c x p).1 hc
      have h' : claimAll c p (AList.insert o (c, x) p) rest = .ok o' := h
      refine List.nodup_cons.2 ⟨?_, ih _ h'⟩
      intro hx
      obtain ⟨e, he⟩ := claimAll_fails_of_owned c p _ rest x p (owner_insert_self o c x p) hx
      rw [he] at h'; cases h'

/-- `claimAllPartial` claims exactly the walk's claimed prefix — the items before the first one
    that has an owner or was named earlier in the list — and reports no error exactly when
    that is all of them; for any taken-set `T` that agrees with the ledger on the target. -/
theorem claimAllPartial_spec (c : Cid) (p : Plugin) (its : List Item) :
    ∀ (o : Owners) (T : List (Cid × Item)), (∀ it, (c, it) ∈ T ↔ (o.owner c it).isSome = true) →
      (((claimAllPartial c p o its).2 = none ↔ (claimedPrefix T c its).length = its.length) ∧
       ∀ c' it', ((claimAllPartial c p o its).1.owner c' it').isSome = true ↔
          ((o.owner c' it').isSome = true ∨ (c' = c ∧ it' ∈ claimedPrefix T c its))) := by
  induction its with
  | nil => intro o T _; simp [claimAllPartial, claimedPrefix]
  | cons x rest ih =>
    intro o T hT
    cases ho : o.owner c x with
    | some q =>
      have hc : claim o c x p = .error (.conflict c x p q) := by unfold claim; rw [ho]
      have hx : T.contains (c, x) = true := by
        simp only [List.contains_eq_mem, decide_eq_true_eq]
        exact (hT x).2 (by rw [ho]; rfl)
      simp only [claimAllPartial, hc, claimedPrefix, hx, ↓reduceIte, List.length_nil, List.length_cons,
        List.not_mem_nil, and_false, or_false]
      exact ⟨⟨fun h => (by cases h), fun h => (by omega)⟩, fun _ _ => trivial⟩
    | none =>
      have hc : claim o c x p = .ok (AList.insert o (c, x) p) := (claim_ok_iff _ _ _ _ _).2 ⟨ho, rfl⟩
      have hx : T.contains (c, x) = false := by
        cases hcx : T.contains (c, x) with
        | false => rfl
        | true =>
          simp only [List.contains_eq_mem, decide_eq_true_eq] at hcx
          have := (hT x).1 hcx
          rw [ho] at this; cases this
      have hT1 : ∀ it, (c, it) ∈ (c, x) :: T ↔ (Owners.owner (AList.insert o (c, x) p) c it).isSome = true := by
        intro it
        by_cases heq : x = it
        · subst heq
          rw [owner_insert_self]
          simp
        · have hne : (c, x) ≠ (c, it) := by intro h; cases h; exact heq rfl
          rw [owner_insert_other o c c x it p hne, ← hT it]
          simp only [List.mem_cons, Prod.mk.injEq, true_and]
          constructor
          · rintro (h | h)
            · exact absurd h.symm heq
            · exact h
          · exact fun h => .inr h
      obtain ⟨ih1, ih2⟩ := ih (AList.insert o (c, x) p) ((c, x) :: T) hT1
      simp only [claimAllPartial, hc, claimedPrefix, hx, Bool.false_eq_true, ↓reduceIte, List.length_cons,
        Nat.add_right_cancel_iff, List.mem_cons]
      refine ⟨ih1, fun c' it' => ?_⟩
      rw [ih2 c' it']
      by_cases heq : (c, x) = (c', it')
      · cases heq
        rw [owner_insert_self]
        simp
      · rw [owner_insert_other o c c' x it' p heq]
        constructor
        · rintro (h | ⟨h1, h2⟩)
          · exact .inl h
          · exact .inr ⟨h1, .inr h2⟩
        · rintro (h | ⟨h1, (h2 | h2)⟩)
          · exact .inl h
          · subst h1; subst h2; exact absurd rfl heq
          · exact .inr ⟨h1, h2⟩

end Nri.Result
