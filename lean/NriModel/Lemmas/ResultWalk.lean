/-
Refinement of the state-free update walk (`Nri.UpdateWalk.walk`, the specification side of
the value clauses of C05 and C04) by the result.go model: list helpers, what one `simUpdate`
step does to `taken` and to the resources per target, and the exact ledger reached by
`claimAllPartial` (the claimed items are the prefix before the first owned one).
Core Lean only.
-/
import NriModel.UpdateWalk
import NriModel.Lemmas.ResultAbs

namespace Nri.UpdateWalk
open Nri.NApi Nri.Result Nri.Ledger

/-! ### list helpers -/

theorem eraseDups_of_nodup {α : Type} [BEq α] [LawfulBEq α] (l : List α) (h : l.Nodup) :
    l.eraseDups = l := by
  induction l with
  | nil => rfl
  | cons a rest ih =>
    obtain ⟨ha, hr⟩ := List.nodup_cons.1 h
    rw [List.eraseDups_cons]
    have : rest.filter (fun b => !b == a) = rest := by
      apply List.filter_eq_self.2
      intro b hb
      cases hba : b == a with
      | false => rfl
      | true => exact absurd (by rw [← eq_of_beq hba]; exact hb) ha
    rw [this, ih hr]

theorem eraseDups_length_le {α : Type} [BEq α] [LawfulBEq α] : ∀ (n : Nat) (l : List α), l.length ≤ n → l.eraseDups.length ≤ l.length := by
  intro n
  induction n with
  | zero => intro l h; cases l with
    | nil => simp
    | cons a as => simp at h
  | succ n ih =>
    intro l h
    cases l with
    | nil => simp
    | cons a as =>
      rw [List.eraseDups_cons]
      simp only [List.length_cons] at h ⊢
      have h1 : (as.filter fun b => !b == a).length ≤ as.length := List.length_filter_le _ _
      have h2 := ih (as.filter fun b => !b == a) (by omega)
      omega

theorem nodup_of_eraseDups_length_aux {α : Type} [BEq α] [LawfulBEq α] : ∀ (n : Nat) (l : List α), l.length ≤ n →
    l.eraseDups.length = l.length → l.Nodup := by
  intro n
  induction n with
  | zero => intro l h _; cases l with
    | nil => exact List.nodup_nil
    | cons a as => simp at h
  | succ n ih =>
    intro l h heq
    cases l with
    | nil => exact List.nodup_nil
    | cons a as =>
      rw [List.eraseDups_cons] at heq
      simp only [List.length_cons] at h heq
      have h1 : (as.filter fun b => !b == a).length ≤ as.length := List.length_filter_le _ _
      have h2 := eraseDups_length_le _ (as.filter fun b => !b == a) (Nat.le_refl _)
      have hfl : (as.filter fun b => !b == a).length = as.length := by omega
      have hall := List.length_filter_eq_length_iff.1 hfl
      have hf : as.filter (fun b => !b == a) = as := List.filter_eq_self.2 hall
      rw [hf] at heq
      refine List.nodup_cons.2 ⟨?_, ih as (by omega) (by omega)⟩
      intro ha
      have := hall a ha
      simp at this

theorem nodup_of_eraseDups_length {α : Type} [BEq α] [LawfulBEq α] (l : List α)
    (h : l.eraseDups.length = l.length) : l.Nodup :=
  nodup_of_eraseDups_length_aux l.length l (Nat.le_refl _) h

theorem takeWhile_congr_mem {α : Type} (p q : α → Bool) (l : List α) (h : ∀ x ∈ l, p x = q x) :
    l.takeWhile p = l.takeWhile q := by
  induction l with
  | nil => rfl
  | cons a rest ih =>
    simp only [List.takeWhile_cons, h a List.mem_cons_self]
    rw [ih (fun x hx => h x (List.mem_cons_of_mem _ hx))]

theorem takeWhile_length_eq_iff {α : Type} (p : α → Bool) (l : List α) :
    (l.takeWhile p).length = l.length ↔ ∀ x ∈ l, p x = true := by
  induction l with
  | nil => simp
  | cons a rest ih =>
    simp only [List.takeWhile_cons]
    cases hp : p a with
    | true =>
      simp only [↓reduceIte, List.length_cons, Nat.add_right_cancel_iff, ih, List.mem_cons, forall_eq_or_imp, hp, true_and]
    | false =>
      simp only [Bool.false_eq_true, ↓reduceIte, List.length_nil, List.length_cons, List.mem_cons, forall_eq_or_imp, hp, false_and, iff_false]
      omega

theorem takeWhile_eq_self_of_length {α : Type} (p : α → Bool) (l : List α)
    (h : (l.takeWhile p).length = l.length) : l.takeWhile p = l := by
  induction l with
  | nil => rfl
  | cons a rest ih =>
    simp only [List.takeWhile_cons] at h ⊢
    cases hp : p a with
    | true =>
      rw [hp] at h
      simp only [↓reduceIte, List.length_cons, Nat.add_right_cancel_iff] at h
      simp only [↓reduceIte, ih h]
    | false => rw [hp] at h; simp at h

/-! ### `Sim.get` / `Sim.put` -/

theorem get_put (base : Cid → Resources) (s : Sim) (c c' : Cid) (r : Resources) :
    (s.put c r).get base c' = if c' = c then r else s.get base c' := by
  unfold Sim.put
  split
  · rename_i hany
    unfold Sim.get
    simp only [List.find?_map]
    by_cases hc : c' = c
    · subst hc
      simp only [↓reduceIte]
      have : ∀ l : List (Cid × Resources), (l.any fun x => decide (x.1 = c')) = true →
          Option.map (fun x => if x.1 = c' then (c', r) else x)
            (List.find? ((fun x => decide (x.1 = c')) ∘ fun x => if x.1 = c' then (c', r) else x) l) = some (c', r) := by
        intro l
        induction l with
        | nil => simp
        | cons x rest ih =>
          intro h
          by_cases hx : x.1 = c'
          · simp [hx]
          · simp only [List.any_cons, hx, decide_false, Bool.false_or] at h
            simp [hx, ih h]
      rw [this _ hany]
    · simp only [hc, ↓reduceIte]
      have : ∀ l : List (Cid × Resources),
          Option.map (fun x => if x.1 = c then (c, r) else x)
            (List.find? ((fun x => decide (x.1 = c')) ∘ fun x => if x.1 = c then (c, r) else x) l) =
          List.find? (fun x => decide (x.1 = c')) l := by
        intro l
        induction l with
        | nil => simp
        | cons x rest ih =>
          by_cases hx : x.1 = c
          · have hx' : ¬ x.1 = c' := fun h => hc (h.symm.trans hx)
            have hcc : ¬ c = c' := fun h => hc h.symm
            simp [hx, hcc, ih]
          · by_cases hx' : x.1 = c'
            · simp [hx', hc]
            · simp [hx, hx', ih]
      rw [this]
  · rename_i hany
    unfold Sim.get
    simp only [List.find?_append]
    by_cases hc : c' = c
    · subst hc
      have : List.find? (fun x => decide (x.1 = c')) s.res = none := by
        rw [List.find?_eq_none]
        intro x hx hd
        apply hany
        simp only [List.any_eq_true]
        exact ⟨x, hx, hd⟩
      simp [this]
    · have hcc : ¬ c = c' := fun h => hc h.symm
      simp only [hc, ↓reduceIte]
      cases List.find? (fun x => decide (x.1 = c')) s.res with
      | none => simp [hcc]
      | some x => simp

theorem taken_put (s : Sim) (c : Cid) (r : Resources) : (s.put c r).taken = s.taken := by
  unfold Sim.put; split <;> rfl

/-- the state after the "first mention" step of `simUpdate` -/
def ensure (base : Cid → Resources) (s : Sim) (c : Cid) : Sim :=
  if s.res.any (fun x => x.1 = c) then s else s.put c (base c)

theorem ensure_taken (base s c) : (ensure base s c).taken = s.taken := by
  unfold ensure; split
  · rfl
  · exact taken_put _ _ _

theorem ensure_get (base : Cid → Resources) (s : Sim) (c c' : Cid) :
    (ensure base s c).get base c' = s.get base c' := by
  unfold ensure
  split
  · rfl
  · rename_i hany
    rw [get_put]
    split
    · rename_i hc
      subst hc
      unfold Sim.get
      have : List.find? (fun x => decide (x.1 = c')) s.res = none := by
        rw [List.find?_eq_none]
        intro x hx hd
        apply hany
        simp only [List.any_eq_true]
        exact ⟨x, hx, hd⟩
      rw [this]
    · rfl

/-! ### one step of the walk -/

/-- the items of `u` before the first taken one -/
def freeOf (s : Sim) (u : Update) : List Item :=
  (setsUpd u).takeWhile fun it => !(s.taken.contains (u.containerId, it))

/-- the walk overlays `u` on its target -/
def applies (s : Sim) (u : Update) : Bool :=
  match u.resources with
  | none => false
  | some _ => (freeOf s u).length == (setsUpd u).length && (setsUpd u).eraseDups.length == (setsUpd u).length

theorem applies_nodup (s : Sim) (u : Update) (h : applies s u = true) : (setsUpd u).Nodup := by
  unfold applies at h
  cases hr : u.resources with
  | none => rw [hr] at h; cases h
  | some r =>
    rw [hr] at h
    simp only [Bool.and_eq_true, beq_iff_eq] at h
    exact nodup_of_eraseDups_length _ h.2

theorem simUpdate_none (base s) (u : Update) (h : u.resources = none) :
    simUpdate base s u = ensure base s u.containerId := by
  unfold simUpdate ensure
  simp only [h]

theorem simUpdate_some (base s) (u : Update) (r : Resources) (h : u.resources = some r) :
    simUpdate base s u =
      if applies s u then
        { ((ensure base s u.containerId).put u.containerId
              (overlayRes ((ensure base s u.containerId).get base u.containerId) r r.pids)) with
          taken := s.taken ++ (setsUpd u).map fun it => (u.containerId, it) }
      else { ensure base s u.containerId with
          taken := s.taken ++ (freeOf s u).eraseDups.map fun it => (u.containerId, it) } := by
  unfold simUpdate applies freeOf
  simp only [h]
  unfold ensure
  split
  · rfl
  · simp only [taken_put]

theorem freeOf_none (s) (u : Update) (h : u.resources = none) : freeOf s u = [] := by
  unfold freeOf setsUpd; simp [h]

/-- what a step does to `taken`: the items before the first taken one are added -/
theorem simUpdate_taken (base s) (u : Update) (c : Cid) (it : Item) :
    (c, it) ∈ (simUpdate base s u).taken ↔ (c, it) ∈ s.taken ∨ (c = u.containerId ∧ it ∈ freeOf s u) := by
  cases hr : u.resources with
  | none =>
    rw [simUpdate_none base s u hr, ensure_taken, freeOf_none s u hr]
    simp
  | some r =>
    rw [simUpdate_some base s u r hr]
    split
    · rename_i happ
      have hlen : (freeOf s u).length = (setsUpd u).length := by
        unfold applies at happ
        simp only [hr, Bool.and_eq_true, beq_iff_eq] at happ
        exact happ.1
      have hfree : freeOf s u = setsUpd u := takeWhile_eq_self_of_length _ _ hlen
      simp only [List.mem_append, List.mem_map, Prod.mk.injEq, hfree]
      constructor
      · rintro (h | ⟨x, hx, rfl, rfl⟩)
        · exact .inl h
        · exact .inr ⟨rfl, hx⟩
      · rintro (h | ⟨rfl, hx⟩)
        · exact .inl h
        · exact .inr ⟨it, hx, rfl, rfl⟩
    · simp only [List.mem_append, List.mem_map, Prod.mk.injEq, List.mem_eraseDups]
      constructor
      · rintro (h | ⟨x, hx, rfl, rfl⟩)
        · exact .inl h
        · exact .inr ⟨rfl, hx⟩
      · rintro (h | ⟨rfl, hx⟩)
        · exact .inl h
        · exact .inr ⟨it, hx, rfl, rfl⟩

/-- what a step does to the resources: an applied update is overlaid on its target -/
theorem simUpdate_get (base : Cid → Resources) (s : Sim) (u : Update) (c : Cid) :
    (simUpdate base s u).get base c =
      match u.resources with
      | some r => if applies s u = true ∧ c = u.containerId then overlayRes (s.get base c) r r.pids else s.get base c
      | none => s.get base c := by
  cases hr : u.resources with
  | none => simp only [simUpdate_none base s u hr, ensure_get]
  | some r =>
    simp only [simUpdate_some base s u r hr]
    split
    · rename_i happ
      show (Sim.put _ _ _).get base c = _
      rw [get_put]
      simp only [happ, true_and, ensure_get]
      split
      · rename_i hc; subst hc; rfl
      · rfl
    · rename_i happ
      show (ensure base s u.containerId).get base c = _
      simp only [happ, Bool.false_eq_true, false_and, ↓reduceIte, ensure_get]

end Nri.UpdateWalk

namespace Nri.Result
open Nri.NApi Nri.Ledger

/-! ### the ledger reached by `claimAllPartial` -/

/-- a successful `claimAll` named no item twice -/
theorem claimAll_ok_nodup (c : Cid) (p : Plugin) (o o' : Owners) (its : List Item)
    (h : claimAll c p o its = .ok o') : its.Nodup := by
  induction its generalizing o with
  | nil => exact List.nodup_nil
  | cons x rest ih =>
    simp only [claimAll] at h
    cases hc : claim o c x p with
    | error e => rw [hc] at h; cases h
    | ok o1 =>
      rw [hc] at h
      obtain ⟨_, rfl⟩ := (claim_ok_iff o o1 c x p).1 hc
      have h' : claimAll c p (AList.insert o (c, x) p) rest = .ok o' := h
      refine List.nodup_cons.2 ⟨?_, ih _ h'⟩
      intro hx
      obtain ⟨e, he⟩ := claimAll_fails_of_owned c p _ rest x p (owner_insert_self o c x p) hx
      rw [he] at h'; cases h'

/-- With distinct items, `claimAllPartial` claims exactly the items before the first owned one,
    and reports no error exactly when that is all of them. -/
theorem claimAllPartial_spec (c : Cid) (p : Plugin) (its : List Item) :
    ∀ (o : Owners), its.Nodup →
      (((claimAllPartial c p o its).2 = none ↔
          (its.takeWhile fun it => (o.owner c it).isNone).length = its.length) ∧
       ∀ c' it', ((claimAllPartial c p o its).1.owner c' it').isSome = true ↔
          ((o.owner c' it').isSome = true ∨ (c' = c ∧ it' ∈ its.takeWhile fun it => (o.owner c it).isNone))) := by
  induction its with
  | nil => intro o _; simp [claimAllPartial]
  | cons x rest ih =>
    intro o hnd
    obtain ⟨hx, hr⟩ := List.nodup_cons.1 hnd
    cases ho : o.owner c x with
    | some q =>
      have hc : claim o c x p = .error (.conflict c x p q) := by unfold claim; rw [ho]
      simp only [claimAllPartial, hc, List.takeWhile_cons, ho, Option.isNone_some, Bool.false_eq_true, ↓reduceIte,
        List.length_nil, List.length_cons, List.not_mem_nil, and_false, or_false]
      exact ⟨⟨fun h => (by cases h), fun h => (by omega)⟩, fun _ _ => trivial⟩
    | none =>
      have hc : claim o c x p = .ok (AList.insert o (c, x) p) := (claim_ok_iff _ _ _ _ _).2 ⟨ho, rfl⟩
      have hcongr : (rest.takeWhile fun it => (Owners.owner (AList.insert o (c, x) p) c it).isNone) =
          rest.takeWhile fun it => (o.owner c it).isNone := by
        apply Nri.UpdateWalk.takeWhile_congr_mem
        intro it hit
        have hne : (c, x) ≠ (c, it) := by
          intro h; cases h; exact hx hit
        rw [owner_insert_other o c c x it p hne]
      obtain ⟨ih1, ih2⟩ := ih (AList.insert o (c, x) p) hr
      rw [hcongr] at ih1 ih2
      simp only [claimAllPartial, hc, List.takeWhile_cons, ho, Option.isNone_none, ↓reduceIte, List.length_cons,
        Nat.add_right_cancel_iff, List.mem_cons]
      refine ⟨ih1, fun c' it' => ?_⟩
      rw [ih2 c' it']
      by_cases heq : (c, x) = (c', it')
      · cases heq
        rw [owner_insert_self]
        simp
      · rw [owner_insert_other o c c' x it' p heq]
        constructor
        · rintro (h | ⟨h1, h2⟩)
          · exact .inl h
          · exact .inr ⟨h1, .inr h2⟩
        · rintro (h | ⟨h1, (h2 | h2)⟩)
          · exact .inl h
          · subst h1; subst h2; exact absurd rfl heq
          · exact .inr ⟨h1, h2⟩

end Nri.Result
