/-
C03, the append-only and scalar families: hooks, rlimits, CDI names, cgroups path, OOM score,
args, CPU fields, memory limit, pids, hugepages, unified (as a map), block-I/O / RDT class.

For each family: the generator's step `…G` as a function of the spec field and the (NRI-side)
adjustment, the "effective request" `…Of` an adjustment makes, and the step lemma
`…G x (replyStep R a) = …G (…G x R) a`.
Core Lean only.
-/
import NriModel.Lemmas.ComposeSeq

namespace Nri.Compose
open Nri Nri.Generate

/-! ### accessors of `toGen` -/

@[simp] theorem toGen_annotations (a : NApi.Adjustment) : (toGen a).annotations = a.annotations := rfl
@[simp] theorem toGen_mounts (a : NApi.Adjustment) : (toGen a).mounts = a.mounts.map toGenMount := rfl
@[simp] theorem toGen_env (a : NApi.Adjustment) : (toGen a).env = a.env.map toGenKV := rfl
@[simp] theorem toGen_hooks (a : NApi.Adjustment) : (toGen a).hooks = a.hooks.map toGenHooks := rfl
@[simp] theorem toGen_rlimits (a : NApi.Adjustment) : (toGen a).rlimits = a.rlimits.map toGenRlimit := rfl
@[simp] theorem toGen_cdi (a : NApi.Adjustment) : (toGen a).cdiDevices = a.cdiDevices := rfl
@[simp] theorem toGen_args (a : NApi.Adjustment) : (toGen a).args = a.args := rfl

theorem toGen_linuxDevices (a : NApi.Adjustment) :
    (toGen a).linuxDevices = if a.hasLinux then a.devices.map toGenDevice else [] := by
  unfold Api.Adjustment.linuxDevices toGen; cases a.hasLinux <;> rfl

theorem toGen_cgroupsPath (a : NApi.Adjustment) :
    (toGen a).cgroupsPath = if a.hasLinux then a.cgroupsPath else [] := by
  unfold Api.Adjustment.cgroupsPath toGen; cases a.hasLinux <;> rfl

theorem toGen_oomScoreAdj (a : NApi.Adjustment) :
    (toGen a).oomScoreAdj = if a.hasLinux then a.oomScoreAdj else none := by
  unfold Api.Adjustment.oomScoreAdj toGen; cases a.hasLinux <;> rfl

theorem toGen_resources (a : NApi.Adjustment) :
    (toGen a).resources = if a.hasLinux then a.resources.map toGenResources else none := by
  unfold Api.Adjustment.resources toGen; cases a.hasLinux <;> rfl

/-! ### effective requests -/

/-- the resources section an adjustment effectively carries -/
def resOf (a : NApi.Adjustment) : Option NApi.Resources := if a.hasLinux then a.resources else none

def cpuOf (a : NApi.Adjustment) : NApi.Cpu := ((resOf a).bind (·.cpu)).getD {}
def limitOf (a : NApi.Adjustment) : Option Int := ((resOf a).bind (·.memory)).bind (·.limit)
def pidsOf (a : NApi.Adjustment) : Option Int := (resOf a).bind (·.pids)
def hugeOf (a : NApi.Adjustment) : List NApi.Hugepage := ((resOf a).map (·.hugepages)).getD []
def uniOf (a : NApi.Adjustment) : AList Str Str := ((resOf a).map (·.unified)).getD []
def blockioOf (a : NApi.Adjustment) : Option Str := (resOf a).bind (·.blockioClass)
def rdtOf (a : NApi.Adjustment) : Option Str := (resOf a).bind (·.rdtClass)

theorem resOf_step (R a : NApi.Adjustment) (hR : R.hasLinux = true) :
    resOf (replyStep R a) = resStep (resOf R) (resOf a) := by
  unfold resOf replyStep
  simp only [hR, if_true]
  cases a.hasLinux <;> simp [resStep]

theorem cpuOf_step (R a : NApi.Adjustment) (hR : R.hasLinux = true) :
    cpuOf (replyStep R a) = Result.overlayCpu (cpuOf R) (cpuOf a) := by
  unfold cpuOf
  rw [resOf_step R a hR]
  cases hr : resOf a with
  | none =>
    simp only [resStep, Option.bind_none, Option.getD_none]
    simp [Result.overlayCpu, Option.orElse]
  | some r =>
    cases hb : resOf R with
    | none =>
      cases hc : r.cpu <;>
        simp [resStep, Result.overlayRes, Result.normRes, hc, Result.overlayCpu, Option.orElse]
    | some b =>
      cases hc : r.cpu <;>
        simp [resStep, Result.overlayRes, hc, Result.overlayCpu, Option.orElse]

theorem limitOf_step (R a : NApi.Adjustment) (hR : R.hasLinux = true) :
    limitOf (replyStep R a) = (limitOf a).orElse (fun _ => limitOf R) := by
  unfold limitOf
  rw [resOf_step R a hR]
  cases hr : resOf a with
  | none => simp [resStep, Option.orElse]
  | some r =>
    cases hb : resOf R with
    | none =>
      cases hc : r.memory <;>
        simp [resStep, Result.overlayRes, Result.normRes, hc, Result.overlayMem, Option.orElse]
    | some b =>
      cases hc : r.memory <;> cases hbm : b.memory <;>
        simp [resStep, Result.overlayRes, hc, hbm, Result.overlayMem, Option.orElse]

theorem pidsOf_step (R a : NApi.Adjustment) (hR : R.hasLinux = true) :
    pidsOf (replyStep R a) = (pidsOf a).orElse (fun _ => pidsOf R) := by
  unfold pidsOf
  rw [resOf_step R a hR]
  cases hr : resOf a with
  | none => simp [resStep, Option.orElse]
  | some r =>
    cases hb : resOf R <;>
      simp [resStep, Result.overlayRes, Result.normRes, Option.orElse]

theorem blockioOf_step (R a : NApi.Adjustment) (hR : R.hasLinux = true) :
    blockioOf (replyStep R a) = (blockioOf a).orElse (fun _ => blockioOf R) := by
  unfold blockioOf
  rw [resOf_step R a hR]
  cases hr : resOf a with
  | none => simp [resStep, Option.orElse]
  | some r =>
    cases hb : resOf R <;>
      simp [resStep, Result.overlayRes, Result.normRes, Option.orElse]

theorem rdtOf_step (R a : NApi.Adjustment) (hR : R.hasLinux = true) :
    rdtOf (replyStep R a) = (rdtOf a).orElse (fun _ => rdtOf R) := by
  unfold rdtOf
  rw [resOf_step R a hR]
  cases hr : resOf a with
  | none => simp [resStep, Option.orElse]
  | some r =>
    cases hb : resOf R <;>
      simp [resStep, Result.overlayRes, Result.normRes, Option.orElse]

theorem hugeOf_step (R a : NApi.Adjustment) (hR : R.hasLinux = true) :
    hugeOf (replyStep R a) = hugeOf R ++ hugeOf a := by
  unfold hugeOf
  rw [resOf_step R a hR]
  cases hr : resOf a with
  | none => simp [resStep]
  | some r =>
    cases hb : resOf R <;>
      simp [resStep, Result.overlayRes, Result.normRes]

theorem uniOf_step (R a : NApi.Adjustment) (hR : R.hasLinux = true) :
    uniOf (replyStep R a) = (uniOf a).foldl (fun m (k, v) => AList.insert m k v) (uniOf R) := by
  unfold uniOf
  rw [resOf_step R a hR]
  cases hr : resOf a with
  | none => simp [resStep]
  | some r =>
    cases hb : resOf R <;>
      simp [resStep, Result.overlayRes, Result.normRes]

/-! ### the generator's steps, per field -/

def hooksG (h : Oci.Hooks) (a : NApi.Adjustment) : Oci.Hooks :=
  match (toGen a).hooks with | some x => Hooks.apply h x | none => h
def rlimitsG (l : List Oci.Rlimit) (a : NApi.Adjustment) : List Oci.Rlimit :=
  l ++ (toGen a).rlimits.map Api.POSIXRlimit.toOCI
def argsG (x : List Str) (a : NApi.Adjustment) : List Str := Args.apply x (toGen a).args
def cgroupsG (x : Str) (a : NApi.Adjustment) : Str :=
  if (toGen a).cgroupsPath = [] then x else (toGen a).cgroupsPath
def oomG (x : Option Int) (a : NApi.Adjustment) : Option Int :=
  match (toGen a).oomScoreAdj with | some v => some v | none => x
def cpuG (x : Oci.CPU) (a : NApi.Adjustment) : Oci.CPU := Resources.cpuAfter x (toGen a).resources
def memG (x : Oci.Memory) (a : NApi.Adjustment) : Oci.Memory := Resources.memoryAfter x (toGen a).resources
def hugeG (x : List Oci.HugepageLimit) (a : NApi.Adjustment) : List Oci.HugepageLimit :=
  Resources.hugepagesAfter x (toGen a).resources
def unifiedG (x : AList Str Str) (a : NApi.Adjustment) : AList Str Str :=
  Resources.unifiedAfter x (toGen a).resources
def pidsG (x : Option Int) (a : NApi.Adjustment) : Option Int := Resources.pidsAfter x (toGen a).resources
def cdiG (has : Bool) (bad : List Str) (x : List Str) (a : NApi.Adjustment) : Except GenError (List Str) :=
  cdiAfter has bad x (toGen a).cdiDevices
def blockioG (res : Option (Str → Except Unit Nat)) (x : Option Nat) (a : NApi.Adjustment) :
    Except GenError (Option Nat) := Resources.applyBlockIO res x (toGen a).blockioClass
def rdtG (res : Option (Str → Except Unit Str)) (x : Option Str) (a : NApi.Adjustment) :
    Except GenError (Option Str) := Resources.applyRdt res x (toGen a).rdtClass

/-! ### hooks -/

theorem hooksApply_empty (h : Oci.Hooks) : Hooks.apply h (toGenHooks {}) = h := by
  simp [Hooks.apply, toGenHooks]

theorem hooksApply_append (h : Oci.Hooks) (a b : NApi.Hooks) :
    Hooks.apply h (toGenHooks (a.append b)) = Hooks.apply (Hooks.apply h (toGenHooks a)) (toGenHooks b) := by
  simp [Hooks.apply, toGenHooks, NApi.Hooks.append, List.append_assoc]

theorem hooksG_eq (h : Oci.Hooks) (a : NApi.Adjustment) :
    hooksG h a = Hooks.apply h (toGenHooks (a.hooks.getD {})) := by
  unfold hooksG
  cases hh : a.hooks <;> simp [hh, hooksApply_empty]

theorem hooksG_step (x : Oci.Hooks) (R a : NApi.Adjustment) :
    hooksG x (replyStep R a) = hooksG (hooksG x R) a := by
  rw [hooksG_eq, hooksG_eq, hooksG_eq]
  cases ha : a.hooks with
  | none => simp [replyStep, hooksStep, ha, hooksApply_empty]
  | some h => simp [replyStep, hooksStep, ha, hooksApply_append]

/-! ### rlimits -/

theorem rlimitsG_step (x : List Oci.Rlimit) (R a : NApi.Adjustment) :
    rlimitsG x (replyStep R a) = rlimitsG (rlimitsG x R) a := by
  simp [rlimitsG, replyStep, List.append_assoc]

/-! ### args -/

/-- the reply's args never start with the empty word (the `UpdateArgs` marker is stripped by
    the collector; `argsOk` excludes a command line starting with an empty word) -/
def argsNorm (l : List Str) : Prop := ∀ x rest, l = x :: rest → x ≠ []

theorem argsApply_norm (x l : List Str) (h : argsNorm l) : Args.apply x l = if l = [] then x else l := by
  unfold Args.apply
  cases l with
  | nil => simp
  | cons y rest =>
    cases y with
    | nil => exact absurd rfl (h [] rest rfl)
    | cons c cs => simp

theorem argsStep_norm (R a : List Str) (hR : argsNorm R) (ha : argsOk a = true) : argsNorm (argsStep R a) := by
  unfold argsStep
  cases a with
  | nil => exact hR
  | cons y rest =>
    cases y with
    | nil =>
      simp only [if_true]
      cases rest with
      | nil => simp [argsOk] at ha
      | cons z r2 =>
        cases z with
        | nil => simp [argsOk] at ha
        | cons c cs => intro x r hx; cases hx; simp
    | cons c cs =>
      intro x r hx
      simp only [reduceCtorEq, if_false] at hx
      cases hx; simp

theorem argsG_step (x : List Str) (R a : NApi.Adjustment) (hR : argsNorm R.args) (ha : argsOk a.args = true) :
    argsG x (replyStep R a) = argsG (argsG x R) a := by
  unfold argsG
  simp only [toGen_args]
  have hn := argsStep_norm R.args a.args hR ha
  rw [argsApply_norm _ _ hR]
  show Args.apply x (argsStep R.args a.args) = _
  rw [argsApply_norm _ _ hn]
  cases hargs : a.args with
  | nil => cases hRa : R.args <;> simp [argsStep, Args.apply]
  | cons y rest =>
    cases y with
    | nil =>
      rw [hargs] at ha
      cases rest with
      | nil => simp [argsOk] at ha
      | cons z r2 => simp [argsStep, Args.apply]
    | cons c cs => simp [argsStep, Args.apply]

/-! ### cgroups path, OOM score, pids -/

theorem cgroupsG_step (x : Str) (R a : NApi.Adjustment) (hR : R.hasLinux = true) :
    cgroupsG x (replyStep R a) = cgroupsG (cgroupsG x R) a := by
  unfold cgroupsG
  simp only [toGen_cgroupsPath, replyStep, hR, if_true]
  cases a.hasLinux
  · simp
  · by_cases hc : a.cgroupsPath = [] <;> simp [hc]

theorem oomG_step (x : Option Int) (R a : NApi.Adjustment) (hR : R.hasLinux = true) :
    oomG x (replyStep R a) = oomG (oomG x R) a := by
  unfold oomG
  simp only [toGen_oomScoreAdj, replyStep, hR, if_true]
  cases a.hasLinux
  · simp
  · cases a.oomScoreAdj <;> simp [Option.orElse]

theorem pidsG_eq (x : Option Int) (a : NApi.Adjustment) : pidsG x a = (pidsOf a).orElse (fun _ => x) := by
  unfold pidsG pidsOf resOf Resources.pidsAfter
  rw [toGen_resources]
  cases a.hasLinux
  · simp [Option.orElse]
  · cases hr : a.resources with
    | none => simp [Option.orElse]
    | some r => cases hp : r.pids <;> simp [toGenResources, hp, Option.orElse]

theorem pidsG_step (x : Option Int) (R a : NApi.Adjustment) (hR : R.hasLinux = true) :
    pidsG x (replyStep R a) = pidsG (pidsG x R) a := by
  rw [pidsG_eq, pidsG_eq, pidsG_eq, pidsOf_step R a hR]
  cases pidsOf a <;> cases pidsOf R <;> simp [Option.orElse]

/-! ### CPU -/

theorem applyCpu_eq (c : Oci.CPU) (r : Api.LinuxCPU) :
    Resources.applyCpu c r =
      { shares := r.shares.orElse fun _ => c.shares, quota := r.quota.orElse fun _ => c.quota,
        period := r.period.orElse fun _ => c.period,
        realtimeRuntime := r.realtimeRuntime.orElse fun _ => c.realtimeRuntime,
        realtimePeriod := r.realtimePeriod.orElse fun _ => c.realtimePeriod,
        cpus := if r.cpus = [] then c.cpus else r.cpus,
        mems := if r.mems = [] then c.mems else r.mems } := by
  obtain ⟨sh, qu, pe, rr, rp, cpus, mems⟩ := r
  unfold Resources.applyCpu
  cases sh <;> cases qu <;> cases pe <;> cases rr <;> cases rp <;>
    by_cases h1 : cpus = [] <;> by_cases h2 : mems = [] <;> simp [h1, h2, Option.orElse]

theorem cpuG_eq (x : Oci.CPU) (a : NApi.Adjustment) :
    cpuG x a = Resources.applyCpu x (toGenCpu (cpuOf a)) := by
  unfold cpuG cpuOf resOf Resources.cpuAfter
  rw [toGen_resources]
  have h0 : Resources.applyCpu x (toGenCpu {}) = x := by simp [applyCpu_eq, toGenCpu, Option.orElse]
  cases a.hasLinux
  · simp [h0]
  · cases hr : a.resources with
    | none => simp [h0]
    | some r => cases hc : r.cpu <;> simp [toGenResources, hc, h0]

theorem applyCpu_overlay (x : Oci.CPU) (b r : NApi.Cpu) :
    Resources.applyCpu x (toGenCpu (Result.overlayCpu b r)) =
      Resources.applyCpu (Resources.applyCpu x (toGenCpu b)) (toGenCpu r) := by
  simp only [applyCpu_eq, toGenCpu, Result.overlayCpu]
  obtain ⟨sh, qu, pe, rr, rp, cpus, mems⟩ := r
  cases sh <;> cases qu <;> cases pe <;> cases rr <;> cases rp <;>
    by_cases h1 : cpus = [] <;> by_cases h2 : mems = [] <;> simp [h1, h2, Option.orElse]

theorem cpuG_step (x : Oci.CPU) (R a : NApi.Adjustment) (hR : R.hasLinux = true) :
    cpuG x (replyStep R a) = cpuG (cpuG x R) a := by
  rw [cpuG_eq, cpuG_eq, cpuG_eq, cpuOf_step R a hR, applyCpu_overlay]

/-! ### memory limit -/

/-- what `AdjustResources` does with a requested limit -/
def applyLimit (m : Oci.Memory) (l : Option Int) : Oci.Memory :=
  match l with
  | none => m
  | some l => if l = 0 then m else { m with limit := some l, swap := some l }

theorem memG_eq (x : Oci.Memory) (a : NApi.Adjustment) : memG x a = applyLimit x (limitOf a) := by
  unfold memG limitOf resOf Resources.memoryAfter
  rw [toGen_resources]
  cases a.hasLinux
  · simp [applyLimit]
  · cases hr : a.resources with
    | none => simp [applyLimit]
    | some r =>
      cases hm : r.memory with
      | none => simp [toGenResources, hm, applyLimit]
      | some m =>
        cases hl : m.limit <;>
          simp [toGenResources, hm, applyLimit, Resources.applyMemory, toGenMemory, hl]

/-- The ledger's contribution: a plugin may set the memory limit only when no earlier plugin
    has (both claim the item `memLimit`, which is never released). -/
def MemFree (R a : NApi.Adjustment) : Prop := (limitOf a).isSome → limitOf R = none

theorem memG_step (x : Oci.Memory) (R a : NApi.Adjustment) (hR : R.hasLinux = true) (hf : MemFree R a) :
    memG x (replyStep R a) = memG (memG x R) a := by
  rw [memG_eq, memG_eq, memG_eq, limitOf_step R a hR]
  cases ha : limitOf a with
  | none => simp [Option.orElse, applyLimit]
  | some l =>
    have := hf (by rw [ha]; rfl)
    rw [this]
    simp [Option.orElse, applyLimit]

/-! ### hugepages, unified -/

theorem hugeG_eq (x : List Oci.HugepageLimit) (a : NApi.Adjustment) :
    hugeG x a = Resources.applyHugepages x ((hugeOf a).map toGenHugepage) := by
  unfold hugeG hugeOf resOf Resources.hugepagesAfter
  rw [toGen_resources]
  cases a.hasLinux
  · simp [Resources.applyHugepages]
  · cases hr : a.resources <;> simp [Resources.applyHugepages, toGenResources]

theorem hugeG_step (x : List Oci.HugepageLimit) (R a : NApi.Adjustment) (hR : R.hasLinux = true) :
    hugeG x (replyStep R a) = hugeG (hugeG x R) a := by
  rw [hugeG_eq, hugeG_eq, hugeG_eq, hugeOf_step R a hR]
  simp [Resources.applyHugepages, List.foldl_append]

theorem unifiedG_eq (x : AList Str Str) (a : NApi.Adjustment) :
    unifiedG x a = Resources.applyUnified x (uniOf a) := by
  unfold unifiedG uniOf resOf Resources.unifiedAfter
  rw [toGen_resources]
  cases a.hasLinux
  · simp [Resources.applyUnified]
  · cases hr : a.resources <;> simp [Resources.applyUnified, toGenResources]

/-- maps are compared through `lookup` -/
def MapEq (a b : AList Str Str) : Prop := ∀ k, AList.lookup a k = AList.lookup b k

theorem nodup_insert {ν : Type} (m : AList Str ν) (k : Str) (v : ν) (h : (m.map (·.1)).Nodup) :
    ((AList.insert m k v).map (·.1)).Nodup := by
  induction m with
  | nil => simp [AList.insert]
  | cons e rest ih =>
    obtain ⟨k', v'⟩ := e
    simp only [List.map_cons, List.nodup_cons] at h
    unfold AList.insert
    by_cases hk : k' = k
    · subst hk; simp only [if_true, List.map_cons, List.nodup_cons]; exact h
    · simp only [hk, if_false, List.map_cons, List.nodup_cons]
      refine ⟨?_, ih h.2⟩
      intro hm
      rcases List.mem_map.mp hm with ⟨⟨k2, v2⟩, hz, hzk⟩
      simp only at hzk
      subst hzk
      have hsub : ∀ (m : AList Str ν) (x : Str × ν), x ∈ AList.insert m k v → x ∈ m ∨ x = (k, v) := by
        intro m
        induction m with
        | nil => intro x hx; simp [AList.insert] at hx; exact .inr hx
        | cons e r ihm =>
          obtain ⟨k3, v3⟩ := e
          intro x hx
          unfold AList.insert at hx
          by_cases h3 : k3 = k
          · simp only [h3, if_true, List.mem_cons] at hx
            rcases hx with hx | hx
            · exact .inr hx
            · exact .inl (List.mem_cons_of_mem _ hx)
          · simp only [h3, if_false, List.mem_cons] at hx
            rcases hx with hx | hx
            · exact .inl (by simp [hx])
            · rcases ihm x hx with h4 | h4
              · exact .inl (List.mem_cons_of_mem _ h4)
              · exact .inr h4
      rcases hsub rest _ hz with h5 | h5
      · exact h.1 (List.mem_map.mpr ⟨_, h5, rfl⟩)
      · simp only [Prod.mk.injEq] at h5; exact hk h5.1

theorem nodup_foldl_insert {ν : Type} (E : List (Str × ν)) (m : AList Str ν) (h : (m.map (·.1)).Nodup) :
    ((E.foldl (fun m (e : Str × ν) => AList.insert m e.1 e.2) m).map (·.1)).Nodup := by
  induction E generalizing m with
  | nil => exact h
  | cons e r ih => exact ih _ (nodup_insert m e.1 e.2 h)

/-- on a map with distinct keys the last entry for `k` is the first one -/
theorem lastMatch_key_nodup {ν : Type} (m : AList Str ν) (h : (m.map (·.1)).Nodup) (k : Str) (d : Option ν) :
    pick (lastMatch (fun e : Str × ν => e.1 == k) m) (·.2) d = (AList.lookup m k).or d := by
  induction m with
  | nil => simp [lastMatch]
  | cons e rest ih =>
    obtain ⟨k', v'⟩ := e
    simp only [List.map_cons, List.nodup_cons] at h
    simp only [lastMatch, AList.lookup]
    by_cases hk : k' = k
    · subst hk
      have : lastMatch (fun e : Str × ν => e.1 == k') rest = none := by
        rw [lastMatch_none_iff]
        intro e he
        have : e.1 ≠ k' := fun h2 => h.1 (List.mem_map.mpr ⟨e, he, h2⟩)
        simpa using this
      simp [this]
    · have hb : (k' == k) = false := by simpa using hk
      have := ih h.2
      simp only [hk, if_false, hb]
      rw [← this]
      cases lastMatch (fun e : Str × ν => e.1 == k) rest <;> simp

theorem unifiedG_step (x : AList Str Str) (R a : NApi.Adjustment) (hR : R.hasLinux = true)
    (hn : ((uniOf R).map (·.1)).Nodup) :
    MapEq (unifiedG x (replyStep R a)) (unifiedG (unifiedG x R) a) := by
  intro k
  rw [unifiedG_eq, unifiedG_eq, unifiedG_eq, uniOf_step R a hR]
  have hf : (fun (m : AList Str Str) (x : Str × Str) => match x with | (k, v) => AList.insert m k v) =
      (fun m e => AList.insert m e.1 e.2) := by funext m ⟨k, v⟩; rfl
  rw [hf]
  have hn' := nodup_foldl_insert (uniOf a) (uniOf R) hn
  rw [Resources.lookup_applyUnified, lastMatch_key_nodup _ hn']
  rw [Resources.lookup_applyUnified, Resources.lookup_applyUnified, lastMatch_key_nodup _ hn]
  have := lookup_foldl_insert (fun _ : Str × Str => true) (fun e => e.1) (fun e => e.2) (uniOf a) (uniOf R) k
  simp only [if_true, Bool.true_and] at this
  rw [this]
  cases lastMatch (fun e : Str × Str => e.1 == k) (uniOf a) <;> simp

theorem unifiedG_cong (x y : AList Str Str) (a : NApi.Adjustment) (h : MapEq x y) :
    MapEq (unifiedG x a) (unifiedG y a) := by
  intro k
  rw [unifiedG_eq, unifiedG_eq, Resources.lookup_applyUnified, Resources.lookup_applyUnified, h k]

theorem uniOf_step_nodup (R a : NApi.Adjustment) (hR : R.hasLinux = true)
    (hn : ((uniOf R).map (·.1)).Nodup) : ((uniOf (replyStep R a)).map (·.1)).Nodup := by
  rw [uniOf_step R a hR]
  have hf : (fun (m : AList Str Str) (x : Str × Str) => match x with | (k, v) => AList.insert m k v) =
      (fun m e => AList.insert m e.1 e.2) := by funext m ⟨k, v⟩; rfl
  rw [hf]
  exact nodup_foldl_insert _ _ hn

/-! ### CDI names (recording injector), block-I/O and RDT class -/

theorem cdiAfter_append (has : Bool) (bad : List Str) (x y y1 A B : List Str)
    (h0 : cdiAfter has bad x A = .ok y) (h1 : cdiAfter has bad y B = .ok y1) :
    cdiAfter has bad x (A ++ B) = .ok y1 := by
  unfold cdiAfter at *
  cases has
  · simp_all
  · simp only [Bool.not_true, Bool.false_or] at *
    cases A with
    | nil =>
      simp only [List.isEmpty_nil, if_true, List.nil_append] at h0 ⊢
      cases h0; exact h1
    | cons r0 rs =>
      simp only [List.isEmpty_cons, Bool.false_eq_true, if_false, List.cons_append] at h0 ⊢
      split at h0
      · cases h0
      · rename_i hb
        cases h0
        cases B with
        | nil =>
          simp only [List.isEmpty_nil, if_true] at h1
          cases h1
          simp only [List.append_nil]
          rw [if_neg hb]
        | cons a0 as =>
          simp only [List.isEmpty_cons, Bool.false_eq_true, if_false] at h1
          split at h1
          · cases h1
          · rename_i hb2
            cases h1
            have : ((r0 :: (rs ++ a0 :: as)).any fun n => bad.contains n) = false := by
              have e : r0 :: (rs ++ a0 :: as) = (r0 :: rs) ++ (a0 :: as) := rfl
              rw [e, List.any_append]
              simp only [Bool.not_eq_true] at hb hb2
              rw [hb, hb2]; rfl
            rw [this]
            simp

theorem cdiG_step (has : Bool) (bad : List Str) (x y y1 : List Str) (R a : NApi.Adjustment)
    (h0 : cdiG has bad x R = .ok y) (h1 : cdiG has bad y a = .ok y1) :
    cdiG has bad x (replyStep R a) = .ok y1 :=
  cdiAfter_append has bad x y y1 R.cdiDevices a.cdiDevices h0 h1

theorem toGen_blockioClass (a : NApi.Adjustment) : (toGen a).blockioClass = blockioOf a := by
  unfold Api.Adjustment.blockioClass blockioOf resOf
  rw [toGen_resources]
  cases a.hasLinux
  · rfl
  · cases a.resources <;> rfl

theorem toGen_rdtClass (a : NApi.Adjustment) : (toGen a).rdtClass = rdtOf a := by
  unfold Api.Adjustment.rdtClass rdtOf resOf
  rw [toGen_resources]
  cases a.hasLinux
  · rfl
  · cases a.resources <;> rfl

theorem blockioG_step (res : Option (Str → Except Unit Nat)) (x y y1 : Option Nat) (R a : NApi.Adjustment)
    (hR : R.hasLinux = true)
    (h0 : blockioG res x R = .ok y) (h1 : blockioG res y a = .ok y1) :
    blockioG res x (replyStep R a) = .ok y1 := by
  unfold blockioG at *
  rw [toGen_blockioClass] at *
  rw [blockioOf_step R a hR]
  cases ha : blockioOf a with
  | none =>
    rw [ha] at h1
    simp only [Resources.applyBlockIO] at h1
    cases h1
    simpa [Option.orElse] using h0
  | some c =>
    rw [ha] at h1
    simp only [Option.orElse]
    cases res with
    | none => simp only [Resources.applyBlockIO] at h0 h1 ⊢; cases h1; cases hb : blockioOf R <;> rw [hb] at h0 <;> simpa [Resources.applyBlockIO] using h0
    | some f => simpa [Resources.applyBlockIO] using h1

theorem rdtG_step (res : Option (Str → Except Unit Str)) (x y y1 : Option Str) (R a : NApi.Adjustment)
    (hR : R.hasLinux = true)
    (h0 : rdtG res x R = .ok y) (h1 : rdtG res y a = .ok y1) :
    rdtG res x (replyStep R a) = .ok y1 := by
  unfold rdtG at *
  rw [toGen_rdtClass] at *
  rw [rdtOf_step R a hR]
  cases ha : rdtOf a with
  | none =>
    rw [ha] at h1
    simp only [Resources.applyRdt] at h1
    cases h1
    simpa [Option.orElse] using h0
  | some c =>
    rw [ha] at h1
    simp only [Option.orElse]
    cases res with
    | none => simp only [Resources.applyRdt] at h0 h1 ⊢; cases h1; cases hb : rdtOf R <;> rw [hb] at h0 <;> simpa [Resources.applyRdt] using h0
    | some f => simpa [Resources.applyRdt] using h1

end Nri.Compose
