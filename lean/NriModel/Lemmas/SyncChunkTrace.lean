/-
The trace acceptor `acceptsTrace` (what the driver runs on the attempts observed at the
runtime end) against the model: sound (an accepted successful trace carries a valid plan)
and complete (every finished run of the repaired loop is accepted).
-/
import NriModel.Lemmas.SyncChunkRun

namespace Nri.SyncChunk

variable {α β υ ε σ : Type}

theorem plan_cons_sent (c : Chunk α β) (r : Reply υ) (evs : List (Ev α β υ)) :
    plan (Ev.sent c r :: evs) = c :: plan evs := rfl

theorem plan_cons_rejected (c : Chunk α β) (n : Nat) (evs : List (Ev α β υ)) :
    plan (Ev.rejected (υ := υ) c n :: evs) = plan evs := rfl

theorem evChunk_sent (c : Chunk α β) (r : Reply υ) : evChunk (Ev.sent c r) = c := rfl
theorem evChunk_rejected (c : Chunk α β) (n : Nat) : evChunk (Ev.rejected (υ := υ) c n) = c := rfl
theorem evChunk_errored (c : Chunk α β) : evChunk (Ev.errored (υ := υ) c) = c := rfl

theorem acceptsTrace_sound [DecidableEq α] [DecidableEq β]
    (fitsOk : Chunk α β → Bool) (rejOk : Chunk α β → Nat → Bool) (m : Nat) :
    ∀ (evs : List (Ev α β υ)) (s : SState α β), Good s →
      acceptsTrace fitsOk rejOk m .done s evs = true →
      ValidPlan (fun c => fitsOk c = true) s.podsLeft s.ctrsLeft (plan evs) := by
  intro evs
  induction evs with
  | nil => intro s _ h; simp [acceptsTrace] at h
  | cons e rest ih =>
    intro s hG h
    unfold acceptsTrace at h
    simp only [Bool.and_eq_true, decide_eq_true_eq] at h
    obtain ⟨⟨⟨_, _⟩, hexp⟩, hcase⟩ := h
    cases e with
    | sent c r =>
      simp only [evChunk] at hexp
      simp only [Bool.and_eq_true] at hcase
      obtain ⟨hfit, hcase⟩ := hcase
      by_cases hm : c.more = false
      · rw [if_pos hm] at hcase
        simp only [Bool.and_eq_true, List.isEmpty_iff] at hcase
        obtain ⟨hr, _⟩ := hcase
        subst hr
        rw [plan_cons_sent]
        subst hexp
        have he := expected_more_false s hG hm
        show ValidPlan _ _ _ [expected s]
        rw [he]
        apply ValidPlan.last
        rw [← he]; exact hfit
      · rw [if_neg hm] at hcase
        have hm' : c.more = true := by simpa using hm
        split at hcase
        · simp at hcase
        · subst hexp
          rw [plan_cons_sent, expected_more_true s hm']
          have hcnt := (mu_advance s hG hm').2
          rw [expected_count s hG] at hcnt
          refine ValidPlan.more _ _ _ _ _ hG.pLe hG.cLe hcnt ?_ (ih (advance s) (good_advance s hG) hcase)
          rw [← expected_more_true s hm']; exact hfit
    | errored c => simp at hcase
    | rejected c len =>
      simp only [Bool.and_eq_true] at hcase
      obtain ⟨_, hcase⟩ := hcase
      cases rest with
      | nil => simp at hcase
      | cons e' rest' =>
        simp only [Bool.and_eq_true, decide_eq_true_eq, Bool.or_eq_true, List.isEmpty_iff] at hcase
        obtain ⟨⟨⟨⟨⟨_, hp⟩, hk⟩, hpp⟩, hkp⟩, hrec⟩ := hcase
        rw [plan_cons_rejected]
        have hG' : Good { s with podsPer := (evChunk e').pods.length, ctrsPer := (evChunk e').ctrs.length } := by
          refine ⟨hp, hk, ?_, ?_⟩
          · intro (hl : 0 < s.podsLeft.length)
            rcases hpp with hpp | hpp
            · rw [hpp] at hl; simp at hl
            · exact hpp
          · intro (hl : 0 < s.ctrsLeft.length)
            rcases hkp with hkp | hkp
            · rw [hkp] at hl; simp at hl
            · exact hkp
        exact ih { s with podsPer := (evChunk e').pods.length, ctrsPer := (evChunk e').ctrs.length } hG' hrec

/-- how a finished run ends, for the acceptor -/
def endOf : Outcome υ ε → End
  | .done _ => .done
  | _ => .failed

def finished : Outcome υ ε → Prop
  | .done _ => True
  | .failed _ => True
  | _ => False

/-- Every finished run of the repaired loop is accepted, with the size oracle and limit of
    the run and the minimum of the policy. -/
theorem run_accepted [DecidableEq α] [DecidableEq β] (E : Env α β υ ε σ) (m : Nat)
    (hc : E.clamp = true) (hπ : Shrinks m E.policy) (hlim : 0 < E.limit) :
    ∀ fuel w s, Good s → finished (run E fuel w s).out →
      (∃ e rest, (run E fuel w s).evs = e :: rest ∧ evChunk e = expected s) ∧
      acceptsTrace (fun c => decide (E.size c ≤ E.limit))
        (fun c len => decide (E.limit < len) && decide (len = E.size c)) m
        (endOf (run E fuel w s).out) s (run E fuel w s).evs = true := by
  apply run_induction E m hc hπ
    (fun _ _ s r => finished r.out →
      (∃ e rest, r.evs = e :: rest ∧ evChunk e = expected s) ∧
      acceptsTrace (fun c => decide (E.size c ≤ E.limit))
        (fun c len => decide (E.limit < len) && decide (len = E.size c)) m (endOf r.out) s r.evs = true)
  · intro w s _ h; exact absurd h (by simp [finished])
  · intro n w s w' evs o hG hs _
    have h1 := hG.pLe; have h2 := hG.cLe
    cases hs with
    | done w' r hm hfit hp =>
      refine ⟨⟨_, _, rfl, rfl⟩, ?_⟩
      simp [acceptsTrace, h1, h2, evChunk, hfit, hm, endOf]
    | noSplit w' r hm hfit hp hr =>
      refine ⟨⟨_, _, rfl, rfl⟩, ?_⟩
      have : (!r.update.isEmpty || r.more != true) = true := by
        rcases hr with hr | hr
        · cases hu : r.update with
          | nil => exact absurd hu hr
          | cons a l => simp
        · simp [hr]
      simp [acceptsTrace, h1, h2, evChunk, hfit, hm, endOf]
      exact hr
    | peerErr w' e hfit hp =>
      refine ⟨⟨_, _, rfl, rfl⟩, ?_⟩
      simp [acceptsTrace, h1, h2, evChunk, endOf]
    | giveUp hlt hpol =>
      refine ⟨⟨_, _, rfl, rfl⟩, ?_⟩
      have hcnt : (expected s).count ≤ m := by
        rw [expected_count s hG]; exact hπ.gives_up _ _ _ _ hlim hlt hpol
      simp [acceptsTrace, h1, h2, evChunk, hlt, endOf, hcnt]
  · intro n w s w' evs s' r hG hs hG' _ _ ih hfin
    have h1 := hG.pLe; have h2 := hG.cLe
    obtain ⟨⟨e', rest', hevs, hchunk⟩, hacc⟩ := ih hfin
    cases hs with
    | advance w' r0 hm hfit hp hu hrm =>
      refine ⟨⟨_, _, rfl, rfl⟩, ?_⟩
      show acceptsTrace _ _ m (endOf r.out) s (Ev.sent (expected s) r0 :: r.evs) = true
      unfold acceptsTrace
      have hns : (!r0.update.isEmpty || r0.more != true) = false := by simp [hu, hrm]
      simp only [h1, h2, evChunk_sent, decide_true, Bool.and_self, Bool.true_and, hfit, hm,
        Bool.true_eq_false, if_false, hns]
      exact hacc
    | shrink p k hlt hdec hg =>
      refine ⟨⟨_, _, rfl, rfl⟩, ?_⟩
      show acceptsTrace _ _ m (endOf r.out) s
        (Ev.rejected (expected s) (E.size (expected s)) :: r.evs) = true
      rw [hevs] at hacc ⊢
      unfold acceptsTrace
      have g1 := hg.pLe; have g2 := hg.cLe; have g3 := hg.pPos; have g4 := hg.cPos
      simp only at g1 g2 g3 g4
      have hpl : (evChunk e').pods.length = p := by
        rw [hchunk]; simp [expected, List.length_take, Nat.min_eq_left g1]
      have hkl : (evChunk e').ctrs.length = k := by
        rw [hchunk]; simp [expected, List.length_take, Nat.min_eq_left g2]
      have hpos1 : (s.podsLeft.isEmpty || decide (0 < p)) = true := by
        cases hl : s.podsLeft with
        | nil => simp
        | cons a l => simp [g3 (by simp [hl])]
      have hpos2 : (s.ctrsLeft.isEmpty || decide (0 < k)) = true := by
        cases hl : s.ctrsLeft with
        | nil => simp
        | cons a l => simp [g4 (by simp [hl])]
      simp only [h1, h2, evChunk_rejected, decide_true, Bool.and_self, Bool.true_and, hlt, hpl, hkl, hdec,
        g1, g2, hpos1, hpos2]
      exact hacc

end Nri.SyncChunk
