/-
Exact characterisation of the results of `Start` and `Wait` in the repaired machine.
-/
import NriModel.Lemmas.StubSession

namespace Nri.StubSession

theorem attempt_iff (s1 : State) (o : Script) (r : StartRes) (ho : o ≠ .dialFail) :
    (attempt fixed s1 o r).isSome = true ↔ r ∈ startResults o := by
  unfold attempt startResults
  cases o <;> simp [fixed] at ho ⊢ <;> (try (split <;> simp_all)) <;> grind

/-- In a state in which `stub.conn` is nil whenever the stub is not started (every reachable
    state), `Start` has exactly the results `startPossible`. -/
theorem start_iff {s : State} (hw : s.wedged = false) (hc : s.started = false → s.conn = none)
    (o : Script) (r : StartRes) :
    (step? fixed s (.start o r)).isSome = true ↔ r ∈ startPossible s o := by
  simp only [step?, hw, Bool.false_eq_true, if_false]
  unfold startStep startPossible
  by_cases hs : s.started = true
  · simp only [hs, if_true]
    split <;> simp_all
  · have hs' : s.started = false := by simpa using hs
    simp only [hs', hc hs', Bool.false_eq_true, if_false]
    split
    · split
      · simp_all
      · split <;> simp_all
    · split
      · by_cases hof : o = .dialFail
        · simp only [hof, if_true]; exact attempt_iff _ _ _ (by simp)
        · simp only [hof, if_false]; exact attempt_iff _ _ _ hof
      · by_cases hof : o = .dialFail
        · subst hof
          simp only [if_true, startResults]
          split <;> simp_all
        · simp only [hof, if_false]; exact attempt_iff _ _ _ hof

theorem attempt_err_started {s1 s' : State} {o : Script} {k : ErrKind}
    (h : attempt fixed s1 o (.err k) = some s') : s'.started = s1.started := by
  unfold attempt at h
  cases o <;> simp [fixed] at h <;>
    (try (rcases h with ⟨_, rfl⟩ | ⟨_, rfl⟩)) <;> (try (obtain ⟨_, rfl⟩ := h)) <;>
    simp_all [failStart, closeClient, markDead] <;> grind

/-- a `Start` that returns an error other than "already started" leaves the stub not started -/
theorem start_err_not_started {s s' : State} {o : Script} {k : ErrKind} (hw : s.wedged = false)
    (h : step? fixed s (.start o (.err k)) = some s') (hk : k ≠ .already) : s'.started = false := by
  simp only [step?, hw, Bool.false_eq_true, if_false] at h
  unfold startStep at h
  by_cases hs : s.started = true
  · simp only [hs, if_true] at h
    split at h
    · rename_i h1; cases h1; exact absurd rfl hk
    · cases h
  · have hs' : s.started = false := by simpa using hs
    simp only [hs', Bool.false_eq_true, if_false] at h
    split at h
    · rw [attempt_err_started h, hs']
    · split at h
      · split at h
        · simp at h; subst h; exact hs'
        · split at h
          · simp at h; subst h; simp [failStart, closeClient, markDead, adopt, hs']
          · cases h
      · split at h
        · rw [attempt_err_started h]; simp [adopt, hs']
        · split at h
          · split at h
            · simp at h; subst h; exact hs'
            · cases h
          · rw [attempt_err_started h]; simp [adopt, hs']

/-- when the stub is not started every blocked `Wait` can return (here: in list order) -/
theorem drainWaiters {s : State} (hr : Reach s) (hs : s.started = false) :
    ∃ s', run fixed s (s.waiting.map .waitRet) = some s' ∧ s'.waiting = [] ∧ Reach s' ∧
      s'.started = false := by
  generalize hn : s.waiting.length = n
  induction n generalizing s with
  | zero =>
    have : s.waiting = [] := List.eq_nil_of_length_eq_zero hn
    exact ⟨s, by simp [this, run], this, hr, hs⟩
  | succ n ih =>
    match hl : s.waiting with
    | [] => simp [hl] at hn
    | x :: rest =>
      have hg := hr.good
      have hin : x ∈ s.waiting := by simp [hl]
      have hrng := hg.waiting_rng x hin
      have hdone : x ∈ s.done := hg.endedDone x hrng.1 hrng.2 (Or.inr hs)
      have h1 : step? fixed s (.waitRet x) = some { s with waiting := s.waiting.erase x } := by
        simp [step?, hin, hdone]
      have hr1 : Reach { s with waiting := s.waiting.erase x } := hr.step (by rfl) h1
      have h2' : ({ s with waiting := s.waiting.erase x } : State).waiting = rest := by simp [hl]
      obtain ⟨s', h3, h4, h5, h6⟩ := ih hr1 hs (by rw [h2']; simp [hl] at hn; exact hn)
      refine ⟨s', ?_, h4, h5, h6⟩
      simp only [List.map_cons, run, h1]
      rw [h2'] at h3; exact h3

end Nri.StubSession
