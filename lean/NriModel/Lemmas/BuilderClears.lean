/-
Lemmas for Props/Builder.lean, part 2: the items the message built by a program marks for
removal (`Ledger.removesAdj`) are, as a set, the items the syntactic reading `progClears` lists.
Membership, not multiplicity: releasing a claim is idempotent (`Result.clearAll`), so how often
and in which order a program names a key for removal has no effect on the ledger.
Same method as BuilderSets: per-family effect, lifted through the concatenation; only a `drop`
(the command line losing its marker to a later `SetArgs`) needs the other families not to
contain the item. Core Lean only.
-/
import NriModel.Lemmas.BuilderSets

namespace Nri.Builder
open Nri Nri.NApi Nri.Result Nri.Ledger

/-- `new` has the members `e` gives `old` -/
def MemRel (e : Eff) (old new : List Item) : Prop := ∀ it, it ∈ new ↔ it ∈ applyEff old e

theorem mem_applyEff_congr (e : Eff) {l₁ l₂ : List Item} (h : ∀ it, it ∈ l₁ ↔ it ∈ l₂) (it : Item) :
    it ∈ applyEff l₁ e ↔ it ∈ applyEff l₂ e := by
  rw [mem_applyEff, mem_applyEff]
  cases e <;> simp only [h]

theorem mlift_mid (e : Eff) (X Y old new : List Item)
    (hX : ∀ it, e = .drop it → it ∉ X) (hY : ∀ it, e = .drop it → it ∉ Y)
    (h : MemRel e old new) : MemRel e (X ++ old ++ Y) (X ++ new ++ Y) := by
  intro it
  have h := h it
  rw [mem_applyEff] at h ⊢
  simp only [List.mem_append]
  cases e with
  | append x v =>
    simp only at h ⊢; rw [h]
    constructor
    · rintro ((g | g | g) | g)
      · exact .inl (.inl (.inl g))
      · exact .inl (.inl (.inr g))
      · exact .inr g
      · exact .inl (.inr g)
    · rintro (((g | g) | g) | g)
      · exact .inl (.inl g)
      · exact .inl (.inr (.inl g))
      · exact .inr g
      · exact .inl (.inr (.inr g))
  | put x v =>
    simp only at h ⊢; rw [h]
    constructor
    · rintro ((g | g | g) | g)
      · exact .inl (.inl (.inl g))
      · exact .inl (.inl (.inr g))
      · exact .inr g
      · exact .inl (.inr g)
    · rintro (((g | g) | g) | g)
      · exact .inl (.inl g)
      · exact .inl (.inr (.inl g))
      · exact .inr g
      · exact .inl (.inr (.inr g))
  | nop => simp only at h ⊢; rw [h]
  | drop x =>
    have hx := hX x rfl
    have hy := hY x rfl
    simp only at h ⊢
    rw [h]
    constructor
    · rintro ((g | ⟨g, gn⟩) | g)
      · exact ⟨.inl (.inl g), fun heq => hx (heq ▸ g)⟩
      · exact ⟨.inl (.inr g), gn⟩
      · exact ⟨.inr g, fun heq => hy (heq ▸ g)⟩
    · rintro ⟨(g | g) | g, gn⟩
      · exact .inl (.inl g)
      · exact .inl (.inr ⟨g, gn⟩)
      · exact .inr g

theorem mlift_left (e : Eff) (Y old new : List Item) (hY : ∀ it, e = .drop it → it ∉ Y)
    (h : MemRel e old new) : MemRel e (old ++ Y) (new ++ Y) := by
  have := mlift_mid e [] Y old new (by intro it _; simp) hY h
  simpa using this

theorem mlift_right (e : Eff) (X old new : List Item) (hX : ∀ it, e = .drop it → it ∉ X)
    (h : MemRel e old new) : MemRel e (X ++ old) (X ++ new) := by
  have := mlift_mid e X [] old new hX (by intro it _; simp) h
  simpa using this

/-! ### the five families of removal marks -/

/-- the command line carries the replace marker -/
def argsMark : List Str → List Item
  | [] :: _ => [.args]
  | _ => []

def flatRemoves (a : Adjustment) : List Item :=
  (delKeys (a.annotations.map (·.1))).map .annotation ++ ((delKeys (a.mounts.map (·.destination))).map .mount ++
  ((delKeys (a.env.map (·.key))).map .env ++ (argsMark a.args ++ (delKeys (a.devices.map (·.path))).map .device)))

theorem removesAdj_flat (a : Adjustment) (wf : AdjWF a) : removesAdj a = flatRemoves a := by
  have hdev : (if a.hasLinux then (markedKeys (a.devices.map (·.path))).map Item.device else []) =
      (delKeys (a.devices.map (·.path))).map Item.device := by
    cases hl : a.hasLinux with
    | true => simp [markedKeys]
    | false => obtain ⟨h1, _⟩ := wf hl; simp [h1, delKeys]
  unfold removesAdj flatRemoves
  rw [hdev]
  unfold markedKeys argsMark
  split <;> simp_all

theorem isMarked_mark (k : Str) : isMarked (markForRemoval k) = (k, true) := by
  simp [isMarked, markForRemoval]

theorem isMarked_pair (x k : Str) : isMarked x = (k, true) ↔ (isMarked x).2 = true ∧ (isMarked x).1 = k := by
  constructor
  · intro h; rw [h]; exact ⟨rfl, rfl⟩
  · rintro ⟨h1, h2⟩; rw [← h1, ← h2]

theorem mem_delKeys_snoc (keys : List Str) (x k : Str) :
    k ∈ delKeys (keys ++ [x]) ↔ k ∈ delKeys keys ∨ ((isMarked x).2 = true ∧ (isMarked x).1 = k) := by
  rw [← isMarked_pair]
  simp only [mem_delKeys_iff, List.mem_append, List.mem_singleton]
  constructor
  · rintro ⟨y, hy | rfl, h⟩
    · exact .inl ⟨y, hy, h⟩
    · exact .inr h
  · rintro (⟨y, hy, h⟩ | h)
    · exact ⟨y, .inl hy, h⟩
    · exact ⟨x, .inr rfl, h⟩

/-- one more key in a slice family: a marked one is one more removal mark -/
theorem delKeys_snoc_rel {α : Type} (g : α → Str) (f : Str → Item) (l : List α) (y : α) :
    MemRel (if unmarked (g y) then .nop else .put (f (isMarked (g y)).1) .unit)
      ((delKeys (l.map g)).map f) ((delKeys ((l ++ [y]).map g)).map f) := by
  intro it
  by_cases hb : (isMarked (g y)).2 = true
  · have hu : unmarked (g y) = false := by simp [unmarked, hb]
    simp only [hu, Bool.false_eq_true, ↓reduceIte]
    rw [mem_applyEff]
    simp only [List.map_append, List.map_cons, List.map_nil, List.mem_map, mem_delKeys_snoc, hb, true_and]
    constructor
    · rintro ⟨k, hk | rfl, rfl⟩
      · exact .inl ⟨k, hk, rfl⟩
      · exact .inr rfl
    · rintro (⟨k, hk, rfl⟩ | rfl)
      · exact ⟨k, .inl hk, rfl⟩
      · exact ⟨_, .inr rfl, rfl⟩
  · have hu : unmarked (g y) = true := by simp [unmarked, hb]
    simp only [hu, ↓reduceIte]
    rw [mem_applyEff]
    simp [mem_delKeys_snoc, hb]

theorem mem_keys_insert (m : AList Str Str) (k v x : Str) :
    x ∈ (AList.insert m k v).map (·.1) ↔ x ∈ m.map (·.1) ∨ x = k := by
  induction m with
  | nil => simp [AList.insert]
  | cons e rest ih =>
    obtain ⟨k', v'⟩ := e
    by_cases h : k' = k
    · subst h; simp only [AList.insert, ↓reduceIte, List.map_cons, List.mem_cons]
      constructor
      · rintro (h | h)
        · exact .inr h
        · exact .inl (.inr h)
      · rintro ((h | h) | h)
        · exact .inl h
        · exact .inr h
        · exact .inl h
    · simp only [AList.insert, h, ↓reduceIte, List.map_cons, List.mem_cons, ih]
      constructor
      · rintro (h | h | h) <;> simp [h]
      · rintro ((h | h) | h) <;> simp [h]

theorem mem_delKeys_insert (m : AList Str Str) (k v k1 : Str) :
    k1 ∈ delKeys ((AList.insert m k v).map (·.1)) ↔
      k1 ∈ delKeys (m.map (·.1)) ∨ ((isMarked k).2 = true ∧ (isMarked k).1 = k1) := by
  rw [← isMarked_pair]
  simp only [mem_delKeys_iff, mem_keys_insert]
  constructor
  · rintro ⟨x, hx | rfl, h⟩
    · exact .inl ⟨x, hx, h⟩
    · exact .inr h
  · rintro (⟨x, hx, h⟩ | h)
    · exact ⟨x, .inl hx, h⟩
    · exact ⟨k, .inr rfl, h⟩

/-- a map assignment under a marked key is one more removal mark -/
theorem delKeys_insert_rel (m : AList Str Str) (k v : Str) :
    MemRel (if unmarked k then .nop else .put (.annotation (isMarked k).1) .unit)
      ((delKeys (m.map (·.1))).map .annotation) ((delKeys ((AList.insert m k v).map (·.1))).map .annotation) := by
  intro it
  by_cases hb : (isMarked k).2 = true
  · have hu : unmarked k = false := by simp [unmarked, hb]
    simp only [hu, Bool.false_eq_true, ↓reduceIte]
    rw [mem_applyEff]
    simp only [List.mem_map, mem_delKeys_insert, hb, true_and]
    constructor
    · rintro ⟨k1, hk | rfl, rfl⟩
      · exact .inl ⟨k1, hk, rfl⟩
      · exact .inr rfl
    · rintro (⟨k1, hk, rfl⟩ | rfl)
      · exact ⟨k1, .inl hk, rfl⟩
      · exact ⟨_, .inr rfl, rfl⟩
  · have hu : unmarked k = true := by simp [unmarked, hb]
    simp only [hu, ↓reduceIte]
    rw [mem_applyEff]
    simp [mem_delKeys_insert, hb]

theorem argsMark_cases (l : List Str) : argsMark l = [Item.args] ∨ argsMark l = [] := by
  unfold argsMark; split <;> simp

theorem argsMark_set (old args : List Str) :
    MemRel (match args with | [] :: _ => .put .args .unit | _ => .drop .args) (argsMark old) (argsMark args) := by
  intro it
  rw [mem_applyEff]
  rcases argsMark_cases old with ho | ho <;> rw [ho]
  all_goals
    rcases args with _ | ⟨x, t⟩
    · simp [argsMark]
    · rcases x with _ | ⟨c, cs⟩ <;> simp [argsMark]

theorem argsMark_update (old args : List Str) :
    MemRel (.put .args .unit) (argsMark old) (argsMark ([] :: args)) := by
  have := argsMark_set old ([] :: args)
  simpa using this

/-! ### one call, whole message -/

macro "mside" : tactic =>
  `(tactic| (intro it hit; first
      | (simp only [clearEff] at hit; (repeat' split at hit) <;> cases hit; done)
      | (simp only [clearEff] at hit; (repeat' split at hit) <;> first
          | (cases hit; done)
          | (cases hit; simp [argsMark]; try (split <;> simp)))))

theorem marker_eff (f : Str → Item) (p : Str) :
    (if unmarked (markForRemoval p) then Eff.nop else Eff.put (f (isMarked (markForRemoval p)).1) Val.unit)
      = Eff.put (f p) Val.unit := by
  simp [unmarked_mark, isMarked_mark]

theorem stepA_clears (a : Adjustment) (op : AOp) : MemRel (clearEff op) (flatRemoves a) (flatRemoves (stepA a op)) := by
  cases op with
  | addAnnotation k v =>
    unfold flatRemoves
    exact mlift_left _ _ _ _ (by mside) (delKeys_insert_rel _ k v)
  | removeAnnotation k =>
    unfold flatRemoves
    refine mlift_left _ _ _ _ (by mside) ?_
    have := delKeys_insert_rel a.annotations (markForRemoval k) []
    rw [marker_eff] at this
    exact this
  | addMount m =>
    unfold flatRemoves
    exact mlift_right _ _ _ _ (by mside) (mlift_left _ _ _ _ (by mside) (delKeys_snoc_rel (fun (x : Mount) => x.destination) Item.mount _ m))
  | removeMount p =>
    unfold flatRemoves
    refine mlift_right _ _ _ _ (by mside) (mlift_left _ _ _ _ (by mside) ?_)
    have := delKeys_snoc_rel (fun (x : Mount) => x.destination) Item.mount a.mounts { destination := markForRemoval p }
    rw [marker_eff] at this
    exact this
  | addEnv k v =>
    unfold flatRemoves
    exact mlift_right _ _ _ _ (by mside) (mlift_right _ _ _ _ (by mside) (mlift_left _ _ _ _ (by mside)
      (delKeys_snoc_rel (fun (x : KeyValue) => x.key) Item.env _ { key := k, value := v })))
  | removeEnv k =>
    unfold flatRemoves
    refine mlift_right _ _ _ _ (by mside) (mlift_right _ _ _ _ (by mside) (mlift_left _ _ _ _ (by mside) ?_))
    have := delKeys_snoc_rel (fun (x : KeyValue) => x.key) Item.env a.env { key := markForRemoval k }
    rw [marker_eff] at this
    exact this
  | setArgs args =>
    unfold flatRemoves
    refine mlift_right _ _ _ _ ?_ (mlift_right _ _ _ _ ?_ (mlift_right _ _ _ _ ?_ (mlift_left _ _ _ _ ?_
      (argsMark_set _ args))))
    all_goals (intro it hit; simp only [clearEff] at hit; split at hit <;> cases hit; simp)
  | updateArgs args =>
    unfold flatRemoves
    exact mlift_right _ _ _ _ (by mside) (mlift_right _ _ _ _ (by mside) (mlift_right _ _ _ _ (by mside)
      (mlift_left _ _ _ _ (by mside) (argsMark_update _ args))))
  | addDevice d =>
    unfold flatRemoves
    exact mlift_right _ _ _ _ (by mside) (mlift_right _ _ _ _ (by mside) (mlift_right _ _ _ _ (by mside)
      (mlift_right _ _ _ _ (by mside) (delKeys_snoc_rel (fun (x : Device) => x.path) Item.device _ d))))
  | removeDevice p =>
    unfold flatRemoves
    refine mlift_right _ _ _ _ (by mside) (mlift_right _ _ _ _ (by mside) (mlift_right _ _ _ _ (by mside)
      (mlift_right _ _ _ _ (by mside) ?_)))
    have := delKeys_snoc_rel (fun (x : Device) => x.path) Item.device a.devices { path := markForRemoval p }
    rw [marker_eff] at this
    exact this
  | addHooks h => intro it; rfl
  | addRlimit t hard soft => intro it; rfl
  | addCDIDevice n => intro it; rfl
  | res r => intro it; rfl
  | setLinuxCgroupsPath s => intro it; rfl
  | setLinuxOomScoreAdj v => intro it; rfl

theorem foldA_clears (prog : List AOp) : ∀ (a : Adjustment) (acc : List Item),
    (∀ it, it ∈ flatRemoves a ↔ it ∈ acc) →
    ∀ it, it ∈ flatRemoves (prog.foldl stepA a) ↔ it ∈ prog.foldl (fun acc op => applyEff acc (clearEff op)) acc := by
  induction prog with
  | nil => intro a acc h; exact h
  | cons op rest ih =>
    intro a acc h
    simp only [List.foldl_cons]
    apply ih
    intro it
    rw [stepA_clears a op it]
    exact mem_applyEff_congr _ h it

theorem runA_clears_mem (prog : List AOp) (it : Item) : it ∈ removesAdj (runA prog) ↔ it ∈ progClears prog := by
  rw [removesAdj_flat _ (runA_wf prog)]
  exact foldA_clears prog {} [] (by intro it; simp [flatRemoves, delKeys, argsMark]) it

end Nri.Builder
