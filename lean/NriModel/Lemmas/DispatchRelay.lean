/-
Lemmas about one pass of the request loop (`relayLoop`), for C06 and C07.
-/
import NriModel.Lemmas.DispatchSorted

namespace Nri.Dispatch
open Nri.Events

variable {ρ σ ο ε : Type}

/-! ### unfolding equations, one per branch of the loop -/

theorem relayLoop_nil (M : Merger ρ σ ο ε) (T ev) (acc : σ) :
    relayLoop M T ev acc [] = (.ok acc, ⟨[], [], [], [], 0⟩) := rfl

theorem relayLoop_skip (M : Merger ρ σ ο ε) (T ev) (acc : σ) (p : Plugin) (c : Call ρ) (rest)
    (h : subscribed ev p = false) :
    relayLoop M T ev acc ((p, c) :: rest) =
      ((relayLoop M T ev acc rest).1, (relayLoop M T ev acc rest).2.skip p) := by
  simp [relayLoop, h]

theorem relayLoop_fatal (M : Merger ρ σ ο ε) (T ev) (acc : σ) (p : Plugin) (c : Call ρ) (rest)
    (h : subscribed ev p = true) (f : Fatal) (d : Nat) (ho : effOut T p c = (.fatal f, d)) :
    relayLoop M T ev acc ((p, c) :: rest) =
      ((relayLoop M T ev acc rest).1,
       ⟨p :: (relayLoop M T ev acc rest).2.attempted,
        (if handlerRan p c then [p] else []) ++ (relayLoop M T ev acc rest).2.handled,
        (relayLoop M T ev acc rest).2.oks,
        { p with closed := true } :: (relayLoop M T ev acc rest).2.after,
        d + (relayLoop M T ev acc rest).2.ticks⟩) := by
  simp [relayLoop, h, ho]

theorem relayLoop_veto (M : Merger ρ σ ο ε) (T ev) (acc : σ) (p : Plugin) (c : Call ρ) (rest)
    (h : subscribed ev p = true) (m : Str) (d : Nat) (ho : effOut T p c = (.handlerErr m, d)) :
    relayLoop M T ev acc ((p, c) :: rest) =
      (.error (.veto p m), ⟨[p], (if handlerRan p c then [p] else []), [], p :: rest.map (·.1), d⟩) := by
  simp [relayLoop, h, ho]

theorem relayLoop_refused (M : Merger ρ σ ο ε) (T ev) (acc : σ) (p : Plugin) (c : Call ρ) (rest)
    (h : subscribed ev p = true) (r : ρ) (d : Nat) (ho : effOut T p c = (.ok r, d)) (e : ε)
    (ha : M.apply acc p r = .error e) :
    relayLoop M T ev acc ((p, c) :: rest) =
      (.error (.merge p e), ⟨[p], (if handlerRan p c then [p] else []), [(p, r)], p :: rest.map (·.1), d⟩) := by
  simp [relayLoop, h, ho, ha]

theorem relayLoop_ok (M : Merger ρ σ ο ε) (T ev) (acc : σ) (p : Plugin) (c : Call ρ) (rest)
    (h : subscribed ev p = true) (r : ρ) (d : Nat) (ho : effOut T p c = (.ok r, d)) (acc' : σ)
    (ha : M.apply acc p r = .ok acc') :
    relayLoop M T ev acc ((p, c) :: rest) =
      ((relayLoop M T ev acc' rest).1,
       ⟨p :: (relayLoop M T ev acc' rest).2.attempted,
        (if handlerRan p c then [p] else []) ++ (relayLoop M T ev acc' rest).2.handled,
        (p, r) :: (relayLoop M T ev acc' rest).2.oks,
        p :: (relayLoop M T ev acc' rest).2.after,
        d + (relayLoop M T ev acc' rest).2.ticks⟩) := by
  simp [relayLoop, h, ho, ha]

/-- case analysis principle: the five ways one step of the loop can go -/
theorem relay_cases (M : Merger ρ σ ο ε) (T ev) (acc : σ) (p : Plugin) (c : Call ρ)
    (motive : Prop)
    (skip : subscribed ev p = false → motive)
    (fatal : subscribed ev p = true → ∀ f d, effOut T p c = (.fatal f, d) → motive)
    (veto : subscribed ev p = true → ∀ m d, effOut T p c = (.handlerErr m, d) → motive)
    (refused : subscribed ev p = true → ∀ r d e, effOut T p c = (.ok r, d) → M.apply acc p r = .error e → motive)
    (ok : subscribed ev p = true → ∀ r d a, effOut T p c = (.ok r, d) → M.apply acc p r = .ok a → motive) :
    motive := by
  cases hs : subscribed ev p with
  | false => exact skip hs
  | true =>
    cases ho : effOut T p c with
    | mk o d =>
      cases o with
      | fatal f => exact fatal hs f d ho
      | handlerErr m => exact veto hs m d ho
      | ok r =>
        cases ha : M.apply acc p r with
        | error e => exact refused hs r d e ho ha
        | ok a => exact ok hs r d a ho ha

/-! ### effOut facts -/

theorem effOut_ticks_le (T : Nat) (p : Plugin) (c : Call ρ) : (effOut T p c).2 ≤ T := by
  simp only [effOut]
  split
  · simp
  · split
    · simp
    · simp; omega

theorem effOut_closed (T : Nat) (p : Plugin) (c : Call ρ) (h : p.closed = true) :
    effOut T p c = (.fatal .closed, 0) := by
  simp [effOut, h]

theorem effOut_timeout (T : Nat) (p : Plugin) (c : Call ρ) (h : p.closed = false) (hc : T < c.cost) :
    effOut T p c = (.fatal .timeout, T) := by
  simp [effOut, h, hc]

/-! ### who is called -/

theorem subscribers_cons_skip (ev) (p : Plugin) (c : Call ρ) (rest) (h : subscribed ev p = false) :
    subscribers ev ((p, c) :: rest) = subscribers ev rest := by
  simp [subscribers, h]

theorem subscribers_cons_sub (ev) (p : Plugin) (c : Call ρ) (rest) (h : subscribed ev p = true) :
    subscribers ev ((p, c) :: rest) = p :: subscribers ev rest := by
  simp [subscribers, h]

/-- the calls made are a prefix of the subscribed plugins (in list order) -/
theorem relay_attempted_prefix (M : Merger ρ σ ο ε) (T ev) (acc : σ) (pcs : List (Plugin × Call ρ)) :
    (relayLoop M T ev acc pcs).2.attempted <+: subscribers ev pcs := by
  induction pcs generalizing acc with
  | nil => simp [relayLoop_nil, subscribers]
  | cons pc rest ih =>
    obtain ⟨p, c⟩ := pc
    apply relay_cases M T ev acc p c
    · intro hs
      rw [relayLoop_skip M T ev acc p c rest hs, subscribers_cons_skip ev p c rest hs]
      exact ih acc
    · intro hs f d ho
      rw [relayLoop_fatal M T ev acc p c rest hs f d ho, subscribers_cons_sub ev p c rest hs]
      exact List.prefix_cons_inj p |>.2 (ih acc)
    · intro hs m d ho
      rw [relayLoop_veto M T ev acc p c rest hs m d ho, subscribers_cons_sub ev p c rest hs]
      exact List.prefix_cons_inj p |>.2 (List.nil_prefix)
    · intro hs r d e ho ha
      rw [relayLoop_refused M T ev acc p c rest hs r d ho e ha, subscribers_cons_sub ev p c rest hs]
      exact List.prefix_cons_inj p |>.2 (List.nil_prefix)
    · intro hs r d a ho ha
      rw [relayLoop_ok M T ev acc p c rest hs r d ho a ha, subscribers_cons_sub ev p c rest hs]
      exact List.prefix_cons_inj p |>.2 (ih a)

/-- a request that is not aborted calls every subscribed plugin -/
theorem relay_ok_attempted (M : Merger ρ σ ο ε) (T ev) (acc : σ) (pcs : List (Plugin × Call ρ))
    (a : σ) (h : (relayLoop M T ev acc pcs).1 = .ok a) :
    (relayLoop M T ev acc pcs).2.attempted = subscribers ev pcs := by
  induction pcs generalizing acc with
  | nil => simp [relayLoop_nil, subscribers]
  | cons pc rest ih =>
    obtain ⟨p, c⟩ := pc
    apply relay_cases M T ev acc p c
    · intro hs
      rw [relayLoop_skip M T ev acc p c rest hs] at h ⊢
      rw [subscribers_cons_skip ev p c rest hs]
      exact ih acc h
    · intro hs f d ho
      rw [relayLoop_fatal M T ev acc p c rest hs f d ho] at h ⊢
      rw [subscribers_cons_sub ev p c rest hs]
      simp only at h ⊢
      rw [ih acc h]
    · intro hs m d ho
      rw [relayLoop_veto M T ev acc p c rest hs m d ho] at h
      simp at h
    · intro hs r d e ho ha
      rw [relayLoop_refused M T ev acc p c rest hs r d ho e ha] at h
      simp at h
    · intro hs r d a' ho ha
      rw [relayLoop_ok M T ev acc p c rest hs r d ho a' ha] at h ⊢
      rw [subscribers_cons_sub ev p c rest hs]
      simp only at h ⊢
      rw [ih a' h]

/-- when the loop is aborted, the last plugin called is the one that caused it -/
theorem relay_error_last (M : Merger ρ σ ο ε) (T ev) (acc : σ) (pcs : List (Plugin × Call ρ))
    (e : Err ε) (h : (relayLoop M T ev acc pcs).1 = .error e) :
    (relayLoop M T ev acc pcs).2.attempted.getLast? = some e.culprit := by
  induction pcs generalizing acc with
  | nil => simp [relayLoop_nil] at h
  | cons pc rest ih =>
    obtain ⟨p, c⟩ := pc
    apply relay_cases M T ev acc p c
    · intro hs
      rw [relayLoop_skip M T ev acc p c rest hs] at h ⊢
      exact ih acc h
    · intro hs f d ho
      rw [relayLoop_fatal M T ev acc p c rest hs f d ho] at h ⊢
      simp only at h ⊢
      have := ih acc h
      rw [List.getLast?_cons, this]; rfl
    · intro hs m d ho
      rw [relayLoop_veto M T ev acc p c rest hs m d ho] at h ⊢
      simp only [Except.error.injEq] at h
      subst h; rfl
    · intro hs r d e' ho ha
      rw [relayLoop_refused M T ev acc p c rest hs r d ho e' ha] at h ⊢
      simp only [Except.error.injEq] at h
      subst h; rfl
    · intro hs r d a' ho ha
      rw [relayLoop_ok M T ev acc p c rest hs r d ho a' ha] at h ⊢
      simp only at h ⊢
      have := ih a' h
      rw [List.getLast?_cons, this]; rfl

/-- unless result collection refuses a response, the calls made are exactly the subscribed
    plugins up to and including the first veto -/
theorem relay_attempted_upToVeto (M : Merger ρ σ ο ε) (T ev) (acc : σ) (pcs : List (Plugin × Call ρ))
    (h : ∀ p e, (relayLoop M T ev acc pcs).1 ≠ .error (.merge p e)) :
    (relayLoop M T ev acc pcs).2.attempted = upToVeto T ev pcs := by
  induction pcs generalizing acc with
  | nil => simp [relayLoop_nil, upToVeto]
  | cons pc rest ih =>
    obtain ⟨p, c⟩ := pc
    apply relay_cases M T ev acc p c
    · intro hs
      rw [relayLoop_skip M T ev acc p c rest hs] at h ⊢
      simp only [upToVeto, hs, Bool.false_eq_true, if_false]
      exact ih acc h
    · intro hs f d ho
      rw [relayLoop_fatal M T ev acc p c rest hs f d ho] at h ⊢
      simp only [upToVeto, hs, if_true, ho, isVeto, Bool.false_eq_true, if_false]
      simp only at h
      rw [ih acc h]
    · intro hs m d ho
      rw [relayLoop_veto M T ev acc p c rest hs m d ho]
      simp [upToVeto, hs, ho, isVeto]
    · intro hs r d e' ho ha
      rw [relayLoop_refused M T ev acc p c rest hs r d ho e' ha] at h
      exact absurd rfl (h p e')
    · intro hs r d a' ho ha
      rw [relayLoop_ok M T ev acc p c rest hs r d ho a' ha] at h ⊢
      simp only [upToVeto, hs, if_true, ho, isVeto, Bool.false_eq_true, if_false]
      simp only at h
      rw [ih a' h]

/-- handlers that ran are among the calls made, and belong to open plugins -/
theorem relay_handled_sublist (M : Merger ρ σ ο ε) (T ev) (acc : σ) (pcs : List (Plugin × Call ρ)) :
    (relayLoop M T ev acc pcs).2.handled.Sublist (relayLoop M T ev acc pcs).2.attempted := by
  induction pcs generalizing acc with
  | nil => simp [relayLoop_nil]
  | cons pc rest ih =>
    obtain ⟨p, c⟩ := pc
    have aux : ∀ (l₁ l₂ : List Plugin), l₁.Sublist l₂ →
        ((if handlerRan p c then [p] else []) ++ l₁).Sublist (p :: l₂) := by
      intro l₁ l₂ hl
      split
      · exact List.Sublist.cons_cons p hl
      · exact List.Sublist.cons p hl
    apply relay_cases M T ev acc p c
    · intro hs
      rw [relayLoop_skip M T ev acc p c rest hs]
      exact ih acc
    · intro hs f d ho
      rw [relayLoop_fatal M T ev acc p c rest hs f d ho]
      exact aux _ _ (ih acc)
    · intro hs m d ho
      rw [relayLoop_veto M T ev acc p c rest hs m d ho]
      simpa using aux [] [] (List.Sublist.refl _)
    · intro hs r d e' ho ha
      rw [relayLoop_refused M T ev acc p c rest hs r d ho e' ha]
      simpa using aux [] [] (List.Sublist.refl _)
    · intro hs r d a' ho ha
      rw [relayLoop_ok M T ev acc p c rest hs r d ho a' ha]
      exact aux _ _ (ih a')

theorem relay_handled_open (M : Merger ρ σ ο ε) (T ev) (acc : σ) (pcs : List (Plugin × Call ρ)) :
    ∀ q ∈ (relayLoop M T ev acc pcs).2.handled, q.closed = false := by
  induction pcs generalizing acc with
  | nil => simp [relayLoop_nil]
  | cons pc rest ih =>
    obtain ⟨p, c⟩ := pc
    have aux : ∀ (l : List Plugin), (∀ q ∈ l, q.closed = false) →
        ∀ q ∈ (if handlerRan p c then [p] else []) ++ l, q.closed = false := by
      intro l hl q hq
      rcases List.mem_append.1 hq with hq | hq
      · split at hq
        · rename_i hr
          simp only [List.mem_singleton] at hq
          subst hq
          simp only [handlerRan, Bool.and_eq_true, Bool.not_eq_true'] at hr
          exact hr.1
        · simp at hq
      · exact hl q hq
    apply relay_cases M T ev acc p c
    · intro hs
      rw [relayLoop_skip M T ev acc p c rest hs]
      exact ih acc
    · intro hs f d ho
      rw [relayLoop_fatal M T ev acc p c rest hs f d ho]
      exact aux _ (ih acc)
    · intro hs m d ho
      rw [relayLoop_veto M T ev acc p c rest hs m d ho]
      simpa using aux [] (by simp)
    · intro hs r d e' ho ha
      rw [relayLoop_refused M T ev acc p c rest hs r d ho e' ha]
      simpa using aux [] (by simp)
    · intro hs r d a' ho ha
      rw [relayLoop_ok M T ev acc p c rest hs r d ho a' ha]
      exact aux _ (ih a')

/-- without faults (every plugin open, every request reaching its handler) the handlers that
    ran are exactly the calls made -/
theorem relay_handled_eq (M : Merger ρ σ ο ε) (T ev) (acc : σ) (pcs : List (Plugin × Call ρ))
    (h : ∀ pc ∈ pcs, handlerRan pc.1 pc.2 = true) :
    (relayLoop M T ev acc pcs).2.handled = (relayLoop M T ev acc pcs).2.attempted := by
  induction pcs generalizing acc with
  | nil => simp [relayLoop_nil]
  | cons pc rest ih =>
    obtain ⟨p, c⟩ := pc
    have hp : handlerRan p c = true := h (p, c) (List.mem_cons_self)
    have hr : ∀ pc ∈ rest, handlerRan pc.1 pc.2 = true := fun pc hpc => h pc (List.mem_cons_of_mem _ hpc)
    apply relay_cases M T ev acc p c
    · intro hs
      rw [relayLoop_skip M T ev acc p c rest hs]
      exact ih acc hr
    · intro hs f d ho
      rw [relayLoop_fatal M T ev acc p c rest hs f d ho]
      simp [hp, ih acc hr]
    · intro hs m d ho
      rw [relayLoop_veto M T ev acc p c rest hs m d ho]
      simp [hp]
    · intro hs r d e' ho ha
      rw [relayLoop_refused M T ev acc p c rest hs r d ho e' ha]
      simp [hp]
    · intro hs r d a' ho ha
      rw [relayLoop_ok M T ev acc p c rest hs r d ho a' ha]
      simp [hp, ih a' hr]

/-! ### time -/

theorem relay_ticks (M : Merger ρ σ ο ε) (T ev) (acc : σ) (pcs : List (Plugin × Call ρ)) :
    (relayLoop M T ev acc pcs).2.ticks ≤ (relayLoop M T ev acc pcs).2.attempted.length * T := by
  induction pcs generalizing acc with
  | nil => simp [relayLoop_nil]
  | cons pc rest ih =>
    obtain ⟨p, c⟩ := pc
    have hd : ∀ o d, effOut T p c = (o, d) → d ≤ T := by
      intro o d h
      have := effOut_ticks_le T p c
      rw [h] at this; exact this
    apply relay_cases M T ev acc p c
    · intro hs
      rw [relayLoop_skip M T ev acc p c rest hs]
      exact ih acc
    · intro hs f d ho
      rw [relayLoop_fatal M T ev acc p c rest hs f d ho]
      have := ih acc
      have := hd _ _ ho
      simp only [List.length_cons, Nat.add_mul, Nat.one_mul]
      omega
    · intro hs m d ho
      rw [relayLoop_veto M T ev acc p c rest hs m d ho]
      have := hd _ _ ho
      simp; omega
    · intro hs r d e' ho ha
      rw [relayLoop_refused M T ev acc p c rest hs r d ho e' ha]
      have := hd _ _ ho
      simp; omega
    · intro hs r d a' ho ha
      rw [relayLoop_ok M T ev acc p c rest hs r d ho a' ha]
      have := ih a'
      have := hd _ _ ho
      simp only [List.length_cons, Nat.add_mul, Nat.one_mul]
      omega

theorem relay_attempted_length (M : Merger ρ σ ο ε) (T ev) (acc : σ) (pcs : List (Plugin × Call ρ)) :
    (relayLoop M T ev acc pcs).2.attempted.length ≤ pcs.length := by
  have h1 := (relay_attempted_prefix M T ev acc pcs).length_le
  have h2 : (subscribers ev pcs).length ≤ pcs.length := by
    simp only [subscribers]
    exact Nat.le_trans (List.length_filter_le _ _) (by simp)
  omega

/-! ### the plugin list afterwards -/

theorem relay_after_ids (M : Merger ρ σ ο ε) (T ev) (acc : σ) (pcs : List (Plugin × Call ρ)) :
    (relayLoop M T ev acc pcs).2.after.map (fun q => (q.id, q.idx, q.name, q.events)) =
      pcs.map (fun pc => (pc.1.id, pc.1.idx, pc.1.name, pc.1.events)) := by
  induction pcs generalizing acc with
  | nil => simp [relayLoop_nil]
  | cons pc rest ih =>
    obtain ⟨p, c⟩ := pc
    apply relay_cases M T ev acc p c
    · intro hs
      rw [relayLoop_skip M T ev acc p c rest hs]
      simp [Trace.skip, ih acc]
    · intro hs f d ho
      rw [relayLoop_fatal M T ev acc p c rest hs f d ho]
      simp [ih acc]
    · intro hs m d ho
      rw [relayLoop_veto M T ev acc p c rest hs m d ho]
      simp
    · intro hs r d e' ho ha
      rw [relayLoop_refused M T ev acc p c rest hs r d ho e' ha]
      simp
    · intro hs r d a' ho ha
      rw [relayLoop_ok M T ev acc p c rest hs r d ho a' ha]
      simp [ih a']

theorem relay_after_idx (M : Merger ρ σ ο ε) (T ev) (acc : σ) (pcs : List (Plugin × Call ρ)) :
    (relayLoop M T ev acc pcs).2.after.map (·.idx) = (pcs.map (·.1)).map (·.idx) := by
  have := congrArg (List.map (fun x : Nat × Str × Str × Mask => x.2.1)) (relay_after_ids M T ev acc pcs)
  simpa [List.map_map, Function.comp_def] using this

theorem relay_after_id (M : Merger ρ σ ο ε) (T ev) (acc : σ) (pcs : List (Plugin × Call ρ)) :
    (relayLoop M T ev acc pcs).2.after.map (·.id) = pcs.map (·.1.id) := by
  have := congrArg (List.map (fun x : Nat × Str × Str × Mask => x.1)) (relay_after_ids M T ev acc pcs)
  simpa [List.map_map, Function.comp_def] using this

theorem relay_attempted_mem (M : Merger ρ σ ο ε) (T ev) (acc : σ) (pcs : List (Plugin × Call ρ)) :
    ∀ q ∈ (relayLoop M T ev acc pcs).2.attempted, q ∈ pcs.map (·.1) := by
  intro q hq
  have := (relay_attempted_prefix M T ev acc pcs).subset hq
  simp only [subscribers] at this
  exact (List.mem_filter.1 this).1

theorem nodup_map_inj {α β : Type} (f : α → β) : ∀ (l : List α), (l.map f).Nodup →
    ∀ a ∈ l, ∀ b ∈ l, f a = f b → a = b
  | [], _, a, ha, _, _, _ => by simp at ha
  | x :: xs, h, a, ha, b, hb, hab => by
    simp only [List.map_cons, List.nodup_cons, List.mem_map, not_exists, not_and] at h
    rcases List.mem_cons.1 ha with ha1 | ha1
    · rcases List.mem_cons.1 hb with hb1 | hb1
      · rw [ha1, hb1]
      · subst ha1
        exact absurd hab.symm (h.1 b hb1)
    · rcases List.mem_cons.1 hb with hb1 | hb1
      · subst hb1
        exact absurd hab (h.1 a ha1)
      · exact nodup_map_inj f xs h.2 a ha1 b hb1 hab

theorem prune_ids_subset (ps : List Plugin) : ∀ i ∈ (prune ps).map (·.id), i ∈ ps.map (·.id) := by
  intro i hi
  obtain ⟨q, hq, rfl⟩ := List.mem_map.1 hi
  exact List.mem_map_of_mem (List.mem_filter.1 hq).1

/-- Every plugin that was already marked closed, and every plugin whose call failed with a
    fatal error, is gone from the list the request leaves behind. -/
theorem relay_pruned (M : Merger ρ σ ο ε) (T ev) (acc : σ) (pcs : List (Plugin × Call ρ))
    (hn : (pcs.map (·.1.id)).Nodup) :
    ∀ pc ∈ pcs, (pc.1.closed = true ∨
        (pc.1 ∈ (relayLoop M T ev acc pcs).2.attempted ∧ isFatal (effOut T pc.1 pc.2).1 = true)) →
      pc.1.id ∉ (prune (relayLoop M T ev acc pcs).2.after).map (·.id) := by
  induction pcs generalizing acc with
  | nil => simp
  | cons pc0 rest ih =>
    obtain ⟨p, c⟩ := pc0
    simp only [List.map_cons, List.nodup_cons] at hn
    have hidrest : ∀ x ∈ rest, x.1.id ≠ p.id := by
      intro x hx he
      exact hn.1 (he ▸ List.mem_map_of_mem (f := fun pc : Plugin × Call ρ => pc.1.id) hx)
    -- the veto / refused shape of `after`
    have stopShape : ∀ pc ∈ (p, c) :: rest, pc.1.closed = true →
        pc.1.id ∉ (prune (p :: rest.map (·.1))).map (·.id) := by
      intro pc hpc hcl hmem
      obtain ⟨q, hq, hqi⟩ := List.mem_map.1 hmem
      have hq' := List.mem_filter.1 hq
      have hqin : q ∈ ((p, c) :: rest).map (·.1) := by simpa using hq'.1
      have hpin : pc.1 ∈ ((p, c) :: rest).map (·.1) := List.mem_map_of_mem hpc
      have hnod : ((((p, c) :: rest).map (·.1)).map (·.id)).Nodup := by
        simp only [List.map_cons, List.map_map, Function.comp_def, List.nodup_cons]
        exact hn
      have := nodup_map_inj (·.id) _ hnod q hqin pc.1 hpin hqi
      subst this
      simp [hcl] at hq'
    intro pc hpc hcond
    apply relay_cases M T ev acc p c
    · intro hs
      rw [relayLoop_skip M T ev acc p c rest hs] at hcond ⊢
      simp only [Trace.skip] at hcond ⊢
      rcases List.mem_cons.1 hpc with rfl | hpc
      · -- head, not subscribed: it can only be closed already
        have hcl : p.closed = true := by
          rcases hcond with h | ⟨h, _⟩
          · exact h
          · have := relay_attempted_mem M T ev acc rest p h
            obtain ⟨x, hx, hxe⟩ := List.mem_map.1 this
            exact absurd (by rw [hxe]) (hidrest x hx)
        intro hmem
        simp only [prune, List.filter_cons, hcl, Bool.not_true, Bool.false_eq_true, if_false] at hmem
        have := prune_ids_subset _ _ hmem
        rw [relay_after_id] at this
        exact hn.1 this
      · have hne := hidrest pc hpc
        have hc' : pc.1.closed = true ∨ (pc.1 ∈ (relayLoop M T ev acc rest).2.attempted ∧
            isFatal (effOut T pc.1 pc.2).1 = true) := hcond
        have := ih acc hn.2 pc hpc hc'
        intro hmem
        simp only [prune, List.filter_cons] at hmem
        split at hmem
        · simp only [List.map_cons, List.mem_cons] at hmem
          rcases hmem with h | h
          · exact hne h
          · exact this h
        · exact this hmem
    · intro hs f d ho
      rw [relayLoop_fatal M T ev acc p c rest hs f d ho] at hcond ⊢
      simp only at hcond ⊢
      rcases List.mem_cons.1 hpc with rfl | hpc
      · intro hmem
        simp only [prune, List.filter_cons, Bool.not_true, Bool.false_eq_true, if_false] at hmem
        have := prune_ids_subset _ _ hmem
        rw [relay_after_id] at this
        exact hn.1 this
      · have hne := hidrest pc hpc
        have hc' : pc.1.closed = true ∨ (pc.1 ∈ (relayLoop M T ev acc rest).2.attempted ∧
            isFatal (effOut T pc.1 pc.2).1 = true) := by
          rcases hcond with h | ⟨h, h2⟩
          · exact Or.inl h
          · rcases List.mem_cons.1 h with h | h
            · exact absurd (by rw [h]) hne
            · exact Or.inr ⟨h, h2⟩
        have := ih acc hn.2 pc hpc hc'
        intro hmem
        simp only [prune, List.filter_cons, Bool.not_true, Bool.false_eq_true, if_false] at hmem
        exact this hmem
    · intro hs m d ho
      rw [relayLoop_veto M T ev acc p c rest hs m d ho] at hcond ⊢
      simp only at hcond ⊢
      rcases hcond with h | ⟨h, h2⟩
      · exact stopShape pc hpc h
      · simp only [List.mem_singleton] at h
        rcases List.mem_cons.1 hpc with rfl | hpc
        · simp [ho, isFatal] at h2
        · exact absurd (by rw [h]) (hidrest pc hpc)
    · intro hs r d e' ho ha
      rw [relayLoop_refused M T ev acc p c rest hs r d ho e' ha] at hcond ⊢
      simp only at hcond ⊢
      rcases hcond with h | ⟨h, h2⟩
      · exact stopShape pc hpc h
      · simp only [List.mem_singleton] at h
        rcases List.mem_cons.1 hpc with rfl | hpc
        · simp [ho, isFatal] at h2
        · exact absurd (by rw [h]) (hidrest pc hpc)
    · intro hs r d a' ho ha
      rw [relayLoop_ok M T ev acc p c rest hs r d ho a' ha] at hcond ⊢
      simp only at hcond ⊢
      rcases List.mem_cons.1 hpc with rfl | hpc
      · -- head answered: it is neither closed (a closed plugin's call is fatal) nor fatal
        exfalso
        rcases hcond with h | ⟨_, h2⟩
        · rw [effOut_closed T p c h] at ho
          simp at ho
        · simp [ho, isFatal] at h2
      · have hne := hidrest pc hpc
        have hc' : pc.1.closed = true ∨ (pc.1 ∈ (relayLoop M T ev a' rest).2.attempted ∧
            isFatal (effOut T pc.1 pc.2).1 = true) := by
          rcases hcond with h | ⟨h, h2⟩
          · exact Or.inl h
          · rcases List.mem_cons.1 h with h | h
            · exact absurd (by rw [h]) hne
            · exact Or.inr ⟨h, h2⟩
        have := ih a' hn.2 pc hpc hc'
        intro hmem
        simp only [prune, List.filter_cons] at hmem
        split at hmem
        · simp only [List.map_cons, List.mem_cons] at hmem
          rcases hmem with h | h
          · exact hne h
          · exact this h
        · exact this hmem

end Nri.Dispatch
