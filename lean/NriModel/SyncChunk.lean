/-
Split synchronisation (property C09). Core Lean only — the driver links this file.

Model ↔ code map
  `Chunk`, `Reply`              api.SynchronizeRequest / api.SynchronizeResponse (pods, containers, more / update, more)
  `stubClose`, `stubSessions`   pkg/stub/stub.go  (*stub).close() resetting `stub.syncReq`; one stub object restarted
  `RState`, `collectSync`,
  `deliverSync`, `stubRPC`      pkg/stub/stub.go  (*stub).Synchronize / collectSync / deliverSync
                                (`acc` is `stub.syncReq`; `calls` logs invocations of the plugin's handler)
  `SState`, `step`, `run`,
  `synchronize`                 pkg/adaptation/plugin.go  (*plugin).synchronize — one `step` is one iteration of its `for`
  `policyUnfixed`               recalcObjsPerSyncMsg as it stands at the pinned commit
  `policyFixed`                 recalcObjsPerSyncMsg after docs/fixes/C09-1.patch
  `Env.clamp`                   false = loop as it stands; true = loop after the patch (counts clamped to what remains)
  `activateExternal`,
  `activatePreinstalled`        pkg/adaptation/adaptation.go  acceptPluginConnections / startPlugins.syncPlugins
  `ValidPlan`, `accepts`        the nondeterministic specification of an acceptable chunk plan (trace acceptance)
  `acceptsTrace`                nondeterministic specification of the sender's attempts (policy choices read off the trace)

Parameters (the theorems hold for every value): the size oracle `Env.size` (the encoded
size ttrpc would measure for a message), the limit, the shrink policy, the minimum number of
objects per message. `[:n]` is `Nri.sliceTo`: a fault when out of range, never `List.take`.
-/
import NriModel.Basic

namespace Nri.SyncChunk

/-- One `SynchronizeRequest` on the wire. -/
structure Chunk (α β : Type) where
  pods : List α
  ctrs : List β
  more : Bool
deriving DecidableEq, Repr

/-- One `SynchronizeResponse`. -/
structure Reply (υ : Type) where
  update : List υ
  more : Bool
deriving DecidableEq, Repr

def Chunk.count {α β : Type} (c : Chunk α β) : Nat := c.pods.length + c.ctrs.length

/-! ## Receiver: the stub -/

/-- The stub's state as far as synchronisation goes: `acc` is `stub.syncReq` (nil or the
    request accumulated so far); `calls` is the log of invocations of the plugin's
    `Synchronize` handler (what the property speaks about). -/
structure RState (α β : Type) where
  acc : Option (List α × List β)
  calls : List (List α × List β)
deriving DecidableEq, Repr

def RState.init {α β : Type} : RState α β := ⟨none, []⟩

/-- The plugin's handler: `none` = the plugin implements no `Synchronize`. -/
abbrev Handler (α β υ ε : Type) := Option (List α → List β → Except ε (List υ))

/-- `collectSync`: first chunk is stored, later chunks are appended; the reply echoes `more`. -/
def collectSync {α β υ : Type} (st : RState α β) (c : Chunk α β) : RState α β × Reply υ :=
  let acc' := match st.acc with
    | none => (c.pods, c.ctrs)
    | some (ps, cs) => (ps ++ c.pods, cs ++ c.ctrs)
  ({ st with acc := some acc' }, { update := [], more := c.more })

/-- `deliverSync`: take and clear the accumulator, append the final chunk, call the handler
    once; its updates (or its error) are the reply. -/
def deliverSync {α β υ ε : Type} (h : List α → List β → Except ε (List υ))
    (st : RState α β) (c : Chunk α β) : RState α β × Except ε (Reply υ) :=
  let args := match st.acc with
    | none => (c.pods, c.ctrs)
    | some (ps, cs) => (ps ++ c.pods, cs ++ c.ctrs)
  let st' : RState α β := { acc := none, calls := st.calls ++ [args] }
  match h args.1 args.2 with
  | .ok u => (st', .ok { update := u, more := false })
  | .error e => (st', .error e)

/-- `(*stub).Synchronize`. -/
def stubRPC {α β υ ε : Type} (h : Handler α β υ ε) (st : RState α β) (c : Chunk α β) :
    RState α β × Except ε (Reply υ) :=
  match h with
  | none => (st, .ok { update := [], more := c.more })
  | some f =>
    if c.more then
      let r := collectSync (υ := υ) st c
      (r.1, .ok r.2)
    else deliverSync f st c

/-- Feed a list of chunks to the stub; replies in order, stopping at the first handler error. -/
def stubRun {α β υ ε : Type} (h : Handler α β υ ε) :
    RState α β → List (Chunk α β) → RState α β × List (Except ε (Reply υ))
  | st, [] => (st, [])
  | st, c :: rest =>
    let r := stubRPC h st c
    let r' := stubRun h r.1 rest
    (r'.1, r.2 :: r'.2)

/-- all pods / containers of a list of chunks, in order -/
def allPods {α β : Type} : List (Chunk α β) → List α
  | [] => []
  | c :: rest => c.pods ++ allPods rest

def allCtrs {α β : Type} : List (Chunk α β) → List β
  | [] => []
  | c :: rest => c.ctrs ++ allCtrs rest

/-- `(*stub).close()` as far as synchronisation goes: the connection is gone, whatever the
    stub had collected of a split request is discarded (`stub.syncReq = nil`). The handler log
    is the observer's, it is kept. `reset = false` transcribes a `close` that forgets to. -/
def stubClose {α β : Type} (reset : Bool) (st : RState α β) : RState α β :=
  if reset then { st with acc := none } else st

/-- Several sessions of ONE stub object (Start … connection lost … Start again): each session's
    chunks are fed in order, `close` runs between sessions. A session may be abandoned (its
    last chunk never arrives). -/
def stubSessions {α β υ ε : Type} (reset : Bool) (h : Handler α β υ ε) :
    RState α β → List (List (Chunk α β)) → RState α β
  | st, [] => st
  | st, s :: rest => stubSessions reset h (stubClose reset (stubRun h st s).1) rest

/-! ### The reply has a size limit too

`deliverSync` puts ALL the handler's updates into ONE `SynchronizeResponse`. When the marshalled
response exceeds ttrpc's message limit the stub's ttrpc server only logs
"failed sending message on channel" and drops it (ttrpc v1.2.7 server.go): the handler HAS been
called, but the runtime's `Synchronize` call never gets an answer and ends with the request
deadline (`context deadline exceeded`). Seen from the sender that is "any other error of the RPC". -/

/-- errors of a `Synchronize` call against the stub, as the runtime sees them -/
inductive WireErr (ε : Type) where
  | handler (e : ε)   -- the plugin's handler returned an error
  | replyLost         -- the reply exceeded the transport's limit and was dropped: deadline
deriving DecidableEq, Repr

/-- The stub behind the transport: a reply larger than `replyLimit` never arrives. -/
def wireStub {α β υ ε : Type} (replySize : Reply υ → Nat) (replyLimit : Nat) (h : Handler α β υ ε)
    (st : RState α β) (c : Chunk α β) : RState α β × Except (WireErr ε) (Reply υ) :=
  match stubRPC h st c with
  | (st', .ok r) => if replySize r ≤ replyLimit then (st', .ok r) else (st', .error .replyLost)
  | (st', .error e) => (st', .error (.handler e))

/-- which errors carry the status code ResourceExhausted: a lost reply does not (it is a
    deadline); a handler error does iff the plugin chose that code (`hx`) -/
def wireExhausted {ε : Type} (hx : ε → Bool) : WireErr ε → Bool
  | .handler e => hx e
  | .replyLost => false

/-- Chunks of one synchronisation as the protocol intends them: all but the last flagged
    `more`, the last one not. -/
def WellFlagged {α β : Type} : List (Chunk α β) → Prop
  | [] => False
  | [c] => c.more = false
  | c :: rest => c.more = true ∧ WellFlagged rest

/-! ## Sender: the runtime -/

/-- Errors `synchronize` returns. `noSplit` = "plugin does not handle split sync requests",
    `tooLarge` = "failed to synchronize plugin with split messages", `peer e` = any other
    error of the RPC (handler error, closed connection, deadline) passed through
    `recalcObjsPerSyncMsg` unchanged. -/
inductive SyncErr (ε : Type) where
  | noSplit
  | tooLarge
  | peer (e : ε)
deriving DecidableEq, Repr

/-- What one attempt to send did. -/
inductive Ev (α β υ : Type) where
  | sent (c : Chunk α β) (r : Reply υ)      -- transmitted and answered
  | rejected (c : Chunk α β) (len : Nat)    -- refused by the transport: `len` exceeds the limit
  | errored (c : Chunk α β)                 -- transmitted (or attempted), the RPC failed otherwise
deriving DecidableEq, Repr

inductive Outcome (υ ε : Type) where
  | done (u : List υ)          -- `return rpl.Update, nil`
  | failed (e : SyncErr ε)     -- `p.close(); return nil, err`
  | fault                      -- a slice expression out of range: Go panics (the runtime dies)
  | outOfFuel                  -- the loop has not finished within the given number of iterations
deriving DecidableEq, Repr

/-- `recalcObjsPerSyncMsg(pods, ctrs, err)` for an oversized-message error:
    arguments are the current counts, the maximum and the rejected length. -/
abbrev Policy := Nat → Nat → Nat → Nat → Option (Nat × Nat)

/-- Everything the loop is parametric in. `σ` is the state of the plugin end. -/
structure Env (α β υ ε σ : Type) where
  size : Chunk α β → Nat          -- encoded length the transport measures for the message
  limit : Nat                     -- ttrpc's maximum message length
  policy : Policy
  clamp : Bool                    -- the repair: clamp the recalculated counts to what remains
  peer : σ → Chunk α β → σ × Except ε (Reply υ)
  /-- `status.Code(err) == codes.ResourceExhausted` for an error of the RPC that is not ttrpc's own
      refusal to send: `recalcObjsPerSyncMsg` answers every such error with the very same
      "failed to synchronize plugin with split messages" as a genuinely oversized request. -/
  exhausted : ε → Bool := fun _ => false

/-- Loop variables of `synchronize`. -/
structure SState (α β : Type) where
  podsLeft : List α     -- podsToSend
  ctrsLeft : List β     -- ctrsToSend
  podsPer : Nat         -- podsPerMsg
  ctrsPer : Nat         -- ctrsPerMsg
deriving DecidableEq, Repr

def SState.init {α β : Type} (pods : List α) (ctrs : List β) : SState α β :=
  ⟨pods, ctrs, pods.length, ctrs.length⟩

inductive StepRes (α β υ ε : Type) where
  | stop (o : Outcome υ ε)
  | next (s : SState α β)
deriving DecidableEq, Repr

/-- One iteration of the `for` in `synchronize`. -/
def step {α β υ ε σ : Type} (E : Env α β υ ε σ) (w : σ) (s : SState α β) :
    σ × List (Ev α β υ) × StepRes α β υ ε :=
  -- Pods: podsToSend[:podsPerMsg], Containers: ctrsToSend[:ctrsPerMsg]
  match sliceTo s.podsLeft s.podsPer, sliceTo s.ctrsLeft s.ctrsPer with
  | some ps, some cs =>
    -- More: len(podsToSend) > podsPerMsg || len(ctrsToSend) > ctrsPerMsg
    let more := decide (s.podsPer < s.podsLeft.length) || decide (s.ctrsPer < s.ctrsLeft.length)
    let c : Chunk α β := ⟨ps, cs, more⟩
    if E.size c ≤ E.limit then
      match E.peer w c with
      | (w', .ok r) =>
        if more = false then (w', [.sent c r], .stop (.done r.update))
        else if !r.update.isEmpty || r.more != more then
          (w', [.sent c r], .stop (.failed .noSplit))
        else
          -- podsToSend = podsToSend[podsPerMsg:] (in range: the `[:n]` above was)
          let pl := s.podsLeft.drop s.podsPer
          let cl := s.ctrsLeft.drop s.ctrsPer
          (w', [.sent c r], .next ⟨pl, cl, min s.podsPer pl.length, min s.ctrsPer cl.length⟩)
      | (w', .error e) =>
        -- recalcObjsPerSyncMsg: a ResourceExhausted status that is no OversizedMessageErr also
        -- ends in "failed to synchronize plugin with split messages"; any other error is returned
        (w', [.errored c], .stop (.failed (if E.exhausted e then .tooLarge else .peer e)))
    else
      match E.policy s.podsPer s.ctrsPer E.limit (E.size c) with
      | none => (w, [.rejected c (E.size c)], .stop (.failed .tooLarge))
      | some (p, k) =>
        let p' := if E.clamp then min p s.podsLeft.length else p
        let k' := if E.clamp then min k s.ctrsLeft.length else k
        (w, [.rejected c (E.size c)], .next { s with podsPer := p', ctrsPer := k' })
  | _, _ => (w, [], .stop .fault)

structure Run (α β υ ε σ : Type) where
  evs : List (Ev α β υ)
  out : Outcome υ ε
  world : σ

/-- The loop, bounded by `fuel` iterations. -/
def run {α β υ ε σ : Type} (E : Env α β υ ε σ) : Nat → σ → SState α β → Run α β υ ε σ
  | 0, w, _ => ⟨[], .outOfFuel, w⟩
  | n + 1, w, s =>
    match step E w s with
    | (w', evs, .stop o) => ⟨evs, o, w'⟩
    | (w', evs, .next s') =>
      let r := run E n w' s'
      ⟨evs ++ r.evs, r.out, r.world⟩

/-- The loop state after `k` iterations, if the loop is still running then. -/
def stateAfter {α β υ ε σ : Type} (E : Env α β υ ε σ) : Nat → σ → SState α β → Option (σ × SState α β)
  | 0, w, s => some (w, s)
  | k + 1, w, s =>
    match step E w s with
    | (_, _, .stop _) => none
    | (w', _, .next s') => stateAfter E k w' s'

/-- `(*plugin).synchronize(ctx, pods, containers)`. -/
def synchronize {α β υ ε σ : Type} (E : Env α β υ ε σ) (fuel : Nat) (w : σ)
    (pods : List α) (ctrs : List β) : Run α β υ ε σ :=
  run E fuel w (SState.init pods ctrs)

/-- Iterations that always suffice for the repaired loop (`C09_terminates`). -/
def fuelBound {α β : Type} (pods : List α) (ctrs : List β) : Nat :=
  2 * (pods.length + ctrs.length) + 1

/-- The chunk plan: what reached the plugin end, in order. -/
def plan {α β υ : Type} : List (Ev α β υ) → List (Chunk α β)
  | [] => []
  | .sent c _ :: rest => c :: plan rest
  | _ :: rest => plan rest

/-! ## Shrink policies -/

/-- `int(float64(x) * factor)` with `factor = min(maxLen/msgLen, 0.9)`, in exact arithmetic
    (the Go code rounds through float64; trace acceptance does not depend on the difference). -/
def scale (x maxLen msgLen : Nat) : Nat :=
  if 9 * msgLen < 10 * maxLen then x * 9 / 10 else x * maxLen / msgLen

/-- `recalcObjsPerSyncMsg` as it stands (for an `OversizedMessageErr`). -/
def policyUnfixed (minObjs : Nat) : Policy := fun pods ctrs maxLen msgLen =>
  if pods + ctrs ≤ minObjs then none
  else if msgLen = 0 ∨ maxLen = 0 ∨ msgLen ≤ maxLen then none
  else
    let p := scale pods maxLen msgLen
    let c := scale ctrs maxLen msgLen
    if p + c < minObjs then some (minObjs / 2, minObjs / 2) else some (p, c)

/-- A share of a kind that is still being sent never rounds down to zero (the patch). -/
def keepPos (old new : Nat) : Nat := if 0 < old then max 1 new else new

/-- `recalcObjsPerSyncMsg` after docs/fixes/C09-1.patch. -/
def policyFixed (minObjs : Nat) : Policy := fun pods ctrs maxLen msgLen =>
  if pods + ctrs ≤ minObjs then none
  else if msgLen = 0 ∨ maxLen = 0 ∨ msgLen ≤ maxLen then none
  else
    let p := keepPos pods (scale pods maxLen msgLen)
    let c := keepPos ctrs (scale ctrs maxLen msgLen)
    if p + c < minObjs then some (minObjs / 2, minObjs / 2) else some (p, c)

/-- What the theorems need of a shrink policy; `m` is the minimum number of objects per
    message below which the policy may give up. -/
structure Shrinks (m : Nat) (π : Policy) : Prop where
  /-- every retry asks for strictly fewer objects per message -/
  decreases : ∀ p c M L p' c', π p c M L = some (p', c') → p' + c' < p + c
  /-- a kind that is being sent keeps a non-zero share -/
  positive : ∀ p c M L p' c', π p c M L = some (p', c') → (0 < p → 0 < p') ∧ (0 < c → 0 < c')
  /-- it gives up on a genuinely oversized message only at or below the minimum -/
  gives_up : ∀ p c M L, 0 < M → M < L → π p c M L = none → p + c ≤ m

/-! ## The specification of an acceptable plan -/

/-- Nondeterministic specification: the sender may cut the two lists wherever it likes, as
    long as every message flagged `more` carries something, every message fits, the cuts
    walk both lists front to back, and exactly the last message is not flagged. -/
inductive ValidPlan {α β : Type} (fits : Chunk α β → Prop) :
    List α → List β → List (Chunk α β) → Prop where
  | last (ps : List α) (cs : List β) : fits ⟨ps, cs, false⟩ → ValidPlan fits ps cs [⟨ps, cs, false⟩]
  | more (ps : List α) (cs : List β) (n k : Nat) (rest : List (Chunk α β)) :
      n ≤ ps.length → k ≤ cs.length → 0 < n + k → fits ⟨ps.take n, cs.take k, true⟩ →
      ValidPlan fits (ps.drop n) (cs.drop k) rest →
      ValidPlan fits ps cs (⟨ps.take n, cs.take k, true⟩ :: rest)

/-- Executable acceptance of an observed plan (what the driver runs). -/
def accepts {α β : Type} [DecidableEq α] [DecidableEq β] (fits : Chunk α β → Bool) :
    List α → List β → List (Chunk α β) → Bool
  | _, _, [] => false
  | ps, cs, [c] => !c.more && decide (c.pods = ps) && decide (c.ctrs = cs) && fits c
  | ps, cs, c :: rest =>
    c.more && decide (c.pods.length ≤ ps.length) && decide (c.ctrs.length ≤ cs.length)
      && decide (c.pods = ps.take c.pods.length) && decide (c.ctrs = cs.take c.ctrs.length)
      && decide (0 < c.pods.length + c.ctrs.length) && fits c
      && accepts fits (ps.drop c.pods.length) (cs.drop c.ctrs.length) rest

/-! ## The specification of the sender's attempts

The trace of attempts (`Ev`) seen at the runtime end is accepted iff it is a behaviour of
the repaired loop for *some* shrink policy satisfying `Shrinks m`: after a success the next
counts are determined (`min`), after a rejection they are read off the next attempt and
must be strictly smaller, in range and positive for a kind that remains. -/

/-- How the observed synchronisation ended. -/
inductive End where
  | done | failed
deriving DecidableEq, Repr

def evChunk {α β υ : Type} : Ev α β υ → Chunk α β
  | .sent c _ => c
  | .rejected c _ => c
  | .errored c => c

/-- the chunk the loop must attempt in state `s` -/
def expected {α β : Type} (s : SState α β) : Chunk α β :=
  ⟨s.podsLeft.take s.podsPer, s.ctrsLeft.take s.ctrsPer,
   decide (s.podsPer < s.podsLeft.length) || decide (s.ctrsPer < s.ctrsLeft.length)⟩

def acceptsTrace {α β υ : Type} [DecidableEq α] [DecidableEq β]
    (fitsOk : Chunk α β → Bool) (rejOk : Chunk α β → Nat → Bool) (m : Nat) (fin : End) :
    SState α β → List (Ev α β υ) → Bool
  | _, [] => false
  | s, e :: rest =>
    decide (s.podsPer ≤ s.podsLeft.length) && decide (s.ctrsPer ≤ s.ctrsLeft.length)
    && decide (evChunk e = expected s)
    && match e with
      | .sent c r =>
        fitsOk c &&
        if c.more = false then rest.isEmpty && decide (fin = .done)
        else if !r.update.isEmpty || r.more != true then rest.isEmpty && decide (fin = .failed)
        else
          let pl := s.podsLeft.drop s.podsPer
          let cl := s.ctrsLeft.drop s.ctrsPer
          acceptsTrace fitsOk rejOk m fin
            ⟨pl, cl, min s.podsPer pl.length, min s.ctrsPer cl.length⟩ rest
      | .errored _ => rest.isEmpty && decide (fin = .failed)
      | .rejected c len =>
        rejOk c len &&
        match rest with
        | [] => decide (fin = .failed) && decide (c.count ≤ m)
        | e' :: _ =>
          let p' := (evChunk e').pods.length
          let k' := (evChunk e').ctrs.length
          decide (p' + k' < s.podsPer + s.ctrsPer)
          && decide (p' ≤ s.podsLeft.length) && decide (k' ≤ s.ctrsLeft.length)
          && (s.podsLeft.isEmpty || decide (0 < p')) && (s.ctrsLeft.isEmpty || decide (0 < k'))
          && acceptsTrace fitsOk rejOk m fin { s with podsPer := p', ctrsPer := k' } rest

/-! ## Activation (pkg/adaptation/adaptation.go) -/

/-- `acceptPluginConnections`: `err = r.syncFn(ctx, p.synchronize)`; only on `nil` is the
    plugin appended to `r.plugins`. The runtime's `SyncFn` is taken to return the error of
    the callback it was given (that is its contract). -/
def activateExternal {π υ ε : Type} (plugins : List π) (p : π) (o : Outcome υ ε) : List π :=
  match o with
  | .done _ => plugins ++ [p]
  | _ => plugins

/-- `startPlugins.syncPlugins`: every started plugin is synchronised in turn; those that
    fail are stopped and left out; updates of the others are concatenated. -/
def activatePreinstalled {π υ ε : Type} : List (π × Outcome υ ε) → List π × List υ
  | [] => ([], [])
  | (p, .done u) :: rest =>
    let r := activatePreinstalled rest
    (p :: r.1, u ++ r.2)
  | _ :: rest => activatePreinstalled rest

/-- specification of `activatePreinstalled`: the plugins kept … -/
def keptOf {π υ ε : Type} : List (π × Outcome υ ε) → List π
  | [] => []
  | (p, .done _) :: rest => p :: keptOf rest
  | _ :: rest => keptOf rest

/-- … and the updates handed to the runtime's `SyncFn`: those of the kept plugins, in order -/
def updOf {π υ ε : Type} : List (π × Outcome υ ε) → List υ
  | [] => []
  | (_, .done u) :: rest => u ++ updOf rest
  | _ :: rest => updOf rest

/-! ## A concrete size oracle (driver, witnesses): protobuf lengths, additive over objects -/

/-- bytes of a protobuf varint -/
def varintLen (n : Nat) : Nat :=
  if h : n < 128 then 1 else 1 + varintLen (n / 128)
termination_by n
decreasing_by omega

/-- a length-delimited field with a one-byte tag -/
def fieldLen (sz : Nat) : Nat := 1 + varintLen sz + sz

def sumBy {γ : Type} (f : γ → Nat) : List γ → Nat
  | [] => 0
  | x :: xs => f x + sumBy f xs

/-- encoded length of a `SynchronizeRequest` whose objects have the given encoded sizes -/
def payloadSize {α β : Type} (szP : α → Nat) (szC : β → Nat) (c : Chunk α β) : Nat :=
  sumBy (fun p => fieldLen (szP p)) c.pods + sumBy (fun k => fieldLen (szC k)) c.ctrs
    + (if c.more then 2 else 0)

/-- the plain additive oracle used by the abstract witnesses -/
def plainSize {α β : Type} (szP : α → Nat) (szC : β → Nat) (c : Chunk α β) : Nat :=
  sumBy szP c.pods + sumBy szC c.ctrs

end Nri.SyncChunk
