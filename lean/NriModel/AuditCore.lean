/-
`#audit_module M` prints one line per theorem declared in module `M`:
`AUDIT {"module":…,"theorem":…,"axioms":[…]}`. The runner (bin/check) requires every axiom
to be one of `propext`, `Classical.choice`, `Quot.sound`.
-/
import Lean
open Lean Elab Command

namespace Nri.Audit

def isUserName (n : Name) : Bool :=
  !n.isInternal && !(n.components.any fun c => match c with
    | .str _ s => s.startsWith "_" || s.startsWith "match_" || s.startsWith "proof_" || s == "eq_1"
    | _ => false)

elab "#audit_module " m:ident : command => do
  let env ← getEnv
  let modName := m.getId
  match env.getModuleIdx? modName with
  | none => logError s!"module {modName} is not imported"
  | some idx =>
    let data := env.header.moduleData[idx.toNat]!
    for c in data.constNames do
      if !isUserName c then continue
      match env.find? c with
      | some (.thmInfo _) =>
        let axs ← liftCoreM <| collectAxioms c
        let axs := axs.toList.map (fun a => "\"" ++ a.toString ++ "\"")
        IO.println s!"AUDIT \{\"module\":\"{modName}\",\"theorem\":\"{c}\",\"axioms\":[{", ".intercalate axs}]}"
      | _ => pure ()

end Nri.Audit
