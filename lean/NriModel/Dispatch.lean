/-
Model of request dispatch in pkg/adaptation (adaptation.go, plugin.go): the plugin list and
its ordering (`sortPlugins`, `removeClosedPlugins`), the subscription test made before
every relay (`p.events.IsSet`), the per-plugin call with its deadline and the classification
of its error (`isFatalError`), the request loop of `CreateContainer` / `UpdateContainer` /
`StopContainer` / `UpdatePodSandbox` / `StateChange`, and the interleaving semantics the
adaptation mutex gives to concurrent callers.

Collection of the plugins' responses (result.go) is NOT modelled here: it is the abstract
`Merger` (`init`, `apply`, `finish`) the loop is parameterised by.

Core Lean only (the driver links this file).
-/
import NriModel.Events

namespace Nri.Dispatch
open Nri.Events

/-! ## Indices (pkg/api/plugin.go `CheckPluginIndex`) and their order -/

def isDigit (c : Char) : Bool := 48 ≤ c.toNat && c.toNat ≤ 57

/-- `CheckPluginIndex`: exactly two characters, both `0`–`9`. -/
def twoDigits : Str → Bool
  | [a, b] => isDigit a && isDigit b
  | _ => false

def digitVal (c : Char) : Nat := c.toNat - 48

/-- the number a two-digit index denotes -/
def idxNat (s : Str) : Nat := s.foldl (fun n c => 10 * n + digitVal c) 0

/-- Go's `<` on strings (bytewise lexicographic; on valid UTF-8 that is code-point
    lexicographic), the comparison `sortPlugins` hands to `sort.Slice`. -/
def strLt : Str → Str → Bool
  | [], [] => false
  | [], _ :: _ => true
  | _ :: _, [] => false
  | a :: as, b :: bs =>
    if a.toNat < b.toNat then true
    else if b.toNat < a.toNat then false
    else strLt as bs

/-! ## Plugins -/

/-- `configure`: a zero mask in the Configure reply subscribes to everything. (A mask with
    bits outside `ValidEvents` fails the registration — C17; such a plugin never gets into
    the list.) -/
def effective (m : Mask) : Mask := if m = 0#32 then valid else m

/-- One entry of `Adaptation.plugins`. `events` is the field `p.events` (already
    `effective`), `closed` the field `p.closed`. `id` stands for the identity of the Go
    `*plugin` pointer (two registrations may use the same index and name). -/
structure Plugin where
  id : Nat
  idx : Str
  name : Str
  events : Mask
  closed : Bool
  deriving DecidableEq, Repr

/-- `p.events.IsSet(ev)` -/
def subscribed (ev : EventNo) (p : Plugin) : Bool := isSet p.events ev

/-- `a` may stand before `b`: `¬ (b.idx < a.idx)` -/
def idxLe (a b : Plugin) : Bool := !strLt b.idx a.idx

/-- the list is in index order -/
def Sorted (ps : List Plugin) : Prop := ps.Pairwise (fun a b => idxLe a b = true)

def sortedB : List Plugin → Bool
  | [] => true
  | p :: rest => rest.all (idxLe p) && sortedB rest

/-- `removeClosedPlugins`: keeps the open plugins, in order. -/
def prune (ps : List Plugin) : List Plugin := ps.filter (fun p => !p.closed)

/-- What `append` + `sortPlugins` may produce: `sort.Slice` is not stable, so ANY index-sorted
    arrangement of the open plugins and the new one is admitted. -/
def IsActivation (ps : List Plugin) (p : Plugin) (ps' : List Plugin) : Prop :=
  ps'.Perm (prune ps ++ [p]) ∧ Sorted ps'

/-- executable form of `IsActivation` (used to validate an observed order) -/
def isActivation (ps : List Plugin) (p : Plugin) (ps' : List Plugin) : Bool :=
  ps'.isPerm (prune ps ++ [p]) && sortedB ps'

/-- one admissible choice: insert behind every plugin whose index is not greater -/
def insertByIdx (p : Plugin) : List Plugin → List Plugin
  | [] => [p]
  | q :: rest => if strLt p.idx q.idx then p :: q :: rest else q :: insertByIdx p rest

def activate (ps : List Plugin) (p : Plugin) : List Plugin := insertByIdx p (prune ps)

/-- a connection loss marks the plugin closed whenever it happens (`p.close()` takes only the
    plugin's own lock); the entry stays in the list until the next prune -/
def disconnect (ps : List Plugin) (id : Nat) : List Plugin :=
  ps.map fun p => if p.id = id then { p with closed := true } else p

/-! ## One per-plugin call (plugin.go `createContainer`, `updateContainer`, `stopContainer`,
    `updatePodSandbox`, `StateChange`) -/

/-- the error classes `isFatalError` accepts -/
inductive Fatal
  | closed          -- ttrpc.ErrClosed
  | serverClosed    -- ttrpc.ErrServerClosed
  | protocol        -- ttrpc.ErrProtocol
  | timeout         -- context.DeadlineExceeded
  deriving DecidableEq, Repr

/-- what `p.impl.X(ctx, req)` returns -/
inductive Outcome (ρ : Type)
  | ok (rsp : ρ)
  | fatal (f : Fatal)
  | handlerErr (msg : Str)     -- any error `isFatalError` rejects: the handler's own error
  deriving Repr

/-- What the environment decides about one call: the reply the plugin would give, whether the
    request reaches its handler, and how long it would take without a deadline. -/
structure Call (ρ : Type) where
  out : Outcome ρ
  reached : Bool
  cost : Nat

/-- The call as the runtime experiences it under the request timeout `T`: a plugin already
    marked closed fails at once with `ErrClosed` (its ttRPC client is shut); a call that would
    take longer than `T` ends at `T` with `DeadlineExceeded`. Second component: elapsed ticks. -/
def effOut {ρ : Type} (T : Nat) (p : Plugin) (c : Call ρ) : Outcome ρ × Nat :=
  if p.closed then (.fatal .closed, 0)
  else if T < c.cost then (.fatal .timeout, T)
  else (c.out, c.cost)

/-- the handler really ran (for the invocation log a plugin keeps) -/
def handlerRan {ρ : Type} (p : Plugin) (c : Call ρ) : Bool := !p.closed && c.reached

/-! ## The request loop -/

/-- result.go seen from the loop: a fresh collector, `apply` of one plugin's response (may
    refuse: conflict), and the reply getter. -/
structure Merger (ρ σ ο ε : Type) where
  init : σ
  apply : σ → Plugin → ρ → Except ε σ
  finish : σ → ο

inductive Err (ε : Type)
  | veto (by_ : Plugin) (msg : Str)     -- `return nil, err` after the per-plugin call
  | merge (by_ : Plugin) (e : ε)        -- `return nil, err` after `result.apply`
  deriving Repr

/-- the plugin whose answer ended the loop -/
def Err.culprit {ε : Type} : Err ε → Plugin
  | .veto p _ => p
  | .merge p _ => p

/-- everything observable about one pass over the plugin list -/
structure Trace (ρ : Type) where
  attempted : List Plugin        -- calls made by the runtime, in order
  handled : List Plugin          -- of these, the handlers that really ran
  oks : List (Plugin × ρ)        -- responses handed to `apply`, in order
  after : List Plugin            -- the plugin list afterwards (closed flags set, not yet pruned)
  ticks : Nat                    -- time spent in plugin calls

def Trace.skip {ρ : Type} (p : Plugin) (t : Trace ρ) : Trace ρ := { t with after := p :: t.after }

/-- the loop `for _, plugin := range r.plugins { … }` of the five request methods -/
def relayLoop {ρ σ ο ε : Type} (M : Merger ρ σ ο ε) (T : Nat) (ev : EventNo) :
    σ → List (Plugin × Call ρ) → Except (Err ε) σ × Trace ρ
  | acc, [] => (.ok acc, ⟨[], [], [], [], 0⟩)
  | acc, (p, c) :: rest =>
    if !subscribed ev p then
      -- `if !p.events.IsSet(ev) { return nil, nil }`
      let (r, t) := relayLoop M T ev acc rest
      (r, t.skip p)
    else
      let h := if handlerRan p c then [p] else []
      match effOut T p c with
      | (.fatal _, d) =>
        -- `p.close(); return nil, nil`: no contribution, the loop goes on
        let (r, t) := relayLoop M T ev acc rest
        (r, ⟨p :: t.attempted, h ++ t.handled, t.oks, { p with closed := true } :: t.after, d + t.ticks⟩)
      | (.handlerErr m, d) =>
        (.error (.veto p m), ⟨[p], h, [], p :: rest.map (·.1), d⟩)
      | (.ok rsp, d) =>
        match M.apply acc p rsp with
        | .error e => (.error (.merge p e), ⟨[p], h, [(p, rsp)], p :: rest.map (·.1), d⟩)
        | .ok acc' =>
          let (r, t) := relayLoop M T ev acc' rest
          (r, ⟨p :: t.attempted, h ++ t.handled, (p, rsp) :: t.oks, p :: t.after, d + t.ticks⟩)

/-- One whole request method: lock, loop, reply getter, deferred `removeClosedPlugins`.
    Returns the reply, the trace and the plugin list the request leaves behind. -/
def request {ρ σ ο ε : Type} (M : Merger ρ σ ο ε) (T : Nat) (ev : EventNo)
    (pcs : List (Plugin × Call ρ)) : Except (Err ε) ο × Trace ρ × List Plugin :=
  let (r, t) := relayLoop M T ev M.init pcs
  (r.map M.finish, t, prune t.after)

/-- folding `apply` over a list of responses: the abstract "merged result" -/
def combine {ρ σ ο ε : Type} (M : Merger ρ σ ο ε) : σ → List (Plugin × ρ) → Except (Plugin × ε) σ
  | acc, [] => .ok acc
  | acc, (p, r) :: rest =>
    match M.apply acc p r with
    | .error e => .error (p, e)
    | .ok acc' => combine M acc' rest

/-! ## Specification-level readings of one pass (used in the theorem statements) -/

/-- the plugins subscribed to `ev`, in list order -/
def subscribers {ρ : Type} (ev : EventNo) (pcs : List (Plugin × Call ρ)) : List Plugin :=
  (pcs.map (·.1)).filter (subscribed ev)

/-- the responses of the subscribed plugins whose call succeeds, in list order -/
def okResponses {ρ : Type} (T : Nat) (ev : EventNo) : List (Plugin × Call ρ) → List (Plugin × ρ)
  | [] => []
  | (p, c) :: rest =>
    if subscribed ev p then
      match (effOut T p c).1 with
      | .ok r => (p, r) :: okResponses T ev rest
      | _ => okResponses T ev rest
    else okResponses T ev rest

def isVeto {ρ : Type} : Outcome ρ → Bool
  | .handlerErr _ => true
  | _ => false

def isFatal {ρ : Type} : Outcome ρ → Bool
  | .fatal _ => true
  | _ => false

/-- some subscribed plugin answers with its own error -/
def hasVeto {ρ : Type} (T : Nat) (ev : EventNo) (pcs : List (Plugin × Call ρ)) : Bool :=
  pcs.any fun pc => subscribed ev pc.1 && isVeto (effOut T pc.1 pc.2).1

/-- the subscribed plugins up to and including the first one that answers with its own error -/
def upToVeto {ρ : Type} (T : Nat) (ev : EventNo) : List (Plugin × Call ρ) → List Plugin
  | [] => []
  | (p, c) :: rest =>
    if subscribed ev p then
      if isVeto (effOut T p c).1 then [p] else p :: upToVeto T ev rest
    else upToVeto T ev rest

/-! ## Classification of what a call returns (plugin.go `isFatalError`) -/

/-- rpc status codes that matter here (the rest is `other`) -/
inductive Code
  | unknown | canceled | deadlineExceeded | unavailable | resourceExhausted
  | outOfRange | failedPrecondition | other
  deriving DecidableEq, Repr

/-- The errors `p.impl.X(ctx, req)` can return AS THE RUNTIME SEES THEM, by the way they arise.
    Whatever a plugin's handler returns arrives as `status code msg` (see `onWire`); the other
    constructors are produced on the runtime's side of the connection. -/
inductive CallErr
  | ttrpcClosed        -- ttrpc.ErrClosed: connection closed / reset / EOF as ttRPC reports it
  | serverClosed       -- ttrpc.ErrServerClosed
  | protocol           -- ttrpc.ErrProtocol: unexpected message type
  | deadline           -- context.DeadlineExceeded: no answer within the request timeout
  | status (code : Code) (msg : Str) -- an rpc status error: what the plugin's handler returned
  | canceled           -- context.Canceled: the CALLER gave up
  | undecodable        -- the reply does not decode (protobuf error from the client's Unmarshal)
  | truncatedFrame     -- io.ErrUnexpectedEOF from the multiplexer: connection cut inside a frame
  deriving DecidableEq, Repr

/-- What a plugin's HANDLER may return (a Go error value), as far as the plugin-side ttRPC
    server distinguishes: a status error keeps its code; a few sentinel values are mapped by
    `convertCode` (ttrpc services.go, compared with `==`); everything else — `ttrpc.ErrClosed`,
    `ttrpc.ErrServerClosed`, `ttrpc.ErrProtocol`, wrapped errors, errors whose text merely looks
    like a decoding failure — becomes `Unknown`. -/
inductive HandlerErr
  | ctxDeadline        -- context.DeadlineExceeded returned by the handler
  | ctxCanceled        -- context.Canceled returned by the handler
  | eof                -- io.EOF
  | unexpectedEOF      -- io.ErrUnexpectedEOF (also ErrClosedPipe, ErrShortWrite, …)
  | status (code : Code)
  | anyOther
  deriving DecidableEq, Repr

def convertCode : HandlerErr → Code
  | .ctxDeadline => .deadlineExceeded
  | .ctxCanceled => .canceled
  | .eof => .outOfRange
  | .unexpectedEOF => .failedPrecondition
  | .status c => c
  | .anyOther => .unknown

/-- the ttRPC round trip: server `status.New(convertCode(err), err.Error())`, client
    `status.ErrorProto`: a handler's error reaches the runtime as a status error and as nothing
    else — in particular never as the Go sentinel value it may have been at the plugin -/
def onWire (h : HandlerErr) (msg : Str) : CallErr := .status (convertCode h) msg

/-- `isFatalError` as it stands in plugin.go -/
def isFatalError : CallErr → Option Fatal
  | .ttrpcClosed => some .closed
  | .serverClosed => some .serverClosed
  | .protocol => some .protocol
  | .deadline => some .timeout
  | _ => none

/-- `isFatalError` with the repair of docs/fixes/C07-1.patch: a reply that does not decode and
    a frame cut short are failures of the plugin's connection too -/
def isFatalErrorFixed : CallErr → Option Fatal
  | .undecodable => some .protocol
  | .truncatedFrame => some .closed
  | e => isFatalError e

/-- a variant that also treats the status code DeadlineExceeded as a failure of the connection
    (a seeded breakage the check must catch; used only in an `example`) -/
def isFatalErrorStatusDeadline : CallErr → Option Fatal
  | .status .deadlineExceeded _ => some .timeout
  | e => isFatalErrorFixed e

def errText : CallErr → Str
  | .status _ m => m
  | _ => []

/-- from the value a call returns to the outcome the loop acts on -/
def classify {ρ : Type} (fatal : CallErr → Option Fatal) : Except CallErr ρ → Outcome ρ
  | .ok r => .ok r
  | .error e => match fatal e with
    | some f => .fatal f
    | none => .handlerErr (errText e)

/-- the errors that mean "the plugin disconnected, broke the protocol or did not answer in
    time" — everything except the handler's own error and the caller's cancellation -/
def pluginFailure : CallErr → Bool
  | .status _ _ => false
  | .canceled => false
  | _ => true

/-! ## Concurrent callers: the adaptation mutex

Callers are threads. Every request method starts with `r.Lock()` and holds the mutex until it
returns, and `acceptPluginConnections` takes the same mutex around `append` + `sortPlugins`.
So between a caller's invocation and its return exactly one thing happens that other threads
can observe, the whole relay, at the moment the caller owns the mutex. Connection losses are
not ordered by the mutex. -/

abbrev Tid := Nat

/-- what a thread is doing -/
inductive Pc (ρ ο ε : Type)
  | idle
  | waiting (rid : Nat) (ev : EventNo)       -- inside a request method, before `r.Lock()` returns
  | finished (rid : Nat) (res : Except (Err ε) ο)   -- mutex released, about to return `res`

/-- one completed relay, as recorded in the history's log -/
structure Done (ρ ο ε : Type) where
  tid : Tid
  rid : Nat
  ev : EventNo
  before : List Plugin            -- plugin list when the mutex was obtained
  calls : List (Call ρ)
  trace : Trace ρ
  res : Except (Err ε) ο

structure LState (ρ ο ε : Type) where
  plugins : List Plugin
  pcs : List (Tid × Pc ρ ο ε)     -- threads not listed are idle
  log : List (Done ρ ο ε)         -- completed relays, latest first
  rets : List (Tid × Nat × Except (Err ε) ο)   -- values returned to callers, latest first

inductive Ev (ρ : Type)
  | inv (t : Tid) (rid : Nat) (ev : EventNo)     -- caller `t` enters a request method
  | run (t : Tid) (calls : List (Call ρ))        -- `t` owns the mutex: loop + prune, then unlock
  | ret (t : Tid)                                -- the method returns to `t`'s caller
  | activate (p : Plugin) (arrangement : List Plugin)   -- acceptor: lock, append, sort, unlock
  | disconnect (id : Nat)                        -- a connection drops

def pcOf {ρ ο ε : Type} (pcs : List (Tid × Pc ρ ο ε)) (t : Tid) : Pc ρ ο ε :=
  match pcs with
  | [] => .idle
  | (t', pc) :: rest => if t' = t then pc else pcOf rest t

def setPc {ρ ο ε : Type} (pcs : List (Tid × Pc ρ ο ε)) (t : Tid) (pc : Pc ρ ο ε) :
    List (Tid × Pc ρ ο ε) :=
  (t, pc) :: pcs.filter (fun x => x.1 != t)

/-- The transition function; `none` = the event is not enabled. `Mof rid ev` is the collector
    for that request (`collectCreateContainerResult(req)` depends on the request). -/
def step? {ρ σ ο ε : Type} (Mof : Nat → EventNo → Merger ρ σ ο ε) (T : Nat)
    (s : LState ρ ο ε) : Ev ρ → Option (LState ρ ο ε)
  | .inv t rid ev =>
    match pcOf s.pcs t with
    | .idle => some { s with pcs := setPc s.pcs t (.waiting rid ev) }
    | _ => none
  | .run t calls =>
    match pcOf s.pcs t with
    | .waiting rid ev =>
      if calls.length = s.plugins.length then
        let (res, tr, ps') := request (Mof rid ev) T ev (s.plugins.zip calls)
        some { plugins := ps', pcs := setPc s.pcs t (.finished rid res),
               log := ⟨t, rid, ev, s.plugins, calls, tr, res⟩ :: s.log, rets := s.rets }
      else none
    | _ => none
  | .ret t =>
    match pcOf s.pcs t with
    | .finished rid res => some { s with pcs := setPc s.pcs t .idle, rets := (t, rid, res) :: s.rets }
    | _ => none
  | .activate p arr =>
    if isActivation s.plugins p arr then some { s with plugins := arr } else none
  | .disconnect id => some { s with plugins := disconnect s.plugins id }

def run? {ρ σ ο ε : Type} (Mof : Nat → EventNo → Merger ρ σ ο ε) (T : Nat) :
    LState ρ ο ε → List (Ev ρ) → Option (LState ρ ο ε)
  | s, [] => some s
  | s, e :: rest => match step? Mof T s e with
    | none => none
    | some s' => run? Mof T s' rest

def LState.init {ρ ο ε : Type} : LState ρ ο ε := ⟨[], [], [], []⟩

/-- the requests whose handler ran at plugin `id`, oldest first: the plugin's own log -/
def pluginLog {ρ ο ε : Type} (s : LState ρ ο ε) (id : Nat) : List Nat :=
  (s.log.reverse.filter fun d => d.trace.handled.any (·.id == id)).map (·.rid)

/-- the common order: request ids in the order their relays took place -/
def order {ρ ο ε : Type} (s : LState ρ ο ε) : List (Done ρ ο ε) := s.log.reverse

/-! ## Fine-grained view: the loop as single plugin calls under an explicit mutex

The interleaving model above takes a whole relay as one step. Here the loop is split into its
per-plugin calls and the mutex is an explicit field, with a switch `guard` to leave the
`Lock()`/`Unlock()` out — to state what exactly the mutex buys (`Props/C06.lean`:
`mutex_excludes`, `no_mutex_interleaves`). Every plugin is taken to be subscribed and to answer;
only the order of handler invocations matters here. -/

structure Walker where
  tid : Tid
  rid : Nat
  todo : List Plugin          -- `range r.plugins` is evaluated once, when the loop starts
  deriving DecidableEq, Repr

structure FState where
  plugins : List Plugin
  lock : Option Tid           -- holder of the adaptation mutex
  walkers : List Walker       -- callers inside their loop
  stamps : List (Nat × Nat)   -- handler invocations (plugin identity, request id), latest first
  deriving DecidableEq, Repr

inductive FEv
  | enter (t : Tid) (rid : Nat)   -- `r.Lock()` has returned (when guarded); the loop starts
  | call (t : Tid)                -- the next per-plugin call of `t`'s loop
  | leave (t : Tid)               -- loop finished; `r.Unlock()`
  deriving DecidableEq, Repr

def fstep? (guard : Bool) (s : FState) : FEv → Option FState
  | .enter t rid =>
    if (guard && s.lock.isSome) || s.walkers.any (·.tid == t) then none
    else some { s with lock := some t, walkers := ⟨t, rid, s.plugins⟩ :: s.walkers }
  | .call t =>
    match s.walkers.find? (·.tid == t) with
    | some w =>
      match w.todo with
      | p :: rest =>
        some { s with walkers := ⟨t, w.rid, rest⟩ :: s.walkers.filter (·.tid != t),
                      stamps := (p.id, w.rid) :: s.stamps }
      | [] => none
    | none => none
  | .leave t =>
    match s.walkers.find? (·.tid == t) with
    | some w =>
      if w.todo.isEmpty then
        some { s with walkers := s.walkers.filter (·.tid != t), lock := none }
      else none
    | none => none

def frun? (guard : Bool) : FState → List FEv → Option FState
  | s, [] => some s
  | s, e :: rest => match fstep? guard s e with
    | none => none
    | some s' => frun? guard s' rest

def FState.start (ps : List Plugin) : FState := ⟨ps, none, [], []⟩

/-- what plugin `id` sees: request ids in the order of its handler invocations -/
def FState.seenBy (s : FState) (id : Nat) : List Nat :=
  (s.stamps.reverse.filter (·.1 == id)).map (·.2)

end Nri.Dispatch
