/-
Model of the connection multiplexer, `/repo/pkg/net/multiplex/mux.go` (+ `ttrpc.go` for the
constant, `/repo/pkg/net/conn.go` for the listener wrapper).  Core Lean only.

Parameters (measured from the implementation by the harness, theorems hold for every value):
  `mp`   = maxPayloadSize (ttrpc.go: 10 + 4 MiB)          — hypothesis `0 < mp < 2^32`
  `qlen` = read queue length (`WithReadQueueLength`, default 256) — hypothesis `0 < qlen`

Part 1  frame codec:   be32, `writeLoop`/`chunks` (the loop of `mux.write`), `encodeFrame`,
                       `encodeWrite`, `decode` (the loop of `mux.reader` on a finite stream),
                       `readerEnd` (which error the reader records when the stream stops)
Part 2  one mux end as a labelled transition system: connection objects, the id map, the
        bounded queues, error latch, close — `step : MuxSt → Ev → Option MuxSt`
        (`none` = the operation does not return / the event is not enabled)
Part 3  the listener wrapper of `pkg/net/conn.go`
Part 4  (in `NriModel/MuxSys.lean`) two ends joined by a trunk with a fault point, used by
        the driver to replay scripted exchanges against the real code
-/
import NriModel.Basic

namespace Nri.Mux

abbrev Bytes := List UInt8

/-! ## Part 1 — frame codec -/

/-- `binary.BigEndian.PutUint32(b, uint32(n))`: `byte(v>>24), byte(v>>16), byte(v>>8), byte(v)`
    (`UInt8.ofNat` truncates like Go's `byte()`). -/
def be32Encode (n : Nat) : Bytes :=
  [UInt8.ofNat (n / 16777216), UInt8.ofNat (n / 65536), UInt8.ofNat (n / 256), UInt8.ofNat n]

/-- `binary.BigEndian.Uint32` of four bytes. -/
def be32 (a b c d : UInt8) : Nat :=
  ((a.toNat * 256 + b.toNat) * 256 + c.toNat) * 256 + d.toNat

/-- the loop of `mux.write` (mux.go:246-282) over `(data, size)`; returns the payloads of
    the frames it emits.  `data[:size]` / `data[size:]` fault (`none`) beyond the length.
    `fuel` bounds the iterations (one more than the payload length always suffices). -/
def writeLoop (mp : Nat) : Nat → Bytes → Nat → Option (List Bytes)
  | 0, _, _ => none
  | fuel + 1, data, size =>
    let size := if size > mp then mp else size          -- if size > maxPayloadSize { size = max }
    match sliceTo data size, sliceFrom data size with   -- trunk.Write(data[:size]); data = data[size:]
    | some chunk, some rest =>
      let size' := if size > rest.length then rest.length else size
      if size' = 0 then some [chunk]                     -- if size == 0 { break }
      else (writeLoop mp fuel rest size').map (chunk :: ·)
    | _, _ => none

/-- payloads of the frames one `Write(buf)` puts on the trunk -/
def chunks (mp : Nat) (buf : Bytes) : Option (List Bytes) :=
  writeLoop mp (buf.length + 1) buf buf.length

/-- what the chunking amounts to (proved equal to `chunks` for `mp > 0`): cut at `mp`, one
    empty frame for an empty payload, no trailing empty frame. -/
def chunkSpec (mp : Nat) (buf : Bytes) : List Bytes :=
  if _h : buf.length ≤ mp ∨ mp = 0 then [buf] else buf.take mp :: chunkSpec mp (buf.drop mp)
termination_by buf.length
decreasing_by simp [List.length_drop]; omega

structure Frame where
  id : Nat
  payload : Bytes
deriving DecidableEq, Repr, BEq

/-- header (conn id, length) followed by the payload -/
def encodeFrame (f : Frame) : Bytes :=
  be32Encode f.id ++ be32Encode f.payload.length ++ f.payload

def encodeFrames (fs : List Frame) : Bytes := fs.flatMap encodeFrame

/-- the frames of one `conn.Write` -/
def framesOfWrite (mp : Nat) (id : Nat) (buf : Bytes) : Option (List Frame) :=
  (chunks mp buf).map (·.map (Frame.mk id))

/-- the bytes one `conn.Write` puts on the trunk (under the trunk write lock) -/
def encodeWrite (mp : Nat) (id : Nat) (buf : Bytes) : Option Bytes :=
  (framesOfWrite mp id buf).map encodeFrames

/-- the trunk bytes of a sequence of writes `(id, buf)` in the order they take the trunk
    write lock (each `Write` is atomic under `m.writeLock`) -/
def encodeWrites (mp : Nat) : List (Nat × Bytes) → Option Bytes
  | [] => some []
  | w :: ws =>
    match encodeWrite mp w.1 w.2, encodeWrites mp ws with
    | some a, some b => some (a ++ b)
    | _, _ => none

/-- the frames those writes amount to -/
def specFrames (mp : Nat) (ws : List (Nat × Bytes)) : List Frame :=
  ws.flatMap fun w => (chunkSpec mp w.2).map (Frame.mk w.1)

/-- the loop of `mux.reader` on a finite stream: complete frames, and the incomplete tail
    at which `io.ReadFull` stops.  (`take`/`length`/`drop` only touch the frame at hand.) -/
def decode : Bytes → List Frame × Bytes
  | a :: b :: c :: d :: e :: f :: g :: h :: rest =>
    let cnt := be32 e f g h
    let p := rest.take cnt
    if p.length = cnt then
      let r := decode (rest.drop cnt)
      (⟨be32 a b c d, p⟩ :: r.1, r.2)
    else ([], a :: b :: c :: d :: e :: f :: g :: h :: rest)
  | s => ([], s)
termination_by s => s.length
decreasing_by simp [List.length_drop]; omega

/-- error kinds as the harness classifies Go errors -/
inductive Err
  | eof        -- io.EOF (also what ErrClosed / ttrpc.ErrClosed are mapped to)
  | hdr        -- "failed to read header from trunk: …"
  | payload    -- "failed to read payload from trunk: …"
  | overflow   -- "failed to queue payload for reading"
  | wfail      -- "failed to write header|payload to trunk: …"
  | reset      -- header read failed with ECONNRESET (peer closed with unread data)
deriving DecidableEq, Repr, BEq

/-- the error `mux.reader` records when the trunk ends (orderly EOF from the peer) after the
    incomplete tail `t` (mux.go:305-343).  `io.ReadFull` gives `io.EOF` when it read nothing
    and `io.ErrUnexpectedEOF` otherwise — so a cut right after a complete header of a
    non-empty frame is reported as a plain EOF. -/
def readerEnd (t : Bytes) : Err :=
  if t.length = 0 then .eof
  else if t.length < 8 then .hdr
  else if t.length = 8 then .eof
  else .payload

/-- payloads, in order, of the frames addressed to `id` -/
def payloadsOf (id : Nat) (fs : List Frame) : List Bytes :=
  (fs.filter (·.id == id)).map (·.payload)

/-- the byte stream a reader of connection `id` gets from these frames -/
def bytesDelivered (id : Nat) (fs : List Frame) : Bytes := (payloadsOf id fs).flatten

/-! ## Part 2 — one mux end -/

structure Cfg where
  mp : Nat
  qlen : Nat
  /-- what `Open` does on a mux that is already closed — MEASURED from the implementation by
      the harness (a Write on such a connection fails with EOF iff it is handed out closed).
      `false` = the pinned code: a fresh OPEN connection that nothing will ever close
      (finding C11:open-after-close); `true` = the repaired code: the connection is closed. -/
  lateClosed : Bool := false
deriving Repr, DecidableEq

/-- a `*conn` object -/
structure Conn where
  id : Nat
  queue : List Bytes := []        -- readC
  closed : Bool := false          -- doneC closed
  base : Nat := 0                 -- ghost: frames for `id` the reader had routed before Open
  got : List Bytes := []          -- ghost: every frame ever queued here
  rcvd : List Bytes := []         -- ghost: what Read handed to the caller
deriving Repr, DecidableEq

structure MuxSt where
  cfg : Cfg
  objs : List Conn := []              -- every conn object created; a handle is an index
  cmap : AList Nat Nat := []          -- m.conns : id ↦ handle
  closed : Bool := false              -- closeOnce fired: doneC closed, trunk closed
  err : Option Err := none            -- m.err once errOnce has fired
  readerDone : Bool := false          -- the reader goroutine has returned
  seen : List Frame := []             -- ghost: frames the reader routed (queued or dropped)
  out : List Frame := []              -- ghost: frames written to the trunk
deriving Repr, DecidableEq

inductive ReadRes
  | data (p : Bytes) (n : Nat)   -- n = returned count, p = bytes copied into the buffer
  | err (e : Err)
  | enomem
deriving Repr, DecidableEq

inductive WriteRes
  | ok
  | errEof                        -- conn closed: io.EOF
  | errTrunk (partialWrite : Bool)     -- trunk.Write failed; n ≠ 0 ⇒ setError + Close
deriving Repr, DecidableEq

inductive Ev
  | openNew (id h : Nat)          -- Open: creates object h
  | openOld (id h : Nat)          -- Open: id already in the map
  | openReserved                  -- Open(0): error
  | deliver (f : Frame)           -- reader: frame read; queued, or dropped when id not open
  | overflow (f : Frame)          -- reader: queue full ⇒ setError, Close, return
  | readerFail (e : Err)          -- reader: trunk read error ⇒ setError, Close, return
  | readerExit                    -- reader: saw doneC closed at the top of its loop
  | read (h blen bcap : Nat) (r : ReadRes)
  | write (h : Nat) (p : Bytes) (r : WriteRes)
  | closeConn (h : Nat)
  | closeMux
deriving Repr, DecidableEq

/-- `setError`: only the first call of `errOnce` has an effect -/
def setError (s : MuxSt) (e : Err) : MuxSt :=
  match s.err with
  | some _ => s
  | none => { s with err := some e }

/-- `conn.close()`: closes doneC of object `h` -/
def closeAt (objs : List Conn) (h : Nat) : List Conn :=
  match objs[h]? with
  | some c => objs.set h ({ c with closed := true } : Conn)
  | none => objs

/-- close the conn objects whose handles are listed -/
def closeHandles (objs : List Conn) : List Nat → List Conn
  | [] => objs
  | h :: hs => closeHandles (closeAt objs h) hs

/-- `mux.Close` (mux.go:208-220): once; closes every conn in the map, doneC, the trunk -/
def doClose (s : MuxSt) : MuxSt :=
  if s.closed then s
  else { s with objs := closeHandles s.objs (s.cmap.map (·.2)), closed := true }

def countFor (id : Nat) (fs : List Frame) : Nat := (fs.filter (·.id == id)).length

def step (s : MuxSt) : Ev → Option MuxSt
  | .openReserved => some s
  | .openNew id h =>
    if id ≠ 0 ∧ AList.lookup s.cmap id = none ∧ h = s.objs.length then
      some { s with objs := s.objs ++ [{ id := id, base := countFor id s.seen, closed := s.cfg.lateClosed && s.closed }],
                    cmap := AList.insert s.cmap id h }
    else none
  | .openOld id h =>
    if id ≠ 0 ∧ AList.lookup s.cmap id = some h then some s else none
  | .deliver f =>
    if s.readerDone then none else
    match AList.lookup s.cmap f.id with
    | none => some { s with seen := s.seen ++ [f] }          -- not open: dropped
    | some h =>
      match s.objs[h]? with
      | none => none
      | some c =>
        if c.queue.length < s.cfg.qlen then
          let c' : Conn := { c with queue := c.queue ++ [f.payload], got := c.got ++ [f.payload] }
          some { s with objs := s.objs.set h c', seen := s.seen ++ [f] }
        else none
  | .overflow f =>
    if s.readerDone then none else
    match AList.lookup s.cmap f.id with
    | none => none
    | some h =>
      match s.objs[h]? with
      | none => none
      | some c =>
        if c.queue.length < s.cfg.qlen then none
        else some { doClose (setError s .overflow) with readerDone := true }
  | .readerFail e =>
    if s.readerDone then none
    else some { doClose (setError s e) with readerDone := true }
  | .readerExit =>
    if s.closed ∧ ¬ s.readerDone then some { s with readerDone := true } else none
  | .read h blen bcap r =>
    match s.objs[h]? with
    | none => none
    | some c =>
      if blen ≤ bcap then
        match r with
        | .err e =>
          -- select picked doneC (only possible once it is closed); error() latches EOF
          if c.closed ∧ e = s.err.getD .eof then some (setError s .eof) else none
        | .data p n =>
          match c.queue with
          | [] => none
          | q :: rest =>
            if q.length ≤ bcap ∧ p = q.take blen ∧ n = q.length then
              let c' : Conn := { c with queue := rest, rcvd := c.rcvd ++ [p] }
              some { s with objs := s.objs.set h c' }
            else none
        | .enomem =>
          match c.queue with
          | [] => none
          | q :: rest =>
            let c' : Conn := { c with queue := rest }
            if bcap < q.length then some { s with objs := s.objs.set h c' } else none
      else none
  | .write h p r =>
    match s.objs[h]? with
    | none => none
    | some c =>
      match r with
      | .errEof => if c.closed then some s else none
      | .ok =>
        if ¬ c.closed ∧ ¬ s.closed then
          match framesOfWrite s.cfg.mp c.id p with
          | some fs => some { s with out := s.out ++ fs }
          | none => none
        else none
      | .errTrunk pw =>
        if c.closed then none
        else if pw then some (doClose (setError s .wfail)) else some s
  | .closeConn h =>
    match s.objs[h]? with
    | none => none
    | some c =>
      let c' : Conn := { c with closed := true }
      some { s with
        cmap := if AList.lookup s.cmap c.id = some h then AList.erase s.cmap c.id else s.cmap,
        objs := s.objs.set h c' }
  | .closeMux => some (doClose s)

/-- run a trace; `none` as soon as an event is not enabled -/
def run (s : MuxSt) : List Ev → Option MuxSt
  | [] => some s
  | e :: es => match step s e with
    | some s' => run s' es
    | none => none

def MuxSt.init (cfg : Cfg) : MuxSt := { cfg := cfg }

/-- frames the reader routed during a trace -/
def delivered : List Ev → List Frame
  | [] => []
  | .deliver f :: es => f :: delivered es
  | _ :: es => delivered es

/-- what `Read` on handle `h` handed to its caller during a trace, in order -/
def received (h : Nat) : List Ev → List Bytes
  | [] => []
  | .read h' _ _ (.data p _) :: es => if h' = h then p :: received h es else received h es
  | _ :: es => received h es

/-- errors returned by `Read` (any handle) during a trace -/
def readErrors : List Ev → List Err
  | [] => []
  | .read _ _ _ (.err e) :: es => e :: readErrors es
  | _ :: es => readErrors es

/-- the guard of C10/C11 (DESIGN §6 #12): a successful Read used a buffer at least as long
    as the frame it returned (`n ≤ blen`), and no Read hit ENOMEM. -/
def Ev.guard : Ev → Bool
  | .read _ blen _ (.data _ n) => decide (n ≤ blen)
  | .read _ _ _ .enomem => false
  | _ => true

def bigBuffers (tr : List Ev) : Bool := tr.all Ev.guard

/-! ## Part 3 — the listener wrapper (`pkg/net/conn.go`) -/

structure Lst where
  conn : Nat                  -- handle of the wrapped conn
  next : Bool := true         -- the buffered channel still holds the conn
  closed : Bool := false
deriving Repr, DecidableEq

inductive AcceptRes | conn (h : Nat) | eof
deriving Repr, DecidableEq

/-- `Accept`: `none` = blocks -/
def Lst.accept (l : Lst) : Option (AcceptRes × Lst) :=
  if l.next then some (.conn l.conn, { l with next := false })
  else if l.closed then some (.eof, l)
  else none

/-- `Close`: returns whether the wrapped conn gets closed by this call -/
def Lst.close (l : Lst) : Bool × Lst :=
  if l.closed then (false, l) else (true, { l with closed := true })

end Nri.Mux
