/-
Session state machine of the plugin stub (`/repo/pkg/stub/stub.go`: `Start`, `Stop`, `Wait`,
`connect`, `register`, `connClosed`, `close`) — property C16.

One machine, three switches (`Variant`): the code as repaired by `docs/fixes/C16-1.patch`
is `fixed` (all on); the code as it was is `unfixed` (all off) and is kept only for the
`unfixed_*` witness theorems.

Every public call of the stub runs under the stub's mutex from entry to return (`Start`
holds it for the whole handshake), so a call is ONE atomic step; what the runtime end does
with the connection during a `Start` is the `Script` of that step and the value `Start`
returns is its `StartRes`. A call that never returns is the result `blocked`; it leaves the
machine `wedged` (the mutex is never released) and no further step is enabled.

The only asynchronous part is the close notification: when the ttrpc client of a session
is closed (by `close()`, by the failure path of `Start`, or because the connection was
lost) ttrpc calls the stub's close handler `connClosed` exactly once, on its own goroutine,
at some later time. Those pending calls are `inflight`; `closeNotify sid` is the moment
`connClosed` of session `sid` holds the mutex.

Core Lean only (the driver imports this file).
-/

namespace Nri.StubSession

/-- Which of the three repairs are present. -/
structure Variant where
  /-- `Start` races a session-closed channel against the configure result. -/
  raceClosed : Bool
  /-- `connClosed` closes the stub only if its session is still the current one. -/
  sessionCheck : Bool
  /-- a failed `Start` forgets the connection (`stub.conn = nil`). -/
  resetConn : Bool
deriving DecidableEq, Repr

def fixed : Variant := ⟨true, true, true⟩
def unfixed : Variant := ⟨false, false, false⟩

/-- What the runtime end does with one connection attempt. -/
inductive Script
  | dialFail   -- unreachable: the dial fails
  | refuse     -- answers RegisterPlugin with an error
  | noAnswer   -- never answers RegisterPlugin (the registration timeout expires)
  | dropReg    -- drops the connection before the RegisterPlugin reply is complete
  | dropCfg    -- drops it after that reply and before the Configure request is complete
  | dropLate   -- drops it after the Configure request is complete (any later point)
  | cfgErr     -- configures; the plugin's Configure handler returns an error
  | ok         -- registers, configures, synchronizes, keeps the connection
  | stall      -- registers, then neither configures nor hangs up (outside C16's domain)
deriving DecidableEq, Repr

inductive ErrKind | already | dial | register | closed | configure
  /-- `NRI_PLUGIN_SOCKET` names a descriptor that is not (any more) a socket of this stub -/
  | preconn
deriving DecidableEq, Repr

/-- Where `connect()` gets a connection from when none is recorded (`stub.conn == nil`):
    the dialer; a connection handed over with `WithConnection` (used once, then the dialer);
    the descriptor number in `NRI_PLUGIN_SOCKET` (how the runtime launches pre-installed
    plugins; consumed and closed by its first use, but looked up again by every later
    `Start`). -/
inductive ConnSrc | dialer | given | envFd
deriving DecidableEq, Repr

/-- Result of one `Start` call. -/
inductive StartRes | ok | err (k : ErrKind) | blocked
deriving DecidableEq, Repr

structure State where
  /-- `stub.started` -/
  started : Bool := false
  /-- `stub.conn`: `none` = nil, `some c` = the c-th connection dialled -/
  conn : Option Nat := none
  /-- connections dialled so far; a new dial yields connection `dials + 1` -/
  dials : Nat := 0
  /-- connections that are closed (by either end) -/
  dead : List Nat := []
  /-- sessions (ttrpc clients) created so far; `cur` is the latest = `stub.session` -/
  cur : Nat := 0
  /-- sessions whose client is closed and whose close notification has not run yet -/
  inflight : List Nat := []
  /-- the plugin's `onClose` callback invocations so far, by session, in order -/
  fired : List Nat := []
  /-- sessions whose `doneC` is closed -/
  done : List Nat := []
  /-- sessions for which `Start` returned nil -/
  estab : List Nat := []
  /-- a `Start` holds the mutex and will never return -/
  wedged : Bool := false
  /-- sessions on whose `doneC` a `Wait` call is blocked (one entry per blocked call) -/
  waiting : List Nat := []
  /-- how the stub was created -/
  src : ConnSrc := .dialer
  /-- the pre-made connection (`given`, `envFd`) has been taken into use -/
  preUsed : Bool := false
deriving DecidableEq, Repr

def init : State := {}
def initWith (src : ConnSrc) : State := { src := src }

/-- set-like insertion at the end -/
def ins (x : Nat) (l : List Nat) : List Nat := if x ∈ l then l else l ++ [x]

/-- The ttrpc client of session `sid` gets closed (or its connection is lost): unless that
    happened before, its close notification is now in flight (`Client.run` calls the
    user's close function once). -/
def closeClient (s : State) (sid : Nat) : State :=
  { s with inflight :=
      if sid ∈ s.inflight ∨ sid ∈ s.fired then s.inflight else s.inflight ++ [sid] }

/-- the recorded connection (if any) is closed -/
def markDead (s : State) : State :=
  { s with dead := match s.conn with
      | some c => ins c s.dead
      | none => s.dead }

/-- `stub.close()`, caller holds the mutex: no-op unless started; closes listener, server,
    client and mux, waits for the serve goroutine (`<-doneC`), resets `started`/`conn`. -/
def closeStub (s : State) : State :=
  if s.started then
    let s1 := markDead (closeClient s s.cur)
    { s1 with done := ins s.cur s1.done, started := false, conn := none }
  else s

/-- Failure path of `Start` once the client exists: the deferred functions close client,
    server, listener and mux (so `doneC` gets closed by the serve goroutine); `started`
    stays false. With `resetConn` the connection is forgotten, without it `stub.conn` keeps
    pointing at the closed connection. -/
def failStart (v : Variant) (s : State) : State :=
  let s1 := markDead (closeClient s s.cur)
  { s1 with done := ins s.cur s1.done, conn := if v.resetConn then none else s1.conn }

/-- `Start` returned nil. -/
def establish (s : State) : State :=
  { s with started := true, estab := s.estab ++ [s.cur] }

/-- The runtime end dropped the connection of the current session. -/
def lose (s : State) : State := markDead (closeClient s s.cur)

def connDead (s : State) : Bool :=
  match s.conn with
  | some c => decide (c ∈ s.dead)
  | none => false

/-- The current session is up and its connection has not been lost or closed. -/
def alive (s : State) : Bool :=
  s.started && !decide (s.cur ∈ s.inflight) && !decide (s.cur ∈ s.fired)

/-- `connect()` produced a connection nobody has used before: it gets the next number. -/
def adopt (s : State) : State :=
  { s with conn := some (s.dials + 1), dials := s.dials + 1 }

/-- Does `connect()` call the dialer in this state? -/
def wouldDial (s : State) : Bool :=
  !s.started && s.conn.isNone &&
    (decide (s.src = .dialer) || (decide (s.src = .given) && s.preUsed))

/-- `Start` from the creation of mux, listener, server and client of this attempt (a new
    session) to its return. `o`: what the other end of the connection does. -/
def attempt (v : Variant) (s1 : State) (o : Script) (r : StartRes) : Option State :=
  let s2 : State := { s1 with cur := s1.cur + 1 }
  match o with
  | .dialFail => none
  | .refuse | .noAnswer | .dropReg =>
    if r = .err .register then some (failStart v s2) else none
  | .dropCfg =>
    if r = .err .register then some (failStart v s2)   -- reply lost in the mux read race
    else if v.raceClosed then
      (if r = .err .closed then some (failStart v s2) else none)
    else
      (if r = .blocked then some { lose s2 with wedged := true } else none)  -- `<-cfgErrC` forever
  | .dropLate =>
    if r = .ok then some (establish (lose s2))          -- configured; the loss is noticed later
    else if r = .err .register then some (failStart v s2)
    else if v.raceClosed then
      (if r = .err .closed then some (failStart v s2) else none)
    else
      (if r = .blocked then some { lose s2 with wedged := true } else none)
  | .cfgErr =>
    -- the runtime end hangs up when configuration fails (as pkg/adaptation does); if that
    -- overtakes the still unread RegisterPlugin reply, the multiplexer's Read may drop
    -- the reply and registration is what fails
    if r = .err .configure ∨ r = .err .register then some (failStart v s2) else none
  | .ok => if r = .ok then some (establish s2) else none
  | .stall => if r = .blocked then some { s2 with wedged := true } else none

/-- `Start` under the mutex. `o`: what the runtime end does with the connection this call
    obtains (ignored when none is obtained); `r`: what the call returns. `none` = this result
    is impossible. Where Go's `select` (in the multiplexer's `Read`, in the repaired `Start`)
    may go either way, several results are possible. -/
def startStep (v : Variant) (s : State) (o : Script) (r : StartRes) : Option State :=
  if s.started then
    (if r = .err .already then some s else none)          -- "stub already started"
  else
    match s.conn with
    | some _ =>
      -- connect(): a connection is (still) recorded. One left behind by a failed Start is
      -- closed: nothing reaches the runtime end and registration fails on the first write
      attempt v s (if connDead s then .dropReg else o) r
    | none =>
      if s.src = .envFd ∧ s.preUsed = true then
        -- connect(): NRI_PLUGIN_SOCKET still names the descriptor this stub consumed and
        -- closed when it first connected
        if r = .err .preconn then some s                   -- "invalid socket (fd) in environment"
        else if r = .err .register then
          -- … unless the process has reused that number since: the stub adopts a socket that
          -- is not its own, nobody answers the registration, and the stub closes it
          some (failStart v { adopt s with cur := s.cur + 1 })
        else none
      else if s.src ≠ .dialer ∧ s.preUsed = false then
        -- connect(): the connection made before the stub was created; no dial. (`dialFail`
        -- here: its other end is already gone.)
        attempt v { adopt s with preUsed := true } (if o = .dialFail then .dropReg else o) r
      else
        -- connect(): the dialer
        if o = .dialFail then (if r = .err .dial then some s else none)   -- nothing was set up
        else attempt v (adopt s) o r

/-- What `Start` can return when it has obtained a live connection to a runtime end that
    behaves as `o` (repaired code). -/
def startResults : Script → List StartRes
  | .dialFail => [.err .dial]
  | .refuse | .noAnswer | .dropReg => [.err .register]
  | .dropCfg => [.err .register, .err .closed]
  | .dropLate => [.ok, .err .register, .err .closed]
  | .cfgErr => [.err .configure, .err .register]
  | .ok => [.ok]
  | .stall => [.blocked]

/-- ALL results a `Start` call can have in state `s` against runtime behaviour `o` (repaired
    code, states in which no dead connection is recorded). -/
def startPossible (s : State) (o : Script) : List StartRes :=
  if s.started then [.err .already]
  else if s.src = .envFd ∧ s.preUsed = true then [.err .preconn, .err .register]
  else if s.src ≠ .dialer ∧ s.preUsed = false then
    startResults (if o = .dialFail then .dropReg else o)
  else startResults o

inductive Event
  | start (o : Script) (r : StartRes)
  | stop
  /-- the runtime end drops the connection of the established session -/
  | connLost
  /-- `connClosed` of session `sid` runs (holds the mutex, then calls `onClose`) -/
  | closeNotify (sid : Nat)
  /-- `Wait` is called: `true` = it returns at once, `false` = it blocks on the live
      session's `doneC` -/
  | wait (returned : Bool)
  /-- a `Wait` call blocked on session `sid`'s `doneC` returns -/
  | waitRet (sid : Nat)
  /-- the runtime end sends a request over its latest connection; `true` = answered -/
  | dispatch (ok : Bool)
deriving DecidableEq, Repr

def step? (v : Variant) (s : State) : Event → Option State
  | .start o r => if s.wedged then none else startStep v s o r
  | .stop => if s.wedged then none else some (closeStub s)
  | .connLost => if !s.wedged && alive s then some (lose s) else none
  | .closeNotify sid =>
    if s.wedged || !decide (sid ∈ s.inflight) then none
    else
      let s1 := if !v.sessionCheck || decide (sid = s.cur) then closeStub s else s
      some { s1 with inflight := s1.inflight.erase sid, fired := s1.fired ++ [sid] }
  | .wait ret =>
    if s.wedged then none
    else if ret then (if !s.started || decide (s.cur ∈ s.done) then some s else none)
    else (if s.started && !decide (s.cur ∈ s.done)
          then some { s with waiting := s.waiting ++ [s.cur] } else none)
  | .waitRet sid =>
    -- a receive from a closed channel; needs no lock
    if decide (sid ∈ s.waiting) && decide (sid ∈ s.done)
    then some { s with waiting := s.waiting.erase sid } else none
  | .dispatch ok => if ok = alive s then some s else none

def run (v : Variant) (s : State) : List Event → Option State
  | [] => some s
  | e :: es => match step? v s e with
    | some s' => run v s' es
    | none => none

/-- Histories inside the domain of C16: the runtime end never stalls (registers the
    plugin and then neither configures it nor hangs up). -/
def inDomain : Event → Bool
  | .start .stall _ => false
  | _ => true

/-- Session `sid` exists and is over: not the current session of a started stub. -/
def ended (s : State) (sid : Nat) : Prop :=
  1 ≤ sid ∧ sid ≤ s.cur ∧ (sid ≠ s.cur ∨ s.started = false)

instance (s : State) (sid : Nat) : Decidable (ended s sid) := by
  unfold ended; exact inferInstance


/-! ### Trace acceptance (run by the driver on observed histories)

The harness issues operations one after the other; each takes effect atomically at some point
between its `call` and its `ret` record. Close notifications run on their own goroutines: a
pending one may take effect at any point. The acceptance automaton therefore tracks a SET of
configurations and closes it under "deliver any pending notification" and "apply the pending
operation". The functions below are everything in the driver that produces a new state; that
each yields only states reachable by `step? fixed` is proved in
`Lemmas/StubSessionTrace.lean`. -/

/-- What the harness observed of one operation. -/
inductive OpObs
  /-- `Start`: behaviour of the runtime end, result, whether the stub dialled, the number of
      the session (ttrpc client) and of the connection created during the call (0 = none) -/
  | start (o : Script) (r : StartRes) (dialed : Bool) (sid conn : Nat)
  | stop
  | wait (returned : Bool)
  /-- the runtime end closed connection `conn` -/
  | lose (conn : Nat)
  /-- await / pause: no call into the stub -/
  | nop
  /-- a request from the runtime end (or `UpdateContainers` from the plugin) answered or not -/
  | request (ok : Bool)
  /-- an observation no step explains (a blocked Stop/Wait, an unknown error kind) -/
  | impossible
deriving DecidableEq, Repr

/-- The runtime end closed connection `conn`: a connection loss if that is the live
    session's connection, otherwise nothing the stub can notice. -/
def loseConn (conn : Nat) (s : State) : State :=
  if s.dials = conn then
    match step? fixed s .connLost with
    | some s' => s'
    | none => s
  else s

/-- all states an observed operation can lead to from `s` (empty = impossible here) -/
def applyObs (p : OpObs) (s : State) : List State :=
  match p with
  | .start o r dialed sid conn =>
    match step? fixed s (.start o r) with
    | none => []
    | some s' =>
      let mDial := wouldDial s
      let mSid := if s'.cur = s.cur + 1 then s'.cur else 0
      let mConn := if s'.dials = s.dials + 1 then s'.dials else 0
      if mDial = dialed ∧ mSid = sid ∧ mConn = conn then [s'] else []
  | .stop => (step? fixed s .stop).toList
  | .wait b => (step? fixed s (.wait b)).toList
  | .lose conn => [loseConn conn s]
  | .nop => [s]
  | .request ok => (step? fixed s (.dispatch ok)).toList
  | .impossible => []

/-- a blocked `Wait` was seen to return: it was one of the calls the configuration has
    blocked, on a session whose `doneC` is closed -/
def releaseAny (s : State) : List State :=
  s.waiting.eraseDups.filterMap fun sid => step? fixed s (.waitRet sid)

/-- a configuration of the automaton: a state, and whether the operation currently between
    `call` and `ret` has already taken effect -/
structure Cfg where
  s : State
  applied : Bool
deriving DecidableEq

def dedup (l : List Cfg) : List Cfg :=
  l.foldl (fun acc c => if acc.contains c then acc else acc ++ [c]) []

/-- silent moves of one configuration: deliver one pending close notification, or let the
    pending operation take effect -/
def silent (p : Option OpObs) (c : Cfg) : List Cfg :=
  let ns := c.s.inflight.filterMap fun sid =>
    (step? fixed c.s (.closeNotify sid)).map fun s' => { c with s := s' }
  let os := match p with
    | some pd => if c.applied then [] else (applyObs pd c.s).map fun s' => { s := s', applied := true }
    | none => []
  ns ++ os

def closure (p : Option OpObs) (cs : List Cfg) : Nat → List Cfg
  | 0 => cs
  | fuel + 1 =>
    let next := dedup (cs ++ cs.flatMap (silent p))
    if next.length = cs.length then cs else closure p next fuel

end Nri.StubSession
