/-
Model of pkg/api/event.go: event numbering, `EventMask` as a 32-bit vector (Go `int32`),
`IsSet`/`Set`/`Clear`, `ValidEvents`, `PrettyString` and `ParseEventMask`.
Core Lean only.
-/
import NriModel.Basic

namespace Nri.Events

/-- Event numbers as in api.proto: 1 … 13 are lifecycle events, 0 = UNKNOWN, 14 = LAST. -/
abbrev EventNo := Nat
def evLast : EventNo := 14

abbrev Mask := BitVec 32

/-- `1 << (e-1)` as Go computes it on `int32` (e ≥ 1). -/
def bit (e : EventNo) : Mask := 1#32 <<< (e - 1)

def isSet (m : Mask) (e : EventNo) : Bool := (m &&& bit e) != 0#32
def set (m : Mask) (e : EventNo) : Mask := m ||| bit e
def clear (m : Mask) (e : EventNo) : Mask := m &&& ~~~(bit e)

/-- `ValidEvents = (1 << (Event_LAST-1)) - 1` = 0x1fff. -/
def valid : Mask := (1#32 <<< (evLast - 1)) - 1#32

/-- names used by `PrettyString`, indexed by event number -/
def prettyName : EventNo → Str
  | 1 => str "RunPodSandbox"
  | 2 => str "StopPodSandbox"
  | 3 => str "RemovePodSandbox"
  | 4 => str "CreateContainer"
  | 5 => str "PostCreateContainer"
  | 6 => str "StartContainer"
  | 7 => str "PostStartContainer"
  | 8 => str "UpdateContainer"
  | 9 => str "PostUpdateContainer"
  | 10 => str "StopContainer"
  | 11 => str "RemoveContainer"
  | 12 => str "UpdatePodSandbox"
  | 13 => str "PostUpdatePodSandbox"
  | _ => []            -- Go: missing map key yields ""

/-- the `bits` table of `ParseEventMask` (lower-case name ↦ event number) -/
def parseTable : List (Str × EventNo) :=
  [ (str "runpodsandbox", 1), (str "stoppodsandbox", 2), (str "removepodsandbox", 3),
    (str "createcontainer", 4), (str "postcreatecontainer", 5), (str "startcontainer", 6),
    (str "poststartcontainer", 7), (str "updatecontainer", 8), (str "postupdatecontainer", 9),
    (str "stopcontainer", 10), (str "removecontainer", 11), (str "updatepodsandbox", 12),
    (str "postupdatepodsandbox", 13) ]

def joinWith (sep : Str) : List Str → Str
  | [] => []
  | [x] => x
  | x :: y :: rest => x ++ sep ++ joinWith sep (y :: rest)

/-- split at every occurrence of `c` (Go `strings.Split(s, ",")`: always ≥ 1 piece) -/
def splitOnChar (c : Char) : Str → List Str
  | [] => [[]]
  | x :: xs =>
    if x = c then [] :: splitOnChar c xs
    else match splitOnChar c xs with
      | [] => [[x]]            -- unreachable: result is never empty
      | p :: ps => (x :: p) :: ps

def hexDigit (n : Nat) : Char :=
  if n < 10 then Char.ofNat (48 + n) else Char.ofNat (87 + n)

def hexAux : Nat → Nat → Str → Str
  | 0, _, acc => acc
  | fuel + 1, n, acc =>
    if n < 16 then hexDigit n :: acc else hexAux fuel (n / 16) (hexDigit (n % 16) :: acc)

/-- `fmt.Sprintf("%x", mask)` for a non-negative value -/
def hex (n : Nat) : Str := hexAux 9 n []

/-- the names of the set bits 1..14, in order, and the mask with those bits cleared -/
def prettyLoop : Nat → EventNo → Mask → List Str → List Str × Mask
  | 0, _, m, acc => (acc.reverse, m)
  | fuel + 1, e, m, acc =>
    if isSet m e then prettyLoop fuel (e + 1) (clear m e) (prettyName e :: acc)
    else prettyLoop fuel (e + 1) m acc

/-- `(*EventMask).PrettyString`. Negative masks (bit 31) print as a signed hex number in
    Go; the model covers masks below 2^31, which is all a valid-event mask can be. -/
def pretty (m : Mask) : Str :=
  let (names, rest) := prettyLoop 14 1 m []
  let names := if rest != 0#32 then names ++ [str "unknown(0x" ++ hex rest.toNat ++ str ")"] else names
  joinWith (str ",") names

def toLowerC (c : Char) : Char := if 'A' ≤ c ∧ c ≤ 'Z' then Char.ofNat (c.toNat + 32) else c
def toLower (s : Str) : Str := s.map toLowerC

def isSpaceC (c : Char) : Bool :=
  c = ' ' || c = '\t' || c = '\n' || c = '\r' || c = Char.ofNat 11 || c = Char.ofNat 12 ||
  c = Char.ofNat 0x85 || c = Char.ofNat 0xA0

def trimLeft : Str → Str
  | [] => []
  | c :: cs => if isSpaceC c then trimLeft cs else c :: cs
def trim (s : Str) : Str := (trimLeft (trimLeft s).reverse).reverse

def containsSub (s sub : Str) : Bool :=
  match s with
  | [] => sub.isEmpty
  | c :: cs => sub.isPrefixOf (c :: cs) || containsSub cs sub

def setAllContaining (m : Mask) (sub : Str) : Mask :=
  parseTable.foldl (fun acc (n, e) => if containsSub n sub then set acc e else acc) m

/-- one comma-separated piece -/
def parseName (m : Mask) (name : Str) : Option Mask :=
  if name = str "all" then some (m ||| valid)
  else if name = str "pod" ∨ name = str "podsandbox" then some (setAllContaining m (str "pod"))
  else if name = str "container" then some (setAllContaining m (str "container"))
  else match AList.lookup parseTable (trim name) with
    | some e => some (set m e)
    | none => none

def parseOne (m : Mask) (event : Str) : Option Mask :=
  (splitOnChar ',' (toLower event)).foldlM parseName m

/-- `ParseEventMask(events...)`; `none` = the "unknown event" error. ASCII lower-casing and
    ASCII/Latin-1 `TrimSpace`: the model's domain is ASCII input. Outside it the real code is
    more liberal than this model — Go's `strings.ToLower` maps some non-ASCII letters onto ASCII
    ones (`ParseEventMask("StartContaİner")`, with U+0130, returns START_CONTAINER) and
    `strings.TrimSpace` also strips Unicode spaces such as U+2003 — so a non-ASCII string CAN
    match a name in Go where `parse` returns `none`. The C14 driver treats non-ASCII input as
    excluded and records what the real code did. -/
def parse (events : List Str) : Option Mask := events.foldlM parseOne 0#32

end Nri.Events
