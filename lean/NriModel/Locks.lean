/-
Interleaving semantics of the two locks of `pkg/adaptation/adaptation.go` (core Lean only;
the driver links this file).

Part 1 (`Nri.Locks`, property C08) — the plugin-sync RW lock `Adaptation.syncLock`:
  readers  = runtime request sections (`BlockPluginSync` … `PluginSyncBlock.Unblock`),
  writer   = the plugin being synchronised and activated by `acceptPluginConnections`
             (`requestPluginSync` … `syncFn(p.synchronize)` … append+sort … `finishedPluginSync`).
Part 2 (`Nri.Mutex`, property C19) — the adaptation mutex (`Adaptation.Mutex`) around request
  processing and around `updateContainers`, plus the stub / service / transport wrappers of an
  unsolicited update.

A model is a labelled transition system `step? : State → Ev → Option State`; a history is a
list of events; `run` folds `step?`. Theorems (in `Props/C08.lean`, `Props/C19.lean`) are
about ALL histories `run init h = some s`. The same `step?` validates the histories recorded
from the real code (`Driver/C08.lean`, `Driver/C19.lean`).
-/
import NriModel.Basic

namespace Nri.Locks

/-- plugin identity (one per registering connection) -/
abbrev Pid := Nat
/-- identity of one `PluginSyncBlock` (one `BlockPluginSync()` call) -/
abbrev Bid := Nat
/-- container identity -/
abbrev Cid := Nat

/-- where a plugin is on its way through `acceptPluginConnections`:
    `idle`     not (yet / any more) in the exclusive section and not in `r.plugins`;
    `syncing`  `requestPluginSync` returned, `syncFn` not yet delivered the snapshot;
    `snapped`  the snapshot was delivered (`p.synchronize` returned), not yet appended;
    `active`   in `r.plugins` (requests are relayed to it). -/
inductive Phase
  | idle | syncing | snapped | active
  deriving DecidableEq, Repr, Inhabited

structure PState where
  phase : Phase := .idle
  /-- the container ids of the snapshot the plugin was given in `Synchronize` -/
  snap : List Cid := []
  /-- the container ids of the `CreateContainer` requests relayed to it since activation -/
  got : List Cid := []
  deriving Repr, Inhabited

inductive Ev
  /-- `BlockPluginSync()` returned (RLock acquired) -/
  | block (b : Bid)
  /-- `Adaptation.CreateContainer` for container `c`, inside block `b`: one atomic relay to
      every plugin in `r.plugins` (the adaptation mutex is held for the whole loop) -/
  | relay (b : Bid) (c : Cid)
  /-- the runtime's own bookkeeping for container `c` (it enters the store `SyncFn` reads),
      inside block `b`; may come before or after the relay -/
  | record (b : Bid) (c : Cid)
  /-- `PluginSyncBlock.Unblock()` (RUnlock, then `b.r = nil`); the proviso of the property: not
      while a creation made under this block has only one of its two halves done. A second
      `Unblock()` of the same block (e.g. an explicit one followed by the deferred one) is a
      no-op. -/
  | unblock (b : Bid)
  /-- `requestPluginSync()` returned (Lock acquired) for plugin `p` -/
  | syncBegin (p : Pid)
  /-- `syncFn` read the store and `p.synchronize` delivered it -/
  | snapshot (p : Pid)
  /-- `r.plugins = append(r.plugins, p); r.sortPlugins()` -/
  | activate (p : Pid)
  /-- `finishedPluginSync()` after a successful synchronisation -/
  | syncEnd (p : Pid)
  /-- `finishedPluginSync()` after `syncFn` returned an error (plugin not activated) -/
  | abort (p : Pid)
  /-- `removeClosedPlugins`: an active plugin whose connection went away leaves `r.plugins` -/
  | drop (p : Pid)
  deriving DecidableEq, Repr

structure State where
  /-- the runtime's store (recorded containers), newest first -/
  store : List Cid := []
  /-- containers whose creation request has been relayed (ghost), newest first -/
  sent : List Cid := []
  /-- creations with exactly one half (relay / record) done, and the block they belong to -/
  half : List (Bid × Cid) := []
  /-- held sync blocks = readers of `syncLock` -/
  holding : List Bid := []
  /-- the plugin inside the exclusive section = writer of `syncLock` -/
  writer : Option Pid := none
  pl : Pid → PState := fun _ => {}

def init : State := {}

/-- number of readers of the RW lock -/
def State.readers (s : State) : Nat := s.holding.length

def setP (pl : Pid → PState) (p : Pid) (x : PState) : Pid → PState :=
  fun q => if q = p then x else pl q

/-- the relay loop of `CreateContainer`: every plugin in `r.plugins` receives the request -/
def deliver1 (x : PState) (c : Cid) : PState :=
  if x.phase = .active then { x with got := c :: x.got } else x

def deliver (pl : Pid → PState) (c : Cid) : Pid → PState :=
  fun q => deliver1 (pl q) c

def step? (s : State) : Ev → Option State
  | .block b =>
    if s.writer = none ∧ b ∉ s.holding then some { s with holding := b :: s.holding } else none
  | .relay b c =>
    if b ∈ s.holding ∧ c ∉ s.sent then
      if c ∈ s.store then
        if (b, c) ∈ s.half then
          some { s with sent := c :: s.sent, half := s.half.erase (b, c), pl := deliver s.pl c }
        else none
      else some { s with sent := c :: s.sent, half := (b, c) :: s.half, pl := deliver s.pl c }
    else none
  | .record b c =>
    if b ∈ s.holding ∧ c ∉ s.store then
      if c ∈ s.sent then
        if (b, c) ∈ s.half then
          some { s with store := c :: s.store, half := s.half.erase (b, c) }
        else none
      else some { s with store := c :: s.store, half := (b, c) :: s.half }
    else none
  | .unblock b =>
    -- `Unblock()` is documented "safe to call multiple times": on a block that is not (any
    -- more) held it does nothing (`b.r == nil`)
    if b ∈ s.holding then
      if ∀ x ∈ s.half, x.1 ≠ b then some { s with holding := s.holding.erase b } else none
    else some s
  | .syncBegin p =>
    if s.writer = none ∧ s.holding = [] ∧ (s.pl p).phase = .idle then
      some { s with writer := some p, pl := setP s.pl p { phase := .syncing } }
    else none
  | .snapshot p =>
    if s.writer = some p ∧ (s.pl p).phase = .syncing then
      some { s with pl := setP s.pl p { phase := .snapped, snap := s.store } }
    else none
  | .activate p =>
    if s.writer = some p ∧ (s.pl p).phase = .snapped then
      some { s with pl := setP s.pl p { phase := .active, snap := (s.pl p).snap, got := [] } }
    else none
  | .syncEnd p =>
    if s.writer = some p ∧ (s.pl p).phase = .active then some { s with writer := none } else none
  | .abort p =>
    if s.writer = some p ∧ ((s.pl p).phase = .syncing ∨ (s.pl p).phase = .snapped) then
      some { s with writer := none, pl := setP s.pl p {} }
    else none
  | .drop p =>
    if s.writer ≠ some p ∧ (s.pl p).phase = .active then
      some { s with pl := setP s.pl p {} }
    else none

def run (s : State) : List Ev → Option State
  | [] => some s
  | e :: h => match step? s e with
    | some s' => run s' h
    | none => none

/-- index of the first event `step?` refuses, with the state reached before it (for the
    driver's diagnostics); `none` = the whole history is accepted -/
def firstRejected (s : State) : List Ev → Nat → Option (Nat × Ev × State)
  | [], _ => none
  | e :: h, i => match step? s e with
    | some s' => firstRejected s' h (i + 1)
    | none => some (i, e, s)

/-- the events that complete the registration of `p` from an idle start -/
def register (p : Pid) : List Ev := [.syncBegin p, .snapshot p, .activate p, .syncEnd p]

/-- the events that let the plugin `q` currently inside the exclusive section leave it -/
def finish (q : Pid) : Phase → List Ev
  | .syncing => [.snapshot q, .activate q, .syncEnd q]
  | .snapped => [.activate q, .syncEnd q]
  | .active => [.syncEnd q]
  | .idle => []

/-- what the property says about one plugin and one container: learnt of exactly once -/
def ExactlyOnce (x : PState) (c : Cid) : Prop :=
  (c ∈ x.snap ∧ c ∉ x.got) ∨ (c ∉ x.snap ∧ c ∈ x.got)

instance (x : PState) (c : Cid) : Decidable (ExactlyOnce x c) := by
  unfold ExactlyOnce; infer_instance

end Nri.Locks


namespace Nri.Mutex

/-- runtime request id (one `CreateContainer` / `UpdateContainer` / `StopContainer` /
    `StateChange` call of the runtime) -/
abbrev Rid := Nat
/-- id of one `stub.UpdateContainers` call of a plugin -/
abbrev Uid := Nat
abbrev Pid := Nat

/-- who is inside the adaptation mutex -/
inductive Owner
  | req (r : Rid) | upd (u : Uid)
  deriving DecidableEq, Repr

/-- what the runtime's `UpdateFn` returned -/
structure FnResult (α ε : Type) where
  failed : List α
  err : Option ε
  deriving DecidableEq, Repr

/-- error seen by the caller of `stub.UpdateContainers` -/
inductive StubErr (ε : Type)
  | noService          -- `stub.ErrNoService`
  | rpc (e : ε)        -- the error of the call, as transported
  deriving DecidableEq, Repr

/-- `Adaptation.updateContainers` body (lock/unlock are the LTS events `enter`/`leave`):
    `return r.updateFn(ctx, req)` -/
def adaptationUpdate {α ε : Type} (fn : List α → FnResult α ε) (req : List α) : FnResult α ε :=
  fn req

/-- `plugin.UpdateContainers` (runtime service side, plugin.go):
    `failed, err := p.r.updateContainers(ctx, req.Update); return &Response{Failed: failed}, err` -/
def serviceUpdate {α ε : Type} (fn : List α → FnResult α ε) (reqUpdate : List α) :
    List α × Option ε :=
  let r := adaptationUpdate fn reqUpdate
  (r.failed, r.err)

/-- ttRPC: a handler error travels as a status and the response message is not sent; the
    generated client returns `nil, err` then, `&resp, nil` otherwise -/
def transport {α ε : Type} (x : List α × Option ε) : Option (List α) × Option ε :=
  match x.2 with
  | some e => (none, some e)
  | none => (some x.1, none)

/-- `stub.UpdateContainers` (stub.go): `runtime == nil → nil, ErrNoService`;
    `rpl, err := runtime.UpdateContainers(..Update: update..)`;
    `if rpl != nil { return rpl.Failed, err }; return nil, err` -/
def stubUpdate {α ε : Type} (runtime : Option (List α → Option (List α) × Option ε))
    (update : List α) : List α × Option (StubErr ε) :=
  match runtime with
  | none => ([], some .noService)
  | some call =>
    match call update with
    | (some failed, err) => (failed, err.map .rpc)
    | (none, err) => ([], err.map .rpc)

/-- where a stub is in its life (`stub.Start`): `fresh` never started; `connecting` Start is
    running but `stub.runtime` is not yet assigned (dialing, multiplexing); `registering`
    `stub.runtime` is assigned, `RegisterPlugin`/`Configure` in progress (the plugin's Configure
    handler runs in this phase); `started`; `stopped` (the closed client is kept) -/
inductive StubPhase
  | fresh | connecting | registering | started | stopped
  deriving DecidableEq, Repr

/-- the value of `stub.runtime` in each phase, given the client the connection provides -/
def clientOf {α ε : Type} (ph : StubPhase) (client : List α → Option (List α) × Option ε) :
    Option (List α → Option (List α) × Option ε) :=
  match ph with
  | .fresh => none
  | .connecting => none
  | _ => some client

/-- the runtime client of a started stub connected to an adaptation whose callback is `fn` -/
def connected {α ε : Type} (fn : List α → FnResult α ε) : List α → Option (List α) × Option ε :=
  fun update => transport (serviceUpdate fn update)

/-- what a plugin must see for a callback result `r`: the failed list, or the error -/
def expected {α ε : Type} (r : FnResult α ε) : List α × Option (StubErr ε) :=
  match r.err with
  | some e => ([], some (.rpc e))
  | none => (r.failed, none)

/-- progress of one unsolicited update call -/
inductive CallPhase (α ε : Type)
  | called                          -- the plugin called the stub; request on its way
  | entered                         -- `updateContainers` holds the adaptation mutex
  | ran (r : FnResult α ε)          -- `updateFn` returned `r`, mutex still held
  | left (r : FnResult α ε)         -- mutex released; reply on its way
  | returned (r : FnResult α ε)     -- the stub call returned to the plugin

/-- the call has not yet returned a result to the plugin -/
def CallPhase.pending {α ε : Type} : CallPhase α ε → Bool
  | .returned _ => false
  | _ => true

structure Call (α ε : Type) where
  p : Pid
  update : List α
  phase : CallPhase α ε

inductive Ev (α ε : Type)
  /-- plugin `p` calls `stub.UpdateContainers(update)` on a started stub (not from inside one of
      its own request handlers) -/
  | call (u : Uid) (p : Pid) (update : List α)
  /-- `Adaptation.updateContainers`: `r.Lock()` returned -/
  | enter (u : Uid)
  /-- `r.updateFn(ctx, req)` ran with argument `arg` and returned `res` -/
  | fn (u : Uid) (arg : List α) (res : FnResult α ε)
  /-- `r.Unlock()` -/
  | leave (u : Uid)
  /-- the stub call returns `out` to the plugin -/
  | ret (u : Uid) (out : List α × Option (StubErr ε))
  /-- a runtime request: `r.Lock()` returned -/
  | reqBegin (r : Rid)
  /-- the request is relayed to plugin `p` (its handler runs) -/
  | handler (r : Rid) (p : Pid)
  /-- `r.Unlock()` of the request -/
  | reqEnd (r : Rid)
  /-- `UpdateContainers` on a stub that was never started returns `out` -/
  | callUnstarted (p : Pid) (update : List α) (out : List α × Option (StubErr ε))
  /-- the caller of the pending call `u` goes away: its connection is lost (stub stopped, socket
      closed under it) or it stops waiting (the caller's context expires). The stub call ends
      with the transport's error `e` — NOT with a result of the callback. Nothing on the runtime
      side moves: `Adaptation.updateContainers` does not look at the request context, so the
      mutex word, the section and a callback in progress are untouched, and the call's runtime
      side carries on (`enter`/`fn`/`leave` stay enabled); only `ret` is no longer possible -/
  | gone (u : Uid) (e : StubErr ε)

structure State (α ε : Type) where
  /-- the adaptation mutex -/
  mu : Option Owner := none
  /-- ghost: who is executing inside a section the mutex is meant to protect (maintained
      independently of `mu`; that it never holds two owners is the theorem) -/
  inside : List Owner := []
  /-- the unsolicited update calls made so far -/
  call : Uid → Option (Call α ε) := fun _ => none
  /-- ghost log: every invocation of the runtime's `UpdateFn` on behalf of call `u`
      (argument, result) -/
  fnRuns : Uid → List (List α × FnResult α ε) := fun _ => []
  /-- ghost log: everything returned to the plugin for call `u` -/
  rets : Uid → List (List α × Option (StubErr ε)) := fun _ => []
  /-- ids of the requests that have finished (ghost: request ids are not reused) -/
  doneReqs : List Rid := []
  /-- ghost log: the transport error with which call `u` ended because its caller went away -/
  lost : Uid → List (StubErr ε) := fun _ => []

def init {α ε : Type} : State α ε := {}

def upd {β : Type} (f : Uid → β) (u : Uid) (x : β) : Uid → β := fun v => if v = u then x else f v

def step? {α ε : Type} [DecidableEq α] [DecidableEq ε] (s : State α ε) : Ev α ε → Option (State α ε)
  | .call u p update =>
    match s.call u with
    | some _ => none
    | none => some { s with call := upd s.call u (some ⟨p, update, .called⟩) }
  | .enter u =>
    match s.call u, s.mu with
    | some ⟨p, update, .called⟩, none =>
      some { s with mu := some (.upd u), inside := .upd u :: s.inside,
                    call := upd s.call u (some ⟨p, update, .entered⟩) }
    | _, _ => none
  | .fn u arg res =>
    match s.call u with
    | some ⟨p, update, .entered⟩ =>
      if s.mu = some (.upd u) ∧ arg = update then
        some { s with call := upd s.call u (some ⟨p, update, .ran res⟩),
                      fnRuns := upd s.fnRuns u ((arg, res) :: s.fnRuns u) } else none
    | _ => none
  | .leave u =>
    match s.call u with
    | some ⟨p, update, .ran r⟩ =>
      if s.mu = some (.upd u) then
        some { s with mu := none, inside := s.inside.erase (.upd u),
                      call := upd s.call u (some ⟨p, update, .left r⟩) } else none
    | _ => none
  | .ret u out =>
    match s.call u with
    | some ⟨p, update, .left r⟩ =>
      if out = expected r ∧ s.lost u = [] then
        some { s with call := upd s.call u (some ⟨p, update, .returned r⟩),
                      rets := upd s.rets u (out :: s.rets u) } else none
    | _ => none
  | .reqBegin r =>
    if s.mu = none ∧ r ∉ s.doneReqs then
      some { s with mu := some (.req r), inside := .req r :: s.inside } else none
  | .handler r _ =>
    if s.mu = some (.req r) then some s else none
  | .reqEnd r =>
    if s.mu = some (.req r) then
      some { s with mu := none, inside := s.inside.erase (.req r), doneReqs := r :: s.doneReqs }
    else none
  | .callUnstarted _ update out =>
    if out = stubUpdate (none : Option (List α → Option (List α) × Option ε)) update then some s
    else none
  | .gone u e =>
    match s.call u with
    | some c =>
      if c.phase.pending = true ∧ s.lost u = [] then some { s with lost := upd s.lost u [e] }
      else none
    | none => none

def run {α ε : Type} [DecidableEq α] [DecidableEq ε] (s : State α ε) : List (Ev α ε) → Option (State α ε)
  | [] => some s
  | e :: h => match step? s e with
    | some s' => run s' h
    | none => none

def firstRejected {α ε : Type} [DecidableEq α] [DecidableEq ε] (s : State α ε) :
    List (Ev α ε) → Nat → Option (Nat × State α ε)
  | [], _ => none
  | e :: h, i => match step? s e with
    | some s' => firstRejected s' h (i + 1)
    | none => some (i, s)

end Nri.Mutex
