/-
Operational model of pkg/adaptation/result.go: how the responses of the plugins to ONE
CreateContainer / UpdateContainer / StopContainer request are collected into the reply for
the runtime, the view shown to the next plugin, and the ownership ledger that detects two
plugins setting the same item.

Structure of the transcription. Every `adjust*`/`updateResources` function of result.go does
two things: it performs a sequence of ledger operations (`owners.clearX`, `owners.claimX`,
in a fixed order, returning at the first failing claim), and — if all claims succeed — a
data effect on the reply and on the request object later plugins are shown. The data
effects never feed back into the ledger, except that `adjustMounts/Env/Devices` clear the
owner of a removed key only when an entry with that key is in the reply collected so far;
that is decided on the state *before* the function runs. So each function is modelled as
  `clears st rsp : List Item`    (the owners it clears)
  `sets rsp : List Item`         (the items it claims, in the order the Go code does)
  `data st rsp : State`          (what it does to reply and view when no claim fails)
and the ledger effect of a whole adjustment is "all clears, then all claims in order". That
normal form is equivalent to the Go order (clears of one family interleaved with claims of
earlier families) because a clear only ever concerns an item of its own family, within a
family the Go code clears before it claims, and a lone annotation removal concerns a key that
is not claimed in the same response; clears never fail, so the first failing claim is the
same. The 29 owner fields/maps of the Go `owners` struct
are one association list keyed by `(container id, Item)`; a scalar field holding `""` is an
absent key.

`Quirks` switches on the behaviour of the code as it was before the `fix:` commits, for the
`unfixed_*` witness theorems; all theorems are about `Quirks.fixed`.

Core Lean only.
-/
import NriModel.ApiTypes

namespace Nri.Result
open Nri.NApi

/-- The ownable items of one container. -/
inductive Item
  | annotation (k : Str) | mount (dst : Str) | device (path : Str) | cdi (name : Str)
  | env (name : Str) | args | hugepage (size : Str) | unified (k : Str) | rlimit (t : Str)
  | memLimit | memReservation | memSwap | memKernel | memKernelTcp | memSwappiness
  | memDisableOom | memUseHierarchy | cpuShares | cpuQuota | cpuPeriod | cpuRtRuntime
  | cpuRtPeriod | cpusetCpus | cpusetMems | pids | blockio | rdt | cgroupsPath | oomScoreAdj
  deriving DecidableEq, Repr, Inhabited

abbrev Cid := Str
abbrev Plugin := Str
abbrev Owners := AList (Cid × Item) Plugin

inductive Err
  | conflict (c : Cid) (it : Item) (p q : Plugin)   -- "plugins p and q both tried to set it"
  | selfUpdate (p : Plugin) (c : Cid)               -- update of the container being created
  deriving DecidableEq, Repr, Inhabited

def Owners.owner (o : Owners) (c : Cid) (it : Item) : Option Plugin := AList.lookup o (c, it)

/-- `owners.claimX`: fails when the item already has an owner (whoever it is — the Go code
    does not compare with the claimant). -/
def claim (o : Owners) (c : Cid) (it : Item) (p : Plugin) : Except Err Owners :=
  match o.owner c it with
  | some q => .error (.conflict c it p q)
  | none => .ok (AList.insert o (c, it) p)

def clear (o : Owners) (c : Cid) (it : Item) : Owners := AList.erase o (c, it)

def clearAll (o : Owners) (c : Cid) : List Item → Owners
  | [] => o
  | it :: rest => clearAll (clear o c it) c rest

/-- claim the items in order; stop at the first failing claim -/
def claimAll (c : Cid) (p : Plugin) : Owners → List Item → Except Err Owners
  | o, [] => .ok o
  | o, it :: rest =>
    match claim o c it p with
    | .ok o' => claimAll c p o' rest
    | .error e => .error e

/-- As `claimAll`, but also returns the ledger reached when a claim fails: an update marked
    ignore-failure is dropped, yet the claims it made before the failing field stay. -/
def claimAllPartial (c : Cid) (p : Plugin) : Owners → List Item → Owners × Option Err
  | o, [] => (o, none)
  | o, it :: rest =>
    match claim o c it p with
    | .ok o' => claimAllPartial c p o' rest
    | .error e => (o, some e)

structure Quirks where
  /-- before fix 1: `updateResources` read pids from the accumulated copy, not the update -/
  pidsFromCopy : Bool := false
  /-- before fix 2: a lone `-k` annotation left owner, view and reply entry of k in place -/
  annLoneKeeps : Bool := false
  /-- before fix 3: lone removals of env vars / devices were not re-emitted in the reply -/
  envDevNoMarker : Bool := false
  /-- before fix 4: the reply entry of the container being updated started empty instead of
      from the runtime's requested resources -/
  ownEntryEmpty : Bool := false
  deriving DecidableEq, Repr, Inhabited

def Quirks.fixed : Quirks := {}
def Quirks.unfixed : Quirks :=
  { pidsFromCopy := true, annLoneKeeps := true, envDevNoMarker := true, ownEntryEmpty := true }

inductive Kind
  | create (id : Cid)
  | update (id : Cid)
  | stop
  deriving DecidableEq, Repr, Inhabited

structure State where
  kind : Kind
  /-- `request.create.Container` as mutated so far (creation requests) -/
  view : Container := { id := [] }
  /-- `request.update.LinuxResources` as mutated so far (update requests) -/
  reqRes : Resources := {}
  /-- `reply.adjust` -/
  reply : Adjustment := {}
  /-- `reply.update`: entries for containers other than the one being updated, in order of
      first mention -/
  updates : List Update := []
  /-- `updates[request.update.Container.Id]`, appended last by the response getter -/
  own : Option Update := none
  owners : Owners := []
  deriving Repr, Inhabited

/-! ### Normalisation done by `collect*ContainerResult` -/

def normRes (r : Resources) : Resources :=
  { r with memory := some (r.memory.getD {}), cpu := some (r.cpu.getD {}) }

def initCreate (c : Container) : State :=
  { kind := .create c.id,
    view := { c with resources := normRes c.resources },
    reply := { hooks := some {}, hasLinux := true, resources := some (normRes {}) } }

def initUpdate (id : Cid) (res : Resources) : State :=
  { kind := .update id, reqRes := normRes res }

def initStop : State := { kind := .stop }

/-! ### Annotations (Go maps: order-free; the list order of the model is the order in which
    conflicts would be reported, which the Go code leaves to map iteration) -/

def annDel (a : AList Str Str) : List Str :=
  a.filterMap fun (k, _) => let (key, m) := isMarked k; if m then some key else none

def annSet (a : AList Str Str) : AList Str Str :=
  a.filter fun (k, _) => !(isMarked k).2

/-- owners cleared by `adjustAnnotations`: every key marked for removal (before fix 2 only
    those that are also set again in the same response) -/
def annClears (q : Quirks) (a : AList Str Str) : List Item :=
  let del := annDel a
  let set := annSet a
  (if q.annLoneKeeps then del.filter fun k => set.any fun (k', _) => k' = k else del).map .annotation

def annSets (a : AList Str Str) : List Item := (annSet a).map fun (k, _) => .annotation k

/-- the annotation keys whose entry `adjustAnnotations` deletes from the container view:
    every key marked for removal (before fix 2 only those set again in the same response) -/
def annViewDel (q : Quirks) (a : AList Str Str) : List Str :=
  if q.annLoneKeeps then (annDel a).filter fun k => (annSet a).any fun (k', _) => k' = k else annDel a

def annData (q : Quirks) (st : State) (a : AList Str Str) : State :=
  let del := annDel a
  let set := annSet a
  let lone := del.filter fun k => !(set.any fun (k', _) => k' = k)
  -- keys removed and set again
  let both := set.filter fun (k, _) => del.contains k
  -- the view is a Go map: deleting the removed keys and then assigning the set ones gives the
  -- same map as the Go order (delete-then-assign per re-set key, lone deletions last)
  let view' := set.foldl (fun m (k, v) => AList.insert m k v)
    ((annViewDel q a).foldl (fun m k => AList.erase m k) st.view.annotations)
  let reply1 := both.foldl (fun m (k, _) => AList.insert m (markForRemoval k) []) st.reply.annotations
  let reply2 := set.foldl (fun m (k, v) => AList.insert m k v) reply1
  let reply3 := lone.foldl (fun m k => AList.insert m (markForRemoval k) []) reply2
  let reply4 := if q.annLoneKeeps then reply3 else lone.foldl (fun m k => AList.erase m k) reply3
  { st with view := { st.view with annotations := view' }, reply := { st.reply with annotations := reply4 } }

/-! ### Keyed list families: mounts, devices, environment -/

/-- keys marked for removal, in list order -/
def delKeys (keys : List Str) : List Str :=
  keys.filterMap fun k => let (key, m) := isMarked k; if m then some key else none

/-- keys of the entries that are not marked (the Go `mod` map / `add` slice) -/
def modKeys (keys : List Str) : List Str :=
  keys.filter fun k => !(isMarked k).2

/-- the owner of a removed mount is cleared only when the reply collected so far holds an
    entry for it -/
def mountClears (st : State) (ms : List Mount) : List Item :=
  let del := delKeys (ms.map (·.destination))
  (st.reply.mounts.filter fun m => del.contains m.destination).map fun m => .mount m.destination

def mountSets (ms : List Mount) : List Item :=
  (ms.filter fun m => !(isMarked m.destination).2).map fun m => .mount m.destination

def mountData (st : State) (ms : List Mount) : State :=
  let del := delKeys (ms.map (·.destination))
  let add := ms.filter fun m => !(isMarked m.destination).2
  let mod := add.map (·.destination)
  let reply1 := st.reply.mounts.filter fun m => !del.contains m.destination
  let view1 := st.view.mounts.filter fun m => !del.contains m.destination && !mod.contains m.destination
  -- lone removal markers are re-emitted (one per distinct key; Go iterates a map)
  let lone := (ms.filter fun m => (isMarked m.destination).2 && !mod.contains (clearMarker m.destination))
  let lone := lone.foldr (fun m acc => if acc.any (fun m' => m'.destination = m.destination) then acc else m :: acc) []
  { st with reply := { st.reply with mounts := reply1 ++ add ++ lone },
            view := { st.view with mounts := view1 ++ add } }

def deviceClears (st : State) (ds : List Device) : List Item :=
  let del := delKeys (ds.map (·.path))
  (st.reply.devices.filter fun d => del.contains d.path).map fun d => .device d.path

def deviceSets (ds : List Device) : List Item :=
  (ds.filter fun d => !(isMarked d.path).2).map fun d => .device d.path

def deviceData (q : Quirks) (st : State) (ds : List Device) : State :=
  let del := delKeys (ds.map (·.path))
  let add := ds.filter fun d => !(isMarked d.path).2
  let mod := add.map (·.path)
  let reply1 := st.reply.devices.filter fun d => !del.contains d.path
  let view1 := st.view.devices.filter fun d => !del.contains d.path && !mod.contains d.path
  let lone := (ds.filter fun d => (isMarked d.path).2 && !mod.contains (clearMarker d.path))
  let lone := lone.foldr (fun d acc => if acc.any (fun d' => d'.path = d.path) then acc else d :: acc) []
  let lone := if q.envDevNoMarker then [] else lone
  { st with reply := { st.reply with devices := reply1 ++ add ++ lone },
            view := { st.view with devices := view1 ++ add } }

def envClears (st : State) (es : List KeyValue) : List Item :=
  let del := delKeys (es.map (·.key))
  (st.reply.env.filter fun e => del.contains e.key).map fun e => .env e.key

def envSets (es : List KeyValue) : List Item :=
  (es.filter fun e => !(isMarked e.key).2).map fun e => .env e.key

def envData (q : Quirks) (st : State) (es : List KeyValue) : State :=
  let del := delKeys (es.map (·.key))
  let add := es.filter fun e => !(isMarked e.key).2
  let mod := add.map (·.key)
  let reply1 := st.reply.env.filter fun e => !del.contains e.key
  let view1 := st.view.env.filter fun s => !del.contains (envKey s) && !mod.contains (envKey s)
  let lone := (es.filter fun e => (isMarked e.key).2 && !mod.contains (clearMarker e.key))
  let lone := lone.foldr (fun e acc => if acc.any (fun e' => e'.key = e.key) then acc else e :: acc) []
  let lone := if q.envDevNoMarker then [] else lone
  { st with reply := { st.reply with env := reply1 ++ add ++ lone },
            view := { st.view with env := view1 ++ add.map KeyValue.toOCI } }

/-! ### Args, hooks -/

def argsClears (args : List Str) : List Item :=
  match args with
  | [] :: _ => [.args]
  | _ => []

def argsSets (args : List Str) : List Item := if args = [] then [] else [.args]

def argsData (st : State) (args : List Str) : State :=
  match args with
  | [] => st
  | a :: rest =>
    let args' := if a = [] then rest else a :: rest
    { st with reply := { st.reply with args := args' }, view := { st.view with args := args' } }

def _root_.Nri.NApi.Hooks.append (a b : Hooks) : Hooks :=
  { prestart := a.prestart ++ b.prestart, createRuntime := a.createRuntime ++ b.createRuntime,
    createContainer := a.createContainer ++ b.createContainer,
    startContainer := a.startContainer ++ b.startContainer,
    poststart := a.poststart ++ b.poststart, poststop := a.poststop ++ b.poststop }

def hooksData (st : State) (h : Option Hooks) : State :=
  match h with
  | none => st
  | some h =>
    { st with reply := { st.reply with hooks := some ((st.reply.hooks.getD {}).append h) },
              view := { st.view with hooks := st.view.hooks.append h } }

/-! ### Resources -/

def memSets (m : Memory) : List Item :=
  (if m.limit.isSome then [.memLimit] else []) ++
  (if m.reservation.isSome then [.memReservation] else []) ++
  (if m.swap.isSome then [.memSwap] else []) ++
  (if m.kernel.isSome then [.memKernel] else []) ++
  (if m.kernelTcp.isSome then [.memKernelTcp] else []) ++
  (if m.swappiness.isSome then [.memSwappiness] else []) ++
  (if m.disableOomKiller.isSome then [.memDisableOom] else []) ++
  (if m.useHierarchy.isSome then [.memUseHierarchy] else [])

def cpuSets (c : Cpu) : List Item :=
  (if c.shares.isSome then [.cpuShares] else []) ++
  (if c.quota.isSome then [.cpuQuota] else []) ++
  (if c.period.isSome then [.cpuPeriod] else []) ++
  (if c.realtimeRuntime.isSome then [.cpuRtRuntime] else []) ++
  (if c.realtimePeriod.isSome then [.cpuRtPeriod] else []) ++
  (if c.cpus ≠ [] then [.cpusetCpus] else []) ++
  (if c.mems ≠ [] then [.cpusetMems] else [])

/-- items claimed by `adjustResources` / `updateResources` for the plugin's resources `r`,
    in the order of the Go code; `pidsSet` says whether the pids branch is taken -/
def resSetsWith (r : Resources) (pidsSet : Bool) : List Item :=
  (match r.memory with | some m => memSets m | none => []) ++
  (match r.cpu with | some c => cpuSets c | none => []) ++
  (r.hugepages.map fun l => .hugepage l.pageSize) ++
  (r.unified.map fun (k, _) => .unified k) ++
  (if r.blockioClass.isSome then [.blockio] else []) ++
  (if r.rdtClass.isSome then [.rdt] else []) ++
  (if pidsSet then [.pids] else [])

def resSets (r : Resources) : List Item := resSetsWith r r.pids.isSome

def overlayMem (base m : Memory) : Memory :=
  { limit := m.limit.orElse fun _ => base.limit,
    reservation := m.reservation.orElse fun _ => base.reservation,
    swap := m.swap.orElse fun _ => base.swap,
    kernel := m.kernel.orElse fun _ => base.kernel,
    kernelTcp := m.kernelTcp.orElse fun _ => base.kernelTcp,
    swappiness := m.swappiness.orElse fun _ => base.swappiness,
    disableOomKiller := m.disableOomKiller.orElse fun _ => base.disableOomKiller,
    useHierarchy := m.useHierarchy.orElse fun _ => base.useHierarchy }

def overlayCpu (base c : Cpu) : Cpu :=
  { shares := c.shares.orElse fun _ => base.shares,
    quota := c.quota.orElse fun _ => base.quota,
    period := c.period.orElse fun _ => base.period,
    realtimeRuntime := c.realtimeRuntime.orElse fun _ => base.realtimeRuntime,
    realtimePeriod := c.realtimePeriod.orElse fun _ => base.realtimePeriod,
    cpus := if c.cpus ≠ [] then c.cpus else base.cpus,
    mems := if c.mems ≠ [] then c.mems else base.mems }

/-- what `adjustResources`/`updateResources` write into a `LinuxResources` whose memory and
    cpu are already non-nil: every field the plugin set, hugepages appended, unified keys
    assigned -/
def overlayRes (base r : Resources) (pids : Option Int) : Resources :=
  { memory := some (match r.memory with | some m => overlayMem (base.memory.getD {}) m | none => base.memory.getD {}),
    cpu := some (match r.cpu with | some c => overlayCpu (base.cpu.getD {}) c | none => base.cpu.getD {}),
    hugepages := base.hugepages ++ r.hugepages,
    unified := r.unified.foldl (fun m (k, v) => AList.insert m k v) base.unified,
    blockioClass := r.blockioClass.orElse fun _ => base.blockioClass,
    rdtClass := r.rdtClass.orElse fun _ => base.rdtClass,
    pids := pids.orElse fun _ => base.pids }

def resData (st : State) (r : Option Resources) : State :=
  match r with
  | none => st
  | some r =>
    { st with view := { st.view with resources := overlayRes st.view.resources r r.pids },
              reply := { st.reply with resources := some (overlayRes (st.reply.resources.getD (normRes {})) r r.pids) } }

/-! ### The remaining scalar and list items -/

def cgroupsSets (path : Str) : List Item := if path = [] then [] else [.cgroupsPath]
def cgroupsData (st : State) (path : Str) : State :=
  if path = [] then st else
  { st with view := { st.view with cgroupsPath := path }, reply := { st.reply with cgroupsPath := path } }

def oomSets (v : Option Int) : List Item := if v.isSome then [.oomScoreAdj] else []
def oomData (st : State) (v : Option Int) : State :=
  match v with
  | none => st
  | some x => { st with view := { st.view with oomScoreAdj := some x }, reply := { st.reply with oomScoreAdj := some x } }

def rlimitSets (ls : List Rlimit) : List Item := ls.map fun l => .rlimit l.type
def rlimitData (st : State) (ls : List Rlimit) : State :=
  { st with view := { st.view with rlimits := st.view.rlimits ++ ls },
            reply := { st.reply with rlimits := st.reply.rlimits ++ ls } }

def cdiSets (ds : List Str) : List Item := ds.map fun d => .cdi d
def cdiData (st : State) (ds : List Str) : State :=
  { st with reply := { st.reply with cdiDevices := st.reply.cdiDevices ++ ds } }

/-! ### `result.adjust` -/

/-- every item one plugin's adjustment sets, in the order `adjust()` claims them; the
    `linux`-section families are skipped when the message has no `linux` section -/
def adjustSets (a : Adjustment) : List Item :=
  annSets a.annotations ++ mountSets a.mounts ++ envSets a.env ++ argsSets a.args ++
  (if a.hasLinux then
     deviceSets a.devices ++ (match a.resources with | some r => resSets r | none => []) ++
     cgroupsSets a.cgroupsPath ++ oomSets a.oomScoreAdj
   else []) ++
  rlimitSets a.rlimits ++ cdiSets a.cdiDevices

/-- every owner one plugin's adjustment clears -/
def adjustClears (q : Quirks) (st : State) (a : Adjustment) : List Item :=
  annClears q a.annotations ++ mountClears st a.mounts ++ envClears st a.env ++ argsClears a.args ++
  (if a.hasLinux then deviceClears st a.devices else [])

def adjustData (q : Quirks) (st : State) (a : Adjustment) : State :=
  let st := annData q st a.annotations
  let st := mountData st a.mounts
  let st := envData q st a.env
  let st := argsData st a.args
  let st := hooksData st a.hooks
  let st := if a.hasLinux then
      oomData (cgroupsData (resData (deviceData q st a.devices) a.resources) a.cgroupsPath) a.oomScoreAdj
    else st
  let st := rlimitData st a.rlimits
  cdiData st a.cdiDevices

def cidOf : Kind → Cid
  | .create id => id
  | .update id => id
  | .stop => []

/-- `result.adjust(rpl.Adjust, plugin)` (creation requests only) -/
def adjust (q : Quirks) (st : State) (p : Plugin) (a : Option Adjustment) : Except Err State :=
  match a with
  | none => .ok st
  | some a =>
    match claimAll (cidOf st.kind) p (clearAll st.owners (cidOf st.kind) (adjustClears q st a)) (adjustSets a) with
    | .error e => .error e
    | .ok o => .ok { adjustData q st a with owners := o }

/-! ### `result.update` -/

def emptyUpdate (id : Cid) (ignore : Bool) : Update :=
  { containerId := id, resources := some (normRes {}), ignoreFailure := ignore }

def isOwn (k : Kind) (id : Cid) : Bool :=
  match k with
  | .update rid => rid = id
  | _ => false

/-- `getContainerUpdate`: find or create the reply entry for `u.containerId`; the ignore
    flag accumulates with `&&`. Returns the state with the entry present. -/
def getUpdate (q : Quirks) (st : State) (p : Plugin) (u : Update) : Except Err State :=
  match st.kind with
  | .create id => if id = u.containerId then .error (.selfUpdate p id) else go
  | _ => go
where
  go : Except Err State :=
    if isOwn st.kind u.containerId then
      match st.own with
      | some e => .ok { st with own := some { e with ignoreFailure := e.ignoreFailure && u.ignoreFailure } }
      | none =>
        let e := emptyUpdate u.containerId u.ignoreFailure
        .ok { st with own := some (if q.ownEntryEmpty then e else { e with resources := some st.reqRes }) }
    else if st.updates.any (fun e => e.containerId = u.containerId) then
      .ok { st with updates := st.updates.map fun e =>
              if e.containerId = u.containerId then { e with ignoreFailure := e.ignoreFailure && u.ignoreFailure } else e }
    else .ok { st with updates := st.updates ++ [emptyUpdate u.containerId u.ignoreFailure] }

/-- the resources `updateResources` starts from: the runtime's (mutated) request for the
    container being updated, otherwise the reply entry collected so far; `Copy()` drops
    nothing the model carries -/
def updBase (st : State) (id : Cid) : Resources :=
  if isOwn st.kind id then st.reqRes
  else match st.updates.find? (fun e => e.containerId = id) with
    | some e => e.resources.getD (normRes {})
    | none => normRes {}

/-- the pids value `updateResources` claims and writes: the plugin's (fixed), or — before
    fix 1 — whatever the accumulated copy already holds -/
def updPids (q : Quirks) (base r : Resources) : Option Int :=
  if q.pidsFromCopy then base.pids else r.pids

def updSets (q : Quirks) (st : State) (u : Update) : List Item :=
  match u.resources with
  | none => []
  | some r => resSetsWith r (updPids q (updBase st u.containerId) r).isSome

def setEntryRes (st : State) (id : Cid) (res : Resources) : State :=
  if isOwn st.kind id then
    { st with own := st.own.map fun e => { e with resources := some res }, reqRes := res }
  else
    { st with updates := st.updates.map fun e => if e.containerId = id then { e with resources := some res } else e }

/-- `updateResources` after all claims succeeded -/
def updData (q : Quirks) (st : State) (u : Update) : State :=
  match u.resources with
  | none => st
  | some r =>
    let base := updBase st u.containerId
    setEntryRes st u.containerId (overlayRes base r (updPids q base r))

/-- one element of `result.update`'s loop -/
def update1 (q : Quirks) (st : State) (p : Plugin) (u : Update) : Except Err State :=
  match getUpdate q st p u with
  | .error e => .error e
  | .ok st1 =>
    match claimAllPartial u.containerId p st1.owners (updSets q st1 u) with
    | (o, none) => .ok { updData q st1 u with owners := o }
    | (o, some e) => if u.ignoreFailure then .ok { st1 with owners := o } else .error e

def updateAll (q : Quirks) (st : State) (p : Plugin) : List Update → Except Err State
  | [] => .ok st
  | u :: rest =>
    match update1 q st p u with
    | .error e => .error e
    | .ok st' => updateAll q st' p rest

/-! ### `result.apply` and the request loops of adaptation.go -/

/-- a plugin's response: `adjust` is only read for creation requests -/
structure Response where
  adjust : Option Adjustment := none
  updates : List Update := []
  deriving Repr, Inhabited

def apply (q : Quirks) (st : State) (p : Plugin) (r : Response) : Except Err State :=
  match st.kind with
  | .create _ =>
    match adjust q st p r.adjust with
    | .error e => .error e
    | .ok st' => updateAll q st' p r.updates
  | _ => updateAll q st p r.updates

/-- the loop of `Adaptation.CreateContainer/UpdateContainer/StopContainer` over the plugins
    in index order; `none` = the plugin is not subscribed or was dropped (nil response) -/
def run (q : Quirks) (st : State) : List (Plugin × Option Response) → Except Err State
  | [] => .ok st
  | (_, none) :: rest => run q st rest
  | (p, some r) :: rest =>
    match apply q st p r with
    | .error e => .error e
    | .ok st' => run q st' rest

/-- the states in which each plugin of the chain is called (what it is shown), in order -/
def viewsAlong (q : Quirks) (st : State) : List (Plugin × Option Response) → List State
  | [] => []
  | (_, none) :: rest => st :: viewsAlong q st rest
  | (p, some r) :: rest =>
    match apply q st p r with
    | .error _ => [st]
    | .ok st' => st :: viewsAlong q st' rest

/-- `createContainerResponse` / `updateContainerResponse` / `stopContainerResponse`:
    the update list handed to the runtime. For update requests the entry of the updated
    container comes last; `none` stands for the nil placeholder the Go code appends when no
    plugin touched it. -/
def replyUpdates (st : State) : List (Option Update) :=
  match st.kind with
  | .update _ => st.updates.map some ++ [st.own]
  | _ => st.updates.map some

end Nri.Result
