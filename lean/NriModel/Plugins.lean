/-
Model of the decision logic of the two sample injector plugins

  * plugins/device-injector/device-injector.go   (`Injector`)
  * plugins/ulimit-adjuster/adjuster.go          (`Adjuster`)

and of the little of pkg/adaptation/result.go that lies between a plugin's reply and the
`CreateContainerResponse` the runtime sees when the two run as plugins `10-device-injector`
and `20-ulimit-adjuster` (`throughRuntime`).

YAML decoding (sigs.k8s.io/yaml → encoding/json into the plugins' structs) is a PARAMETER
(`Yaml`): the model starts from the decoded value, or from "rejected". Core Lean only.
-/
import NriModel.Basic

namespace Nri.Plugins
open Nri

/-! ## Data -/

/-- `type device struct` of device-injector.go, after decoding -/
structure Device where
  path : Str
  type : Str
  major : Int
  minor : Int
  fileMode : Nat
  uid : Nat
  gid : Nat
deriving DecidableEq, Repr

/-- `type mount struct` of device-injector.go; also the shape of `api.Mount` (the
    conversion `toNRI` copies the four fields) -/
structure Mount where
  source : Str
  destination : Str
  type : Str
  options : List Str
deriving DecidableEq, Repr

/-- `type ulimit struct` of adjuster.go -/
structure Ulimit where
  type : Str
  hard : Nat
  soft : Nat
deriving DecidableEq, Repr

/-- `api.LinuxDevice` as far as the injector fills it: the three optional fields are
    pointers (`OptionalFileMode`, `OptionalUInt32`) -/
structure ApiDevice where
  path : Str
  type : Str
  major : Int
  minor : Int
  fileMode : Option Nat
  uid : Option Nat
  gid : Option Nat
deriving DecidableEq, Repr

/-- `api.POSIXRlimit` -/
structure Rlimit where
  type : Str
  hard : Nat
  soft : Nat
deriving DecidableEq, Repr

/-- the four families of `api.ContainerAdjustment` the two plugins can touch -/
structure Adjust where
  devices : List ApiDevice := []
  cdi : List Str := []
  mounts : List Mount := []
  rlimits : List Rlimit := []
deriving DecidableEq, Repr

/-- The YAML layer, trusted: for each of the four target types, what
    `yaml.Unmarshal([]byte(value), &target)` leaves in `target`, or `none` if it returns an
    error. -/
structure Yaml where
  devices : Str → Option (List Device)
  cdi : Str → Option (List Str)
  mounts : Str → Option (List Mount)
  ulimits : Str → Option (List Ulimit)

/-- error kinds (texts are never compared) -/
inductive Err where
  | badDevices      -- "invalid device annotation …"
  | badCDI          -- "invalid CDI device annotation …"
  | badMounts       -- "invalid mount annotation …"
  | badUlimits      -- the YAML error returned by parseUlimits
  | badType         -- "failed to parse type: …"
  | hardLtSoft      -- "ulimit … must have hard limit >= soft limit"
  | conflictMount | conflictDevice | conflictCDI | conflictRlimit   -- result.go claim*
deriving DecidableEq, Repr

/-- pod annotations: a Go `map[string]string` -/
abbrev Annotations := AList Str Str

/-! ## Keys -/

def deviceKey : Str := "devices.nri.io".toList
def mountKey : Str := "mounts.nri.io".toList
def cdiDeviceKey : Str := "cdi-devices.nri.io".toList
def ulimitKey : Str := "ulimits.nri.containerd.io".toList
def rlimitPrefix : Str := "RLIMIT_".toList

def containerSuffix : Str := "/container.".toList
def podSuffix : Str := "/pod".toList

/-- `mainKey + "/container." + ctr` -/
def containerKey (main ctr : Str) : Str := main ++ (containerSuffix ++ ctr)
/-- `mainKey + "/pod"` -/
def podKey (main : Str) : Str := main ++ podSuffix

/-! ## device-injector -/

/-- the loop of `getAnnotation`: the value of the first key present in the map.
    (`[]byte(value)` of a present empty value is a non-nil empty slice, so a present empty
    annotation is *found* and shadows the less specific keys.) -/
def firstPresent (ann : Annotations) : List Str → Option Str
  | [] => none
  | k :: ks =>
    match AList.lookup ann k with
    | some v => some v
    | none => firstPresent ann ks

/-- `getAnnotation(annotations, mainKey, ctr)` -/
def getAnnotation (ann : Annotations) (main ctr : Str) : Option Str :=
  firstPresent ann [containerKey main ctr, podKey main, main]

/-- `(*device).toNRI`: zero file mode / uid / gid stay unset -/
def Device.toNRI (d : Device) : ApiDevice :=
  { path := d.path, type := d.type, major := d.major, minor := d.minor,
    fileMode := if d.fileMode ≠ 0 then some d.fileMode else none,
    uid := if d.uid ≠ 0 then some d.uid else none,
    gid := if d.gid ≠ 0 then some d.gid else none }

/-- `parseDevices` -/
def parseDevices (Y : Yaml) (ann : Annotations) (ctr : Str) : Except Err (List Device) :=
  match getAnnotation ann deviceKey ctr with
  | none => .ok []
  | some raw =>
    match Y.devices raw with
    | none => .error .badDevices
    | some ds => .ok ds

/-- `injectDevices`: `a.AddDevice(d.toNRI())` for each decoded device, in order -/
def injectDevices (Y : Yaml) (ann : Annotations) (ctr : Str) (a : Adjust) : Except Err Adjust :=
  match parseDevices Y ann ctr with
  | .error e => .error e
  | .ok ds => .ok { a with devices := a.devices ++ ds.map Device.toNRI }

def parseCDIDevices (Y : Yaml) (ann : Annotations) (ctr : Str) : Except Err (List Str) :=
  match getAnnotation ann cdiDeviceKey ctr with
  | none => .ok []
  | some raw =>
    match Y.cdi raw with
    | none => .error .badCDI
    | some ns => .ok ns

def injectCDIDevices (Y : Yaml) (ann : Annotations) (ctr : Str) (a : Adjust) : Except Err Adjust :=
  match parseCDIDevices Y ann ctr with
  | .error e => .error e
  | .ok ns => .ok { a with cdi := a.cdi ++ ns }

def parseMounts (Y : Yaml) (ann : Annotations) (ctr : Str) : Except Err (List Mount) :=
  match getAnnotation ann mountKey ctr with
  | none => .ok []
  | some raw =>
    match Y.mounts raw with
    | none => .error .badMounts
    | some ms => .ok ms

def injectMounts (Y : Yaml) (ann : Annotations) (ctr : Str) (a : Adjust) : Except Err Adjust :=
  match parseMounts Y ann ctr with
  | .error e => .error e
  | .ok ms => .ok { a with mounts := a.mounts ++ ms }

/-- `(*plugin).CreateContainer` of the device injector: devices, then CDI devices, then
    mounts; the first error aborts and nothing is returned -/
def injector (Y : Yaml) (ann : Annotations) (ctr : Str) : Except Err Adjust :=
  match injectDevices Y ann ctr {} with
  | .error e => .error e
  | .ok a1 =>
    match injectCDIDevices Y ann ctr a1 with
    | .error e => .error e
    | .ok a2 => injectMounts Y ann ctr a2

/-! ## ulimit-adjuster -/

/-- the sixteen keys of `valid` -/
def validNames : List Str :=
  [ "AS".toList, "CORE".toList, "CPU".toList, "DATA".toList, "FSIZE".toList, "LOCKS".toList,
    "MEMLOCK".toList, "MSGQUEUE".toList, "NICE".toList, "NOFILE".toList, "NPROC".toList,
    "RSS".toList, "RTPRIO".toList, "RTTIME".toList, "SIGPENDING".toList, "STACK".toList ]

/-- Every rune whose `unicode.ToUpper` differs from itself AND lands in ASCII: the 26 small
    letters and the two non-ASCII runes U+0131 (dotless i) and U+017F (long s). Every other
    rune is mapped by Go either to itself or to a non-ASCII rune; since every accepted name
    is ASCII that difference is unobservable and the model leaves such runes alone. The
    harness checks this table against `unicode.ToUpper` over all code points on every run. -/
def upperTable : List (Char × Char) :=
  [ ('a','A'), ('b','B'), ('c','C'), ('d','D'), ('e','E'), ('f','F'), ('g','G'), ('h','H'),
    ('i','I'), ('j','J'), ('k','K'), ('l','L'), ('m','M'), ('n','N'), ('o','O'), ('p','P'),
    ('q','Q'), ('r','R'), ('s','S'), ('t','T'), ('u','U'), ('v','V'), ('w','W'), ('x','X'),
    ('y','Y'), ('z','Z'), (Char.ofNat 0x131, 'I'), (Char.ofNat 0x17F, 'S') ]

def tableLookup (t : List (Char × Char)) (c : Char) : Option Char :=
  match t with
  | [] => none
  | (a, b) :: rest => if a = c then some b else tableLookup rest c

/-- `unicode.ToUpper` as far as it is observable here -/
def upperChar (c : Char) : Char :=
  match tableLookup upperTable c with
  | some u => u
  | none => c

/-- `strings.ToUpper` -/
def toUpper (s : Str) : Str := s.map upperChar

/-- `s[len(p):]` if `p` is a prefix of `s` -/
def stripPrefix? : Str → Str → Option Str
  | [], s => some s
  | _ :: _, [] => none
  | a :: p, b :: s => if a = b then stripPrefix? p s else none

/-- `strings.TrimPrefix(s, p)` -/
def trimPrefix (p s : Str) : Str :=
  match stripPrefix? p s with
  | some r => r
  | none => s

/-- `typ := strings.TrimPrefix(strings.ToUpper(u.Type), "RLIMIT_")`; accepted iff a key of
    `valid`; the stored type is `"RLIMIT_" + typ` -/
def normalise (t : Str) : Option Str :=
  let typ := trimPrefix rlimitPrefix (toUpper t)
  if typ ∈ validNames then some (rlimitPrefix ++ typ) else none

/-- the validation loop of `parseUlimits`: first unknown type aborts -/
def normaliseAll : List Ulimit → Except Err (List Ulimit)
  | [] => .ok []
  | u :: rest =>
    match normalise u.type with
    | none => .error .badType
    | some n =>
      match normaliseAll rest with
      | .error e => .error e
      | .ok rest' => .ok ({ u with type := n } :: rest')

/-- `parseUlimits`: container-scoped key only -/
def parseUlimits (Y : Yaml) (ann : Annotations) (ctr : Str) : Except Err (List Ulimit) :=
  match AList.lookup ann (containerKey ulimitKey ctr) with
  | none => .ok []
  | some raw =>
    match Y.ulimits raw with
    | none => .error .badUlimits
    | some us => normaliseAll us

/-- `adjustUlimits`: first entry with hard < soft aborts -/
def adjustUlimits : List Ulimit → Except Err (List Rlimit)
  | [] => .ok []
  | u :: rest =>
    if u.hard < u.soft then .error .hardLtSoft
    else
      match adjustUlimits rest with
      | .error e => .error e
      | .ok rs => .ok ({ type := u.type, hard := u.hard, soft := u.soft } :: rs)

/-- `(*plugin).CreateContainer` of the ulimit adjuster -/
def adjuster (Y : Yaml) (ann : Annotations) (ctr : Str) : Except Err Adjust :=
  match parseUlimits Y ann ctr with
  | .error e => .error e
  | .ok us =>
    match adjustUlimits us with
    | .error e => .error e
    | .ok rs => .ok { rlimits := rs }

/-! ## Between the plugins' replies and the runtime (pkg/adaptation) -/

/-- `IsMarkedForRemoval`: the name starts with `-` -/
def marked : Str → Bool
  | '-' :: _ => true
  | _ => false

def hasDup : List Str → Bool
  | [] => false
  | k :: ks => ks.contains k || hasDup ks

/-- `result.adjust` applied to the injector's reply (order of `adjust()`: mounts, devices,
    CDI devices): entries marked for removal are split off (they are not additions; what
    becomes of them is not part of this model — the comparison ignores them), each addition
    is claimed, a second claim of a key fails. -/
def mergeInjector (a : Adjust) : Except Err Adjust :=
  let ms := a.mounts.filter (fun m => !marked m.destination)
  let ds := a.devices.filter (fun d => !marked d.path)
  if hasDup (ms.map (·.destination)) then .error .conflictMount
  else if hasDup (ds.map (·.path)) then .error .conflictDevice
  else if hasDup a.cdi then .error .conflictCDI
  else .ok { a with mounts := ms, devices := ds }

/-- `result.adjust` applied to the adjuster's reply on top of the injector's -/
def mergeAdjuster (r b : Adjust) : Except Err Adjust :=
  if hasDup (b.rlimits.map (·.type)) then .error .conflictRlimit
  else .ok { r with rlimits := r.rlimits ++ b.rlimits }

/-- `Adaptation.CreateContainer` with plugins `10-device-injector`, `20-ulimit-adjuster`:
    each plugin is asked in index order and its reply merged before the next is asked; the
    first error fails the request. -/
def create (Y : Yaml) (ann : Annotations) (ctr : Str) : Except Err Adjust :=
  match injector Y ann ctr with
  | .error e => .error e
  | .ok a =>
    match mergeInjector a with
    | .error e => .error e
    | .ok r1 =>
      match adjuster Y ann ctr with
      | .error e => .error e
      | .ok b => mergeAdjuster r1 b

/-! ## Specification (declarative; what the property text says) -/

namespace Spec

/-- the pod annotation that most specifically names the container, for the injector:
    container-scoped before pod-scoped before the bare key -/
def injectorAnnotation (ann : Annotations) (main ctr : Str) : Option Str :=
  (AList.lookup ann (containerKey main ctr)).orElse fun _ =>
  (AList.lookup ann (podKey main)).orElse fun _ =>
  AList.lookup ann main

/-- for the adjuster: container-scoped only -/
def adjusterAnnotation (ann : Annotations) (ctr : Str) : Option Str :=
  AList.lookup ann (containerKey ulimitKey ctr)

/-- what an annotation describes: nothing when absent; `none` when malformed -/
def described {α : Type} (dec : Str → Option (List α)) : Option Str → Option (List α)
  | none => some []
  | some raw => dec raw

/-- a described rlimit is acceptable iff its name normalises and hard ≥ soft -/
def rlimitOf (u : Ulimit) : Option Rlimit :=
  match normalise u.type with
  | none => none
  | some n => if u.hard < u.soft then none else some { type := n, hard := u.hard, soft := u.soft }

def rlimitsOf : List Ulimit → Option (List Rlimit)
  | [] => some []
  | u :: rest =>
    match rlimitOf u, rlimitsOf rest with
    | some r, some rs => some (r :: rs)
    | _, _ => none

/-- The adjustment the container must get — `none` when the request must fail. -/
def expected (Y : Yaml) (ann : Annotations) (ctr : Str) : Option Adjust :=
  match described Y.devices (injectorAnnotation ann deviceKey ctr),
        described Y.cdi (injectorAnnotation ann cdiDeviceKey ctr),
        described Y.mounts (injectorAnnotation ann mountKey ctr),
        described Y.ulimits (adjusterAnnotation ann ctr) with
  | some ds, some cs, some ms, some us =>
    match rlimitsOf us with
    | some rs => some { devices := ds.map Device.toNRI, cdi := cs, mounts := ms, rlimits := rs }
    | none => none
  | _, _, _, _ => none

end Spec

/-- Guard (DESIGN §6 #9, #17): the described adjustment names no key twice and no name
    carries the removal marker — otherwise the runtime's collector (not the plugins)
    decides the outcome. -/
def Plain (a : Adjust) : Bool :=
  !(a.mounts.any fun m => marked m.destination) && !(a.devices.any fun d => marked d.path) &&
  !hasDup (a.mounts.map (·.destination)) && !hasDup (a.devices.map (·.path)) &&
  !hasDup a.cdi && !hasDup (a.rlimits.map (·.type))

end Nri.Plugins
