/-
A direct, state-free account of what the update lists of a chain must yield — the
specification side of C05 ("exactly the resource fields plugins set … an ignore-failure update
that conflicts is dropped in its entirety") and of C04 for update requests ("the resources
presented in an update request"). Core Lean only.
-/
import NriModel.Ledger

namespace Nri.UpdateWalk
open Nri.NApi Nri.Result

/-! Walk the updates in
    chain order keeping (i) which (target, field) pairs are taken and (ii) the resources of
    every target; an update whose fields are all free and pairwise distinct is overlaid on its
    target and takes them; one that hits a taken field — taken by an earlier update or named
    earlier in the same update — contributes NO value (it must be marked ignore-failure
    in a successful request) but the fields it named before that one stay taken — that
    is what the real ledger does, and it decides whether a later ignore-failure update is
    dropped. -/
structure Sim where
  taken : List (Cid × Item) := []
  res : List (Cid × Resources) := []

def Sim.get (s : Sim) (base : Cid → Resources) (c : Cid) : Resources :=
  match s.res.find? (fun x => x.1 = c) with
  | some x => x.2
  | none => base c

def Sim.put (s : Sim) (c : Cid) (r : Resources) : Sim :=
  if s.res.any (fun x => x.1 = c) then { s with res := s.res.map fun x => if x.1 = c then (c, r) else x }
  else { s with res := s.res ++ [(c, r)] }

/-- What an update of target `c` naming `items` (in this order) manages to take: the longest
    prefix of `items` none of which is taken — by an earlier update, or by an earlier item of
    this same list (an item named twice collides with the update's own first mention, exactly
    as the real ledger's second claim of it fails against the plugin's own earlier claim). -/
def claimedPrefix (taken : List (Cid × Item)) (c : Cid) : List Item → List Item
  | [] => []
  | it :: rest => if taken.contains (c, it) then [] else it :: claimedPrefix ((c, it) :: taken) c rest

def simUpdate (base : Cid → Resources) (s : Sim) (u : Update) : Sim :=
  let s := if s.res.any (fun x => x.1 = u.containerId) then s else s.put u.containerId (base u.containerId)
  match u.resources with
  | none => s
  | some r =>
    let items := Ledger.setsUpd u
    let free := claimedPrefix s.taken u.containerId items
    -- all of them: every item is free and none is named twice
    if free.length == items.length then
      { (s.put u.containerId (overlayRes (s.get base u.containerId) r r.pids)) with
          taken := s.taken ++ items.map fun it => (u.containerId, it) }
    else { s with taken := s.taken ++ free.map fun it => (u.containerId, it) }

/-- the walk over all update lists of a chain, in plugin order -/
def walk (base : Cid → Resources) (chain : List (Plugin × Response)) : Sim :=
  (chain.flatMap fun (_, r) => r.updates).foldl (simUpdate base) {}

end Nri.UpdateWalk
