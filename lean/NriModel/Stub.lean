/-
Model of the request/event side of pkg/stub/stub.go (property C15):

  * `setupHandlers`  – the handler table and the subscription mask derived from the
                       interfaces the plugin type satisfies (stub.go `setupHandlers`),
  * `configure`      – `(*stub).Configure`: the clamp of the mask the plugin asks for,
  * `dispatch`       – the eight ttRPC entry points of the plugin service
                       (`Configure`, `Synchronize`, `Shutdown`, `CreateContainer`,
                       `UpdateContainer`, `StopContainer`, `UpdatePodSandbox`, `StateChange`):
                       which handler slot is consulted, which plugin method is invoked with
                       which arguments, and how the reply is built from what it returns.

Payloads (pods, containers, resources, adjustments, updates) are opaque: the stub hands
pointers through, so the model is polymorphic in the payload type `β` and every theorem
holds for every `β`. A missing sub-message (Go `nil`) is `none`.

The start/stop/restart session machine of the stub (C16) is NOT here: see StubSession.lean.
Core Lean only.
-/
import NriModel.Events

namespace Nri.Stub
open Nri.Events

/-! ## Handler slots -/

/-- The sixteen fields of `type handlers struct` in stub.go — equally, the sixteen
    one-method interfaces a plugin may implement and the method each of them names. -/
inductive Slot
  | configure | synchronize | shutdown
  | runPodSandbox | updatePodSandbox | stopPodSandbox | removePodSandbox | postUpdatePodSandbox
  | createContainer | startContainer | updateContainer | stopContainer | removeContainer
  | postCreateContainer | postStartContainer | postUpdateContainer
  deriving DecidableEq, Repr, Inhabited

/-- A plugin method is named by the slot whose interface declares it. The handler table maps
    slots to *methods*, so that "slot X bound to the method of interface Y" is expressible. -/
abbrev Method := Slot

/-- The event whose bit `setupHandlers` sets next to the assignment of this slot
    (`stub.events.Set(api.Event_…)`); the three event-less handlers set none. -/
def Slot.event : Slot → Option Nat
  | .configure | .synchronize | .shutdown => none
  | .runPodSandbox => some 1
  | .stopPodSandbox => some 2
  | .removePodSandbox => some 3
  | .createContainer => some 4
  | .postCreateContainer => some 5
  | .startContainer => some 6
  | .postStartContainer => some 7
  | .updateContainer => some 8
  | .postUpdateContainer => some 9
  | .stopContainer => some 10
  | .removeContainer => some 11
  | .updatePodSandbox => some 12
  | .postUpdatePodSandbox => some 13

/-- The blocks of `setupHandlers`, in source order. -/
def setupOrder : List Slot :=
  [ .configure, .synchronize, .shutdown,
    .runPodSandbox, .updatePodSandbox, .stopPodSandbox, .removePodSandbox, .postUpdatePodSandbox,
    .createContainer, .startContainer, .updateContainer, .stopContainer, .removeContainer,
    .postCreateContainer, .postStartContainer, .postUpdateContainer ]

/-- A plugin *type*: which of the sixteen interfaces it satisfies. Bit `e-1` of `ev` ⇔ it has
    the handler method for event number `e` (1 … 13). -/
structure Plugin where
  ev : BitVec 13
  configure : Bool
  synchronize : Bool
  shutdown : Bool
  deriving DecidableEq, Repr

/-- `stub.plugin.(XInterface)` succeeds -/
def Plugin.has (p : Plugin) : Slot → Bool
  | .configure => p.configure
  | .synchronize => p.synchronize
  | .shutdown => p.shutdown
  | .runPodSandbox => p.ev.getLsbD 0
  | .stopPodSandbox => p.ev.getLsbD 1
  | .removePodSandbox => p.ev.getLsbD 2
  | .createContainer => p.ev.getLsbD 3
  | .postCreateContainer => p.ev.getLsbD 4
  | .startContainer => p.ev.getLsbD 5
  | .postStartContainer => p.ev.getLsbD 6
  | .updateContainer => p.ev.getLsbD 7
  | .postUpdateContainer => p.ev.getLsbD 8
  | .stopContainer => p.ev.getLsbD 9
  | .removeContainer => p.ev.getLsbD 10
  | .updatePodSandbox => p.ev.getLsbD 11
  | .postUpdatePodSandbox => p.ev.getLsbD 12

/-- The static part of a stub after `New`: the handler table and `stub.events`. -/
structure Handlers where
  /-- `stub.handlers.<slot>`: `none` = nil func, `some m` = bound to plugin method `m` -/
  bound : Slot → Option Method
  events : Mask

def Handlers.empty : Handlers := { bound := fun _ => none, events := 0#32 }

/-- one `if plugin, ok := stub.plugin.(XInterface); ok { handlers.X = plugin.X; events.Set(E) }` -/
def setupStep (p : Plugin) (h : Handlers) (s : Slot) : Handlers :=
  if p.has s then
    { bound := fun t => if t = s then some s else h.bound t
      events := match s.event with
        | some e => set h.events e
        | none => h.events }
  else h

inductive Err
  | noHandlers                 -- "plugin %T does not implement any NRI request handlers"
  | unhandled (extra : Mask)   -- "internal error: unhandled events …"
  | handler (msg : Str)        -- whatever error the plugin's own method returned
  | registration               -- "failed to register with NRI/Runtime: context deadline exceeded"
  deriving DecidableEq, Repr

/-- `(*stub).setupHandlers` -/
def setupHandlers (p : Plugin) : Except Err Handlers :=
  let h := setupOrder.foldl (setupStep p) Handlers.empty
  if h.events = 0#32 then .error .noHandlers else .ok h

/-- the subscription mask of a plugin type (`stub.events` after `setupHandlers`) -/
def subscribe (p : Plugin) : Mask := (setupOrder.foldl (setupStep p) Handlers.empty).events

/-! ## Requests, handler invocations, replies -/

/-- Arguments a plugin method is invoked with (besides the context). -/
inductive Args (β : Type)
  | config (config runtime version : Str)
  | sync (pods ctrs : List β)
  | none
  | pod (pod : Option β)
  | podCtr (pod ctr : Option β)
  | podCtrRes (pod ctr res : Option β)
  | podOvhRes (pod ovh res : Option β)
  deriving DecidableEq, Repr

structure Call (β : Type) where
  method : Method
  args : Args β
  deriving DecidableEq, Repr

/-- What a plugin method returns. One record for all sixteen signatures; a method without
    the corresponding result simply has no way to return that field and the stub never
    reads it (`events` only Configure; `adjust` only CreateContainer; `updates` only
    Synchronize/Create/Update/StopContainer; `err` all but Shutdown). -/
structure HResult (β : Type) where
  events : Mask := 0#32
  adjust : Option β := none
  updates : List β := []
  err : Option Str := none
  deriving Repr

/-- the plugin's code: any function from (method, arguments) to a result -/
abbrev Behaviour (β : Type) := Method → Args β → HResult β

/-- What the runtime end sends (one constructor per ttRPC method of the Plugin service). -/
inductive Request (β : Type)
  | configure (config runtime version : Str) (regTimeoutMs reqTimeoutMs : Int)
  | synchronize (pods ctrs : List β) (more : Bool)
  | shutdown
  | createContainer (pod ctr : Option β)
  | updateContainer (pod ctr res : Option β)
  | stopContainer (pod ctr : Option β)
  | updatePodSandbox (pod ovh res : Option β)
  | stateChange (event : EventNo) (pod ctr : Option β)
  deriving Repr

/-- What the runtime end gets back when the call succeeds. -/
inductive Reply (β : Type)
  | configure (events : Mask)
  | synchronize (update : List β) (more : Bool)
  | shutdown
  | createContainer (adjust : Option β) (update : List β)
  | updateContainer (update : List β)
  | stopContainer (update : List β)
  | updatePodSandbox
  | stateChange
  deriving DecidableEq, Repr

/-- The mutable part of a stub that the request handlers touch. -/
structure Dyn (β : Type) where
  /-- `stub.syncReq`: pods and containers collected from `More` chunks -/
  syncReq : Option (List β × List β) := none
  /-- `stub.registrationTimeout`, `stub.requestTimeout` in nanoseconds
      (defaults 5 s and 2 s; Configure takes over the values the runtime passes) -/
  regTimeoutNs : Int := 5000000000
  reqTimeoutNs : Int := 2000000000
  deriving Repr

structure Outcome (β : Type) where
  calls : List (Call β)
  result : Except Err (Reply β)
  dyn : Dyn β

/-- Go returns `(&Response{…}, err)`; the ttRPC server sends the error status alone when
    `err != nil`, otherwise the response. -/
def reply {β : Type} (r : HResult β) (ok : Reply β) : Except Err (Reply β) :=
  match r.err with
  | some msg => .error (.handler msg)
  | none => .ok ok

/-- `(*stub).Configure` after the handler lookup: the clamp. `asked` is what the plugin's
    `Configure` method returned. -/
def clamp (events asked : Mask) : Except Err Mask :=
  let asked := if asked = 0#32 then events else asked
  let extra := asked &&& ~~~events
  if extra ≠ 0#32 then .error (.unhandled extra) else .ok asked

/-- `(*stub).Configure` -/
def configure {β : Type} (h : Handlers) (b : Behaviour β) (config runtime version : Str) :
    List (Call β) × Except Err Mask :=
  match h.bound .configure with
  | none => ([], .ok h.events)
  | some m =>
    let a : Args β := .config config runtime version
    let r := b m a
    match r.err with
    | some msg => ([⟨m, a⟩], .error (.handler msg))
    | none => ([⟨m, a⟩], clamp h.events r.events)

/-- a handler taking just the pod -/
def callPod {β : Type} (h : Handlers) (b : Behaviour β) (d : Dyn β) (s : Slot) (pod : Option β) :
    Outcome β :=
  match h.bound s with
  | none => ⟨[], .ok .stateChange, d⟩
  | some m => let a : Args β := .pod pod
              ⟨[⟨m, a⟩], reply (b m a) .stateChange, d⟩

/-- a handler taking pod and container -/
def callPodCtr {β : Type} (h : Handlers) (b : Behaviour β) (d : Dyn β) (s : Slot) (pod ctr : Option β) :
    Outcome β :=
  match h.bound s with
  | none => ⟨[], .ok .stateChange, d⟩
  | some m => let a : Args β := .podCtr pod ctr
              ⟨[⟨m, a⟩], reply (b m a) .stateChange, d⟩

/-- `(*stub).StateChange`: the `switch evt.Event`; an event without a case falls through
    with a nil error. -/
def stateChange {β : Type} (h : Handlers) (b : Behaviour β) (d : Dyn β) (event : EventNo)
    (pod ctr : Option β) : Outcome β :=
  match event with
  | 1 => callPod h b d .runPodSandbox pod
  | 13 => callPod h b d .postUpdatePodSandbox pod
  | 2 => callPod h b d .stopPodSandbox pod
  | 3 => callPod h b d .removePodSandbox pod
  | 5 => callPodCtr h b d .postCreateContainer pod ctr
  | 6 => callPodCtr h b d .startContainer pod ctr
  | 7 => callPodCtr h b d .postStartContainer pod ctr
  | 9 => callPodCtr h b d .postUpdateContainer pod ctr
  | 11 => callPodCtr h b d .removeContainer pod ctr
  | _ => ⟨[], .ok .stateChange, d⟩

/-- `stub.syncReq == nil ? req : append(stub.syncReq, req)` — shared by `collectSync` and
    `deliverSync` -/
def accumulate {β : Type} (acc : Option (List β × List β)) (pods ctrs : List β) : List β × List β :=
  match acc with
  | none => (pods, ctrs)
  | some (ps, cs) => (ps ++ pods, cs ++ ctrs)

/-- `(*stub).Synchronize` with `collectSync` / `deliverSync` -/
def synchronize {β : Type} (h : Handlers) (b : Behaviour β) (d : Dyn β)
    (pods ctrs : List β) (more : Bool) : Outcome β :=
  match h.bound .synchronize with
  | none => ⟨[], .ok (.synchronize [] more), d⟩
  | some m =>
    if more then
      ⟨[], .ok (.synchronize [] true), { d with syncReq := some (accumulate d.syncReq pods ctrs) }⟩
    else
      let all := accumulate d.syncReq pods ctrs
      let a : Args β := .sync all.1 all.2
      let r := b m a
      ⟨[⟨m, a⟩], reply r (.synchronize r.updates false), { d with syncReq := none }⟩

/-- `(*stub).Configure`, first lines: a timeout is taken over (milliseconds → nanoseconds) only
    when the request carries one (> 0); otherwise the stub keeps its current value. -/
def takeTimeouts {β : Type} (d : Dyn β) (regMs reqMs : Int) : Dyn β :=
  { d with regTimeoutNs := if regMs > 0 then regMs * 1000000 else d.regTimeoutNs,
           reqTimeoutNs := if reqMs > 0 then reqMs * 1000000 else d.reqTimeoutNs }

/-- The plugin service of the stub: one request in, the plugin methods invoked (in order),
    the reply or error the runtime end sees, and the new mutable state. -/
def dispatch {β : Type} (h : Handlers) (b : Behaviour β) (d : Dyn β) : Request β → Outcome β
  | .configure config runtime version regMs reqMs =>
    let d := takeTimeouts d regMs reqMs
    let (calls, r) := configure h b config runtime version
    ⟨calls, r.map .configure, d⟩
  | .synchronize pods ctrs more => synchronize h b d pods ctrs more
  | .shutdown =>
    match h.bound .shutdown with
    | none => ⟨[], .ok .shutdown, d⟩
    | some m => ⟨[⟨m, .none⟩], .ok .shutdown, d⟩
  | .createContainer pod ctr =>
    match h.bound .createContainer with
    | none => ⟨[], .ok (.createContainer none []), d⟩
    | some m => let a : Args β := .podCtr pod ctr
                let r := b m a
                ⟨[⟨m, a⟩], reply r (.createContainer r.adjust r.updates), d⟩
  | .updateContainer pod ctr res =>
    match h.bound .updateContainer with
    | none => ⟨[], .ok (.updateContainer []), d⟩
    | some m => let a : Args β := .podCtrRes pod ctr res
                let r := b m a
                ⟨[⟨m, a⟩], reply r (.updateContainer r.updates), d⟩
  | .stopContainer pod ctr =>
    match h.bound .stopContainer with
    | none => ⟨[], .ok (.stopContainer []), d⟩
    | some m => let a : Args β := .podCtr pod ctr
                let r := b m a
                ⟨[⟨m, a⟩], reply r (.stopContainer r.updates), d⟩
  | .updatePodSandbox pod ovh res =>
    match h.bound .updatePodSandbox with
    | none => ⟨[], .ok .updatePodSandbox, d⟩
    | some m => let a : Args β := .podOvhRes pod ovh res
                ⟨[⟨m, a⟩], reply (b m a) .updatePodSandbox, d⟩
  | .stateChange event pod ctr => stateChange h b d event pod ctr

/-- a whole session: requests handled one after the other (the ttRPC server may run
    handlers concurrently; the runtime end of NRI sends one request at a time) -/
def run {β : Type} (h : Handlers) (b : Behaviour β) : Dyn β → List (Request β) → List (Outcome β)
  | _, [] => []
  | d, r :: rs => let o := dispatch h b d r
                  o :: run h b o.dyn rs

/-! ## Restarting one stub (Start → … → Stop / connection lost → Start again)

The start/stop machine itself is C16's (`StubSession.lean`). What matters here is which part
of the stub a session can change for the next one: `(*stub).Configure` assigns the two
timeouts (those the runtime actually passes) and nothing else — `stub.handlers` and
`stub.events` are written by `New` only — and `stub.close()` forgets half-collected
synchronisation chunks. `Start` registers under `context.WithTimeout(ctx,
stub.registrationTimeout)`: with a timeout that is not positive the deadline has passed
before the call is made, registration fails and nothing of the session happens. -/

/-- what outlives a session: the handler table with the implemented-events mask, and `Dyn` -/
structure StubState (β : Type) where
  handlers : Handlers
  dyn : Dyn β

/-- one connection's worth of traffic: the runtime configures the plugin, then (only if that
    succeeded — otherwise `Start` fails and the connection is torn down) sends requests; the
    plugin's code may behave differently for every request -/
structure Session (β : Type) where
  cfgB : Behaviour β
  config : Str
  runtime : Str
  version : Str
  regMs : Int
  reqMs : Int
  reqs : List (Behaviour β × Request β)

structure SessionOut (β : Type) where
  cfg : Outcome β
  outs : List (Outcome β)

def runReqs {β : Type} (h : Handlers) : Dyn β → List (Behaviour β × Request β) → List (Outcome β) × Dyn β
  | d, [] => ([], d)
  | d, (b, r) :: rest =>
    let o := dispatch h b d r
    let (os, d') := runReqs h o.dyn rest
    (o :: os, d')

/-- `stub.register`: the call is made under the stub's current registration timeout -/
def registers {β : Type} (d : Dyn β) : Bool := decide (0 < d.regTimeoutNs)

/-- the rest of a session once the Configure request has been handled (outcome `o`):
    `Start` fails on a configuration error; otherwise requests, then `Stop()` /
    `connClosed()`, whose `close()` resets `syncReq` -/
def finishSession {β : Type} (st : StubState β) (s : Session β) (o : Outcome β) : SessionOut β × StubState β :=
  match o.result with
  | .error _ => (⟨o, []⟩, { handlers := st.handlers, dyn := o.dyn })
  | .ok _ =>
    let (outs, d) := runReqs st.handlers o.dyn s.reqs
    (⟨o, outs⟩, { handlers := st.handlers, dyn := { d with syncReq := none } })

/-- `Start` … `Stop()` / `connClosed()` -/
def runSession {β : Type} (st : StubState β) (s : Session β) : SessionOut β × StubState β :=
  if registers st.dyn then
    finishSession st s
      (dispatch st.handlers s.cfgB st.dyn (.configure s.config s.runtime s.version s.regMs s.reqMs))
  else (⟨⟨[], .error .registration, st.dyn⟩, []⟩, st)

def runSessions {β : Type} : StubState β → List (Session β) → List (SessionOut β) × StubState β
  | st, [] => ([], st)
  | st, s :: rest =>
    let (o, st1) := runSession st s
    let (os, st2) := runSessions st1 rest
    (o :: os, st2)

/-- what the runtime end and the plugin can see of an outcome: invocations and reply -/
def Outcome.visible {β : Type} (o : Outcome β) : List (Call β) × Except Err (Reply β) := (o.calls, o.result)

def SessionOut.visible {β : Type} (o : SessionOut β) :
    (List (Call β) × Except Err (Reply β)) × List (List (Call β) × Except Err (Reply β)) :=
  (o.cfg.visible, o.outs.map Outcome.visible)

/-! ### The unrepaired Configure (before fix 31d2c1d), kept for the witness theorem only:
    both timeouts were overwritten with whatever the request carried, zero included. -/

def configureUnfixed {β : Type} (h : Handlers) (b : Behaviour β) (d : Dyn β) (config runtime version : Str)
    (regMs reqMs : Int) : Outcome β :=
  let d := { d with regTimeoutNs := regMs * 1000000, reqTimeoutNs := reqMs * 1000000 }
  let (calls, r) := configure h b config runtime version
  ⟨calls, r.map .configure, d⟩

def runSessionUnfixed {β : Type} (st : StubState β) (s : Session β) : SessionOut β × StubState β :=
  if registers st.dyn then
    finishSession st s (configureUnfixed st.handlers s.cfgB st.dyn s.config s.runtime s.version s.regMs s.reqMs)
  else (⟨⟨[], .error .registration, st.dyn⟩, []⟩, st)

def runSessionsUnfixed {β : Type} : StubState β → List (Session β) → List (SessionOut β) × StubState β
  | st, [] => ([], st)
  | st, s :: rest =>
    let (o, st1) := runSessionUnfixed st s
    let (os, st2) := runSessionsUnfixed st1 rest
    (o :: os, st2)

/-! ## Specification vocabulary (what the runtime *means* by each event) -/

/-- the handler an event number belongs to -/
def slotOfEvent : EventNo → Option Slot
  | 1 => some .runPodSandbox
  | 2 => some .stopPodSandbox
  | 3 => some .removePodSandbox
  | 4 => some .createContainer
  | 5 => some .postCreateContainer
  | 6 => some .startContainer
  | 7 => some .postStartContainer
  | 8 => some .updateContainer
  | 9 => some .postUpdateContainer
  | 10 => some .stopContainer
  | 11 => some .removeContainer
  | 12 => some .updatePodSandbox
  | 13 => some .postUpdatePodSandbox
  | _ => none

/-- everything a lifecycle message may carry -/
structure Msg (β : Type) where
  pod : Option β
  ctr : Option β
  res : Option β      -- linux resources (UpdateContainer, UpdatePodSandbox)
  ovh : Option β      -- overhead linux resources (UpdatePodSandbox)

/-- the request the runtime sends for event `e` (pkg/adaptation: own RPCs for the four
    request-type events, `StateChange` for the nine notifications) -/
def requestFor {β : Type} (e : EventNo) (m : Msg β) : Request β :=
  match e with
  | 4 => .createContainer m.pod m.ctr
  | 8 => .updateContainer m.pod m.ctr m.res
  | 10 => .stopContainer m.pod m.ctr
  | 12 => .updatePodSandbox m.pod m.ovh m.res
  | e => .stateChange e m.pod m.ctr

/-- which parts of the message the handler of event `e` is to receive -/
def argsFor {β : Type} (e : EventNo) (m : Msg β) : Args β :=
  if e = 8 then .podCtrRes m.pod m.ctr m.res
  else if e = 12 then .podOvhRes m.pod m.ovh m.res
  else if e = 1 ∨ e = 2 ∨ e = 3 ∨ e = 13 then .pod m.pod
  else .podCtr m.pod m.ctr

/-- the reply the runtime is to see for event `e` when the handler returned `r` without error -/
def replyFor {β : Type} (e : EventNo) (r : HResult β) : Reply β :=
  if e = 4 then .createContainer r.adjust r.updates
  else if e = 8 then .updateContainer r.updates
  else if e = 10 then .stopContainer r.updates
  else if e = 12 then .updatePodSandbox
  else .stateChange

/-- the reply for event `e` when the plugin has no handler for it -/
def emptyReplyFor {β : Type} (e : EventNo) : Reply β := replyFor e ({} : HResult β)

end Nri.Stub
