/-
Abstract specification vocabulary for C01/C02/C05: which items a plugin's response *sets*
and *removes*, read directly off the response (no state, no ledger), and the two decidable
predicates over a whole plugin chain that the properties speak about:

* `mustFail`    — two plugins set the same item of the same container and no plugin from the
                  later one back to (excluding) the earlier one marked it for removal (C01);
* `mustSucceed` — no such pair, no self-update, no response naming one item twice (C02).

Core Lean only.
-/
import NriModel.Result

namespace Nri.Ledger
open Nri.NApi Nri.Result

/-- the items of a `LinuxResources` message a plugin sets -/
def resItems (r : Resources) : List Item := resSets r

abbrev markedKeys (keys : List Str) : List Str := delKeys keys

/-- items a creation adjustment sets on the container being created: the unmarked keys of
    annotations, mounts, environment, devices; the command line; every resource field given;
    cgroups path, OOM score, rlimit types, CDI names -/
def setsAdj (a : Adjustment) : List Item := adjustSets a

/-- items a creation adjustment marks for removal -/
def removesAdj (a : Adjustment) : List Item :=
  (markedKeys (a.annotations.map (·.1))).map .annotation ++
  (markedKeys (a.mounts.map (·.destination))).map .mount ++
  (markedKeys (a.env.map (·.key))).map .env ++
  (match a.args with | [] :: _ => [.args] | _ => []) ++
  (if a.hasLinux then (markedKeys (a.devices.map (·.path))).map .device else [])

def setsUpd (u : Update) : List Item :=
  match u.resources with | some r => resItems r | none => []

/-- Items response `r` sets on container `c` for a request of kind `k`. With
    `strict := true` only what is certain to be claimed when the response is processed
    without error: updates marked ignore-failure are left out. -/
def setsOn (strict : Bool) (k : Kind) (r : Response) (c : Cid) : List Item :=
  (match k, r.adjust with
   | .create id, some a => if id = c then setsAdj a else []
   | _, _ => []) ++
  (r.updates.filter fun u => u.containerId = c && !(strict && u.ignoreFailure)).flatMap setsUpd

def removesOn (k : Kind) (r : Response) (c : Cid) : List Item :=
  match k, r.adjust with
  | .create id, some a => if id = c then removesAdj a else []
  | _, _ => []

/-- every container id a chain mentions -/
def containersOf (k : Kind) (rs : List (Plugin × Response)) : List Cid :=
  (cidOf k :: rs.flatMap fun (_, r) => r.updates.map (·.containerId)).eraseDups

/-- plugin `i` and a later plugin `j` both set `it` on `c`, and none of the plugins
    `i+1 … j` marks it for removal -/
def unreleasedPair (strict : Bool) (k : Kind) (rs : List (Plugin × Response)) (c : Cid) (it : Item)
    (i j : Nat) : Bool :=
  i < j &&
  (match rs[i]? with | some (_, r) => (setsOn strict k r c).contains it | none => false) &&
  (match rs[j]? with | some (_, r) => (setsOn strict k r c).contains it | none => false) &&
  ((List.range (j - i)).all fun d =>
     match rs[i + 1 + d]? with | some (_, r) => !(removesOn k r c).contains it | none => true)

def anyPair (strict : Bool) (k : Kind) (rs : List (Plugin × Response)) : Bool :=
  (containersOf k rs).any fun c =>
    (List.range rs.length).any fun i =>
      match rs[i]? with
      | none => false
      | some (_, ri) => (setsOn strict k ri c).any fun it =>
          (List.range rs.length).any fun j => unreleasedPair strict k rs c it i j

/-- C01's premise -/
def mustFail (k : Kind) (rs : List (Plugin × Response)) : Bool := anyPair true k rs

def selfUpdate (k : Kind) (rs : List (Plugin × Response)) : Bool :=
  match k with
  | .create id => rs.any fun (_, r) => r.updates.any fun u => u.containerId = id
  | _ => false

/-- some response names one item of one container twice (the real code reports that as a
    conflict of the plugin with itself) -/
def dupWithin (k : Kind) (rs : List (Plugin × Response)) : Bool :=
  rs.any fun (_, r) => (containersOf k rs).any fun c =>
    let s := setsOn false k r c
    s.eraseDups.length != s.length

/-- C02's premise -/
def mustSucceed (k : Kind) (rs : List (Plugin × Response)) : Bool :=
  !selfUpdate k rs && !dupWithin k rs && !anyPair false k rs

/-- how result.go names an item in its conflict message -/
def subjectOf : Item → Str
  | .annotation k => str "annotation " ++ k
  | .mount d => str "mount " ++ d
  | .device p => str "device " ++ p
  | .cdi n => str "CDI device " ++ n
  | .env n => str "env " ++ n
  | .args => str "args"
  | .hugepage s => str "hugepage limit of size " ++ s
  | .unified k => str "unified resource " ++ k
  | .rlimit t => str "rlimit " ++ t
  | .memLimit => str "memory limit"
  | .memReservation => str "memory reservation"
  | .memSwap => str "memory swap limit"
  | .memKernel => str "memory kernel limit"
  | .memKernelTcp => str "memory TCP limit"
  | .memSwappiness => str "memory swappiness"
  | .memDisableOom => str "memory disable OOM killer"
  | .memUseHierarchy => str "memory 'UseHierarchy'"
  | .cpuShares => str "CPU shares"
  | .cpuQuota => str "CPU quota"
  | .cpuPeriod => str "CPU period"
  | .cpuRtRuntime => str "CPU realtime runtime"
  | .cpuRtPeriod => str "CPU realtime period"
  | .cpusetCpus => str "CPU pinning"
  | .cpusetMems => str "memory pinning"
  | .pids => str "pids pinning"
  | .blockio => str "block I/O class"
  | .rdt => str "RDT class"
  | .cgroupsPath => str "cgroups path"
  | .oomScoreAdj => str "oom score adj"

/-- C02 "never blamed for a field it did not set": both named plugins set an item with
    that subject on one container -/
def blameOk (k : Kind) (rs : List (Plugin × Response)) (p q subject : Str) : Bool :=
  (containersOf k rs).any fun c =>
    let sp := (rs.filter fun (n, _) => n = p).flatMap fun (_, r) => setsOn false k r c
    let sq := (rs.filter fun (n, _) => n = q).flatMap fun (_, r) => setsOn false k r c
    sp.any fun it => subjectOf it = subject && sq.contains it

end Nri.Ledger

namespace Nri.Ledger
open Nri.NApi Nri.Result

/-! ### The abstract ledger (C02)

The simplest possible account of ownership: a set of owned `(container, item)` pairs. A
response first releases what it marks for removal, then must find everything it sets free
(and name nothing twice, and not update the container being created), then owns it. No reply
lists, no view, no distinction between dropped and applied ignore-failure updates (all their
sets count — a conservative reading: the abstract ledger accepts fewer chains than it could).
`absRun … = some _` is C02's premise "no two plugins set the same item (unless released)". -/

/-- everything a response sets, as `(container, item)` pairs -/
def allSets (k : Kind) (r : Response) : List (Cid × Item) :=
  (match k, r.adjust with
   | .create id, some a => (setsAdj a).map fun it => (id, it)
   | _, _ => []) ++
  r.updates.flatMap fun u => (setsUpd u).map fun it => (u.containerId, it)

/-- everything a response marks for removal -/
def allRemoves (k : Kind) (r : Response) : List (Cid × Item) :=
  match k, r.adjust with
  | .create id, some a => (removesAdj a).map fun it => (id, it)
  | _, _ => []

def selfUpdates (k : Kind) (r : Response) : Bool :=
  match k with
  | .create id => r.updates.any fun u => u.containerId = id
  | _ => false

def absStep (k : Kind) (owned : List (Cid × Item)) (r : Response) : Option (List (Cid × Item)) :=
  if selfUpdates k r then none
  else
    let sets := allSets k r
    let owned1 := owned.filter fun x => !(allRemoves k r).contains x
    if !decide sets.Nodup then none
    else if sets.any fun x => owned1.contains x then none
    else some (owned1 ++ sets)

def absRun (k : Kind) : List (Cid × Item) → List (Plugin × Response) → Option (List (Cid × Item))
  | owned, [] => some owned
  | owned, (_, r) :: rest =>
    match absStep k owned r with
    | some owned' => absRun k owned' rest
    | none => none

end Nri.Ledger
