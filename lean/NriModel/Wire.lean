/-
Protobuf wire format, schema-generic, restricted to what `pkg/api/api.proto` uses
(property C12).  Core Lean only: the driver links this file.

What api.proto contains (checked against the descriptor on every run by the generator of
`Extracted/ApiSchema.lean`, which emits `FType.unsupported` for anything else and thereby
makes `schema_wf` fail):

* varint scalars `int32 int64 uint32 uint64 bool enum`, all with proto3 *implicit* presence
  (zero is not put on the wire, an absent field reads as zero);
* `string` (implicit presence; the empty string is not put on the wire);
* singular message fields (explicit presence: absent ≠ present-and-empty);
* `repeated string`, `repeated <message>` (one length-delimited record per element);
* `map<string,string>` (one length-delimited entry record per pair, key = field 1,
  value = field 2, both always written).

There is no `optional` keyword, no `oneof`, no packed repeated scalar, no `bytes`, no fixed
width or zig-zag scalar, no float, no group in api.proto.

Bytes are natural numbers (`Bytes = List Nat`); every byte the encoder emits is `< 256`
(`Lemmas/WireBytes.lean`). A *message value* is the list of its field values in the order
of the schema (`List Val`), so an absent implicit-presence scalar and a zero one are the
same value by construction — which is exactly the identification proto3 (and
`proto.Equal`) makes; presence is representable only where the wire format has it
(`Val.none` vs `Val.msg _`).

Model ↔ code:
  `encodeVarint`  ↔ `encodeVarint` in api_vtproto.pb.go / protowire.AppendVarint
  `decodeVarint`  ↔ the inlined `for shift := uint(0); ; shift += 7` loops / protowire.ConsumeVarint
  `sizeVarint`    ↔ `sov`
  `toU64`         ↔ `uint64(m.X)` conversions in MarshalToSizedBufferVT (sign extension)
  `ofU64`         ↔ `int32(v)`, `int64(v)`, `uint32(v)`, `bool(v != 0)` in UnmarshalVT
  `encField/encFields/encRep/encMap` ↔ the body of `MarshalToSizedBufferVT` per message
  `sizeField/…`   ↔ `SizeVT`
  `decMsg`        ↔ the `for iNdEx < l { … switch fieldNum … }` loop of `UnmarshalVT`
                    / impl.(*MessageInfo).unmarshalPointer
-/
import NriModel.Basic

namespace Nri.Wire

abbrev Bytes := List Nat

/-! ### Varints -/

/-- base-128 little-endian, at most `f+1` bytes; the last permitted byte is written raw -/
def encVarintAux : Nat → Nat → Bytes
  | 0, n => [n]
  | f+1, n => if n < 128 then [n] else (n % 128 + 128) :: encVarintAux f (n / 128)

/-- varint of a 64-bit quantity: at most ten bytes -/
def encodeVarint (n : Nat) : Bytes := encVarintAux 9 n

/-- reads at most `f+1` bytes; the last permitted byte may only carry one bit (value < 2^64);
    padded (non-minimal) encodings are accepted, as both Go decoders accept them -/
def decVarintAux : Nat → Bytes → Option (Nat × Bytes)
  | _, [] => none
  | 0, b :: r => if b < 2 then some (b, r) else none
  | f+1, b :: r =>
    if b < 128 then some (b, r) else
      match decVarintAux f r with
      | some (v, r') => some (b - 128 + 128 * v, r')
      | none => none

def decodeVarint (bs : Bytes) : Option (Nat × Bytes) := decVarintAux 9 bs

def sizeVarintAux : Nat → Nat → Nat
  | 0, _ => 1
  | f+1, n => if n < 128 then 1 else 1 + sizeVarintAux f (n / 128)

def sizeVarint (n : Nat) : Nat := sizeVarintAux 9 n

/-! ### Scalars -/

inductive Scalar | int32 | int64 | uint32 | uint64 | bool | enum
  deriving DecidableEq, Repr

/-- the values a Go field of that kind can hold (`bool` as 0/1; proto3 enums are open: any int32) -/
def Scalar.inRange : Scalar → Int → Bool
  | .int32, i => decide (-2147483648 ≤ i ∧ i < 2147483648)
  | .enum, i => decide (-2147483648 ≤ i ∧ i < 2147483648)
  | .int64, i => decide (-9223372036854775808 ≤ i ∧ i < 9223372036854775808)
  | .uint32, i => decide (0 ≤ i ∧ i < 4294967296)
  | .uint64, i => decide (0 ≤ i ∧ i < 18446744073709551616)
  | .bool, i => decide (i = 0 ∨ i = 1)

/-- Go `uint64(x)`: negative int32/int64/enum values are sign-extended to 64 bits -/
def toU64 : Scalar → Int → Nat
  | .int32, i => if 0 ≤ i then i.toNat else (i + 18446744073709551616).toNat
  | .enum, i => if 0 ≤ i then i.toNat else (i + 18446744073709551616).toNat
  | .int64, i => if 0 ≤ i then i.toNat else (i + 18446744073709551616).toNat
  | .uint32, i => i.toNat
  | .uint64, i => i.toNat
  | .bool, i => if i = 0 then 0 else 1

/-- Go `int32(v)`, `int64(v)`, `uint32(v)`, `v != 0` applied to the decoded 64-bit varint -/
def ofU64 : Scalar → Nat → Int
  | .int32, x => let y := x % 4294967296; if y < 2147483648 then (y : Int) else (y : Int) - 4294967296
  | .enum, x => let y := x % 4294967296; if y < 2147483648 then (y : Int) else (y : Int) - 4294967296
  | .int64, x => if x < 9223372036854775808 then (x : Int) else (x : Int) - 18446744073709551616
  | .uint32, x => ((x % 4294967296 : Nat) : Int)
  | .uint64, x => (x : Int)
  | .bool, x => if x = 0 then 0 else 1

/-! ### Schemas -/

inductive FType
  | scalar (k : Scalar)
  | string
  | msg (m : Nat)          -- singular message field; `m` indexes the schema
  | repString
  | repMsg (m : Nat)
  | mapSS                  -- map<string,string>
  | unsupported            -- anything the model does not cover (makes the schema ill-formed)
  deriving DecidableEq, Repr

structure Field where
  name : String
  num : Nat
  ty : FType
  deriving Repr

structure Msg where
  name : String
  fields : List Field
  deriving Repr

abbrev Schema := List Msg

def Schema.fieldsOf (S : Schema) (m : Nat) : List Field :=
  match S[m]? with
  | some d => d.fields
  | none => []

def FType.ok (n : Nat) : FType → Bool
  | .msg m => decide (m < n)
  | .repMsg m => decide (m < n)
  | .unsupported => false
  | _ => true

/-- field numbers are legal (1 … 2^29-1) and types are supported -/
def Field.ok (n : Nat) (f : Field) : Bool :=
  decide (1 ≤ f.num) && decide (f.num < 536870912) && f.ty.ok n

/-- a field list is well-formed: every field legal, no field number twice -/
def fieldsWF (n : Nat) (fs : List Field) : Bool :=
  fs.all (Field.ok n) && decide ((fs.map (·.num)).Nodup)

def Schema.WF (S : Schema) : Bool := S.all (fun d => fieldsWF S.length d.fields)

/-! ### Values -/

inductive Val where
  | int (i : Int)                       -- any varint scalar (bool as 0/1)
  | str (bs : Bytes)
  | none                                -- singular message field: absent
  | msg (fs : List Val)                 -- singular message field: present; fields positional
  | strs (l : List Bytes)
  | list (l : List Val)                 -- repeated message; every element is `.msg _`
  | smap (l : List (Bytes × Bytes))     -- map<string,string> as an association list

def FType.default : FType → Val
  | .scalar _ => .int 0
  | .string => .str []
  | .msg _ => .none
  | .repString => .strs []
  | .repMsg _ => .list []
  | .mapSS => .smap []
  | .unsupported => .none

/-- the message with no field set (`&T{}`) -/
def emptyMsg (S : Schema) (m : Nat) : List Val := (S.fieldsOf m).map (·.ty.default)

/-! ### UTF-8 (proto3 strings; `utf8.Valid`, Unicode table 3-7) -/

def isCont (b : Nat) : Bool := decide (128 ≤ b) && decide (b ≤ 191)

def validUtf8 : Bytes → Bool
  | [] => true
  | b0 :: r =>
    if b0 < 128 then validUtf8 r
    else if 194 ≤ b0 ∧ b0 ≤ 223 then
      match r with
      | b1 :: r' => isCont b1 && validUtf8 r'
      | _ => false
    else if b0 = 224 then
      match r with
      | b1 :: b2 :: r' => decide (160 ≤ b1) && decide (b1 ≤ 191) && isCont b2 && validUtf8 r'
      | _ => false
    else if (225 ≤ b0 ∧ b0 ≤ 236) ∨ b0 = 238 ∨ b0 = 239 then
      match r with
      | b1 :: b2 :: r' => isCont b1 && isCont b2 && validUtf8 r'
      | _ => false
    else if b0 = 237 then
      match r with
      | b1 :: b2 :: r' => decide (128 ≤ b1) && decide (b1 ≤ 159) && isCont b2 && validUtf8 r'
      | _ => false
    else if b0 = 240 then
      match r with
      | b1 :: b2 :: b3 :: r' =>
        decide (144 ≤ b1) && decide (b1 ≤ 191) && isCont b2 && isCont b3 && validUtf8 r'
      | _ => false
    else if 241 ≤ b0 ∧ b0 ≤ 243 then
      match r with
      | b1 :: b2 :: b3 :: r' => isCont b1 && isCont b2 && isCont b3 && validUtf8 r'
      | _ => false
    else if b0 = 244 then
      match r with
      | b1 :: b2 :: b3 :: r' =>
        decide (128 ≤ b1) && decide (b1 ≤ 143) && isCont b2 && isCont b3 && validUtf8 r'
      | _ => false
    else false

/-- a legal proto3 string: bytes, valid UTF-8 -/
def okStr (bs : Bytes) : Bool := bs.all (fun b => decide (b < 256)) && validUtf8 bs

/-! ### Well-typed values -/

def okEntry (e : Bytes × Bytes) : Bool := okStr e.1 && okStr e.2

mutual
/-- `v` is a value a Go field of type `ty` can hold (and that protobuf accepts: valid UTF-8,
    no nil element in a repeated message field, a Go map has no duplicate key) -/
def wtVal (S : Schema) : FType → Val → Bool
  | ty, .int i => match ty with | .scalar k => k.inRange i | _ => false
  | ty, .str bs => match ty with | .string => okStr bs | _ => false
  | ty, .none => match ty with | .msg _ => true | _ => false
  | ty, .msg fs => match ty with | .msg m => wtFields S (S.fieldsOf m) fs | _ => false
  | ty, .strs l => match ty with | .repString => l.all okStr | _ => false
  | ty, .list l => match ty with | .repMsg m => wtList S m l | _ => false
  | ty, .smap l => match ty with
      | .mapSS => l.all okEntry && decide ((l.map (·.1)).Nodup)
      | _ => false
def wtFields (S : Schema) : List Field → List Val → Bool
  | [], [] => true
  | f :: fs, v :: vs => wtVal S f.ty v && wtFields S fs vs
  | _, _ => false
def wtList (S : Schema) (m : Nat) : List Val → Bool
  | [] => true
  | v :: vs => (match v with
      | .msg fs => wtFields S (S.fieldsOf m) fs
      | _ => false) && wtList S m vs
end

/-- a well-typed value of message type `m` -/
def WellTyped (S : Schema) (m : Nat) (v : List Val) : Bool := wtFields S (S.fieldsOf m) v

/-! ### Encoder -/

def tag (num wt : Nat) : Bytes := encodeVarint (num * 8 + wt)

/-- a length-delimited record: tag (wire type 2), length, payload -/
def lenDelim (num : Nat) (p : Bytes) : Bytes := tag num 2 ++ (encodeVarint p.length ++ p)

def encStrs (num : Nat) : List Bytes → Bytes
  | [] => []
  | s :: r => lenDelim num s ++ encStrs num r

/-- a map entry: key and value are always written, even when empty (both Go encoders do) -/
def encEntry (k v : Bytes) : Bytes := lenDelim 1 k ++ lenDelim 2 v

def encMap (num : Nat) : List (Bytes × Bytes) → Bytes
  | [] => []
  | e :: r => lenDelim num (encEntry e.1 e.2) ++ encMap num r

mutual
/-- one field with its value -/
def encField (S : Schema) (f : Field) : Val → Bytes
  | .int i => match f.ty with
      | .scalar k => if i = 0 then [] else tag f.num 0 ++ encodeVarint (toU64 k i)
      | _ => []
  | .str bs => match f.ty with
      | .string => if bs = [] then [] else lenDelim f.num bs
      | _ => []
  | .none => []
  | .msg fs => match f.ty with
      | .msg m => lenDelim f.num (encFields S (S.fieldsOf m) fs)
      | _ => []
  | .strs l => match f.ty with
      | .repString => encStrs f.num l
      | _ => []
  | .list l => match f.ty with
      | .repMsg m => encRep S f.num m l
      | _ => []
  | .smap l => match f.ty with
      | .mapSS => encMap f.num l
      | _ => []
/-- the fields of a message in schema order -/
def encFields (S : Schema) : List Field → List Val → Bytes
  | f :: fs, v :: vs => encField S f v ++ encFields S fs vs
  | _, _ => []
def encRep (S : Schema) (num m : Nat) : List Val → Bytes
  | [] => []
  | v :: vs => (match v with
      | .msg fs => lenDelim num (encFields S (S.fieldsOf m) fs)
      | .none => lenDelim num []   -- a nil *T element: both Go encoders write an empty record (ill-typed)
      | _ => []) ++ encRep S num m vs
end

/-- the wire encoding of the value `v` of message type `m` -/
def encode (S : Schema) (m : Nat) (v : List Val) : Bytes := encFields S (S.fieldsOf m) v

/-! ### Size (computed without building the bytes, as `SizeVT` does) -/

def sizeLenDelim (num n : Nat) : Nat := sizeVarint (num * 8 + 2) + (sizeVarint n + n)

def sizeStrs (num : Nat) : List Bytes → Nat
  | [] => 0
  | s :: r => sizeLenDelim num s.length + sizeStrs num r

def sizeEntry (k v : Bytes) : Nat := sizeLenDelim 1 k.length + sizeLenDelim 2 v.length

def sizeMap (num : Nat) : List (Bytes × Bytes) → Nat
  | [] => 0
  | e :: r => sizeLenDelim num (sizeEntry e.1 e.2) + sizeMap num r

mutual
def sizeField (S : Schema) (f : Field) : Val → Nat
  | .int i => match f.ty with
      | .scalar k => if i = 0 then 0 else sizeVarint (f.num * 8 + 0) + sizeVarint (toU64 k i)
      | _ => 0
  | .str bs => match f.ty with
      | .string => if bs = [] then 0 else sizeLenDelim f.num bs.length
      | _ => 0
  | .none => 0
  | .msg fs => match f.ty with
      | .msg m => sizeLenDelim f.num (sizeFields S (S.fieldsOf m) fs)
      | _ => 0
  | .strs l => match f.ty with
      | .repString => sizeStrs f.num l
      | _ => 0
  | .list l => match f.ty with
      | .repMsg m => sizeRep S f.num m l
      | _ => 0
  | .smap l => match f.ty with
      | .mapSS => sizeMap f.num l
      | _ => 0
def sizeFields (S : Schema) : List Field → List Val → Nat
  | f :: fs, v :: vs => sizeField S f v + sizeFields S fs vs
  | _, _ => 0
def sizeRep (S : Schema) (num m : Nat) : List Val → Nat
  | [] => 0
  | v :: vs => (match v with
      | .msg fs => sizeLenDelim num (sizeFields S (S.fieldsOf m) fs)
      | .none => sizeLenDelim num 0
      | _ => 0) + sizeRep S num m vs
end

def size (S : Schema) (m : Nat) (v : List Val) : Nat := sizeFields S (S.fieldsOf m) v

/-! ### Decoder -/

/-- what follows a tag -/
inductive Item
  | varint (x : Nat)
  | len (p : Bytes)
  | fixed (n : Nat)      -- fixed64 / fixed32: never declared in api.proto, only skippable

/-- one record: field number, content, remaining input. Wire types 3/4 (groups), field
    number 0 and field numbers above the legal maximum 2^29-1 are rejected (protobuf-go:
    `n < MinValidNumber || n > MaxValidNumber → errDecode`; vtproto computes
    `int32(wire >> 3)` and so accepts them, truncated — see stream `raw`, class `bigfield`). -/
def parseField (bs : Bytes) : Option (Nat × Item × Bytes) :=
  match decodeVarint bs with
  | none => none
  | some (t, r) =>
    if t / 8 = 0 ∨ 536870912 ≤ t / 8 then none
    else if t % 8 = 0 then
      match decodeVarint r with
      | some (x, r') => some (t / 8, .varint x, r')
      | none => none
    else if t % 8 = 2 then
      match decodeVarint r with
      | some (n, r') => if n ≤ r'.length then some (t / 8, .len (r'.take n), r'.drop n) else none
      | none => none
    else if t % 8 = 1 then
      (if 8 ≤ r.length then some (t / 8, .fixed 8, r.drop 8) else none)
    else if t % 8 = 5 then
      (if 4 ≤ r.length then some (t / 8, .fixed 4, r.drop 4) else none)
    else none

/-- position and declaration of the field with number `num` -/
def findField : List Field → Nat → Option (Nat × Field)
  | [], _ => none
  | f :: r, num =>
    if f.num = num then some (0, f) else
      match findField r num with
      | some (i, g) => some (i + 1, g)
      | none => none

/-- a map entry record: fields 1 (key) and 2 (value) in any order, any number of times
    (last wins), missing ones read as "" -/
def decEntry : Nat → Bytes → Bytes → Bytes → Option (Bytes × Bytes)
  | 0, k, v, bs => match bs with
    | [] => some (k, v)
    | _ :: _ => none
  | fuel+1, k, v, bs => match bs with
    | [] => some (k, v)
    | b :: bs' =>
      match parseField (b :: bs') with
      | some (num, .len p, rest) =>
        if num = 1 then (if okStr p then decEntry fuel p v rest else none)
        else if num = 2 then (if okStr p then decEntry fuel k p rest else none)
        else decEntry fuel k v rest
      | some (num, _, rest) => if num = 1 ∨ num = 2 then none else decEntry fuel k v rest
      | none => none

/-- the message a repeated occurrence of a singular message field is merged into -/
def curMsg (S : Schema) (m : Nat) : Option Val → List Val
  | some (.msg fs) => fs
  | _ => emptyMsg S m

/-- effect of one record on the message under construction. `rec m cur p` decodes the
    payload `p` as message type `m` *into* `cur` (both Go decoders merge a repeated
    occurrence of a singular message field into the existing value). Unknown field numbers
    are skipped (the Go decoders keep the raw bytes aside); a wire type that does not fit
    the declared type is an error (vtproto: "wrong wireType"); a string that is not valid
    UTF-8 is an error (protobuf-go; vtproto does not check — outside the property's domain). -/
def applyItem (S : Schema) (rec : Nat → List Val → Bytes → Option (List Val))
    (fields : List Field) (acc : List Val) (num : Nat) (it : Item) : Option (List Val) :=
  match findField fields num with
  | none => some acc
  | some (i, f) =>
    match f.ty, it with
    | .scalar k, .varint x => some (acc.set i (.int (ofU64 k x)))
    | .string, .len p => if okStr p then some (acc.set i (.str p)) else none
    | .msg m, .len p =>
      (match rec m (curMsg S m acc[i]?) p with
       | some fs => some (acc.set i (.msg fs))
       | none => none)
    | .repString, .len p =>
      if okStr p then
        (match acc[i]? with
         | some (.strs l) => some (acc.set i (.strs (l ++ [p])))
         | _ => none)
      else none
    | .repMsg m, .len p =>
      (match rec m (emptyMsg S m) p with
       | some fs =>
         (match acc[i]? with
          | some (.list l) => some (acc.set i (.list (l ++ [.msg fs])))
          | _ => none)
       | none => none)
    | .mapSS, .len p =>
      (match decEntry p.length [] [] p with
       | some (k, v) =>
         (match acc[i]? with
          | some (.smap l) => some (acc.set i (.smap (AList.insert l k v)))
          | _ => none)
       | none => none)
    | _, _ => none

/-! ### Merge (what decoding into a non-empty message computes; `proto.Merge`) -/

/-- Go map assignments in order -/
def insertAll (l : List (Bytes × Bytes)) (es : List (Bytes × Bytes)) : List (Bytes × Bytes) :=
  es.foldl (fun acc e => AList.insert acc e.1 e.2) l

mutual
/-- merge the field value `v` into the existing field value `a`: set scalars/strings
    overwrite, unset ones keep, repeated fields append, maps assign, messages merge -/
def mergeVal (S : Schema) (ty : FType) (a : Val) : Val → Val
  | .int i => if i = 0 then a else .int i
  | .str b => if b = [] then a else .str b
  | .none => a
  | .msg fs => match ty with
      | .msg m => .msg (mergeFields S (S.fieldsOf m) (curMsg S m (some a)) fs)
      | _ => a
  | .strs l => match a with
      | .strs l0 => .strs (l0 ++ l)
      | _ => a
  | .list l => match a with
      | .list l0 => .list (l0 ++ l)
      | _ => a
  | .smap l => match a with
      | .smap l0 => .smap (insertAll l0 l)
      | _ => a
def mergeFields (S : Schema) : List Field → List Val → List Val → List Val
  | f :: fs, a :: as, v :: vs => mergeVal S f.ty a v :: mergeFields S fs as vs
  | _, as, _ => as
end

/-- `proto.Merge(dst, src)` on message values of type `m` -/
def merge (S : Schema) (m : Nat) (dst src : List Val) : List Val :=
  mergeFields S (S.fieldsOf m) dst src

/-- decode `bs` (all of it) as message type `m` into `acc`; one unit of fuel per record -/
def decMsg (S : Schema) : Nat → Nat → List Val → Bytes → Option (List Val)
  | 0, _, acc, bs => match bs with
    | [] => some acc
    | _ :: _ => none
  | fuel+1, m, acc, bs => match bs with
    | [] => some acc
    | b :: bs' =>
      match parseField (b :: bs') with
      | none => none
      | some (num, it, rest) =>
        match applyItem S (decMsg S fuel) (S.fieldsOf m) acc num it with
        | none => none
        | some acc' => decMsg S fuel m acc' rest

/-- decode a complete message of type `m`; fuel = length of the input (each record is at
    least one byte long, nested payloads are strictly shorter than their enclosing input) -/
def decode (S : Schema) (m : Nat) (bs : Bytes) : Option (List Val) :=
  decMsg S bs.length m (emptyMsg S m) bs

end Nri.Wire
