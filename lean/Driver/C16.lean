import Driver.Common
import NriModel.StubSession
/-!
Driver for C16. One case = one history executed against the real stub:
`in = {kind:"hist", ops:[{op, script:{kind,dir,k,ctxms,pods}}…], excluded, stream}`,
`obs = {recs:[…], worker, detail}`; `recs` is the observed history in one global order
(`call`/`ret` of every operation, `notify sid` = the close handler of session `sid` has run
to completion, `onclose` = the plugin's callback ran, `cut` = the scripted runtime end
dropped connection `conn` with `facts` = how far the exchange had got, `end`).

* `agree` — trace acceptance: the observed history is a run of the repaired session machine
  (`Nri.StubSession.step? fixed`), where each operation takes effect at some point between
  its call and its return and each pending close notification at some point before its
  `notify` record (all placements are explored).
* `spec` — the five predicates of C16 evaluated directly on the records, without the model.
-/
open Lean Drv Nri Nri.StubSession

namespace Drv.C16

structure Facts where
  wrRt : Nat := 0
  wrPlug : Nat := 0
  rdRt : Nat := 0
  rdPlug : Nat := 0
deriving Repr

structure Rec where
  t : String
  op : String := ""
  i : Nat := 0
  res : String := ""
  kind : String := ""
  dialed : Bool := false
  conn : Nat := 0
  sid : Nat := 0
  down : Bool := false
  adopted : Bool := false
  facts : Option Facts := none
  waitsLeft : Nat := 0
  clients : Nat := 0
deriving Repr, Inhabited

structure OpIn where
  op : String
  script : String := ""
  dir : String := ""
  k : Nat := 0
deriving Repr

def decodeRec (j : Json) : Except String Rec := do
  let t ← getStr j "t"
  let facts : Option Facts := match getOpt j "facts" with
    | some f => some { wrRt := getNatD f "wr_rt", wrPlug := getNatD f "wr_plug",
                       rdRt := getNatD f "rd_rt", rdPlug := getNatD f "rd_plug" }
    | none => none
  pure { t := t, op := getStrD j "op", i := getNatD j "i", res := getStrD j "res",
         kind := getStrD j "kind", dialed := getBoolD j "dialed", conn := getNatD j "conn",
         sid := getNatD j "sid", down := getBoolD j "down", adopted := getBoolD j "adopted",
         facts := facts,
         waitsLeft := getNatD j "waits_left", clients := getNatD j "clients" }

def decodeOp (j : Json) : Except String OpIn := do
  let op ← getStr j "op"
  let sc := match getOpt j "script" with | some s => s | none => Json.mkObj []
  pure { op := op, script := getStrD sc "kind", dir := getStrD sc "dir", k := getNatD sc "k" }

/-- stage of a drop, from what the runtime end had completely written when it hung up -/
def stageOf (f : Facts) : Script :=
  if f.wrPlug ≥ 1 then .dropLate else if f.wrRt ≥ 1 then .dropCfg else .dropReg

def scriptName : Script → String
  | .dialFail => "dialFail" | .refuse => "refuse" | .noAnswer => "noAnswer"
  | .dropReg => "dropReg" | .dropCfg => "dropCfg" | .dropLate => "dropLate"
  | .cfgErr => "cfgErr" | .ok => "ok" | .stall => "stall"

def parseScript (s : String) : Option Script :=
  match s with
  | "dialFail" => some .dialFail | "refuse" => some .refuse | "refuseKeep" => some .refuse
  | "noAnswer" => some .noAnswer | "cfgErr" => some .cfgErr | "ok" => some .ok
  | "stall" => some .stall | "cut" => some .ok
  | _ => none

def parseRes (res kind : String) : Option StartRes :=
  match res, kind with
  | "ok", _ => some .ok
  | "blocked", _ => some .blocked
  | "err", "already" => some (.err .already)
  | "err", "dial" => some (.err .dial)
  | "err", "register" => some (.err .register)
  | "err", "closed" => some (.err .closed)
  | "err", "configure" => some (.err .configure)
  | "err", "preconn" => some (.err .preconn)
  | _, _ => none

/-- index of the first record at or after `from` satisfying `p` -/
def findFrom (rs : Array Rec) (start : Nat) (p : Rec → Bool) : Option Nat :=
  (List.range (rs.size - start)).map (· + start) |>.find? fun j => match rs[j]? with
    | some r => p r | none => false

/-- The operation between a `call` record and its `ret`, as observed. -/
def mkObs (op : String) (script : Script) (ret : Rec) : OpObs :=
  match op with
  | "start" =>
    match parseRes ret.res ret.kind with
    | some r => .start script r ret.dialed ret.sid ret.conn
    | none => .impossible
  | "stop" => if ret.res == "returned" then .stop else .impossible
  | "wait" =>
    if ret.res == "returned" then .wait true
    else if ret.res == "pending" then .wait false
    else .impossible
  | "lose" => if ret.res == "closed" then .lose ret.conn else .nop
  | "await" | "pause" | "plant" => .nop
  | "dispatch" | "update" => .request (ret.res == "ok")
  | _ => .impossible

structure Nfa where
  cfgs : List Cfg
  pending : Option OpObs := none
  onclose : Nat := 0
  notifies : Nat := 0
  failedAt : Option (Nat × String) := none

def feed (rs : Array Rec) (ops : Array OpIn) (n : Nfa) (j : Nat) (r : Rec) : Nfa :=
  if n.failedAt.isSome then n else
  let fail (n' : Nfa) (why : String) : Nfa :=
    if n'.cfgs.isEmpty then { n' with failedAt := some (j, why) } else n'
  match r.t with
  | "call" =>
    -- look ahead to the matching return
    let retIdx := findFrom rs (j + 1) fun x => x.t == "ret" && x.op == r.op && x.i == r.i
    match retIdx with
    | none => { n with failedAt := some (j, s!"no ret record for {r.op}#{r.i}") }
    | some rj =>
      let ret := rs[rj]!
      let inScript : String := match ops[r.i]? with | some o => o.script | none => ""
      let base : Script := (parseScript inScript).getD .ok
      -- a drop of this call's connection recorded before the call returned decides the stage
      let script : Script :=
        if r.op == "start" && ret.conn > 0 then
          match findFrom rs (j + 1) fun x => x.t == "cut" && x.conn == ret.conn with
          | some cj => if cj < rj then (match rs[cj]!.facts with | some f => stageOf f | none => base) else base
          | none => base
        else base
      let pd : OpObs := mkObs r.op script ret
      let cs := n.cfgs.map fun c => { c with applied := false }
      { n with pending := some pd, cfgs := closure (some pd) cs 64 }
  | "ret" =>
    let cs := n.cfgs.filter (·.applied)
    fail { n with pending := none, cfgs := closure none cs 64 }
      s!"{r.op}#{r.i} returned {r.res} {r.kind} (dialed={r.dialed} conn={r.conn} sid={r.sid}): not a possible step of the session machine"
  | "notify" =>
    let cs := n.cfgs.filter fun c => c.s.fired.contains r.sid
    fail { n with cfgs := cs, notifies := n.notifies + 1 }
      s!"close handler of session {r.sid} completed although no notification of it can have run"
  | "onclose" =>
    let oc := n.onclose + 1
    let cs := n.cfgs.filter fun c => oc ≤ c.s.fired.length
    fail { n with cfgs := cs, onclose := oc } s!"onClose callback #{oc}: more callbacks than close notifications"
  | "cut" =>
    -- a drop absorbed into a pending/earlier Start (recorded before that Start returned) is
    -- part of its script; otherwise it is a connection loss now
    let absorbed : Bool :=
      match findFrom rs 0 fun x => x.t == "ret" && x.op == "start" && x.conn == r.conn with
      | some rj => j < rj
      | none => true
    if absorbed then n else
      let cs := n.cfgs.map fun c => { c with s := loseConn r.conn c.s }
      { n with cfgs := closure n.pending (dedup cs) 64 }
  | "waitret" =>
    -- a Wait that was observed blocked has returned: one of the blocked calls of the
    -- configuration, on a session whose doneC is closed
    let cs := dedup ((n.cfgs.flatMap fun c => (releaseAny c.s).map fun s' => { c with s := s' }))
    fail { n with cfgs := closure n.pending cs 64 }
      s!"wait#{r.i} returned late although no blocked Wait of the machine can return here"
  | "end" =>
    if r.res == "complete" then
      let cs := n.cfgs.filter fun c => c.s.inflight.isEmpty && c.s.cur == r.clients && !c.s.started
        && c.s.waiting.isEmpty
      fail { n with cfgs := cs }
        s!"end: clients={r.clients} onclose={n.onclose}: the machine cannot be quiescent here"
    else n
  | _ => n

def parseSrc (s : String) : ConnSrc :=
  match s with
  | "given" => .given
  | "env" => .envFd
  | _ => .dialer

def runNfa (rs : Array Rec) (ops : Array OpIn) (src : ConnSrc) : Nfa :=
  (List.range rs.size).foldl (fun n j => feed rs ops n j rs[j]!)
    { cfgs := [{ s := initWith src, applied := true }] }

/-! ### the property, directly on the records -/

structure SpecFail where
  sig : String
  why : String

/-- stage (script) of the start whose `ret` is at `rj` -/
def startStage (rs : Array Rec) (ops : Array OpIn) (rj : Nat) : String :=
  let ret := rs[rj]!
  let inScript : String := match ops[ret.i]? with | some o => o.script | none => "ok"
  if ret.conn > 0 then
    match findFrom rs 0 fun x => x.t == "cut" && x.conn == ret.conn with
    | some cj => if cj < rj then (match rs[cj]!.facts with | some f => scriptName (stageOf f) | none => inScript)
                 else (if inScript == "cut" then "ok" else inScript)
    | none => if inScript == "cut" then "ok" else inScript
  else if inScript == "cut" then "ok" else inScript

/-- Was the stub observably not started just before record `j`? (no successful Start so
    far, or since the last one a Stop returned or that session's close handler completed) -/
def observablyDown (rs : Array Rec) (j : Nat) : Bool :=
  let before := (rs.toList.take j)
  let notified := before.filterMap fun r => if r.t == "notify" then some r.sid else none
  let up := before.foldl (fun up r =>
    if r.t == "ret" && r.op == "start" && r.res == "ok" then r.sid
    else if r.t == "ret" && r.op == "stop" && r.res == "returned" then 0
    else up) 0
  up == 0 || notified.contains up

/-- The session the records show as established and not yet ended by the harness or the
    runtime end just before record `j` (0 = none): the last successful Start's, unless a
    Stop was called, the runtime end dropped its connection (`lose`, `cut`) since. -/
def expectedLive (rs : Array Rec) (j : Nat) : Nat × Nat :=
  let pre := rs.toList.take j
  pre.zipIdx.foldl (fun (acc : Nat × Nat) (ri : Rec × Nat) =>
    let r := ri.1
    if r.t == "ret" && r.op == "start" && r.res == "ok" then
      -- a drop of this connection recorded before Start returned: established and lost
      if (pre.take ri.2).any (fun x => x.t == "cut" && x.conn == r.conn) then (0, 0) else (r.sid, r.conn)
    else if r.t == "call" && r.op == "stop" then (0, 0)
    else if r.t == "call" && r.op == "lose" then (0, 0)
    else if r.t == "cut" && r.conn == acc.2 then (0, 0)
    else acc) (0, 0)

def specCheck (rs : Array Rec) (ops : Array OpIn) : Option SpecFail := Id.run do
  let n := rs.size
  let mut notifiedSoFar : List Nat := []
  let mut oc := 0
  for j in [0:n] do
    let r := rs[j]!
    -- P1 start/stop return
    if r.t == "ret" && r.res == "blocked" && (r.op == "start" || r.op == "stop") then
      let st := if r.op == "start" then startStage rs ops j else "-"
      return some ⟨s!"C16:blocked:{r.op}:{st}",
        s!"{r.op}#{r.i} (runtime end: {st}) had not returned when the deadline passed"⟩
    -- P1' Start returns nil only once the plugin has been configured on THAT connection
    if r.t == "ret" && r.op == "start" && r.res == "ok" then
      let st := startStage rs ops j
      let configured := (rs.toList.take j).any fun x => x.t == "cfg" && x.i == r.i && x.res == "ok"
      if !configured || st == "dropReg" || st == "dropCfg" then
        return some ⟨"C16:start-ok-unconfigured",
          s!"start#{r.i} (runtime end: {st}) returned nil although the plugin's Configure callback had not completed for this connection"⟩
    -- P2 wait returns
    if r.t == "ret" && r.op == "wait" && r.res == "blocked" then
      return some ⟨"C16:blocked:wait", s!"wait#{r.i} did not return although the stub had observably stopped"⟩
    -- P2' a Wait observed blocked must be seen to return (before the end of the history,
    -- which always stops the stub)
    if r.t == "ret" && r.op == "wait" && r.res == "pending" then
      let later := (rs.toList.drop j).any fun x => x.t == "waitret" && x.i == r.i
      let complete := rs.toList.any fun x => x.t == "end" && x.res == "complete"
      if complete && !later then
        return some ⟨"C16:blocked:wait", s!"wait#{r.i} blocked and never returned, although the stub was stopped afterwards"⟩
    -- P4 restartable
    if r.t == "ret" && r.op == "start" then
      let callIdx := (findFrom rs 0 fun x => x.t == "call" && x.op == "start" && x.i == r.i).getD j
      let st := startStage rs ops j
      if st == "ok" && observablyDown rs callIdx then
        if r.res != "ok" then
          let sig := if !r.dialed then "C16:restart-failed:no-fresh-connection" else s!"C16:restart-failed:{r.kind}"
          return some ⟨sig, s!"start#{r.i} against a healthy runtime end, stub observably not started: returned {r.res} {r.kind} (dialed={r.dialed})"⟩
    -- P5 a live session is not torn down by anything but its own stop/loss
    if r.t == "ret" && (r.op == "dispatch" || r.op == "update") && r.res != "ok" then
      let callIdx := (findFrom rs 0 fun x => x.t == "call" && x.op == r.op && x.i == r.i).getD j
      let (live, _) := expectedLive rs callIdx
      let (live2, _) := expectedLive rs j
      if live != 0 && live2 == live then
        let late := notifiedSoFar.any (· == live)
        return some ⟨"C16:live-session-torn-down",
          s!"{r.op}#{r.i} failed ({r.res}) on session {live}, which nobody stopped and whose connection was not dropped (its close handler had run: {late})"⟩
    if r.t == "notify" then
      let (live, _) := expectedLive rs j
      if live != 0 && live == r.sid then
        return some ⟨"C16:live-session-torn-down",
          s!"close handler of session {r.sid} ran although nobody stopped it and its connection was not dropped"⟩
      -- P3 at most once
      if notifiedSoFar.contains r.sid then
        return some ⟨"C16:onclose:twice", s!"close handler of session {r.sid} completed twice"⟩
      notifiedSoFar := notifiedSoFar ++ [r.sid]
      if oc < notifiedSoFar.length then
        return some ⟨"C16:onclose:missing", s!"close handler of session {r.sid} completed but onClose ran only {oc} times for {notifiedSoFar.length} handlers"⟩
    if r.t == "onclose" then
      oc := oc + 1
    if r.t == "end" && r.res == "complete" then
      if r.waitsLeft != 0 then
        return some ⟨"C16:blocked:wait", s!"{r.waitsLeft} Wait call(s) still blocked after the final Stop"⟩
      let missing := (List.range r.clients).map (· + 1) |>.filter fun sid => !notifiedSoFar.contains sid
      if !missing.isEmpty then
        return some ⟨"C16:onclose:never", s!"sessions {missing}: close handler never ran (all connections closed, deadline passed)"⟩
      if oc != r.clients then
        return some ⟨"C16:onclose:count", s!"{r.clients} sessions, onClose ran {oc} times"⟩
  return none

def judgeHist (inp obs : Json) : Except String Verdict := do
  let opsJ ← getArr inp "ops"
  let ops ← opsJ.mapM decodeOp
  let opsA := ops.toArray
  let excluded := getBoolD inp "excluded"
  let stream := getStrD inp "stream" "?"
  let worker := getStrD obs "worker"
  if worker != "" then
    return { agree := false, spec := false, sig := s!"C16:worker-{worker}",
             why := s!"worker process {worker} on this history: {getStrD obs "detail"}",
             cover := ["stream:" ++ stream], nontrivial := true, excluded := excluded }
  let recsJ ← getArr obs "recs"
  let recs ← recsJ.mapM decodeRec
  let rs := recs.toArray
  let src := parseSrc (getStrD inp "src")
  let nfa := runNfa rs opsA src
  let agree := nfa.failedAt.isNone && !nfa.cfgs.isEmpty
  let sf := specCheck rs opsA
  -- coverage
  let mut cover : List String := ["trace", "stream:" ++ stream, "src:" ++ (let x := getStrD inp "src"; if x == "" then "dialer" else x)]
  let mut lateNotify := false
  for j in [0:rs.size] do
    let r := rs[j]!
    if r.t == "ret" && r.op == "start" then
      let st := startStage rs opsA j
      cover := cover ++ [s!"start:{st}:{r.res}{if r.kind != "" then ":" ++ r.kind else ""}"]
      match opsA[r.i]? with
      | some o => if o.script == "cut" then cover := cover ++ [s!"cut:{o.dir}:{st}"]
      | none => pure ()
    if r.t == "ret" && (r.op == "wait" || r.op == "dispatch" || r.op == "update" || r.op == "lose" || r.op == "await") then
      cover := cover ++ [s!"{r.op}:{r.res}"]
    if r.t == "notify" then
      -- did this notification arrive while a LATER session was already established?
      let (live, _) := expectedLive rs j
      if live != 0 && live != r.sid && r.sid < live then lateNotify := true
    if r.t == "end" then cover := cover ++ [s!"end:{r.res}"]
    if r.t == "waitret" then cover := cover ++ ["wait:late-return"]
    if r.t == "ret" && r.op == "start" && r.adopted then cover := cover ++ ["start:adopted-foreign-socket"]
    if r.t == "ret" && r.op == "plant" then cover := cover ++ [s!"plant:{r.res}"]
  if lateNotify then cover := cover ++ ["notify:late-while-later-session-live"]
  let starts := ops.filter (·.op == "start") |>.length
  let ends := ops.filter (fun o => o.op == "stop" || o.op == "lose") |>.length
  let nontrivial := starts ≥ 2 || (starts ≥ 1 && ends ≥ 1)
  let why := match sf with
    | some f => f.why
    | none => match nfa.failedAt with
      | some (j, w) => s!"record {j}: {w}"
      | none => if nfa.cfgs.isEmpty then "no run of the session machine matches" else ""
  pure { agree := agree, spec := sf.isNone, sig := (sf.map (·.sig)).getD "", why := why,
         cover := cover.eraseDups, nontrivial := nontrivial, excluded := excluded,
         model := Json.mkObj [("configs", nfa.cfgs.length)] }

def judge (j : Json) : Except String Verdict := do
  let inp ← getObj j "in"
  let obs ← getObj j "obs"
  match getStrD inp "kind" with
  | "hist" => judgeHist inp obs
  | k => throw s!"unknown case kind {k}"

def main : IO UInt32 := runLines judge
end Drv.C16
