import Driver.Common
import NriModel.Plugins
open Lean Drv Nri Nri.Plugins

/-!
Driver for C20. Case kinds:

* `pod`   — `in = {ctr, ann:[{k,v,fam,ok,devices,cdi,mounts,ulimits}]}`: one CreateContainer
            request through the two launched plugin binaries; `obs = {err, devices, cdi, mounts,
            rlimits, other, crashed}`. The per-annotation `ok/devices/…` fields are the YAML
            oracle (what sigs.k8s.io/yaml made of the value for that family's target type).
* `upper` — the table behind `upperChar` against `unicode.ToUpper` over all code points.
-/
namespace Drv.C20

def decDevice (j : Json) : Except String Device := do
  pure { path := S (← getStr j "path"), type := S (← getStr j "type"), major := ← getInt j "major",
         minor := ← getInt j "minor", fileMode := ← getNat j "file_mode", uid := ← getNat j "uid",
         gid := ← getNat j "gid" }

def decMount (j : Json) : Except String Mount := do
  pure { source := S (← getStr j "source"), destination := S (← getStr j "destination"),
         type := S (← getStr j "type"), options := (← getStrList j "options").map S }

def decUlimit (j : Json) : Except String Ulimit := do
  pure { type := S (← getStr j "type"), hard := ← getNat j "hard", soft := ← getNat j "soft" }

structure AnnEntry where
  k : Str
  v : Str
  fam : String
  ok : Bool
  devices : List Device
  cdi : List Str
  mounts : List Mount
  ulimits : List Ulimit

def decAnn (j : Json) : Except String AnnEntry := do
  pure { k := S (← getStr j "k"), v := S (← getStr j "v"), fam := ← getStr j "fam", ok := ← getBool j "ok",
         devices := ← (← getArr j "devices").mapM decDevice,
         cdi := (← getStrList j "cdi").map S,
         mounts := ← (← getArr j "mounts").mapM decMount,
         ulimits := ← (← getArr j "ulimits").mapM decUlimit }

/-- the YAML oracle as a function: the table the harness computed, looked up by (family, value) -/
def oracle {α : Type} (es : List AnnEntry) (fam : String) (f : AnnEntry → List α) (raw : Str) : Option (List α) :=
  match es.find? (fun e => e.fam == fam && e.v == raw) with
  | some e => if e.ok then some (f e) else none
  | none => none

def mkYaml (es : List AnnEntry) : Yaml :=
  { devices := oracle es "devices" (·.devices), cdi := oracle es "cdi" (·.cdi),
    mounts := oracle es "mounts" (·.mounts), ulimits := oracle es "ulimits" (·.ulimits) }

def errName : Err → String
  | .badDevices => "bad-devices" | .badCDI => "bad-cdi" | .badMounts => "bad-mounts"
  | .badUlimits => "bad-ulimits" | .badType => "bad-type" | .hardLtSoft => "hard-lt-soft"
  | .conflictMount => "conflict-mount" | .conflictDevice => "conflict-device"
  | .conflictCDI => "conflict-cdi" | .conflictRlimit => "conflict-rlimit"

def decObsDevice (j : Json) : Except String ApiDevice := do
  let opt (has val : String) : Except String (Option Nat) := do
    if ← getBool j has then pure (some (← getNat j val)) else pure none
  pure { path := S (← getStr j "path"), type := S (← getStr j "type"), major := ← getInt j "major",
         minor := ← getInt j "minor", fileMode := ← opt "has_mode" "file_mode",
         uid := ← opt "has_uid" "uid", gid := ← opt "has_gid" "gid" }

def decObsRlimit (j : Json) : Except String Rlimit := do
  pure { type := S (← getStr j "type"), hard := ← getNat j "hard", soft := ← getNat j "soft" }

def decObsAdjust (obs : Json) : Except String Adjust := do
  pure { devices := ← (← getArr obs "devices").mapM decObsDevice,
         cdi := (← getStrList obs "cdi").map S,
         mounts := ← (← getArr obs "mounts").mapM decMount,
         rlimits := ← (← getArr obs "rlimits").mapM decObsRlimit }

/-- entries carrying the removal marker are outside the model (see `mergeInjector`) -/
def dropMarked (a : Adjust) : Adjust :=
  { a with mounts := a.mounts.filter (fun m => !marked m.destination),
           devices := a.devices.filter (fun d => !marked d.path) }

def showAdjust (a : Adjust) : String :=
  let dev (d : ApiDevice) := s!"{U d.path}:{U d.type}:{d.major}:{d.minor}:{d.fileMode}:{d.uid}:{d.gid}"
  let mnt (m : Mount) := s!"{U m.source}->{U m.destination}:{U m.type}:{m.options.map U}"
  let rl (r : Rlimit) := s!"{U r.type}:{r.hard}:{r.soft}"
  s!"devices={a.devices.map dev} cdi={a.cdi.map U} mounts={a.mounts.map mnt} rlimits={a.rlimits.map rl}"

def firstDiff (want got : Adjust) : String :=
  if want.devices != got.devices then "devices"
  else if want.cdi != got.cdi then "cdi"
  else if want.mounts != got.mounts then "mounts"
  else if want.rlimits != got.rlimits then "rlimits"
  else ""

/-- which of the three scopes an injector family used (for the coverage histogram) -/
def scopeTag (ann : Annotations) (main ctr : Str) : String :=
  if (AList.lookup ann (containerKey main ctr)).isSome then "ctr"
  else if (AList.lookup ann (podKey main)).isSome then "pod"
  else if (AList.lookup ann main).isSome then "bare"
  else "none"

def judgePod (inp obs : Json) : Except String Verdict := do
  let ctr := S (← getStr inp "ctr")
  let stream := getStrD inp "stream"
  let es ← (← getArr inp "ann").mapM decAnn
  let ann : Annotations := es.map fun e => (e.k, e.v)
  let Y := mkYaml es
  -- the oracle must cover every value the plugins can be asked to decode
  let famOf (m : Str) : String :=
    if m == deviceKey then "devices" else if m == cdiDeviceKey then "cdi"
    else if m == mountKey then "mounts" else "ulimits"
  for m in [deviceKey, cdiDeviceKey, mountKey] do
    for k in [containerKey m ctr, podKey m, m] do
      match es.find? (fun e => e.k == k) with
      | some e => if e.fam != famOf m then throw s!"oracle does not cover key {U k}"
      | none => pure ()
  match es.find? (fun e => e.k == containerKey ulimitKey ctr) with
  | some e => if e.fam != "ulimits" then throw "oracle does not cover the ulimit key"
  | none => pure ()
  let oErr ← getStr obs "err"
  let oOther := getStrD obs "other"
  let crashed := getBoolD obs "crashed"
  let oAdj ← decObsAdjust obs
  -- model
  let m := create Y ann ctr
  let (agree, mdesc) := match m with
    | .error e => (oErr == errName e, s!"error {errName e}")
    | .ok r => (oErr == "" && dropMarked oAdj == r && oOther == "", s!"ok {showAdjust r}")
  let agree := agree && !crashed
  -- specification, directly on the observation
  let exp := Spec.expected Y ann ctr
  let (inDomain, spec, sig, swhy) : Bool × Bool × String × String := match exp with
    | none =>
      if crashed then (true, false, "C20:plugin-crashed", "a plugin process was gone after the request")
      else if oErr == "" then
        (true, false, "C20:error-expected:got-adjustment",
          s!"a selected annotation is malformed / names an unknown rlimit / has hard<soft, but the request succeeded with {showAdjust oAdj}")
      else (true, true, "", "")
    | some a =>
      if !Plain a then (false, true, "guard:" ++ (if oErr == "" then "ok" else oErr), "")
      else if crashed then (true, false, "C20:plugin-crashed", "a plugin process was gone after the request")
      else if oErr != "" then
        (true, false, s!"C20:unexpected-error:{oErr}", s!"well-formed annotations, but the request failed with {oErr}; expected {showAdjust a}")
      else if oAdj != a then
        (true, false, s!"C20:wrong-adjustment:{firstDiff a oAdj}", s!"expected {showAdjust a}; got {showAdjust oAdj}")
      else if oOther != "" then
        (true, false, s!"C20:extra-adjustment:{oOther}", s!"response also carries {oOther}")
      else (true, true, "", "")
  let sel (m : Str) := scopeTag ann m ctr
  let ulSel := if (AList.lookup ann (containerKey ulimitKey ctr)).isSome then "ctr" else "none"
  let anySel := sel deviceKey != "none" || sel cdiDeviceKey != "none" || sel mountKey != "none" || ulSel != "none"
  let others := es.any fun e => e.fam != "" && !(relevant ctr).contains e.k
  let cover := [s!"stream:{stream}", s!"devices:{sel deviceKey}", s!"cdi:{sel cdiDeviceKey}", s!"mounts:{sel mountKey}",
    s!"ulimits:{ulSel}", s!"outcome:{if oErr == "" then "ok" else oErr}",
    (if exp.isNone then "expected:error" else "expected:adjust")]
    ++ (if others then ["with-annotations-for-other-containers"] else [])
    ++ (if !inDomain then ["excluded"] else [])
  let why := if !spec then swhy
    else if !agree then s!"model: {mdesc}; impl: {if oErr == "" then "ok " ++ showAdjust oAdj else "error " ++ oErr}{if crashed then " (plugin crashed)" else ""}{if oOther != "" then " other=" ++ oOther else ""}"
    else ""
  pure { agree := agree, spec := spec, why := why, cover := cover, nontrivial := anySel && inDomain,
         sig := if spec && inDomain then "" else sig, excluded := !inDomain,
         model := Json.str mdesc }
where
  relevant (ctr : Str) : List Str :=
    [ containerKey deviceKey ctr, podKey deviceKey, deviceKey,
      containerKey cdiDeviceKey ctr, podKey cdiDeviceKey, cdiDeviceKey,
      containerKey mountKey ctr, podKey mountKey, mountKey, containerKey ulimitKey ctr ]

/-- the model's upper-casing table against Go's `unicode.ToUpper` -/
def judgeUpper (obs : Json) : Except String Verdict := do
  let ascii ← (← getArr obs "ascii").mapM fun j => match j.getNat? with
    | .ok n => pure n | .error e => throw e
  let extra ← (← getArr obs "extra").mapM fun j => match j with
    | Json.arr #[a, b] => do pure ((← a.getNat?), (← b.getNat?))
    | _ => throw "extra: pair expected"
  let strOk := getBoolD obs "str"
  let mAscii := (List.range 128).map fun n => (upperChar (Char.ofNat n)).toNat
  let mExtra := (upperTable.filter fun p => p.1.toNat ≥ 128).map fun p => (p.1.toNat, p.2.toNat)
  let ok := ascii == mAscii && extra == mExtra && strOk
  pure { agree := ok, spec := true, cover := ["upper-table"], nontrivial := false,
         why := if ok then "" else s!"upper-casing table differs from unicode.ToUpper: ascii agree={ascii == mAscii} extra={extra} strings.ToUpper rune-wise={strOk}" }

def judge (j : Json) : Except String Verdict := do
  let inp ← getObj j "in"
  let obs ← getObj j "obs"
  match getStrD inp "kind" with
  | "pod" => judgePod inp obs
  | "upper" => judgeUpper obs
  | k => throw s!"unknown case kind {k}"

def main : IO UInt32 := runLines judge
end Drv.C20
